/- Helper lemmas for C18 (interner protocol).  Core Lean only. -/
import JrsVerif.Model.Intern

namespace JrsVerif.Intern
open JrsVerif.Generated

/-! ### lists -/

theorem countP_eraseIdx {α} (P : α → Bool) : ∀ (l : List α) (i : Nat) (x : α), l[i]? = some x →
    (l.eraseIdx i).countP P + (if P x then 1 else 0) = l.countP P
  | [], _, _, h => by simp at h
  | a :: l, 0, x, h => by
      simp at h; subst h
      simp [List.countP_cons]
  | a :: l, i + 1, x, h => by
      simp at h
      have := countP_eraseIdx P l i x h
      simp [List.countP_cons]; omega

theorem countP_set {α} (P : α → Bool) : ∀ (l : List α) (i : Nat) (x y : α), l[i]? = some x → P y = P x →
    (l.set i y).countP P = l.countP P
  | [], _, _, _, h, _ => by simp at h
  | a :: l, 0, x, y, h, e => by
      simp at h; subst h
      simp [List.countP_cons, e]
  | a :: l, i + 1, x, y, h, e => by
      simp at h
      simp [List.countP_cons, countP_set P l i x y h e]

theorem mem_of_getElem? {α} {l : List α} {i : Nat} {x : α} (h : l[i]? = some x) : x ∈ l :=
  List.mem_of_getElem? h

/-- in a list whose images under `f` are pairwise different, searching for "same image as `p`"
    finds `p` itself -/
theorem find_of_nodup_map {β} (f : Nat → β) (P : Nat → Bool) (p : Nat) :
    ∀ (l : List Nat), (l.map f).Nodup → p ∈ l → (∀ q ∈ l, P q = true ↔ f q = f p) →
      l.find? P = some p
  | [], _, hp, _ => by simp at hp
  | q :: l, hn, hp, hP => by
      simp only [List.map_cons, List.nodup_cons] at hn
      by_cases hq : P q = true
      · have e : f q = f p := (hP q (by simp)).1 hq
        have : p = q := by
          rcases List.mem_cons.1 hp with h | h
          · exact h
          · exact absurd (e ▸ List.mem_map_of_mem (f := f) h) hn.1
        subst this
        simp [hq]
      · have : q ≠ p := by
          intro e; subst e
          exact hq ((hP q (by simp)).2 rfl)
        have hp' : p ∈ l := by
          rcases List.mem_cons.1 hp with h | h
          · exact absurd h.symm this
          · exact h
        simp only [List.find?_cons, Bool.not_eq_true] at hq ⊢
        simp only [hq]
        exact find_of_nodup_map f P p l hn.2 hp' (fun q hq => hP q (List.mem_cons_of_mem _ hq))

theorem findIdx_congr {α} (P Q : α → Bool) : ∀ (l : List α), (∀ x ∈ l, P x = Q x) →
    l.findIdx P = l.findIdx Q
  | [], _ => rfl
  | a :: l, h => by
      simp only [List.findIdx_cons, h a (by simp)]
      rw [findIdx_congr P Q l (fun x hx => h x (List.mem_cons_of_mem _ hx))]

theorem countP_congr' {α} (P Q : α → Bool) (l : List α) (h : ∀ x ∈ l, P x = Q x) :
    l.countP P = l.countP Q := by
  induction l with
  | nil => rfl
  | cons a l ih =>
    simp only [List.countP_cons, h a (by simp)]
    rw [ih (fun x hx => h x (List.mem_cons_of_mem _ hx))]

/-! ### heap updates -/

@[simp] theorem upd_same (h : Nat → Alloc) (p : Nat) (a : Alloc) : upd h p a p = a := by simp [upd]
theorem upd_other (h : Nat → Alloc) (p q : Nat) (a : Alloc) (ne : q ≠ p) : upd h p a q = h q := by
  simp [upd, ne]
@[simp] theorem upd_upd (h : Nat → Alloc) (p : Nat) (a b : Alloc) : upd (upd h p a) p b = upd h p b := by
  funext q; simp only [upd]; split <;> rfl
theorem upd_self (h : Nat → Alloc) (p : Nat) (a : Alloc) (e : a = h p) : upd h p a = h := by
  funext q; simp only [upd]; split
  · next e' => rw [e, e']
  · rfl

/-! ### micro steps in closed form -/

theorem max_pos : 3 ≤ REFCNT_MAX := by decide

theorem incr_eq (s : St) (p : Nat) (hl : (s.heap p).live = true) (hr : (s.heap p).rc + 1 ≤ REFCNT_MAX) :
    incr s p = some { s with heap := upd s.heap p { s.heap p with rc := (s.heap p).rc + 1 } } := by
  unfold incr
  simp only [hl, Bool.not_true, Bool.false_eq_true, if_false]
  rw [if_neg (by omega)]

theorem decr_eq (s : St) (p : Nat) (hl : (s.heap p).live = true) (hr : (s.heap p).rc ≠ 0) :
    decr s p = some { s with heap := upd s.heap p { s.heap p with rc := (s.heap p).rc - 1, live := (s.heap p).rc - 1 != 0 } } := by
  unfold decr
  simp only [hl, Bool.not_true, Bool.false_eq_true, if_false, hr]

/-- dropping a value that is not the last one: only the count goes down -/
theorem dropInner_more (s : St) (p : Nat) (hl : (s.heap p).live = true) (hr : 3 ≤ (s.heap p).rc) :
    dropInner s p = some { s with heap := upd s.heap p { s.heap p with rc := (s.heap p).rc - 1 } } := by
  have h1 : maybeUnpool s p = some s := by
    unfold maybeUnpool
    simp only [hl, Bool.not_true, Bool.false_eq_true, if_false]
    rw [if_neg (by simp [INTERN_UNPOOL_THRESHOLD]; omega)]
  unfold dropInner
  rw [h1, Option.bind_some, decr_eq s p hl (by omega)]
  have : ((s.heap p).rc - 1 != 0) = true := by simp; omega
  rw [this]
  congr 3
  cases h : s.heap p
  simp_all

/-- dropping the last value: the pool entry is removed (and its reference dropped) first, then the
    value's own reference goes and the block is freed -/
theorem dropInner_last (s : St) (p : Nat) (hl : (s.heap p).live = true) (hr : (s.heap p).rc = 2)
    (hpl : poolLive s = true) (hf : s.pool.find? (fun q => keyEq s q p) = some p) :
    dropInner s p = some { s with heap := upd s.heap p { s.heap p with rc := 0, live := false },
                                  pool := s.pool.erase p } := by
  have h1 : maybeUnpool s p = decr { s with pool := s.pool.erase p } p := by
    unfold maybeUnpool
    simp only [hl, Bool.not_true, Bool.false_eq_true, if_false, hpl]
    rw [if_pos (by simp [INTERN_UNPOOL_THRESHOLD, hr])]
    simp only [hf]
  unfold dropInner
  rw [h1, decr_eq { s with pool := s.pool.erase p } p hl (by simp [hr]), Option.bind_some,
    decr_eq _ p (by simp [hr]) (by simp [hr])]
  simp [hr]

/-- `clone` followed by the drop of the original (both casts, `cast_str_unchecked`): no net change -/
theorem incr_drop_id (s : St) (p : Nat) (hl : (s.heap p).live = true) (hr : 2 ≤ (s.heap p).rc)
    (hm : (s.heap p).rc + 1 ≤ REFCNT_MAX) :
    (incr s p).bind (fun s1 => dropInner s1 p) = some s := by
  rw [incr_eq s p hl hm, Option.bind_some, dropInner_more _ p (by simp [hl]) (by simp; omega)]
  simp only [upd_same, upd_upd, Nat.add_sub_cancel]
  rw [upd_self]
  cases s.heap p; rfl

/-! ### the invariant -/

/-- number of live values that point at allocation `p` -/
def cnt (s : St) (p : Nat) : Nat := s.hs.countP (fun h => h.1 == p)

structure Inv (s : St) : Prop where
  /-- pool keys are allocated addresses -/
  pool_lt : ∀ p ∈ s.pool, p < s.next
  /-- and not freed -/
  pool_live : ∀ p ∈ s.pool, (s.heap p).live = true
  /-- one pool entry per contents -/
  pool_nodup : (s.pool.map (fun p => (s.heap p).data)).Nodup
  /-- every live value points into the pool -/
  hs_pool : ∀ h ∈ s.hs, h.1 ∈ s.pool
  /-- header count = live values + the pool's own reference -/
  rc_eq : ∀ p ∈ s.pool, (s.heap p).rc = cnt s p + 1
  /-- no pool entry without a live value -/
  has_handle : ∀ p ∈ s.pool, 0 < cnt s p
  /-- the cached UTF-8 flag is truthful -/
  utf8_ok : ∀ p ∈ s.pool, (s.heap p).utf8 = true → validUtf8 (s.heap p).data = true
  /-- every `IStr` points at flagged data -/
  str_utf8 : ∀ h ∈ s.hs, h.2 = .str → (s.heap h.1).utf8 = true

theorem inv_init : Inv init := by
  constructor <;> simp [init, cnt]

theorem nodup_of_map {α β} (f : α → β) : ∀ l : List α, (l.map f).Nodup → l.Nodup
  | [], _ => List.nodup_nil
  | a :: l, h => by
      simp only [List.map_cons, List.nodup_cons] at h ⊢
      exact ⟨fun ha => h.1 (List.mem_map_of_mem ha), nodup_of_map f l h.2⟩

theorem Inv.pool_nodup' {s : St} (h : Inv s) : s.pool.Nodup := nodup_of_map _ _ h.pool_nodup

theorem Inv.poolLive {s : St} (h : Inv s) : poolLive s = true := by
  simp only [JrsVerif.Intern.poolLive, List.all_eq_true]
  exact h.pool_live

theorem data_upd (h : Nat → Alloc) (p : Nat) (a : Alloc) (e : a.data = (h p).data) :
    (fun q => (upd h p a q).data) = fun q => (h q).data := by
  funext q; simp only [upd]; split
  · next e' => rw [e, e']
  · rfl

/-! ### the five protocol transitions and their invariance -/

/-- one more value for an allocation that is pooled already -/
def addH (s : St) (p : Nat) (k : Kind) (u : Bool) : St :=
  { s with heap := upd s.heap p { s.heap p with rc := (s.heap p).rc + 1, utf8 := (s.heap p).utf8 || u },
           hs := s.hs ++ [(p, k)] }

/-- first value for contents that are not pooled: new block, new pool entry -/
def newH (s : St) (b : Bytes) (k : Kind) (u : Bool) : St :=
  { heap := upd s.heap s.next ⟨b, 2, u, true⟩, next := s.next + 1, pool := s.next :: s.pool,
    hs := s.hs ++ [(s.next, k)] }

/-- the last value of `p` goes: pool entry removed, block freed -/
def delLast (s : St) (i p : Nat) : St :=
  { s with heap := upd s.heap p { s.heap p with rc := 0, live := false }, pool := s.pool.erase p,
           hs := s.hs.eraseIdx i }

/-- one of several values of `p` goes -/
def delMore (s : St) (i p : Nat) : St :=
  { s with heap := upd s.heap p { s.heap p with rc := (s.heap p).rc - 1 }, hs := s.hs.eraseIdx i }

/-- value `i` changes its static type (and the UTF-8 flag may get cached) -/
def setK (s : St) (i p : Nat) (k : Kind) (u : Bool) : St :=
  { s with heap := upd s.heap p { s.heap p with utf8 := (s.heap p).utf8 || u }, hs := s.hs.set i (p, k) }

theorem cnt_addH (s : St) (p q : Nat) (k : Kind) (u : Bool) :
    cnt (addH s p k u) q = cnt s q + (if p = q then 1 else 0) := by
  simp only [cnt, addH, List.countP_append, List.countP_cons, List.countP_nil]
  simp

theorem inv_addH {s : St} (h : Inv s) (p : Nat) (k : Kind) (u : Bool) (hp : p ∈ s.pool)
    (hu : u = true → validUtf8 (s.heap p).data = true)
    (hk : k = .str → u = true ∨ (s.heap p).utf8 = true) : Inv (addH s p k u) := by
  constructor
  · exact h.pool_lt
  · intro q hq
    show (upd _ _ _ q).live = true
    by_cases e : q = p
    · subst e; simp; exact h.pool_live q hq
    · rw [upd_other _ _ _ _ e]; exact h.pool_live q hq
  · show (s.pool.map (fun q => (upd _ _ _ q).data)).Nodup
    rw [data_upd s.heap p _ (by rfl)]; exact h.pool_nodup
  · intro g hg
    simp only [addH, List.mem_append, List.mem_singleton] at hg
    rcases hg with hg | hg
    · exact h.hs_pool g hg
    · subst hg; exact hp
  · intro q hq
    rw [cnt_addH]
    show (upd _ _ _ q).rc = _
    by_cases e : q = p
    · subst e; simp; have := h.rc_eq q hq; omega
    · rw [upd_other _ _ _ _ e, if_neg (Ne.symm e)]; exact h.rc_eq q hq
  · intro q hq
    rw [cnt_addH]; have := h.has_handle q hq; omega
  · intro q hq
    show (upd _ _ _ q).utf8 = true → validUtf8 (upd _ _ _ q).data = true
    by_cases e : q = p
    · subst e; simp only [upd_same, Bool.or_eq_true]
      rintro (h1 | h1)
      · exact h.utf8_ok q hq h1
      · exact hu h1
    · rw [upd_other _ _ _ _ e]; exact h.utf8_ok q hq
  · intro g hg hs
    simp only [addH, List.mem_append, List.mem_singleton] at hg
    show (upd _ _ _ g.1).utf8 = true
    by_cases e : g.1 = p
    · rw [e]; simp only [upd_same, Bool.or_eq_true]
      rcases hg with hg | hg
      · left; rw [← e]; exact h.str_utf8 g hg hs
      · subst hg; rcases hk hs with h1 | h1
        · right; exact h1
        · left; exact h1
    · rw [upd_other _ _ _ _ e]
      rcases hg with hg | hg
      · exact h.str_utf8 g hg hs
      · subst hg; exact absurd rfl e

theorem Inv.hs_lt {s : St} (h : Inv s) : ∀ g ∈ s.hs, g.1 < s.next :=
  fun g hg => h.pool_lt _ (h.hs_pool g hg)

theorem Inv.cnt_next {s : St} (h : Inv s) : cnt s s.next = 0 := by
  simp only [cnt, List.countP_eq_zero, beq_iff_eq]
  intro g hg e
  have := h.hs_lt g hg
  omega

theorem cnt_newH (s : St) (b : Bytes) (q : Nat) (k : Kind) (u : Bool) :
    cnt (newH s b k u) q = cnt s q + (if s.next = q then 1 else 0) := by
  simp only [cnt, newH, List.countP_append, List.countP_cons, List.countP_nil]
  simp

theorem inv_newH {s : St} (h : Inv s) (b : Bytes) (k : Kind) (u : Bool)
    (hfresh : ∀ q ∈ s.pool, (s.heap q).data ≠ b)
    (hu : u = true → validUtf8 b = true) (hk : k = .str → u = true) : Inv (newH s b k u) := by
  have old : ∀ q ∈ s.pool, q ≠ s.next := fun q hq e => by have := h.pool_lt q hq; omega
  constructor
  · intro q hq
    simp only [newH, List.mem_cons] at hq ⊢
    rcases hq with e | hq
    · omega
    · have := h.pool_lt q hq; omega
  · intro q hq
    simp only [newH, List.mem_cons] at hq ⊢
    rcases hq with e | hq
    · subst e; simp
    · rw [upd_other _ _ _ _ (old q hq)]; exact h.pool_live q hq
  · show ((s.next :: s.pool).map (fun q => (upd _ _ _ q).data)).Nodup
    have e : s.pool.map (fun q => (upd s.heap s.next ⟨b, 2, u, true⟩ q).data)
        = s.pool.map (fun q => (s.heap q).data) :=
      List.map_congr_left (fun q hq => by rw [upd_other _ _ _ _ (old q hq)])
    simp only [List.map_cons, upd_same, List.nodup_cons, e]
    refine ⟨?_, h.pool_nodup⟩
    simp only [List.mem_map, not_exists, not_and]
    exact fun q hq => hfresh q hq
  · intro g hg
    have hg : g ∈ s.hs ∨ g = (s.next, k) := by
      simpa [newH] using hg
    show g.1 ∈ s.next :: s.pool
    rcases hg with hg | hg
    · exact List.mem_cons_of_mem _ (h.hs_pool g hg)
    · subst hg; exact List.mem_cons_self
  · intro q hq
    rw [cnt_newH]
    simp only [newH, List.mem_cons] at hq ⊢
    rcases hq with e | hq
    · subst e; simp [h.cnt_next]
    · rw [upd_other _ _ _ _ (old q hq), if_neg (Ne.symm (old q hq))]; exact h.rc_eq q hq
  · intro q hq
    rw [cnt_newH]
    simp only [newH, List.mem_cons] at hq
    rcases hq with e | hq
    · subst e; simp
    · have := h.has_handle q hq; omega
  · intro q hq
    simp only [newH, List.mem_cons] at hq ⊢
    rcases hq with e | hq
    · subst e; simp only [upd_same]; exact hu
    · rw [upd_other _ _ _ _ (old q hq)]; exact h.utf8_ok q hq
  · intro g hg hs
    simp only [newH, List.mem_append, List.mem_singleton] at hg ⊢
    rcases hg with hg | hg
    · have : g.1 ≠ s.next := by have := h.hs_lt g hg; omega
      rw [upd_other _ _ _ _ this]; exact h.str_utf8 g hg hs
    · subst hg; simp only [upd_same]; exact hk hs

theorem cnt_eraseIdx (s : St) (i p q : Nat) (k : Kind) (hi : s.hs[i]? = some (p, k)) :
    (s.hs.eraseIdx i).countP (fun h => h.1 == q) + (if p = q then 1 else 0) = cnt s q := by
  have := countP_eraseIdx (fun h : Nat × Kind => h.1 == q) s.hs i (p, k) hi
  simpa [cnt] using this

theorem inv_delMore {s : St} (h : Inv s) (i p : Nat) (k : Kind) (hi : s.hs[i]? = some (p, k))
    (hc : 2 ≤ cnt s p) : Inv (delMore s i p) := by
  have hp : p ∈ s.pool := h.hs_pool _ (mem_of_getElem? hi)
  have hcnt : ∀ q, cnt (delMore s i p) q + (if p = q then 1 else 0) = cnt s q :=
    fun q => cnt_eraseIdx s i p q k hi
  constructor
  · exact h.pool_lt
  · intro q hq
    show (upd _ _ _ q).live = true
    by_cases e : q = p
    · subst e; simp; exact h.pool_live q hq
    · rw [upd_other _ _ _ _ e]; exact h.pool_live q hq
  · show (s.pool.map (fun q => (upd _ _ _ q).data)).Nodup
    rw [data_upd s.heap p _ (by rfl)]; exact h.pool_nodup
  · intro g hg
    exact h.hs_pool g (List.mem_of_mem_eraseIdx hg)
  · intro q hq
    have := hcnt q
    show (upd _ _ _ q).rc = _
    by_cases e : q = p
    · subst e; simp at this ⊢; have := h.rc_eq q hq; omega
    · rw [upd_other _ _ _ _ e]; rw [if_neg (Ne.symm e)] at this; have := h.rc_eq q hq; omega
  · intro q hq
    have := hcnt q
    by_cases e : q = p
    · subst e; simp at this; omega
    · rw [if_neg (Ne.symm e)] at this; have := h.has_handle q hq; omega
  · intro q hq
    show (upd _ _ _ q).utf8 = true → validUtf8 (upd _ _ _ q).data = true
    by_cases e : q = p
    · subst e; simp only [upd_same]; exact h.utf8_ok q hq
    · rw [upd_other _ _ _ _ e]; exact h.utf8_ok q hq
  · intro g hg hs
    have hg' := List.mem_of_mem_eraseIdx hg
    show (upd _ _ _ g.1).utf8 = true
    by_cases e : g.1 = p
    · rw [e]; simp only [upd_same]; rw [← e]; exact h.str_utf8 g hg' hs
    · rw [upd_other _ _ _ _ e]; exact h.str_utf8 g hg' hs

theorem inv_delLast {s : St} (h : Inv s) (i p : Nat) (k : Kind) (hi : s.hs[i]? = some (p, k))
    (hc : cnt s p = 1) : Inv (delLast s i p) := by
  have hcnt : ∀ q, cnt (delLast s i p) q + (if p = q then 1 else 0) = cnt s q :=
    fun q => cnt_eraseIdx s i p q k hi
  have hmem : ∀ q, q ∈ s.pool.erase p ↔ q ≠ p ∧ q ∈ s.pool := fun q => h.pool_nodup'.mem_erase_iff
  have hgone : ∀ g ∈ s.hs.eraseIdx i, g.1 ≠ p := by
    have := hcnt p
    simp only [if_true, hc] at this
    have z : (s.hs.eraseIdx i).countP (fun h => h.1 == p) = 0 := by
      simp only [cnt, delLast] at this; omega
    rw [List.countP_eq_zero] at z
    intro g hg e
    exact z g hg (by simp [e])
  constructor
  · intro q hq; exact h.pool_lt q ((hmem q).1 hq).2
  · intro q hq
    have := (hmem q).1 hq
    show (upd _ _ _ q).live = true
    rw [upd_other _ _ _ _ this.1]; exact h.pool_live q this.2
  · show ((s.pool.erase p).map (fun q => (upd _ _ _ q).data)).Nodup
    rw [data_upd s.heap p _ (by rfl)]
    exact List.Nodup.sublist (List.Sublist.map _ List.erase_sublist) h.pool_nodup
  · intro g hg
    exact (hmem g.1).2 ⟨hgone g hg, h.hs_pool g (List.mem_of_mem_eraseIdx hg)⟩
  · intro q hq
    have hq' := (hmem q).1 hq
    have := hcnt q
    rw [if_neg (Ne.symm hq'.1)] at this
    show (upd _ _ _ q).rc = _
    rw [upd_other _ _ _ _ hq'.1]; have := h.rc_eq q hq'.2; omega
  · intro q hq
    have hq' := (hmem q).1 hq
    have := hcnt q
    rw [if_neg (Ne.symm hq'.1)] at this
    have := h.has_handle q hq'.2; omega
  · intro q hq
    have hq' := (hmem q).1 hq
    show (upd _ _ _ q).utf8 = true → validUtf8 (upd _ _ _ q).data = true
    rw [upd_other _ _ _ _ hq'.1]; exact h.utf8_ok q hq'.2
  · intro g hg hs
    show (upd _ _ _ g.1).utf8 = true
    rw [upd_other _ _ _ _ (hgone g hg)]; exact h.str_utf8 g (List.mem_of_mem_eraseIdx hg) hs

theorem cnt_setK (s : St) (i p q : Nat) (k0 k : Kind) (u : Bool) (hi : s.hs[i]? = some (p, k0)) :
    cnt (setK s i p k u) q = cnt s q :=
  countP_set (fun h : Nat × Kind => h.1 == q) s.hs i (p, k0) (p, k) hi rfl

theorem inv_setK {s : St} (h : Inv s) (i p : Nat) (k0 k : Kind) (u : Bool) (hi : s.hs[i]? = some (p, k0))
    (hu : u = true → validUtf8 (s.heap p).data = true)
    (hk : k = .str → u = true ∨ (s.heap p).utf8 = true) : Inv (setK s i p k u) := by
  have hp : p ∈ s.pool := h.hs_pool _ (mem_of_getElem? hi)
  have hmem : ∀ g ∈ s.hs.set i (p, k), g ∈ s.hs ∨ g = (p, k) := fun g hg => List.mem_or_eq_of_mem_set hg
  constructor
  · exact h.pool_lt
  · intro q hq
    show (upd _ _ _ q).live = true
    by_cases e : q = p
    · subst e; simp; exact h.pool_live q hq
    · rw [upd_other _ _ _ _ e]; exact h.pool_live q hq
  · show (s.pool.map (fun q => (upd _ _ _ q).data)).Nodup
    rw [data_upd s.heap p _ (by rfl)]; exact h.pool_nodup
  · intro g hg
    rcases hmem g hg with hg | hg
    · exact h.hs_pool g hg
    · subst hg; exact hp
  · intro q hq
    rw [cnt_setK s i p q k0 k u hi]
    show (upd _ _ _ q).rc = _
    by_cases e : q = p
    · subst e; simp; exact h.rc_eq q hq
    · rw [upd_other _ _ _ _ e]; exact h.rc_eq q hq
  · intro q hq
    rw [cnt_setK s i p q k0 k u hi]; exact h.has_handle q hq
  · intro q hq
    show (upd _ _ _ q).utf8 = true → validUtf8 (upd _ _ _ q).data = true
    by_cases e : q = p
    · subst e; simp only [upd_same, Bool.or_eq_true]
      rintro (h1 | h1)
      · exact h.utf8_ok q hq h1
      · exact hu h1
    · rw [upd_other _ _ _ _ e]; exact h.utf8_ok q hq
  · intro g hg hs
    show (upd _ _ _ g.1).utf8 = true
    by_cases e : g.1 = p
    · rw [e]; simp only [upd_same, Bool.or_eq_true]
      rcases hmem g hg with hg | hg
      · left; rw [← e]; exact h.str_utf8 g hg hs
      · subst hg; rcases hk hs with h1 | h1
        · right; exact h1
        · left; exact h1
    · rw [upd_other _ _ _ _ e]
      rcases hmem g hg with hg | hg
      · exact h.str_utf8 g hg hs
      · subst hg; exact absurd rfl e

/-! ### every client operation is one of the five transitions (and does not panic) -/

/-- the reference count cannot run into the UTF-8 bit: fewer than 2^31 - 3 live values -/
def Small (s : St) : Prop := s.hs.length + 3 ≤ REFCNT_MAX

theorem cnt_le (s : St) (p : Nat) : cnt s p ≤ s.hs.length := List.countP_le_length

theorem Inv.rc_bounds {s : St} (h : Inv s) (hs : Small s) {p : Nat} (hp : p ∈ s.pool) :
    2 ≤ (s.heap p).rc ∧ (s.heap p).rc + 2 ≤ REFCNT_MAX := by
  have := h.rc_eq p hp; have := h.has_handle p hp; have := cnt_le s p
  unfold Small at hs; omega

theorem Inv.find_self {s : St} (h : Inv s) {p : Nat} (hp : p ∈ s.pool) :
    s.pool.find? (fun q => keyEq s q p) = some p := by
  apply find_of_nodup_map (fun q => (s.heap q).data) _ p s.pool h.pool_nodup hp
  intro q _
  simp only [keyEq, Bool.or_eq_true, beq_iff_eq]
  constructor
  · rintro (e | e)
    · rw [e]
    · exact e
  · exact fun e => Or.inr e

theorem Inv.find_data {s : St} (h : Inv s) {p : Nat} (hp : p ∈ s.pool) :
    s.pool.find? (fun q => (s.heap q).data == (s.heap p).data) = some p := by
  apply find_of_nodup_map (fun q => (s.heap q).data) _ p s.pool h.pool_nodup hp
  intro q _
  simp

theorem addH_false (s : St) (p : Nat) (k : Kind) :
    addH s p k false = { s with heap := upd s.heap p { s.heap p with rc := (s.heap p).rc + 1 },
                                hs := s.hs ++ [(p, k)] } := by
  simp [addH]

theorem setK_false (s : St) (i p : Nat) (k : Kind) :
    setK s i p k false = { s with hs := s.hs.set i (p, k) } := by
  simp only [setK, Bool.or_false]
  rw [upd_self]
  cases s.heap p; rfl

theorem step_clone {s : St} (h : Inv s) (hs : Small s) {i p : Nat} {k : Kind}
    (hi : s.hs[i]? = some (p, k)) : step s (.clone i) = some (addH s p k false) := by
  have hp : p ∈ s.pool := h.hs_pool _ (mem_of_getElem? hi)
  have := h.rc_bounds hs hp
  simp only [step, hi]
  rw [incr_eq s p (h.pool_live p hp) (by omega), addH_false]
  rfl

/-- the drop of value `i` -/
theorem dropInner_inv {s : St} (h : Inv s) {p : Nat} (hp : p ∈ s.pool) :
    dropInner s p = some (if cnt s p = 1
      then { s with heap := upd s.heap p { s.heap p with rc := 0, live := false }, pool := s.pool.erase p }
      else { s with heap := upd s.heap p { s.heap p with rc := (s.heap p).rc - 1 } }) := by
  have hr := h.rc_eq p hp
  have hc := h.has_handle p hp
  by_cases e : cnt s p = 1
  · rw [if_pos e]
    exact dropInner_last s p (h.pool_live p hp) (by omega) h.poolLive (h.find_self hp)
  · rw [if_neg e]
    exact dropInner_more s p (h.pool_live p hp) (by omega)

theorem step_drop {s : St} (h : Inv s) {i p : Nat} {k : Kind} (hi : s.hs[i]? = some (p, k)) :
    step s (.drop i) = some (if cnt s p = 1 then delLast s i p else delMore s i p) := by
  have hp : p ∈ s.pool := h.hs_pool _ (mem_of_getElem? hi)
  simp only [step, hi]
  rw [dropInner_inv h hp]
  split <;> rfl

theorem incr_drop_bind {α} (s : St) (p : Nat) (hl : (s.heap p).live = true) (hr : 2 ≤ (s.heap p).rc)
    (hm : (s.heap p).rc + 1 ≤ REFCNT_MAX) (f : St → Option α) :
    ((incr s p).bind fun s2 => (dropInner s2 p).bind f) = f s := by
  have e := incr_drop_id s p hl hr hm
  rw [← Option.bind_assoc, e, Option.bind_some]

theorem step_castBytes {s : St} (h : Inv s) (hs : Small s) {i p : Nat}
    (hi : s.hs[i]? = some (p, .str)) : step s (.castBytes i) = some (setK s i p .bytes false) := by
  have hp : p ∈ s.pool := h.hs_pool _ (mem_of_getElem? hi)
  have := h.rc_bounds hs hp
  simp only [step, hi, setK_false, bind]
  rw [incr_drop_bind s p (h.pool_live p hp) (by omega) (by omega)]

theorem step_castStr {s : St} (h : Inv s) (hs : Small s) {i p : Nat}
    (hi : s.hs[i]? = some (p, .bytes)) :
    step s (.castStr i) = some (
      if validUtf8 (s.heap p).data then setK s i p .str (!(s.heap p).utf8)
      else if cnt s p = 1 then delLast s i p else delMore s i p) := by
  have hp : p ∈ s.pool := h.hs_pool _ (mem_of_getElem? hi)
  have hb := h.rc_bounds hs hp
  have hl := h.pool_live p hp
  simp only [step, hi, bind]
  by_cases hu : (s.heap p).utf8 = true
  · -- flag cached
    have hv := h.utf8_ok p hp hu
    have hc : checkUtf8 s p = some (s, true) := by simp [checkUtf8, hl, hu]
    rw [hc, if_pos hv]
    simp only [Option.bind_some, if_true, hu, Bool.not_true, setK_false]
    rw [incr_drop_bind s p hl (by omega) (by omega)]
  · by_cases hv : validUtf8 (s.heap p).data = true
    · have hc : checkUtf8 s p = some (setUtf8 s p, true) := by simp [checkUtf8, hl, hu, hv]
      have hu' : (s.heap p).utf8 = false := by simpa using hu
      rw [hc, if_pos hv]
      simp only [Option.bind_some, if_true]
      rw [incr_drop_bind (setUtf8 s p) p (by simp [setUtf8, hl]) (by simp [setUtf8]; omega)
        (by simp [setUtf8]; omega)]
      simp [setK, setUtf8, hu']
    · have hc : checkUtf8 s p = some (s, false) := by simp [checkUtf8, hl, hu, hv]
      rw [hc, if_neg hv]
      simp only [Option.bind_some, Bool.false_eq_true, if_false]
      rw [dropInner_inv h hp]
      split <;> rfl

/-- the pool lookup of `intern_bytes` -/
def lookup (s : St) (b : Bytes) : Option Nat := s.pool.find? (fun q => (s.heap q).data == b)

theorem lookup_some {s : St} {b : Bytes} {q : Nat} (e : lookup s b = some q) :
    q ∈ s.pool ∧ (s.heap q).data = b := by
  unfold lookup at e
  exact ⟨List.mem_of_find?_eq_some e, by simpa using List.find?_some e⟩

theorem lookup_none {s : St} {b : Bytes} (e : lookup s b = none) :
    ∀ q ∈ s.pool, (s.heap q).data ≠ b := by
  unfold lookup at e
  rw [List.find?_eq_none] at e
  intro q hq; simpa using e q hq

theorem internInner_hit {s : St} (h : Inv s) (hs : Small s) {b : Bytes} {q : Nat}
    (e : lookup s b = some q) :
    internInner s b = some ({ s with heap := upd s.heap q { s.heap q with rc := (s.heap q).rc + 1 } }, q) := by
  have ⟨hq, _⟩ := lookup_some e
  have := h.rc_bounds hs hq
  unfold lookup at e
  simp only [internInner, h.poolLive, Bool.not_true, Bool.false_eq_true, if_false, e]
  rw [incr_eq s q (h.pool_live q hq) (by omega)]
  rfl

theorem internInner_miss {s : St} (h : Inv s) {b : Bytes} (e : lookup s b = none) :
    internInner s b = some ({ heap := upd s.heap s.next ⟨b, 2, false, true⟩, next := s.next + 1,
                              pool := s.next :: s.pool, hs := s.hs }, s.next) := by
  unfold lookup at e
  simp only [internInner, h.poolLive, Bool.not_true, Bool.false_eq_true, if_false, e]
  rw [incr_eq _ s.next (by simp) (by simp [INTERN_INIT_REFCNT]; exact Nat.le_trans (by decide) max_pos)]
  simp [INTERN_INIT_REFCNT]

theorem step_internBytes {s : St} (h : Inv s) (hs : Small s) (b : Bytes) :
    step s (.internBytes b) = some (match lookup s b with
      | some q => addH s q .bytes false
      | none => newH s b .bytes false) := by
  cases e : lookup s b with
  | some q =>
    simp only [step, bind]
    rw [internInner_hit h hs e, addH_false]; rfl
  | none =>
    simp only [step, bind]
    rw [internInner_miss h e]; rfl

theorem step_internStr {s : St} (h : Inv s) (hs : Small s) (b : Bytes) :
    step s (.internStr b) = some (match lookup s b with
      | some q => addH s q .str true
      | none => newH s b .str true) := by
  cases e : lookup s b with
  | some q =>
    have ⟨hq, _⟩ := lookup_some e
    have := h.rc_bounds hs hq
    have hl := h.pool_live q hq
    simp only [step, bind]
    rw [internInner_hit h hs e]
    simp only [Option.bind_some]
    rw [incr_drop_bind _ q (by simp [setUtf8, hl]) (by simp [setUtf8]; omega) (by simp [setUtf8]; omega)]
    simp [setUtf8, addH]
  | none =>
    simp only [step, bind]
    rw [internInner_miss h e]
    simp only [Option.bind_some]
    rw [incr_drop_bind _ s.next (by simp [setUtf8]) (by simp [setUtf8]) (by simp [setUtf8]; exact max_pos)]
    simp [setUtf8, newH]

theorem step_handover (s : St) : step s .handover = some s := by
  simp [step, reenter]

/-! ### abstraction to the client's view -/

theorem abs_getElem? (s : St) (i : Nat) :
    (abs s)[i]? = (s.hs[i]?).map (fun h => ((s.heap h.1).data, h.2)) := by
  simp [abs]

theorem abs_same_data (s : St) (heap' : Nat → Alloc) (l : List (Nat × Kind))
    (hd : ∀ q, (heap' q).data = (s.heap q).data) :
    l.map (fun h => ((heap' h.1).data, h.2)) = l.map (fun h => ((s.heap h.1).data, h.2)) := by
  simp [hd]

theorem upd_data (h : Nat → Alloc) (p : Nat) (a : Alloc) (e : a.data = (h p).data) (q : Nat) :
    (upd h p a q).data = (h q).data := by
  simp only [upd]; split
  · next e' => rw [e, e']
  · rfl

theorem abs_addH (s : St) (p : Nat) (k : Kind) (u : Bool) :
    abs (addH s p k u) = abs s ++ [((s.heap p).data, k)] := by
  simp only [abs, addH, List.map_append, List.map_cons, List.map_nil]
  rw [abs_same_data s _ _ (upd_data s.heap p _ (by rfl))]
  simp

theorem abs_newH {s : St} (h : Inv s) (b : Bytes) (k : Kind) (u : Bool) :
    abs (newH s b k u) = abs s ++ [(b, k)] := by
  simp only [abs, newH, List.map_append, List.map_cons, List.map_nil, upd_same]
  congr 1
  apply List.map_congr_left
  intro g hg
  have : g.1 ≠ s.next := by have := h.hs_lt g hg; omega
  rw [upd_other _ _ _ _ this]

theorem map_eraseIdx' {α β} (f : α → β) : ∀ (l : List α) (i : Nat),
    (l.eraseIdx i).map f = (l.map f).eraseIdx i
  | [], _ => rfl
  | _ :: _, 0 => rfl
  | a :: l, i + 1 => by simp only [List.eraseIdx_cons_succ, List.map_cons, map_eraseIdx' f l i]

theorem abs_delLast (s : St) (i p : Nat) : abs (delLast s i p) = (abs s).eraseIdx i := by
  simp only [abs, delLast]
  rw [abs_same_data s _ _ (upd_data s.heap p _ (by rfl)), map_eraseIdx']

theorem abs_delMore (s : St) (i p : Nat) : abs (delMore s i p) = (abs s).eraseIdx i := by
  simp only [abs, delMore]
  rw [abs_same_data s _ _ (upd_data s.heap p _ (by rfl)), map_eraseIdx']

theorem abs_setK (s : St) (i p : Nat) (k : Kind) (u : Bool) :
    abs (setK s i p k u) = (abs s).set i ((s.heap p).data, k) := by
  simp only [abs, setK]
  rw [abs_same_data s _ _ (upd_data s.heap p _ (by rfl)), List.map_set]

/-! ### observations -/

theorem Inv.data_inj {s : St} (h : Inv s) {p q : Nat} (hp : p ∈ s.pool) (hq : q ∈ s.pool)
    (e : (s.heap p).data = (s.heap q).data) : p = q := by
  have h1 := h.find_data hp
  have h2 := h.find_data hq
  rw [e] at h1
  rw [h1] at h2
  exact Option.some.inj h2

theorem findIdx_map {α β} (f : α → β) (P : β → Bool) : ∀ l : List α,
    (l.map f).findIdx P = l.findIdx (fun x => P (f x))
  | [] => rfl
  | a :: l => by simp only [List.map_cons, List.findIdx_cons, findIdx_map f P l]

theorem countP_map' {α β} (f : α → β) (P : β → Bool) : ∀ l : List α,
    (l.map f).countP P = l.countP (fun x => P (f x))
  | [] => rfl
  | a :: l => by simp only [List.map_cons, List.countP_cons, countP_map' f P l]

theorem nodup_distinct : ∀ l : List Bytes, (Spec.distinct l).Nodup ∧ ∀ b, b ∈ Spec.distinct l ↔ b ∈ l
  | [] => by simp [Spec.distinct]
  | a :: l => by
      have ih := nodup_distinct l
      unfold Spec.distinct
      by_cases e : l.contains a = true
      · rw [if_pos e]
        refine ⟨ih.1, fun b => ?_⟩
        rw [ih.2 b, List.mem_cons]
        constructor
        · exact Or.inr
        · rintro (e' | e')
          · subst e'; simpa using e
          · exact e'
      · rw [if_neg e]
        have na : a ∉ l := by simpa using e
        refine ⟨?_, fun b => ?_⟩
        · rw [List.nodup_cons]; exact ⟨fun hm => na ((ih.2 a).1 hm), ih.1⟩
        · simp only [List.mem_cons, ih.2 b]

theorem length_le_of_nodup_subset : ∀ (l1 l2 : List Bytes), l1.Nodup → (∀ b ∈ l1, b ∈ l2) →
    l1.length ≤ l2.length
  | [], _, _, _ => Nat.zero_le _
  | a :: t, l2, hn, hsub => by
      rw [List.nodup_cons] at hn
      have ha : a ∈ l2 := hsub a (by simp)
      have : t.length ≤ (l2.erase a).length := by
        apply length_le_of_nodup_subset t (l2.erase a) hn.2
        intro b hb
        have : b ≠ a := fun e => hn.1 (e ▸ hb)
        exact (List.mem_erase_of_ne this).2 (hsub b (List.mem_cons_of_mem _ hb))
      rw [List.length_erase_of_mem ha] at this
      have : 0 < l2.length := List.length_pos_of_mem ha
      simp only [List.length_cons]; omega

theorem Inv.pool_data_iff {s : St} (h : Inv s) (b : Bytes) :
    b ∈ s.pool.map (fun p => (s.heap p).data) ↔ b ∈ (abs s).map (·.1) := by
  simp only [abs, List.map_map, List.mem_map, Function.comp]
  constructor
  · rintro ⟨p, hp, e⟩
    have := h.has_handle p hp
    simp only [cnt, List.countP_pos_iff, beq_iff_eq] at this
    obtain ⟨g, hg, e'⟩ := this
    exact ⟨g, hg, by rw [e', e]⟩
  · rintro ⟨g, hg, e⟩
    exact ⟨g.1, h.hs_pool g hg, e⟩

/-- C18 (pool size): the pool holds exactly one entry per distinct contents of a live value -/
theorem Inv.pool_length {s : St} (h : Inv s) :
    s.pool.length = (Spec.distinct ((abs s).map (·.1))).length := by
  have d := nodup_distinct ((abs s).map (·.1))
  have l1 := length_le_of_nodup_subset _ _ h.pool_nodup
    (fun b hb => (d.2 b).2 ((h.pool_data_iff b).1 hb))
  have l2 := length_le_of_nodup_subset _ _ d.1
    (fun b hb => (h.pool_data_iff b).2 ((d.2 b).1 hb))
  simp only [List.length_map] at l1 l2
  omega

theorem Inv.obs_eq {s : St} (h : Inv s) : obs s = Spec.obs (abs s) := by
  have same : ∀ g ∈ s.hs, ∀ x ∈ s.hs, (x.1 == g.1) = ((s.heap x.1).data == (s.heap g.1).data) := by
    intro g hg x hx
    rw [Bool.eq_iff_iff, beq_iff_eq, beq_iff_eq]
    exact ⟨fun e => by rw [e], fun e' => h.data_inj (h.hs_pool x hx) (h.hs_pool g hg) e'⟩
  unfold JrsVerif.Intern.obs Spec.obs
  rw [Obs.mk.injEq]
  refine ⟨h.pool_length, ?_⟩
  simp only [abs, List.map_map]
  apply List.map_congr_left
  intro g hg
  simp only [Function.comp, HObs.mk.injEq, true_and]
  refine ⟨?_, ?_, ?_⟩
  · rw [h.rc_eq g.1 (h.hs_pool g hg), countP_map']
    simp only [cnt]
    rw [countP_congr' _ _ s.hs (same g hg)]
  · rw [findIdx_map]
    exact findIdx_congr _ _ s.hs (same g hg)
  · rw [h.find_data (h.hs_pool g hg)]; simp

/-! ### typing of histories -/

theorem valid_of_spec {s : St} {op : Op} {a : Spec.SSt} (hsp : Spec.step (abs s) op = some a)
    (hstr : ∀ b, op = .internStr b → validUtf8 b = true) : op.valid s = true := by
  cases op with
  | internBytes b => rfl
  | internStr b => exact hstr b rfl
  | handover => rfl
  | clone i =>
    simp only [Spec.step, abs_getElem?] at hsp
    cases e : s.hs[i]? with
    | none => simp [e] at hsp
    | some g => simpa [Op.valid] using (List.getElem?_eq_some_iff.1 e).1
  | drop i =>
    simp only [Spec.step, abs_getElem?] at hsp
    cases e : s.hs[i]? with
    | none => simp [e] at hsp
    | some g => simpa [Op.valid] using (List.getElem?_eq_some_iff.1 e).1
  | castBytes i =>
    simp only [Spec.step, abs_getElem?] at hsp
    cases e : s.hs[i]? with
    | none => simp [e] at hsp
    | some g =>
      obtain ⟨p, k⟩ := g
      cases k <;> simp [e, Op.valid] at hsp ⊢
  | castStr i =>
    simp only [Spec.step, abs_getElem?] at hsp
    cases e : s.hs[i]? with
    | none => simp [e] at hsp
    | some g =>
      obtain ⟨p, k⟩ := g
      cases k <;> simp [e, Op.valid] at hsp ⊢

theorem spec_length {a a' : Spec.SSt} {op : Op} (h : Spec.step a op = some a') :
    a'.length ≤ a.length + 1 := by
  cases op <;> simp only [Spec.step] at h
  case internBytes b => simp at h; subst h; simp
  case internStr b => simp at h; subst h; simp
  case handover => simp at h; subst h; simp
  case clone i => split at h <;> simp at h; subst h; simp
  case drop i => split at h <;> simp at h; subst h; simp [List.length_eraseIdx]; split <;> omega
  case castBytes i => split at h <;> simp at h; subst h; simp
  case castStr i =>
    split at h
    · split at h <;> simp at h <;> subst h <;> simp [List.length_eraseIdx]
      split <;> omega
    · simp at h

end JrsVerif.Intern
