/- C19: the definitional interpreter `Model/Eval.lean` (C01's reference semantics) consumes the two
   members of each documented sugar pair identically.  `Bind` is consumed only by `bindLocals`
   (and the name list of `localE`), method parameters only by `wrapParams`. -/
import JrsVerif.Model.Eval

namespace JrsVerif.Eval

/-- `local f(ps) = e`  ↦  `local f = function(ps) e` (head of the bind only) -/
def unsugarBind : Bind → Bind
  | .fn n ps e => .val n (.func ps e)
  | b => b

/-- `f(ps): e`  ↦  `f: function(ps) e` (only without `+`) -/
def unsugarField : Field → Field
  | .mk nm false (some ps) vis v => .mk nm false none vis (.func ps v)
  | f => f

theorem comp_unsugar {β : Type} (g : Bind → β) (h : ∀ b, g (unsugarBind b) = g b) :
    g ∘ unsugarBind = g := by
  funext b; exact h b

theorem bindLocals_sugar (c : Ctx) (bs : List Bind) (t : Option (ObjId × Nat)) (d : Option ObjId) :
    bindLocals c (bs.map unsugarBind) t d = bindLocals c bs t d := by
  unfold bindLocals
  simp only [List.map_map, List.forIn_map]
  rw [comp_unsugar _ (by intro b; cases b <;> rfl)]
  congr
  funext s
  congr
  funext b r
  cases b <;> rfl

theorem run_local_sugar (fuel : Nat) (c : Ctx) (bs : List Bind) (body : Expr) :
    run fuel (.eval c (.localE (bs.map unsugarBind) body)) = run fuel (.eval c (.localE bs body)) := by
  cases fuel with
  | zero => simp only [run]
  | succ n =>
    simp only [run]
    simp only [List.map_map, bindLocals_sugar]
    rw [comp_unsugar _ (by intro b; cases b <;> rfl)]

/-- the field definition the interpreter stores for a method and for a field holding a function -/
def fieldBody : Field → Expr
  | .mk _ _ ps _ v => wrapParams ps v

theorem fieldBody_sugar (f : Field) : fieldBody (unsugarField f) = fieldBody f := by
  rcases f with ⟨nm, plus, ps, vis, v⟩
  cases plus <;> cases ps <;> rfl

end JrsVerif.Eval
