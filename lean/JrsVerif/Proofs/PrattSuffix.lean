/- C06 helper lemmas: the accumulate-and-flush loop of `expr_suffix` equals the postfix-chain semantics. -/
import JrsVerif.Model.PrattSuffix

namespace JrsVerif.Suffix
open JrsVerif.Spec

theorem takeParts_parts (ps : List String) (items : List Item) :
    takeParts (ps.map Item.part ++ items) = (ps ++ (takeParts items).1, (takeParts items).2) := by
  induction ps with
  | nil => simp
  | cons p r ih => simp [takeParts, ih]

theorem takeParts_nonpart (items : List Item) (h : ∀ p r, items ≠ Item.part p :: r) :
    takeParts items = ([], items) := by
  cases items with
  | nil => rfl
  | cons a r => cases a <;> first | rfl | exact absurd rfl (h _ _)

theorem applyChain_step (e : Tree) (ps : List String) (rest : List Item)
    (h : ∀ p r, rest ≠ Item.part p :: r) :
    applyChain e (ps.map Item.part ++ rest) =
      (match rest with
       | [] => flush e ps
       | .slice d :: r => applyChain (.slice (flush e ps) d) r
       | .call a :: r => applyChain (.apply (flush e ps) a) r
       | .ext b :: r => applyChain (.ext (flush e ps) b) r
       | .part _ :: r => applyChain (flush e ps) r) := by
  have ht : takeParts (ps.map Item.part ++ rest) = (ps, rest) := by
    rw [takeParts_parts, takeParts_nonpart rest h]; simp
  rw [applyChain]
  split
  rename_i ps' rest' heq
  rw [ht] at heq
  injection heq with h1 h2
  subst h1; subst h2
  cases rest with
  | nil => simp [flush]
  | cons a r => cases a <;> simp [flush]

theorem suffixLoop_eq (items : List Item) : ∀ (e : Tree) (ps : List String),
    suffixLoop e ps items = applyChain e (ps.map Item.part ++ items) := by
  induction items with
  | nil =>
    intro e ps
    have := applyChain_step e ps [] (by intro p r h; cases h)
    simpa [suffixLoop] using this.symm
  | cons a r ih =>
    intro e ps
    cases a with
    | part p =>
      have := ih e (ps ++ [p])
      simpa [suffixLoop] using this
    | slice d =>
      rw [applyChain_step e ps _ (by intro p r h; cases h)]
      simpa [suffixLoop] using ih (.slice (flush e ps) d) []
    | call c =>
      rw [applyChain_step e ps _ (by intro p r h; cases h)]
      simpa [suffixLoop] using ih (.apply (flush e ps) c) []
    | ext b =>
      rw [applyChain_step e ps _ (by intro p r h; cases h)]
      simpa [suffixLoop] using ih (.ext (flush e ps) b) []

end JrsVerif.Suffix
