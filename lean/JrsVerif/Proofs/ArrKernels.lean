/- C08: the hand model's arms (Model/Arr.lean) against the accessor bodies translated from
   arr/spec.rs (Generated/ArrKernels.lean, rewritten on every check run). -/
import JrsVerif.Proofs.Arr
import JrsVerif.Generated.ArrKernels

namespace JrsVerif.Arr
open JrsVerif.Generated.ArrKernels

/-- run a translated accessor body: `sel` maps a Rust field name to the model view stored in that
    field; the delegated accessor is chosen by its Rust name -/
def runK (k : K) (sel : String → Option View) : R :=
  match k with
  | .none => .oob
  | .panic => .panic
  | .call f acc j =>
    match sel f with
    | none => .panic
    | some v =>
      if acc = "get" then get v j
      else if acc = "get_lazy" then getLazy v j
      else if acc = "get_cheap" then getCheap v j
      else .panic

/-- field table of a one-field view -/
def sel1 (name : String) (v : View) : String → Option View :=
  fun s => if s = name then some v else none

/-- field table of `ExtendedArray` -/
def selAB (a b : View) : String → Option View :=
  fun s => if s = "a" then some a else if s = "b" then some b else none

theorem slice_len_kernel (inner : View) (f t st : Nat) (hft : f ≤ t) (hst : 0 < st) :
    SliceArray_len f t st (len inner) = some (len (.slice inner f t st)) := by
  have h0 : st ≠ 0 := by omega
  simp [SliceArray_len, kdivceil, ksub, hft, h0, len]

theorem slice_acc_kernel (inner : View) (f t st i : Nat) (hft : f ≤ t) (hst : 0 < st) :
    runK (SliceArray_get f t st (len inner) i) (sel1 "inner" inner) = get (.slice inner f t st) i ∧
    runK (SliceArray_get_lazy f t st (len inner) i) (sel1 "inner" inner)
      = getLazy (.slice inner f t st) i ∧
    runK (SliceArray_get_cheap f t st (len inner) i) (sel1 "inner" inner)
      = getCheap (.slice inner f t st) i := by
  have h0 : st ≠ 0 := by omega
  refine ⟨?_, ?_, ?_⟩ <;>
  · simp only [SliceArray_get, SliceArray_get_lazy, SliceArray_get_cheap, SliceArray_len,
      SliceArray_map_idx, kdivceil, ksub, kadd, kmul, kbind, kge, hft, h0, ↓reduceIte, get,
      getLazy, getCheap]
    by_cases hi : i ≥ (t - f + st - 1) / st
    · simp [hi, kif, runK]
    · simp [hi, kif, kcall, runK, sel1]

theorem rev_acc_kernel (inner : View) (i : Nat) :
    runK (ReverseArray_get (len inner) i) (sel1 "0" inner) = get (.rev inner) i ∧
    runK (ReverseArray_get_lazy (len inner) i) (sel1 "0" inner) = getLazy (.rev inner) i ∧
    runK (ReverseArray_get_cheap (len inner) i) (sel1 "0" inner) = getCheap (.rev inner) i := by
  refine ⟨?_, ?_, ?_⟩ <;>
  · simp only [ReverseArray_get, ReverseArray_get_lazy, ReverseArray_get_cheap, kge, get, getLazy,
      getCheap]
    by_cases hi : i ≥ len inner
    · simp [hi, kif, runK]
    · have h1 : i ≤ len inner := by omega
      have h2 : 1 ≤ len inner - i := by omega
      simp [hi, kif, kcall, ksub, h1, h2, runK, sel1]

theorem rep_acc_kernel (data : View) (n total i : Nat) :
    runK (RepeatedArray_get n total (len data) i) (sel1 "data" data) = get (.rep data n total) i ∧
    runK (RepeatedArray_get_lazy n total (len data) i) (sel1 "data" data)
      = getLazy (.rep data n total) i ∧
    runK (RepeatedArray_get_cheap n total (len data) i) (sel1 "data" data)
      = getCheap (.rep data n total) i := by
  refine ⟨?_, ?_, ?_⟩ <;>
  · simp only [RepeatedArray_get, RepeatedArray_get_lazy, RepeatedArray_get_cheap, kge, get,
      getLazy, getCheap]
    by_cases hi : i ≥ total
    · simp [hi, kif, runK]
    · by_cases h0 : len data = 0
      · simp [hi, h0, kif, kcall, kmod, runK]
      · simp [hi, h0, kif, kcall, kmod, runK, sel1]

theorem ext_acc_kernel (a b : View) (split l i : Nat) :
    runK (ExtendedArray_get split l (len a) (len b) i) (selAB a b) = get (.ext a b split l) i ∧
    runK (ExtendedArray_get_lazy split l (len a) (len b) i) (selAB a b)
      = getLazy (.ext a b split l) i ∧
    runK (ExtendedArray_get_cheap split l (len a) (len b) i) (selAB a b)
      = getCheap (.ext a b split l) i := by
  refine ⟨?_, ?_, ?_⟩ <;>
  · simp only [ExtendedArray_get, ExtendedArray_get_lazy, ExtendedArray_get_cheap, kgt, get,
      getLazy, getCheap]
    by_cases hi : split > i
    · simp [hi, kif, kcall, runK, selAB]
    · have h1 : split ≤ i := by omega
      simp [hi, kif, kcall, ksub, h1, runK, selAB]

theorem rangeLen_kernel (s e : Int) (hs : I32 s) (he : I32 e) :
    RangeArray_len s e = rangeLen s e := by
  obtain ⟨hs1, hs2⟩ := hs; obtain ⟨he1, he2⟩ := he
  simp only [RangeArray_len, wadd, wsub, i32AsUsize, rangeLen]
  omega

theorem newExclusive_kernel (s e : Int) (he : I32 e) :
    newExclusive s e = (match RangeArray_new_exclusive s e with
      | some p => View.range p.1 p.2
      | none => emptyView) := by
  obtain ⟨he1, he2⟩ := he
  unfold newExclusive RangeArray_new_exclusive i32CheckedSub
  by_cases h : e - 1 < -(2 ^ 31 : Int)
  · rw [if_pos h, if_pos (Or.inl h)]
  · rw [if_neg h, if_neg (by omega)]

/-! #### constructors: `ArrValue::extended`, `ArrValue::slice` -/

/-- the arguments of `extended` by their Rust names -/
def selV (a b : View) (s : String) : View :=
  if s = "a" then a else if s = "b" then b else .poison

/-- carry out a translated `extended` plan with the model's iterators -/
def runPlan (p : ExtPlan) (a b : View) : View :=
  match p with
  | .ret w => selV a b w
  | .link x y =>
      .ext (selV a b x) (selV a b y) (ExtendedArray_new (len (selV a b x)) (len (selV a b y))).1
        (ExtendedArray_new (len (selV a b x)) (len (selV a b y))).2
  | .copyCheap x y into =>
      (match iterCheap (selV a b x), iterCheap (selV a b y) with
       | some (some xs), some (some ys) => .vec (xs ++ ys) (into == "eager")
       | _, _ => .poison)
  | .copyLazy x y into =>
      (match materializeLazy (selV a b x), materializeLazy (selV a b y) with
       | some xs, some ys => .vec (xs ++ ys) (into == "eager")
       | _, _ => .poison)

theorem extended_plan_kernel (a b : View) :
    mkExt a b = runPlan (ArrValue_extended (len a) (len b) (isCheap a) (isCheap b)) a b := by
  unfold mkExt ArrValue_extended
  by_cases h1 : len a = 0
  · simp [h1, runPlan, selV]
  · by_cases h2 : len b = 0
    · simp [h1, h2, runPlan, selV]
    · by_cases h3 : len a + len b > Generated.ARR_EXTEND_THRESHOLD
      · simp [h1, h2, h3, runPlan, selV, ExtendedArray_new]
      · simp only [h1, h2, h3, ↓reduceIte]
        have hs : ∀ s, selV a b s = if s = "a" then a else if s = "b" then b else .poison := fun _ => rfl
        cases hca : isCheap a <;> cases hcb : isCheap b <;>
          simp only [Bool.and_self, Bool.and_false, Bool.false_and, Bool.and_true, Bool.true_and,
            Bool.false_eq_true, ↓reduceIte, runPlan, hs, String.reduceEq, iterCheap, hca, hcb]
        · cases materializeLazy a <;> cases materializeLazy b <;> rfl
        · cases materializeLazy a <;> cases materializeLazy b <;> rfl
        · cases materializeLazy a <;> cases materializeLazy b <;> rfl
        · cases collect (getCheap a) (len a) <;> cases collect (getCheap b) (len b) <;> rfl

theorem slice_ctor_kernel (v : View) (s e : Option Int) (step : Option Nat) :
    mkSlice v s e step = (match ArrValue_slice s e step (len v) with
      | none => emptyView
      | some (f, t, st) => View.slice v f t st) := by
  have hidx : ∀ (p : Option Int) (n d : Nat), ArrValue_slice_get_idx p n d = getIdx p n d := by
    intro p n d
    cases p with
    | none => rfl
    | some x =>
      simp only [ArrValue_slice_get_idx, getIdx]
      split
      · omega
      · rfl
  simp only [mkSlice, ArrValue_slice, hidx]
  split <;> rfl

end JrsVerif.Arr
