/- C12 helper lemmas, parser round trip: rendering a list of elements as a format string and
   parsing it gives the elements back. -/
import JrsVerif.Proofs.FormatParse
import JrsVerif.Proofs.FormatFloat

set_option linter.unusedSimpArgs false
set_option linter.unusedVariables false

namespace JrsVerif.Format
open JrsVerif.Generated
open JrsVerif.FormatSpec (isFlagChar isDigitChar isLenMod flagsOf decVal numField digitsF digits)

/-! ## rendering -/

/-- the conversion character of a (conversion, caps) pair -/
def convChar : Conv → Bool → Char
  | .dec, _ => 'd' | .oct, _ => 'o'
  | .hex, false => 'x' | .hex, true => 'X'
  | .sci, false => 'e' | .sci, true => 'E'
  | .flt, false => 'f' | .flt, true => 'F'
  | .shorter, false => 'g' | .shorter, true => 'G'
  | .chr, _ => 'c' | .str, _ => 's' | .pct, _ => '%'

def flagChars (f : Flags) : List Char :=
  (if f.alt then ['#'] else []) ++ (if f.zero then ['0'] else []) ++ (if f.left then ['-'] else [])
    ++ (if f.blank then [' '] else []) ++ (if f.sign then ['+'] else [])

/-- a width: `*`, nothing for 0 (a leading `0` would be read as the zero flag), else decimal -/
def renderWidth : Width → List Char
  | .star => ['*']
  | .fixed n => if n = 0 then [] else dec n

def renderPrec : Option Width → List Char
  | none => []
  | some .star => ['.', '*']
  | some (.fixed n) => '.' :: dec n

def renderKey (k : List Char) : List Char := if k = [] then [] else '(' :: k ++ [')']

/-- the text of one conversion specifier after the `%` -/
def renderCode (c : Code) : List Char :=
  renderKey c.mkey ++ (flagChars c.flags ++ (renderWidth c.width ++ (renderPrec c.prec ++ [convChar c.conv c.caps])))

def renderElem : Elem → List Char
  | .lit s => s
  | .code c => '%' :: renderCode c

def render : List Elem → List Char
  | [] => []
  | e :: es => renderElem e ++ render es

/-- codes that a format string can denote: the key has no `)`, numbers fit `u16`, `caps` only on
    the conversions that have an upper-case letter -/
structure CodeWF (c : Code) : Prop where
  key : ')' ∉ c.mkey
  width : ∀ n, c.width = .fixed n → n ≤ 65535
  prec : ∀ n, c.prec = some (.fixed n) → n ≤ 65535
  caps : c.caps = true → (c.conv = .hex ∨ c.conv = .sci ∨ c.conv = .flt ∨ c.conv = .shorter)

/-- element lists that a format string can denote: literal runs are non-empty, contain no `%` and
    are never adjacent -/
def ElemsWF : List Elem → Prop
  | [] => True
  | .lit s :: es =>
    s ≠ [] ∧ '%' ∉ s ∧ (match es with | .lit _ :: _ => False | _ => True) ∧ ElemsWF es
  | .code c :: es => CodeWF c ∧ ElemsWF es

/-! ## generic takeWhile / dropWhile over an append -/

theorem span_append {α : Type} (p : α → Bool) (a b : List α) (ha : ∀ x ∈ a, p x = true)
    (hb : ∀ h, b.head? = some h → p h = false) :
    (a ++ b).takeWhile p = a ∧ (a ++ b).dropWhile p = b := by
  induction a with
  | nil =>
    cases b with
    | nil => simp
    | cons h t =>
      have := hb h rfl
      simp [List.takeWhile_cons, List.dropWhile_cons, this]
  | cons x a ih =>
    have hx := ha x (by simp)
    have := ih (fun y hy => ha y (by simp [hy]))
    simp [List.takeWhile_cons, List.dropWhile_cons, hx, this.1, this.2]

/-! ## decimal numbers -/

theorem digitChar_isDigit : ∀ k, k < 10 → isDigitChar (FormatSpec.digitChar false k) = true := by decide

theorem digitChar_val : ∀ k, k < 10 → (FormatSpec.digitChar false k).toNat - 48 = k := by decide

theorem digitChar_ne_misc : ∀ k, k < 10 →
    FormatSpec.digitChar false k ≠ '*' ∧ FormatSpec.digitChar false k ≠ '(' := by decide

theorem digitChar_pos_not_flag : ∀ k, k < 10 → 0 < k → isFlagChar (FormatSpec.digitChar false k) = false := by
  decide

theorem dec_all_digits (n : Nat) : ∀ x ∈ dec n, isDigitChar x = true := by
  intro x hx
  have hall := digitsF_all_lt 10 (by omega) n n (Nat.le_refl _)
  unfold dec specDigits digits at hx
  rw [List.mem_map] at hx
  obtain ⟨k, hk, rfl⟩ := hx
  exact digitChar_isDigit k (hall k hk)

theorem decFrom_digitsF (fuel n acc : Nat) (h : n ≤ fuel) :
    decFrom acc ((digitsF fuel 10 n).map (FormatSpec.digitChar false)) = acc * 10 ^ (digitsF fuel 10 n).length + n := by
  induction fuel generalizing n acc with
  | zero =>
    have : n = 0 := by omega
    subst this
    simp [digitsF, decFrom, digitChar_val 0 (by omega)]
  | succ fuel ih =>
    simp only [digitsF]
    by_cases hlt : n < 10
    · simp only [hlt, if_true, List.map_cons, List.map_nil, decFrom, List.foldl_cons, List.foldl_nil,
        List.length_singleton, Nat.pow_one]
      rw [digitChar_val n hlt]
    · have hd : n / 10 < n := Nat.div_lt_self (by omega) (by omega)
      have := ih (n / 10) acc (by omega)
      simp only [hlt, if_false, List.map_append, List.map_cons, List.map_nil, List.length_append,
        List.length_singleton]
      simp only [decFrom, List.foldl_append, List.foldl_cons, List.foldl_nil] at this ⊢
      rw [this, digitChar_val _ (Nat.mod_lt _ (by omega)), Nat.pow_succ]
      have := Nat.div_add_mod n 10
      rw [Nat.add_mul, Nat.mul_assoc]
      omega

theorem decVal_dec (n : Nat) : decVal (dec n) = n := by
  have := decFrom_digitsF n n 0 (Nat.le_refl _)
  simpa [decVal_eq, dec, specDigits, digits] using this

/-- the first character of a positive number is a non-zero digit: not a flag character -/
theorem dec_pos_head (n : Nat) (h : 0 < n) :
    ∃ c r, dec n = c :: r ∧ isFlagChar c = false ∧ c ≠ '*' ∧ c ≠ '(' := by
  obtain ⟨k, rest, e, h1, h2⟩ := digitsF_head 10 (by omega) n n (Nat.le_refl _) h
  refine ⟨FormatSpec.digitChar false k, rest.map (FormatSpec.digitChar false), ?_,
    digitChar_pos_not_flag k h2 h1, (digitChar_ne_misc k h2).1, (digitChar_ne_misc k h2).2⟩
  unfold dec specDigits digits
  rw [e]; rfl

theorem dec_head' (n : Nat) : ∃ c r, dec n = c :: r ∧ isDigitChar c = true ∧ c ≠ '*' := by
  have hall := digitsF_all_lt 10 (by omega) n n (Nat.le_refl _)
  unfold dec specDigits digits
  cases h : digitsF n 10 n with
  | nil => exact absurd h (digits_ne_nil 10 n)
  | cons a l =>
    have := hall a (by rw [h]; simp)
    exact ⟨_, _, rfl, digitChar_isDigit a this, (digitChar_ne_misc a this).1⟩

/-- a number field followed by something that is not a digit parses back -/
theorem numField_dec (n : Nat) (hn : n ≤ 65535) (V : List Char)
    (hV : ∀ h, V.head? = some h → isDigitChar h = false) :
    numField (dec n ++ V) = .ok (.fixed n, V) := by
  obtain ⟨c, r, e, hd, hs⟩ := dec_head' n
  have hsp := span_append isDigitChar (dec n) V (dec_all_digits n) hV
  unfold numField
  split
  · rename_i r' heq
    rw [e] at heq
    injection heq with h1 _
    exact absurd h1 hs
  · have : ¬ n > 65535 := by omega
    simp only [hsp.1, hsp.2, this, if_false, decVal_dec]

/-! ## flags -/

theorem flagsOf_flagChars (f : Flags) : flagsOf (flagChars f) = f := by
  obtain ⟨a, z, l, b, s⟩ := f
  cases a <;> cases z <;> cases l <;> cases b <;> cases s <;> rfl

theorem flagChars_all (f : Flags) : ∀ x ∈ flagChars f, isFlagChar x = true := by
  obtain ⟨a, z, l, b, s⟩ := f
  cases a <;> cases z <;> cases l <;> cases b <;> cases s <;> decide

/-! ## the conversion character -/

theorem convChar_props (cv : Conv) (caps : Bool)
    (h : caps = true → (cv = .hex ∨ cv = .sci ∨ cv = .flt ∨ cv = .shorter)) :
    FormatSpec.convTable.lookup (convChar cv caps) = some (cv, caps) ∧
      isLenMod (convChar cv caps) = false ∧ isDigitChar (convChar cv caps) = false ∧
      isFlagChar (convChar cv caps) = false ∧ convChar cv caps ≠ '.' ∧ convChar cv caps ≠ '*' ∧
      convChar cv caps ≠ '(' := by
  cases caps
  · cases cv <;> decide
  · have := h rfl
    cases cv <;> first | decide | (exfalso; revert this; decide)

/-! ## one conversion specifier -/

/-- the precision field followed by the conversion character parses back -/
theorem precField_render (p : Option Width) (hp : ∀ n, p = some (.fixed n) → n ≤ 65535)
    (cc : Char) (rest : List Char) (hd : isDigitChar cc = false) (hdot : cc ≠ '.') :
    FormatSpec.precField (renderPrec p ++ cc :: rest) = .ok (p, cc :: rest) := by
  match p with
  | none =>
    simp only [renderPrec, List.nil_append]
    exact specPrec_other cc rest hdot
  | some .star => rfl
  | some (.fixed n) =>
    have := numField_dec n (hp n rfl) (cc :: rest) (by intro h hh; simp at hh; rw [← hh]; exact hd)
    simp only [renderPrec, List.cons_append, specPrec_dot, this]

/-- the width field followed by precision and conversion character parses back -/
theorem numField_renderWidth (w : Width) (hw : ∀ n, w = .fixed n → n ≤ 65535) (Z : List Char)
    (hZ : ∀ h, Z.head? = some h → isDigitChar h = false ∧ h ≠ '*') (hZne : Z ≠ []) :
    numField (renderWidth w ++ Z) = .ok (w, Z) := by
  match w with
  | .star => rfl
  | .fixed n =>
    by_cases h0 : n = 0
    · subst h0
      simp only [renderWidth, if_true, List.nil_append]
      cases Z with
      | nil => exact absurd rfl hZne
      | cons h t =>
        have := hZ h rfl
        unfold numField
        split
        · rename_i r heq; injection heq with h1 _; exact absurd h1 this.2
        · simp [List.takeWhile_cons, List.dropWhile_cons, this.1, decVal]
    · simp only [renderWidth, h0, if_false]
      exact numField_dec n (hw n rfl) Z (fun h hh => (hZ h hh).1)

/-- rendering a well-formed code and parsing it (reference grammar) gives the code back, whatever
    text follows -/
theorem parseSpec_render (c : Code) (hc : CodeWF c) (rest : List Char) :
    FormatSpec.parseSpec (renderCode c ++ rest) = .ok (c, rest) := by
  obtain ⟨hlk, hlm, hdg, hfl, hdot, hstar, hpar⟩ := convChar_props c.conv c.caps hc.caps
  generalize hcc : convChar c.conv c.caps = cc at *
  -- the text after the key
  have hV : (renderPrec c.prec ++ [cc]) ++ rest = renderPrec c.prec ++ cc :: rest := by simp
  -- Z = precision ++ conversion ++ rest starts with `.` or the conversion character
  have hZ : ∀ h, (renderPrec c.prec ++ cc :: rest).head? = some h →
      isDigitChar h = false ∧ h ≠ '*' ∧ isFlagChar h = false ∧ h ≠ '(' := by
    intro h hh
    match hp : c.prec with
    | none => rw [hp] at hh; simp [renderPrec] at hh; subst hh; exact ⟨hdg, hstar, hfl, hpar⟩
    | some .star => rw [hp] at hh; simp [renderPrec] at hh; subst hh; decide
    | some (.fixed n) => rw [hp] at hh; simp [renderPrec] at hh; subst hh; decide
  have hZne : renderPrec c.prec ++ cc :: rest ≠ [] := by simp
  -- Y = width ++ Z starts with `*`, a non-zero digit, or as Z
  have hY : ∀ h, (renderWidth c.width ++ (renderPrec c.prec ++ cc :: rest)).head? = some h →
      isFlagChar h = false ∧ h ≠ '(' := by
    intro h hh
    match hw : c.width with
    | .star => rw [hw] at hh; simp [renderWidth] at hh; subst hh; decide
    | .fixed n =>
      rw [hw] at hh
      by_cases h0 : n = 0
      · simp only [renderWidth, h0, if_true, List.nil_append] at hh
        exact ⟨(hZ h hh).2.2.1, (hZ h hh).2.2.2⟩
      · obtain ⟨d, r, e, hf, _, hp⟩ := dec_pos_head n (by omega)
        simp only [renderWidth, h0, if_false, e, List.cons_append, List.head?_cons, Option.some.injEq] at hh
        subst hh; exact ⟨hf, hp⟩
  have hYne : renderWidth c.width ++ (renderPrec c.prec ++ cc :: rest) ≠ [] := by simp
  -- X = flags ++ Y does not start with `(`
  have hX : ∀ h, (flagChars c.flags ++ (renderWidth c.width ++ (renderPrec c.prec ++ cc :: rest))).head? = some h →
      h ≠ '(' := by
    intro h hh
    cases hf : flagChars c.flags with
    | nil => rw [hf] at hh; exact (hY h hh).2
    | cons x t =>
      rw [hf] at hh
      simp only [List.cons_append, List.head?_cons, Option.some.injEq] at hh
      subst hh
      have := flagChars_all c.flags x (by rw [hf]; simp)
      intro e; subst e; revert this; decide
  -- key stage
  have hkey : FormatSpec.keyField (renderKey c.mkey ++ (flagChars c.flags ++ (renderWidth c.width ++ (renderPrec c.prec ++ cc :: rest))))
      = .ok (c.mkey, flagChars c.flags ++ (renderWidth c.width ++ (renderPrec c.prec ++ cc :: rest))) := by
    by_cases hk : c.mkey = []
    · simp only [renderKey, hk, if_true, List.nil_append]
      unfold FormatSpec.keyField
      split
      · rename_i r heq
        have := hX '(' (by rw [heq]; rfl)
        exact absurd rfl this
      · rfl
    · simp only [renderKey, hk, if_false, List.cons_append, List.append_assoc, List.singleton_append]
      have hsp := span_append (fun x => decide (x ≠ ')')) c.mkey
        (')' :: (flagChars c.flags ++ (renderWidth c.width ++ (renderPrec c.prec ++ cc :: rest))))
        (by intro x hx; simp only [ne_eq, decide_not, Bool.not_eq_eq_eq_not, Bool.not_true, decide_eq_false_iff_not]
            intro e; subst e; exact hc.key hx)
        (by intro h hh; simp at hh; subst hh; simp)
      have hcont : (c.mkey ++ ')' :: (flagChars c.flags ++ (renderWidth c.width ++ (renderPrec c.prec ++ cc :: rest)))).contains ')' = true := by
        simp
      simp only [FormatSpec.keyField, List.singleton_append, List.nil_append, hcont, if_true, hsp.1, hsp.2,
        List.drop_succ_cons, List.drop_zero]
  have hfl2 := span_append isFlagChar (flagChars c.flags) (renderWidth c.width ++ (renderPrec c.prec ++ cc :: rest))
    (flagChars_all c.flags) (fun h hh => (hY h hh).1)
  have hw := numField_renderWidth c.width hc.width (renderPrec c.prec ++ cc :: rest)
    (fun h hh => ⟨(hZ h hh).1, (hZ h hh).2.1⟩) hZne
  have hp := precField_render c.prec hc.prec cc rest hdg hdot
  have hconv : FormatSpec.convField c.mkey c.flags c.width c.prec (cc :: rest) = .ok (c, rest) := by
    unfold FormatSpec.convField
    simp only [List.dropWhile_cons, hlm, Bool.false_eq_true, if_false, hlk]
  unfold FormatSpec.parseSpec renderCode
  simp only [hcc, List.append_assoc, List.singleton_append, bind, Except.bind, hkey, hfl2.1, hfl2.2, hw, hp,
    flagsOf_flagChars, hconv]

/-! ## the whole string -/

theorem renderElem_length_pos (e : Elem) (h : ElemsWF [e]) : 1 ≤ (renderElem e).length := by
  cases e with
  | lit s =>
    simp only [ElemsWF] at h
    cases s with
    | nil => exact absurd rfl h.1
    | cons a t => simp [renderElem]
  | code c => simp [renderElem]

theorem elemsWF_tail (e : Elem) (es : List Elem) (h : ElemsWF (e :: es)) : ElemsWF es := by
  cases e with
  | lit s => exact h.2.2.2
  | code c => exact h.2

theorem elemsWF_head (e : Elem) (es : List Elem) (h : ElemsWF (e :: es)) : ElemsWF [e] := by
  cases e with
  | lit s => exact ⟨h.1, h.2.1, trivial, trivial⟩
  | code c => exact ⟨h.1, trivial⟩

theorem render_length (es : List Elem) (h : ElemsWF es) : es.length ≤ (render es).length := by
  induction es with
  | nil => simp
  | cons e es ih =>
    have h1 := renderElem_length_pos e (elemsWF_head e es h)
    have h2 := ih (elemsWF_tail e es h)
    simp only [render, List.length_append, List.length_cons]; omega

/-- one loop iteration over a code -/
theorem parseFmtF_code (fuel : Nat) (c : Code) (hc : CodeWF c) (R : List Char) :
    FormatSpec.parseFmtF (fuel + 1) ('%' :: renderCode c ++ R) =
      (FormatSpec.parseFmtF fuel R).map (fun es => Elem.code c :: es) := by
  simp only [FormatSpec.parseFmtF, List.cons_append, List.takeWhile_cons, List.dropWhile_cons, ne_eq,
    not_true_eq_false, decide_false, Bool.false_eq_true, if_false, if_true, parseSpec_render c hc R,
    bind, Except.bind, List.nil_append]
  cases FormatSpec.parseFmtF fuel R <;> rfl

/-- a literal run in front of a `%` is split off -/
theorem parseFmtF_lit (fuel : Nat) (s r : List Char) (hs : s ≠ []) (hp : '%' ∉ s) :
    FormatSpec.parseFmtF (fuel + 1) (s ++ '%' :: r) =
      (FormatSpec.parseFmtF (fuel + 1) ('%' :: r)).map (fun es => Elem.lit s :: es) := by
  have hsp := span_append (fun x => decide (x ≠ '%')) s ('%' :: r)
    (by intro x hx; simp only [ne_eq, decide_not, Bool.not_eq_eq_eq_not, Bool.not_true, decide_eq_false_iff_not]
        intro e; subst e; exact hp hx)
    (by intro h hh; simp at hh; subst hh; simp)
  simp only [FormatSpec.parseFmtF, hsp.1, hsp.2, hs, if_false, List.takeWhile_cons, List.dropWhile_cons, ne_eq,
    not_true_eq_false, decide_false, Bool.false_eq_true, if_true, bind, Except.bind, List.nil_append,
    List.singleton_append]
  cases FormatSpec.parseSpec r with
  | error e => rfl
  | ok x =>
    simp only []
    cases FormatSpec.parseFmtF fuel x.2 <;> rfl

theorem parseFmtF_render (es : List Elem) (h : ElemsWF es) :
    ∀ fuel, es.length + 1 ≤ fuel → FormatSpec.parseFmtF fuel (render es) = .ok es := by
  induction es with
  | nil =>
    intro fuel hf
    obtain ⟨f, rfl⟩ : ∃ f, fuel = f + 1 := ⟨fuel - 1, by omega⟩
    rfl
  | cons e es ih =>
    intro fuel hf
    obtain ⟨f, rfl⟩ : ∃ f, fuel = f + 1 := ⟨fuel - 1, by omega⟩
    have iht := ih (elemsWF_tail e es h)
    cases e with
    | code c =>
      simp only [render, renderElem]
      rw [parseFmtF_code f c h.1, iht f (by simp at hf; omega)]
      rfl
    | lit s =>
      obtain ⟨hs, hp, hadj, hwf⟩ := h
      cases es with
      | nil =>
        have hsp := span_append (fun x => decide (x ≠ '%')) s []
          (by intro x hx; simp only [ne_eq, decide_not, Bool.not_eq_eq_eq_not, Bool.not_true, decide_eq_false_iff_not]
              intro e; subst e; exact hp hx)
          (by intro h hh; simp at hh)
        simp only [List.append_nil] at hsp
        simp only [render, renderElem, List.append_nil, FormatSpec.parseFmtF, hsp.1, hsp.2, hs, if_false]
      | cons e' es' =>
        cases e' with
        | lit s' => exact absurd hadj (by simp)
        | code c =>
          have := iht (f + 1) (by simp at hf ⊢; omega)
          simp only [render, renderElem, List.cons_append] at this ⊢
          rw [parseFmtF_lit f s _ hs hp, this]
          rfl

/-- rendering well-formed elements and parsing the text with the MODEL of `parse_codes` gives the
    elements back -/
theorem parseCodes_render (es : List Elem) (h : ElemsWF es) : parseCodes (render es) = .ok es := by
  unfold parseCodes
  rw [parseCodesF_eq]
  exact parseFmtF_render es h _ (by have := render_length es h; omega)

end JrsVerif.Format
