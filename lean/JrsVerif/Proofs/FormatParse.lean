/- C12 helper lemmas, parser part: the model of `parse_codes` / `parse_code` / `try_parse_*`
   (loops with explicit end-of-input checks and checked `u16` arithmetic) equals the reference
   grammar of `FormatSpec` (maximal munch with `takeWhile`/`dropWhile`) on EVERY string. -/
import JrsVerif.Proofs.Format

set_option linter.unusedSimpArgs false
set_option linter.unusedVariables false

namespace JrsVerif.Format
open JrsVerif.Generated
open JrsVerif.FormatSpec (isFlagChar isDigitChar isLenMod flagsOf decVal numField)

/-! ## mapping key -/

theorem scanKey_spec (acc s : List Char) :
    scanKey acc s =
      if s.contains ')' then
        some (acc.reverse ++ s.takeWhile (· ≠ ')'), (s.dropWhile (· ≠ ')')).drop 1)
      else none := by
  induction s generalizing acc with
  | nil => simp [scanKey]
  | cons c cs ih =>
    by_cases hc : c = ')'
    · subst hc; simp [scanKey]
    · have h2 : (')' == c) = false := by
        simp only [beq_eq_false_iff_ne, ne_eq]; exact fun e => hc e.symm
      simp only [scanKey, hc, if_false, ih, List.contains_cons, h2, Bool.false_or,
        List.takeWhile_cons, List.dropWhile_cons, ne_eq, not_false_eq_true, decide_true, if_true,
        List.reverse_cons, List.append_assoc, List.singleton_append]

theorem parseKey_spec (s : List Char) :
    parseKey s = if s = [] then .error .truncated else FormatSpec.keyField s := by
  cases s with
  | nil => rfl
  | cons c cs =>
    by_cases hc : c = '('
    · subst hc
      simp only [parseKey, if_true, scanKey_spec, List.reverse_nil, List.nil_append, reduceCtorEq,
        if_false, FormatSpec.keyField]
      cases cs.contains ')' <;> rfl
    · simp only [parseKey, hc, if_false, reduceCtorEq]
      unfold FormatSpec.keyField
      split
      · rename_i r heq; injection heq with h1 h2; exact absurd h1 hc
      · rfl

/-! ## flags -/

theorem flagIndex_spec (c : Char) :
    flagIndex c =
      if c = '#' then some 0 else if c = '0' then some 1 else if c = '-' then some 2
      else if c = ' ' then some 3 else if c = '+' then some 4 else none := by
  unfold flagIndex FMT_FLAG_TABLE
  simp only [List.lookup]
  by_cases h1 : c = '#'
  · subst h1; rfl
  by_cases h2 : c = '0'
  · subst h2; rfl
  by_cases h3 : c = '-'
  · subst h3; rfl
  by_cases h4 : c = ' '
  · subst h4; rfl
  by_cases h5 : c = '+'
  · subst h5; rfl
  have e1 : (c == '#') = false := by simpa using h1
  have e2 : (c == '0') = false := by simpa using h2
  have e3 : (c == '-') = false := by simpa using h3
  have e4 : (c == ' ') = false := by simpa using h4
  have e5 : (c == '+') = false := by simpa using h5
  simp only [e1, e2, e3, e4, e5, h1, h2, h3, h4, h5, if_false]

def orFlags (f g : Flags) : Flags :=
  { alt := f.alt || g.alt, zero := f.zero || g.zero, left := f.left || g.left,
    blank := f.blank || g.blank, sign := f.sign || g.sign }

theorem orFlags_empty (g : Flags) : orFlags {} g = g := by
  cases g; simp [orFlags]

theorem flagsOf_nil : flagsOf [] = {} := rfl

theorem flagsOf_cons (c : Char) (l : List Char) :
    flagsOf (c :: l) =
      { alt := decide ('#' = c) || (flagsOf l).alt, zero := decide ('0' = c) || (flagsOf l).zero,
        left := decide ('-' = c) || (flagsOf l).left, blank := decide (' ' = c) || (flagsOf l).blank,
        sign := decide ('+' = c) || (flagsOf l).sign } := by
  simp [flagsOf, List.contains_cons]

theorem parseFlags_spec (f : Flags) (s : List Char) :
    parseFlags f s =
      if s.dropWhile isFlagChar = [] then .error .truncated
      else .ok (orFlags f (flagsOf (s.takeWhile isFlagChar)), s.dropWhile isFlagChar) := by
  induction s generalizing f with
  | nil => rfl
  | cons c cs ih =>
    simp only [parseFlags, flagIndex_spec]
    by_cases h1 : c = '#'
    · subst h1
      have : isFlagChar '#' = true := by decide
      simp only [if_true, ih, List.dropWhile_cons, List.takeWhile_cons, this, flagsOf_cons]
      split <;> simp [orFlags, setFlag, Bool.or_assoc, Bool.or_comm, Bool.or_left_comm]
    by_cases h2 : c = '0'
    · subst h2
      have : isFlagChar '0' = true := by decide
      simp only [h1, if_false, if_true, ih, List.dropWhile_cons, List.takeWhile_cons, this, flagsOf_cons]
      split <;> simp [orFlags, setFlag, Bool.or_assoc, Bool.or_comm, Bool.or_left_comm]
    by_cases h3 : c = '-'
    · subst h3
      have : isFlagChar '-' = true := by decide
      simp only [h1, h2, if_false, if_true, ih, List.dropWhile_cons, List.takeWhile_cons, this, flagsOf_cons]
      split <;> simp [orFlags, setFlag, Bool.or_assoc, Bool.or_comm, Bool.or_left_comm]
    by_cases h4 : c = ' '
    · subst h4
      have : isFlagChar ' ' = true := by decide
      simp only [h1, h2, h3, if_false, if_true, ih, List.dropWhile_cons, List.takeWhile_cons, this, flagsOf_cons]
      split <;> simp [orFlags, setFlag, Bool.or_assoc, Bool.or_comm, Bool.or_left_comm]
    by_cases h5 : c = '+'
    · subst h5
      have : isFlagChar '+' = true := by decide
      simp only [h1, h2, h3, h4, if_false, if_true, ih, List.dropWhile_cons, List.takeWhile_cons, this, flagsOf_cons]
      split <;> simp [orFlags, setFlag, Bool.or_assoc, Bool.or_comm, Bool.or_left_comm]
    have hf : isFlagChar c = false := by simp [isFlagChar, h1, h2, h3, h4, h5]
    simp only [h1, h2, h3, h4, h5, if_false, List.dropWhile_cons, List.takeWhile_cons, hf,
      Bool.false_eq_true, reduceCtorEq, flagsOf_nil]
    cases f; simp [orFlags]

/-! ## width / precision digits -/

theorem digitVal_spec (c : Char) :
    digitVal c = if isDigitChar c then some (c.toNat - 48) else none := by
  unfold digitVal isDigitChar
  by_cases h1 : '0' ≤ c <;> by_cases h2 : c ≤ '9' <;> simp [h1, h2]

/-- value of a digit string continuing from `acc` -/
def decFrom (acc : Nat) (cs : List Char) : Nat := cs.foldl (fun a c => a * 10 + (c.toNat - 48)) acc

theorem decFrom_ge (acc : Nat) (cs : List Char) : acc ≤ decFrom acc cs := by
  induction cs generalizing acc with
  | nil => exact Nat.le_refl _
  | cons c cs ih =>
    have := ih (acc * 10 + (c.toNat - 48))
    simp only [decFrom, List.foldl_cons] at this ⊢
    omega

theorem decVal_eq (cs : List Char) : decVal cs = decFrom 0 cs := rfl

theorem parseDigits_spec (acc : Nat) (s : List Char) (hacc : acc ≤ 65535) :
    parseDigits acc s =
      if decFrom acc (s.takeWhile isDigitChar) > 65535 then .error .tooLarge
      else if s.dropWhile isDigitChar = [] then .error .truncated
      else .ok (decFrom acc (s.takeWhile isDigitChar), s.dropWhile isDigitChar) := by
  induction s generalizing acc with
  | nil =>
    have : ¬ acc > 65535 := by omega
    simp [parseDigits, decFrom, this]
  | cons c cs ih =>
    simp only [parseDigits, digitVal_spec]
    by_cases hd : isDigitChar c = true
    · simp only [hd, if_true, List.takeWhile_cons, List.dropWhile_cons]
      by_cases hb : acc * 10 + (c.toNat - 48) > U16_MAX
      · have h2 := decFrom_ge (acc * 10 + (c.toNat - 48)) (cs.takeWhile isDigitChar)
        have h3 : decFrom acc (c :: cs.takeWhile isDigitChar) > 65535 := by
          simp only [decFrom, List.foldl_cons] at h2 ⊢
          unfold U16_MAX at hb; omega
        simp only [hb, if_true, h3]
      · simp only [hb, if_false]
        rw [ih _ (by unfold U16_MAX at hb; omega)]
        rfl
    · simp only [Bool.not_eq_true] at hd
      have : ¬ acc > 65535 := by omega
      simp [hd, decFrom, this]

/-- `try_parse_field_width` against the reference's number field: equal except that the model
    reports `truncated` as soon as the digits run into the end of the text -/
theorem parseWidth_spec (s : List Char) :
    parseWidth s =
      if s = [] then .error .truncated
      else match numField s with
        | .error e => .error e
        | .ok (.star, r) => .ok (.star, r)
        | .ok (.fixed n, r) => if r = [] then .error .truncated else .ok (.fixed n, r) := by
  cases s with
  | nil => rfl
  | cons c cs =>
    by_cases hc : c = '*'
    · subst hc; rfl
    · have hnf : numField (c :: cs) =
          if decVal ((c :: cs).takeWhile isDigitChar) > 65535 then .error .tooLarge
          else .ok (.fixed (decVal ((c :: cs).takeWhile isDigitChar)), (c :: cs).dropWhile isDigitChar) := by
        unfold numField
        split
        · rename_i r heq; injection heq with h1 h2; exact absurd h1 hc
        · rfl
      simp only [parseWidth, hc, if_false, reduceCtorEq, hnf, bind, Except.bind,
        parseDigits_spec 0 (c :: cs) (by omega), decVal_eq]
      by_cases hbig : decFrom 0 ((c :: cs).takeWhile isDigitChar) > 65535
      · simp only [hbig, if_true]
      · by_cases hnil : (c :: cs).dropWhile isDigitChar = []
        · simp only [hbig, hnil, if_false, if_true]
        · simp only [hbig, hnil, if_false, pure, Except.pure]

theorem specPrec_dot (r : List Char) :
    FormatSpec.precField ('.' :: r) =
      (match numField r with | .ok (p, r') => .ok (some p, r') | .error e => .error e) := rfl

theorem specPrec_other (c : Char) (cs : List Char) (hc : c ≠ '.') :
    FormatSpec.precField (c :: cs) = .ok (none, c :: cs) := by
  unfold FormatSpec.precField
  split
  · rename_i r heq; injection heq with h1 h2; exact absurd h1 hc
  · rfl

theorem parseLenMod_spec (s : List Char) :
    parseLenMod s =
      if s.dropWhile isLenMod = [] then .error .truncated else .ok (s.dropWhile isLenMod) := by
  induction s with
  | nil => rfl
  | cons c cs ih =>
    have hm : FMT_LENMOD.contains c = isLenMod c := by
      unfold FMT_LENMOD isLenMod
      simp only [List.contains_cons, List.contains_nil, Bool.or_false]
      by_cases h1 : c = 'h' <;> by_cases h2 : c = 'l' <;> by_cases h3 : c = 'L' <;> simp [h1, h2, h3]
    simp only [parseLenMod, hm, List.dropWhile_cons]
    cases hl : isLenMod c
    · simp
    · simp [ih]

/-! ## assembling one conversion specifier, from the end backwards -/

def mT5 (key : List Char) (fl : Flags) (w : Width) (p : Option Width) (s4 : List Char) : R (Code × List Char) := do
  let s ← parseLenMod s4
  let ((conv, caps), s) ← parseConv s
  pure ({ mkey := key, flags := fl, width := w, prec := p, conv, caps }, s)

def mT4 (key : List Char) (fl : Flags) (w : Width) (s3 : List Char) : R (Code × List Char) := do
  let (p, s) ← parsePrec s3
  mT5 key fl w p s

def mT3 (key : List Char) (fl : Flags) (s2 : List Char) : R (Code × List Char) := do
  let (w, s) ← parseWidth s2
  mT4 key fl w s

def mT2 (key : List Char) (s1 : List Char) : R (Code × List Char) := do
  let (fl, s) ← parseFlags {} s1
  mT3 key fl s

theorem parseCode_unfold (s : List Char) :
    parseCode s = (do let (key, s) ← parseKey s; mT2 key s) := rfl

abbrev sT5 := @FormatSpec.convField

def sT4 (key : List Char) (fl : Flags) (w : Width) (s3 : List Char) : R (Code × List Char) := do
  let (p, s4) ← FormatSpec.precField s3
  sT5 key fl w p s4

def sT3 (key : List Char) (fl : Flags) (s2 : List Char) : R (Code × List Char) := do
  let (w, s3) ← numField s2
  sT4 key fl w s3

theorem parseSpec_unfold (s : List Char) :
    FormatSpec.parseSpec s =
      (do let (key, s1) ← FormatSpec.keyField s
          sT3 key (flagsOf (s1.takeWhile isFlagChar)) (s1.dropWhile isFlagChar)) := by
  rfl

theorem sT5_nil (key fl w p) : sT5 key fl w p [] = .error .truncated := rfl
theorem sT4_nil (key fl w) : sT4 key fl w [] = .error .truncated := rfl
theorem sT3_nil (key fl) : sT3 key fl [] = .error .truncated := rfl

theorem mT5_eq (key fl w p) (s4 : List Char) : mT5 key fl w p s4 = sT5 key fl w p s4 := by
  unfold mT5 sT5 FormatSpec.convField
  simp only [parseLenMod_spec, bind, Except.bind]
  cases h : s4.dropWhile isLenMod with
  | nil => rfl
  | cons c rest =>
    simp only [reduceCtorEq, if_false, parseConv_spec]
    cases FormatSpec.convTable.lookup c with
    | none => rfl
    | some v => rfl

theorem mT4_eq (key fl w) (s3 : List Char) : mT4 key fl w s3 = sT4 key fl w s3 := by
  cases s3 with
  | nil => rfl
  | cons c cs =>
    unfold mT4 sT4
    by_cases hc : c = '.'
    · subst hc
      simp only [parsePrec, if_true, specPrec_dot, bind, Except.bind, parseWidth_spec]
      cases cs with
      | nil => rfl
      | cons d ds =>
        simp only [reduceCtorEq, if_false]
        cases hn : numField (d :: ds) with
        | error e => rfl
        | ok x =>
          obtain ⟨wd, r⟩ := x
          cases wd with
          | star => simp only [pure, Except.pure, mT5_eq]
          | fixed n =>
            simp only [pure, Except.pure]
            by_cases hr : r = []
            · subst hr; simp only [if_true, sT5_nil]
            · simp only [hr, if_false, mT5_eq]
    · simp only [parsePrec, hc, if_false, specPrec_other c cs hc, bind, Except.bind, mT5_eq]

theorem mT3_eq (key fl) (s2 : List Char) : mT3 key fl s2 = sT3 key fl s2 := by
  cases s2 with
  | nil => rfl
  | cons d ds =>
    unfold mT3 sT3
    simp only [parseWidth_spec, reduceCtorEq, if_false, bind, Except.bind]
    cases hn : numField (d :: ds) with
    | error e => rfl
    | ok x =>
      obtain ⟨wd, r⟩ := x
      cases wd with
      | star => simp only [mT4_eq]
      | fixed n =>
        by_cases hr : r = []
        · subst hr; simp only [if_true, sT4_nil]
        · simp only [hr, if_false, mT4_eq]

theorem mT2_eq (key : List Char) (s1 : List Char) :
    mT2 key s1 = sT3 key (flagsOf (s1.takeWhile isFlagChar)) (s1.dropWhile isFlagChar) := by
  unfold mT2
  simp only [parseFlags_spec, orFlags_empty, bind, Except.bind]
  by_cases h : s1.dropWhile isFlagChar = []
  · simp only [h, if_true, sT3_nil]
  · simp only [h, if_false, mT3_eq]

/-- `parse_code` = the reference's conversion-specifier grammar, on every text -/
theorem parseCode_eq (s : List Char) : parseCode s = FormatSpec.parseSpec s := by
  rw [parseCode_unfold, parseSpec_unfold, parseKey_spec]
  cases s with
  | nil => rfl
  | cons c cs =>
    simp only [reduceCtorEq, if_false, bind, Except.bind]
    cases FormatSpec.keyField (c :: cs) with
    | error e => rfl
    | ok x => obtain ⟨k, s1⟩ := x; simp only [mT2_eq]

/-! ## the whole format string -/

theorem spanLit_spec (s : List Char) :
    spanLit s = (s.takeWhile (· ≠ '%'), s.dropWhile (· ≠ '%')) := by
  induction s with
  | nil => rfl
  | cons c cs ih =>
    by_cases hc : c = '%'
    · subst hc; simp [spanLit]
    · simp [spanLit, hc, ih]

theorem parseCodesF_eq (fuel : Nat) (s : List Char) :
    parseCodesF fuel s = FormatSpec.parseFmtF fuel s := by
  induction fuel generalizing s with
  | zero => rfl
  | succ fuel ih =>
    simp only [parseCodesF, FormatSpec.parseFmtF, spanLit_spec, List.isEmpty_iff]
    cases h : s.dropWhile (· ≠ '%') with
    | nil => rfl
    | cons x r =>
      simp only [parseCode_eq, bind, Except.bind]
      cases FormatSpec.parseSpec r with
      | error e => rfl
      | ok y => simp only [ih]

end JrsVerif.Format
