/- C10: the two-pointer merges of sets.rs equal the membership definitions (core Lean only). -/
import JrsVerif.Model.StdArr

namespace JrsVerif.StdArr
open Std

section Sets
variable {α κ : Type}

/-- strictly sorted by key: a set in the sense of `std.set` -/
def SSorted (k : α → κ) (ord : κ → κ → Ordering) (l : List α) : Prop :=
  l.Pairwise (fun x y => ord (k x) (k y) = .lt)

variable {k : α → κ} {ord : κ → κ → Ordering}

theorem SSorted.tail {x : α} {l : List α} (h : SSorted k ord (x :: l)) : SSorted k ord l :=
  (List.pairwise_cons.1 h).2

theorem SSorted.head_lt {x : α} {l : List α} (h : SSorted k ord (x :: l)) :
    ∀ z ∈ l, ord (k x) (k z) = .lt := (List.pairwise_cons.1 h).1

/-- everything in a set headed by `y` is ≥ `y`, hence above anything below `y` -/
theorem lt_all_of_lt_head [TransCmp ord] {x y : α} {l : List α} (h : SSorted k ord (y :: l))
    (hxy : ord (k x) (k y) = .lt) : ∀ z ∈ y :: l, ord (k x) (k z) = .lt := by
  intro z hz
  rcases List.mem_cons.1 hz with rfl | hz
  · exact hxy
  · exact TransCmp.lt_trans hxy (h.head_lt z hz)

theorem lt_all_of_eq_head [TransCmp ord] {x y : α} {l : List α} (h : SSorted k ord (y :: l))
    (hxy : ord (k x) (k y) = .eq) : ∀ z ∈ l, ord (k x) (k z) = .lt := by
  intro z hz
  exact TransCmp.lt_of_eq_of_lt hxy (h.head_lt z hz)

theorem any_keq_false_of_lt {x : α} {l : List α} (h : ∀ z ∈ l, ord (k x) (k z) = .lt) :
    l.any (keq k ord x) = false := by
  rw [List.any_eq_false]
  intro z hz
  simp [keq, h z hz]

theorem keq_false_of_gt [OrientedCmp ord] {x y : α} (h : ord (k y) (k x) = .lt) :
    keq k ord x y = false := by
  have : ord (k x) (k y) = .gt := OrientedCmp.gt_of_lt h
  simp [keq, this]

variable {key : α → Option κ} {cmp : κ → κ → Option Ordering}

theorem interM_eq [TransCmp ord] (hk : ∀ x, key x = some (k x)) (hc : ∀ p q, cmp p q = some (ord p q))
    (a b : List α) (ha : SSorted k ord a) (hb : SSorted k ord b) :
    interM key cmp a b = some (interSpec k ord a b) := by
  fun_induction interM key cmp a b with
  | case1 b => simp [interSpec]
  | case2 x as => simp [interSpec]
  | case3 x as y bs kx ky hx hy hcmp =>
    rw [hc] at hcmp; simp at hcmp
  | case4 x as y bs kx ky hx hy hcmp ih =>
    rw [hk] at hx hy; rw [hc] at hcmp
    cases hx; cases hy; simp only [Option.some.injEq] at hcmp
    rw [ih ha.tail hb]
    have := any_keq_false_of_lt (lt_all_of_lt_head hb hcmp)
    simp only [interSpec, List.filter_cons, this]
    simp
  | case5 x as y bs kx ky hx hy hcmp ih =>
    rw [hk] at hx hy; rw [hc] at hcmp
    cases hx; cases hy; simp only [Option.some.injEq] at hcmp
    rw [ih ha hb.tail]
    have hyx : ord (k y) (k x) = .lt := OrientedCmp.lt_of_gt hcmp
    congr 1
    unfold interSpec
    apply List.filter_congr
    intro z hz
    have hz' : ord (k y) (k z) = .lt := lt_all_of_lt_head ha hyx z hz
    simp [List.any_cons, keq_false_of_gt hz']
  | case6 x as y bs kx ky hx hy hcmp ih =>
    rw [hk] at hx hy; rw [hc] at hcmp
    cases hx; cases hy; simp only [Option.some.injEq] at hcmp
    rw [ih ha.tail hb.tail]
    have hxy : keq k ord x y = true := by simp [keq, hcmp]
    have hyx : ord (k y) (k x) = .eq := OrientedCmp.eq_symm hcmp
    simp only [interSpec, List.filter_cons, List.any_cons, hxy, Bool.true_or, if_true,
      Option.map_some]
    congr 2
    apply List.filter_congr
    intro z hz
    have hz' : ord (k y) (k z) = .lt := TransCmp.lt_of_eq_of_lt hyx (ha.head_lt z hz)
    simp [keq_false_of_gt hz']
  | case7 x as y bs hnone =>
    exfalso
    exact hnone (k x) (k y) (hk x) (hk y)

theorem diffSpec_nil (b : List α) : diffSpec k ord b [] = b := by
  simp [diffSpec]

theorem diffM_eq [TransCmp ord] (hk : ∀ x, key x = some (k x)) (hc : ∀ p q, cmp p q = some (ord p q))
    (a b : List α) (ha : SSorted k ord a) (hb : SSorted k ord b) :
    diffM key cmp a b = some (diffSpec k ord a b) := by
  fun_induction diffM key cmp a b with
  | case1 b => simp [diffSpec]
  | case2 x as => rw [diffSpec_nil]
  | case3 x as y bs kx ky hy hx hcmp => rw [hc] at hcmp; simp at hcmp
  | case4 x as y bs kx ky hy hx hcmp ih =>
    rw [hk] at hx hy; rw [hc] at hcmp
    cases hx; cases hy; simp only [Option.some.injEq] at hcmp
    rw [ih ha.tail hb]
    have := any_keq_false_of_lt (lt_all_of_lt_head hb hcmp)
    simp only [diffSpec, List.filter_cons, this]
    simp
  | case5 x as y bs kx ky hy hx hcmp ih =>
    rw [hk] at hx hy; rw [hc] at hcmp
    cases hx; cases hy; simp only [Option.some.injEq] at hcmp
    rw [ih ha hb.tail]
    have hyx : ord (k y) (k x) = .lt := OrientedCmp.lt_of_gt hcmp
    congr 1
    unfold diffSpec
    apply List.filter_congr
    intro z hz
    have hz' : ord (k y) (k z) = .lt := lt_all_of_lt_head ha hyx z hz
    simp [List.any_cons, keq_false_of_gt hz']
  | case6 x as y bs kx ky hy hx hcmp ih =>
    rw [hk] at hx hy; rw [hc] at hcmp
    cases hx; cases hy; simp only [Option.some.injEq] at hcmp
    rw [ih ha.tail hb.tail]
    have hxy : keq k ord x y = true := by simp [keq, hcmp]
    have hyx : ord (k y) (k x) = .eq := OrientedCmp.eq_symm hcmp
    simp only [diffSpec, List.filter_cons, List.any_cons, hxy, Bool.true_or, Bool.not_true]
    simp only [Bool.false_eq_true, if_false]
    congr 1
    apply List.filter_congr
    intro z hz
    have hz' : ord (k y) (k z) = .lt := TransCmp.lt_of_eq_of_lt hyx (ha.head_lt z hz)
    simp [keq_false_of_gt hz']
  | case7 x as y bs hnone =>
    exfalso
    exact hnone (k x) (k y) (hk x) (hk y)

theorem mem_diffSpec {a b : List α} {z : α} (h : z ∈ diffSpec k ord b a) : z ∈ b :=
  (List.mem_filter.1 h).1

/-- the union merge returns a set whose members are exactly those of `a` and those of `b` whose key
    does not occur in `a` -/
theorem unionM_char [TransCmp ord] (hk : ∀ x, key x = some (k x)) (hc : ∀ p q, cmp p q = some (ord p q))
    (a b : List α) (ha : SSorted k ord a) (hb : SSorted k ord b) :
    ∃ r, unionM key cmp a b = some r ∧ SSorted k ord r ∧
      ∀ z, z ∈ r ↔ (z ∈ a ∨ z ∈ diffSpec k ord b a) := by
  fun_induction unionM key cmp a b with
  | case1 b => exact ⟨b, rfl, hb, by simp [diffSpec]⟩
  | case2 x as =>
    refine ⟨x :: as, rfl, ha, ?_⟩
    intro z; simp [diffSpec]
  | case3 x as y bs kx ky hy hx hcmp => rw [hc] at hcmp; simp at hcmp
  | case4 x as y bs kx ky hy hx hcmp ih =>
    rw [hk] at hx hy; rw [hc] at hcmp
    cases hx; cases hy; simp only [Option.some.injEq] at hcmp
    obtain ⟨r, hr, hs, hm⟩ := ih ha.tail hb
    have hlt := lt_all_of_lt_head hb hcmp
    have hd : diffSpec k ord (y :: bs) (x :: as) = diffSpec k ord (y :: bs) as := by
      unfold diffSpec
      apply List.filter_congr
      intro z hz
      simp [List.any_cons, keq_false_of_gt (hlt z hz)]
    refine ⟨x :: r, by simp [hr], ?_, ?_⟩
    · refine List.pairwise_cons.2 ⟨fun z hz => ?_, hs⟩
      rcases (hm z).1 hz with h | h
      · exact ha.head_lt z h
      · exact hlt z (mem_diffSpec h)
    · intro z; rw [hd]; simp [hm z, or_assoc]
  | case5 x as y bs kx ky hy hx hcmp ih =>
    rw [hk] at hx hy; rw [hc] at hcmp
    cases hx; cases hy; simp only [Option.some.injEq] at hcmp
    obtain ⟨r, hr, hs, hm⟩ := ih ha hb.tail
    have hyx : ord (k y) (k x) = .lt := OrientedCmp.lt_of_gt hcmp
    have hlt := lt_all_of_lt_head ha hyx
    have hd : diffSpec k ord (y :: bs) (x :: as) = y :: diffSpec k ord bs (x :: as) := by
      have := any_keq_false_of_lt hlt
      simp only [diffSpec, List.filter_cons, this]
      simp
    refine ⟨y :: r, by simp [hr], ?_, ?_⟩
    · refine List.pairwise_cons.2 ⟨fun z hz => ?_, hs⟩
      rcases (hm z).1 hz with h | h
      · exact hlt z h
      · exact hb.head_lt z (mem_diffSpec h)
    · intro z; rw [hd]
      simp only [List.mem_cons, hm z]
      constructor
      · rintro (h | h | h)
        · exact Or.inr (Or.inl h)
        · exact Or.inl h
        · exact Or.inr (Or.inr h)
      · rintro (h | h | h)
        · exact Or.inr (Or.inl h)
        · exact Or.inl h
        · exact Or.inr (Or.inr h)
  | case6 x as y bs kx ky hy hx hcmp ih =>
    rw [hk] at hx hy; rw [hc] at hcmp
    cases hx; cases hy; simp only [Option.some.injEq] at hcmp
    obtain ⟨r, hr, hs, hm⟩ := ih ha.tail hb.tail
    have hyx : ord (k y) (k x) = .eq := OrientedCmp.eq_symm hcmp
    have hltb := lt_all_of_eq_head hb hcmp
    have hd : diffSpec k ord (y :: bs) (x :: as) = diffSpec k ord bs as := by
      have hyx' : keq k ord y x = true := by simp [keq, hyx]
      simp only [diffSpec, List.filter_cons, List.any_cons, hyx', Bool.true_or, Bool.not_true]
      simp only [Bool.false_eq_true, if_false]
      apply List.filter_congr
      intro z hz
      simp [keq_false_of_gt (hltb z hz)]
    refine ⟨x :: r, by simp [hr], ?_, ?_⟩
    · refine List.pairwise_cons.2 ⟨fun z hz => ?_, hs⟩
      rcases (hm z).1 hz with h | h
      · exact ha.head_lt z h
      · exact hltb z (mem_diffSpec h)
    · intro z; rw [hd]; simp [hm z, or_assoc]
  | case7 x as y bs hnone =>
    exfalso
    exact hnone (k x) (k y) (hk x) (hk y)

end Sets
section BS
variable {α κ : Type} {k : α → κ} {ord : κ → κ → Ordering}
variable {key : α → Option κ} {cmp : κ → κ → Option Ordering}

theorem SSorted.idx {l : List α} (h : SSorted k ord l) {i j : Nat} {a b : α} (hij : i < j)
    (ha : l[i]? = some a) (hb : l[j]? = some b) : ord (k a) (k b) = .lt := by
  obtain ⟨hi, rfl⟩ := List.getElem?_eq_some_iff.1 ha
  obtain ⟨hj, rfl⟩ := List.getElem?_eq_some_iff.1 hb
  exact (List.pairwise_iff_getElem.1 h) i j hi hj hij

theorem bsearch_eq [TransCmp ord] (hk : ∀ x, key x = some (k x)) (hc : ∀ p q, cmp p q = some (ord p q))
    (arr : List α) (hs : SSorted k ord arr) (kx : κ) (fuel low high : Nat)
    (hf : high - low < fuel) (hlh : low ≤ high) (hhn : high ≤ arr.length)
    (hlo : ∀ i e, i < low → arr[i]? = some e → ord (k e) kx = .lt)
    (hhi : ∀ i e, high ≤ i → arr[i]? = some e → ord (k e) kx = .gt) :
    bsearch key cmp arr.toArray kx fuel low high = some (arr.any (fun y => ord (k y) kx == .eq)) := by
  induction fuel generalizing low high with
  | zero => omega
  | succ fuel ih =>
    unfold bsearch
    by_cases hlt : low < high
    · simp only [hlt, if_true]
      have hm1 : low ≤ (low + high) / 2 := by omega
      have hm2 : (low + high) / 2 < high := by omega
      have hmn : (low + high) / 2 < arr.length := by omega
      have he : arr[(low + high) / 2]? = some arr[(low + high) / 2] := List.getElem?_eq_getElem hmn
      simp only [List.getElem?_toArray, he, hk, hc]
      cases hcm : ord (k arr[(low + high) / 2]) kx with
      | lt =>
        simp only []
        apply ih
        · omega
        · omega
        · exact hhn
        · intro i e hi hie
          by_cases hieq : i = (low + high) / 2
          · subst hieq; rw [he] at hie; cases hie; exact hcm
          · have : i < (low + high) / 2 := by omega
            exact TransCmp.lt_trans (hs.idx this hie he) hcm
        · exact hhi
      | eq =>
        simp only []
        congr 1
        symm
        rw [List.any_eq_true]
        exact ⟨_, List.getElem_mem hmn, by simp [hcm]⟩
      | gt =>
        simp only []
        apply ih
        · omega
        · omega
        · omega
        · exact hlo
        · intro i e hi hie
          by_cases hieq : i = (low + high) / 2
          · subst hieq; rw [he] at hie; cases hie; exact hcm
          · have : (low + high) / 2 < i := by omega
            have h1 := hs.idx this he hie
            exact TransCmp.gt_trans (OrientedCmp.gt_of_lt h1) hcm
    · simp only [hlt, if_false]
      congr 1
      symm
      rw [List.any_eq_false]
      intro e hemem
      obtain ⟨i, hi, rfl⟩ := List.getElem_of_mem hemem
      have hie : arr[i]? = some arr[i] := List.getElem?_eq_getElem hi
      by_cases hil : i < low
      · simp [hlo i _ hil hie]
      · simp [hhi i _ (by omega) hie]

theorem setMemberM_eq [TransCmp ord] (hk : ∀ x, key x = some (k x)) (hc : ∀ p q, cmp p q = some (ord p q))
    (x : α) (arr : List α) (hs : SSorted k ord arr) :
    setMemberM key cmp x arr = some (setMemberSpec k ord x arr) := by
  unfold setMemberM setMemberSpec
  by_cases hemp : arr.isEmpty = true
  · rw [if_pos hemp]
    have : arr = [] := List.isEmpty_iff.1 hemp
    subst this; rfl
  rw [if_neg hemp]
  simp only [hk]
  rw [bsearch_eq hk hc arr hs (k x) (arr.length + 1) 0 arr.length (by omega) (by omega) (Nat.le_refl _)
    (by intro i e hi; omega)
    (by intro i e hi hie
        obtain ⟨h, _⟩ := List.getElem?_eq_some_iff.1 hie
        omega)]
  rfl

end BS

section UnionSpec
variable {α κ : Type} {k : α → κ} {ord : κ → κ → Ordering}
variable {key : α → Option κ} {cmp : κ → κ → Option Ordering}

theorem not_lt_self [TransCmp ord] (x : α) : ord (k x) (k x) ≠ .lt := by
  rw [ReflCmp.compare_self (cmp := ord)]; simp

/-- a set is determined by its members -/
theorem ssorted_ext [TransCmp ord] (l1 l2 : List α) (h1 : SSorted k ord l1) (h2 : SSorted k ord l2)
    (hm : ∀ z, z ∈ l1 ↔ z ∈ l2) : l1 = l2 := by
  induction l1 generalizing l2 with
  | nil =>
    cases l2 with
    | nil => rfl
    | cons y u => exact absurd ((hm y).2 (List.mem_cons_self ..)) (by simp)
  | cons x t ih =>
    cases l2 with
    | nil => exact absurd ((hm x).1 (List.mem_cons_self ..)) (by simp)
    | cons y u =>
      have hxy : x = y := by
        rcases List.mem_cons.1 ((hm x).1 (List.mem_cons_self ..)) with h | h
        · exact h
        · have hyx := h2.head_lt x h
          rcases List.mem_cons.1 ((hm y).2 (List.mem_cons_self ..)) with h' | h'
          · exact h'.symm
          · exact absurd (TransCmp.lt_trans (h1.head_lt y h') hyx) (not_lt_self x)
      subst hxy
      congr 1
      apply ih _ h1.tail h2.tail
      intro z
      constructor
      · intro hz
        rcases List.mem_cons.1 ((hm z).1 (List.mem_cons_of_mem _ hz)) with h | h
        · subst h; exact absurd (h1.head_lt z hz) (not_lt_self z)
        · exact h
      · intro hz
        rcases List.mem_cons.1 ((hm z).2 (List.mem_cons_of_mem _ hz)) with h | h
        · subst h; exact absurd (h2.head_lt z hz) (not_lt_self z)
        · exact h

theorem unionSpec_ssorted [TransCmp ord] (a b : List α) (ha : SSorted k ord a) (hb : SSorted k ord b) :
    SSorted k ord (unionSpec k ord a b) := by
  unfold unionSpec sortSpec
  have hle : (List.mergeSort (a ++ diffSpec k ord b a) (fun x y => (ord (k x) (k y)).isLE)).Pairwise
      (fun x y => (ord (k x) (k y)).isLE = true) := by
    apply List.pairwise_mergeSort
    · intro x y z hxy hyz; exact TransCmp.isLE_trans hxy hyz
    · intro x y
      rw [OrientedCmp.eq_swap (cmp := ord) (a := k y) (b := k x)]
      cases ord (k x) (k y) <;> simp
  have hne0 : (a ++ diffSpec k ord b a).Pairwise (fun x y => ord (k x) (k y) ≠ .eq) := by
    rw [List.pairwise_append]
    refine ⟨ha.imp (fun h => by rw [h]; simp), ?_, ?_⟩
    · exact (List.Pairwise.sublist List.filter_sublist hb).imp (fun h => by rw [h]; simp)
    · intro x hx y hy
      have := (List.mem_filter.1 hy).2
      simp only [Bool.not_eq_true', List.any_eq_false] at this
      have h2 := this x hx
      intro heq
      have : ord (k y) (k x) = .eq := OrientedCmp.eq_symm heq
      simp [keq, this] at h2
  have hne := (List.Perm.pairwise_iff (R := fun x y => ord (k x) (k y) ≠ .eq)
    (fun {x y} h heq => h (OrientedCmp.eq_symm heq))
    (List.mergeSort_perm (a ++ diffSpec k ord b a) (fun x y => (ord (k x) (k y)).isLE))).2 hne0
  refine (hle.and hne).imp ?_
  intro x y h
  obtain ⟨h1, h2⟩ := h
  cases hc : ord (k x) (k y) <;> simp_all

/-- the union merge computes exactly `sort (a ++ (b \ a))` -/
theorem unionM_eq [TransCmp ord] (hk : ∀ x, key x = some (k x)) (hc : ∀ p q, cmp p q = some (ord p q))
    (a b : List α) (ha : SSorted k ord a) (hb : SSorted k ord b) :
    unionM key cmp a b = some (unionSpec k ord a b) := by
  obtain ⟨r, hr, hs, hm⟩ := unionM_char hk hc a b ha hb
  rw [hr]
  congr 1
  apply ssorted_ext r _ hs (unionSpec_ssorted a b ha hb)
  intro z
  rw [hm z]
  simp [unionSpec, sortSpec]

end UnionSpec

end JrsVerif.StdArr
