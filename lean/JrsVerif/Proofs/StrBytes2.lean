/- C11 (round 3) helper lemmas, part 2: the reverse searcher and `rsplitn`, base64 decoder
   soundness, escape tables, f64 rounding of `parse_nat`. -/
import JrsVerif.Proofs.StrBytes

namespace JrsVerif.Str
open Model (nextMatch nextMatchBack splitnF rsplitnF replaceF)

/-! ### leftmost / rightmost characterisation of the searchers (any lists) -/

theorem nextMatch_none {pat : List Nat} (hp : pat ≠ []) : ∀ {s : List Nat}, nextMatch pat s = none →
    ∀ p q, s ≠ p ++ pat ++ q := by
  intro s
  induction s with
  | nil => intro _ p q h; simp at h; exact hp h.2.1
  | cons b t ih =>
    intro h p q he
    by_cases hpre : pat.isPrefixOf (b :: t) = true
    · rw [nextMatch_hit _ _ _ hpre] at h; cases h
    · have hpre' := Bool.eq_false_iff.mpr hpre
      rw [nextMatch_skip _ _ _ hpre'] at h
      cases p with
      | nil =>
        apply hpre
        rw [List.isPrefixOf_iff_prefix]
        exact ⟨q, by simpa using he.symm⟩
      | cons x p =>
        simp only [List.cons_append, List.cons.injEq] at he
        cases hn : nextMatch pat t with
        | none => exact ih hn p q he.2
        | some pq => rw [hn] at h; simp at h

theorem nextMatch_leftmost {pat : List Nat} : ∀ {s p q : List Nat}, nextMatch pat s = some (p, q) →
    ∀ p' q', s = p' ++ pat ++ q' → p.length ≤ p'.length := by
  intro s
  induction s with
  | nil => intro p q h; simp [nextMatch] at h
  | cons b t ih =>
    intro p q h p' q' he
    by_cases hpre : pat.isPrefixOf (b :: t) = true
    · rw [nextMatch_hit _ _ _ hpre] at h
      simp only [Option.some.injEq, Prod.mk.injEq] at h
      rw [← h.1]; simp
    · have hpre' := Bool.eq_false_iff.mpr hpre
      rw [nextMatch_skip _ _ _ hpre'] at h
      cases p' with
      | nil =>
        exfalso; apply hpre
        rw [List.isPrefixOf_iff_prefix]
        exact ⟨q', by simpa using he.symm⟩
      | cons x p' =>
        simp only [List.cons_append, List.cons.injEq] at he
        cases hn : nextMatch pat t with
        | none => rw [hn] at h; simp at h
        | some pq =>
          rw [hn] at h
          simp only [Option.map_some, Option.some.injEq, Prod.mk.injEq] at h
          have := ih (p := pq.1) (q := pq.2) hn p' q' he.2
          rw [← h.1]; simp; omega

theorem nextMatchBack_eq {pat : List Nat} : ∀ {s p q : List Nat}, nextMatchBack pat s = some (p, q) →
    s = p ++ pat ++ q := by
  intro s
  induction s with
  | nil => intro p q h; simp [nextMatchBack] at h
  | cons b t ih =>
    intro p q h
    simp only [nextMatchBack] at h
    cases hn : nextMatchBack pat t with
    | some pq =>
      rw [hn] at h
      simp only [Option.some.injEq, Prod.mk.injEq] at h
      have := ih (p := pq.1) (q := pq.2) hn
      rw [← h.1, ← h.2]; simp [← this]
    | none =>
      rw [hn] at h
      simp only at h
      split at h
      · rename_i hpre
        simp only [Option.some.injEq, Prod.mk.injEq] at h
        obtain ⟨k, hk⟩ := List.isPrefixOf_iff_prefix.mp hpre
        rw [← h.1, ← h.2, ← hk]; simp
      · cases h

theorem nextMatchBack_none {pat : List Nat} (hp : pat ≠ []) : ∀ {s : List Nat},
    nextMatchBack pat s = none → ∀ p q, s ≠ p ++ pat ++ q := by
  intro s
  induction s with
  | nil => intro _ p q h; simp at h; exact hp h.2.1
  | cons b t ih =>
    intro h p q he
    simp only [nextMatchBack] at h
    cases hn : nextMatchBack pat t with
    | some pq => rw [hn] at h; simp at h
    | none =>
      rw [hn] at h
      simp only at h
      split at h
      · cases h
      · rename_i hpre
        cases p with
        | nil =>
          apply hpre
          rw [List.isPrefixOf_iff_prefix]
          exact ⟨q, by simpa using he.symm⟩
        | cons x p =>
          simp only [List.cons_append, List.cons.injEq] at he
          exact ih hn p q he.2

theorem nextMatchBack_rightmost {pat : List Nat} (hp : pat ≠ []) : ∀ {s p q : List Nat},
    nextMatchBack pat s = some (p, q) → ∀ p' q', s = p' ++ pat ++ q' → p'.length ≤ p.length := by
  intro s
  induction s with
  | nil => intro p q h; simp [nextMatchBack] at h
  | cons b t ih =>
    intro p q h p' q' he
    simp only [nextMatchBack] at h
    cases hn : nextMatchBack pat t with
    | some pq =>
      rw [hn] at h
      simp only [Option.some.injEq, Prod.mk.injEq] at h
      cases p' with
      | nil => simp
      | cons x p' =>
        simp only [List.cons_append, List.cons.injEq] at he
        have := ih (p := pq.1) (q := pq.2) hn p' q' he.2
        rw [← h.1]; simp; omega
    | none =>
      rw [hn] at h
      cases p' with
      | nil => simp
      | cons x p' =>
        simp only [List.cons_append, List.cons.injEq] at he
        exact absurd he.2 (nextMatchBack_none hp hn p' q')

/-- searching backwards is searching forwards in the reversed string for the reversed needle -/
theorem nextMatch_reverse (pat s : List Nat) (hp : pat ≠ []) :
    nextMatch pat.reverse s.reverse =
      (nextMatchBack pat s).map (fun pq => (pq.2.reverse, pq.1.reverse)) := by
  have hpr : pat.reverse ≠ [] := by simpa using hp
  cases hb : nextMatchBack pat s with
  | none =>
    cases hf : nextMatch pat.reverse s.reverse with
    | none => rfl
    | some pq =>
      exfalso
      have e := nextMatch_eq (p := pq.1) (q := pq.2) hf
      have e' := congrArg List.reverse e
      simp only [List.reverse_reverse, List.reverse_append] at e'
      exact nextMatchBack_none hp hb pq.2.reverse pq.1.reverse (by simpa [List.append_assoc] using e')
  | some pq =>
    obtain ⟨p, q⟩ := pq
    have e := nextMatchBack_eq hb
    have er : s.reverse = q.reverse ++ pat.reverse ++ p.reverse := by
      rw [e]; simp [List.append_assoc]
    cases hf : nextMatch pat.reverse s.reverse with
    | none => exact absurd er (nextMatch_none hpr hf _ _)
    | some pq2 =>
      obtain ⟨p2, q2⟩ := pq2
      have e2 := nextMatch_eq hf
      have l1 := nextMatch_leftmost hf q.reverse p.reverse er
      have e2' : s = q2.reverse ++ pat ++ p2.reverse := by
        have := congrArg List.reverse e2
        simpa [List.append_assoc] using this
      have l2 := nextMatchBack_rightmost hp hb q2.reverse p2.reverse e2'
      have hl := congrArg List.length e
      have hl2 := congrArg List.length e2'
      simp only [List.length_append, List.length_reverse] at hl hl2 l1 l2
      have hlen : p2.length = q.reverse.length := by simp; omega
      have hh : p2 ++ (pat.reverse ++ q2) = q.reverse ++ (pat.reverse ++ p.reverse) := by
        rw [← List.append_assoc, ← List.append_assoc, ← e2, ← er]
      obtain ⟨h1, h2⟩ := List.append_inj hh hlen
      have h3 := List.append_cancel_left h2
      simp [h1, h3]

/-! ### rsplitn -/

theorem rsplitnF_eq (pat : List Nat) (hp : pat ≠ []) (f : Nat) : ∀ (n : Nat) (s : List Nat),
    s.length < f →
      rsplitnF pat f (n + 1) s = (Spec.splitGo pat.reverse (some n) s.reverse []).map List.reverse := by
  have hpr : pat.reverse ≠ [] := by simpa using hp
  induction f with
  | zero => intro n s h; omega
  | succ f ih =>
    intro n s hf
    cases n with
    | zero => simp [rsplitnF, splitGo_lim0]
    | succ m =>
      simp only [rsplitnF]
      rw [splitGo_step pat.reverse hpr (some (m + 1)) (by simp), nextMatch_reverse pat s hp]
      cases hn : nextMatchBack pat s with
      | none => simp
      | some pq =>
        have e := congrArg List.length (nextMatchBack_eq (p := pq.1) (q := pq.2) hn)
        have : 0 < pat.length := List.length_pos_iff.mpr hp
        simp only [List.length_append] at e
        simp [ih m pq.1 (by omega)]

theorem rsplitnF_enc (sep : List Nat) (hsep : sep ≠ []) (N : Nat) : ∀ (f f' count : Nat) (s : List Nat),
    s.length < N → (enc s).length < f → s.length < f' →
      rsplitnF (enc sep) f count (enc s) = (rsplitnF sep f' count s).map enc := by
  induction N with
  | zero => intro f f' count s h; omega
  | succ N ih =>
    intro f f' count s hN hf hf'
    cases f with
    | zero => omega
    | succ f =>
      cases f' with
      | zero => omega
      | succ f' =>
        simp only [rsplitnF]
        by_cases h0 : count = 0
        · simp [h0]
        · by_cases h1 : count = 1
          · simp [h1]
          · simp only [beq_iff_eq, h0, h1, if_false]
            rw [nextMatchBack_enc sep s hsep]
            cases hn : nextMatchBack sep s with
            | none => simp
            | some pq =>
              have e := nextMatchBack_eq (p := pq.1) (q := pq.2) hn
              have e1 := congrArg List.length e
              have e2 := congrArg (fun l => (enc l).length) e
              have : 0 < sep.length := List.length_pos_iff.mpr hsep
              have := length_le_enc sep
              simp only [List.length_append, enc_append] at e1 e2
              simp [ih f f' (count - 1) pq.1 (by omega) (by omega) (by omega)]

theorem splitLimitRBytes_eq (s sep : List Nat) (lim : Option Nat) (hsep : sep ≠ []) :
    Model.splitLimitRBytes s sep lim = (Spec.splitLimitR s sep lim).map enc := by
  unfold Model.splitLimitRBytes Spec.splitLimitR
  cases lim with
  | none =>
    have := splitLimitBytes_eq s sep none hsep
    unfold Model.splitLimitBytes at this
    simpa using this
  | some n =>
    simp only
    rw [rsplitnF_enc sep hsep (s.length + 1) _ (s.length + 1) (n + 1) s (by omega) (by omega) (by omega),
      rsplitnF_eq sep hsep _ n s (by omega)]
    simp [List.map_reverse]

/-! ### base64: the decoder accepts canonical encodings only -/

theorem b64Char_of_b64Val {c v : Nat} (h : Spec.b64Val c = some v) : v < 64 ∧ Spec.b64Char v = c := by
  unfold Spec.b64Val at h
  unfold Spec.b64Char
  repeat' split at h
  all_goals cases h
  all_goals refine ⟨by omega, ?_⟩
  all_goals repeat' split
  all_goals first | omega | (simp at * <;> omega) | skip

theorem b64Val_pad : Spec.b64Val 61 = none := by decide

/-! ### trim -/

theorem trimPred_eq (v : Nat) : Model.trimPred v = Spec.trimSet.contains v := by
  rw [Bool.eq_iff_iff]
  simp [Model.trimPred, Spec.trimSet, or_assoc]

theorem trim_eq (s : List Nat) : Model.trim s = Spec.strip s Spec.trimSet := by
  unfold Model.trim Spec.strip Spec.rstrip Spec.lstrip
  have : Model.trimPred = fun c => Spec.trimSet.contains c := funext trimPred_eq
  rw [this]

/-! ### escape tables -/

theorem escape_table_size : JrsVerif.Generated.Escape.ESCAPE.size = 256 := by decide +kernel

theorem escJsonByte_low : ∀ c, c < 128 → Model.escJsonByte c = enc (Spec.escJson1 c) := by
  decide +kernel

theorem escRow_high_table : ∀ b, b < 256 → 128 ≤ b → Model.escRow b = 0 := by decide +kernel

theorem escJsonByte_high (b : Nat) (h : 128 ≤ b) : Model.escJsonByte b = [b] := by
  have : Model.escRow b = 0 := by
    by_cases hb : b < 256
    · exact escRow_high_table b hb h
    · unfold Model.escRow
      rw [Array.getD_eq_getD_getElem?, Array.getElem?_eq_none (by rw [escape_table_size]; omega)]
      rfl
  simp [Model.escJsonByte, this]

theorem escJson1_high (c : Nat) (h : 128 ≤ c) : Spec.escJson1 c = [c] := by
  unfold Spec.escJson1
  have e : ∀ k, k < 128 → (c == k) = false := fun k hk => by simp; omega
  simp [e, show ¬ c < 32 by omega]

theorem xmlEscByte_low : ∀ c, c < 128 →
    Model.xmlEscByte c = enc ((fun c =>
      if c == 60 then "&lt;".toList.map Char.toNat
      else if c == 62 then "&gt;".toList.map Char.toNat
      else if c == 38 then "&amp;".toList.map Char.toNat
      else if c == 34 then "&quot;".toList.map Char.toNat
      else if c == 39 then "&apos;".toList.map Char.toNat
      else [c]) c) := by
  decide +kernel

/-! ### `parse_nat`: rounding -/

/-- `roundF64` returns a multiple of the unit in the last place of its argument that is at most
    half a unit away, and on a tie the even multiple -/
theorem roundF64_nearest (n : Nat) (h : 2 ^ 53 ≤ n) :
    ∃ q, Model.roundF64 n = q * 2 ^ (n.log2 - 52) ∧
      2 * (Model.roundF64 n - n) ≤ 2 ^ (n.log2 - 52) ∧ 2 * (n - Model.roundF64 n) ≤ 2 ^ (n.log2 - 52) ∧
      ((2 * (Model.roundF64 n - n) = 2 ^ (n.log2 - 52) ∨ 2 * (n - Model.roundF64 n) = 2 ^ (n.log2 - 52)) →
        q % 2 = 0) := by
  have hlog : 53 ≤ n.log2 := by
    have : n ≠ 0 := by intro e; subst e; simp at h
    exact (Nat.le_log2 this).mpr h
  have hn : ¬ n < 2 ^ 53 := by omega
  unfold Model.roundF64
  simp only [hn, if_false]
  generalize he : n.log2 - 52 = e
  have he1 : 1 ≤ e := by omega
  have hP : 2 ^ e = 2 * 2 ^ (e - 1) := by
    rw [← Nat.pow_succ']; congr 1; omega
  have hdm := Nat.div_add_mod n (2 ^ e)
  have hlt : n % 2 ^ e < 2 ^ e := Nat.mod_lt _ (Nat.two_pow_pos e)
  generalize hH : 2 ^ (e - 1) = H at *
  generalize hPP : 2 ^ e = P at *
  generalize hq : n / P = q at *
  generalize hr : n % P = r at *
  have hmul : (q + 1) * P = P * q + P := by rw [Nat.add_mul, Nat.mul_comm]; simp
  have hmul0 : q * P = P * q := Nat.mul_comm _ _
  by_cases hup : (r > H || (r == H && q % 2 == 1)) = true
  · refine ⟨q + 1, by simp [hup], ?_⟩
    simp only [hup, if_true, hmul]
    simp only [Bool.or_eq_true, decide_eq_true_eq, Bool.and_eq_true, beq_iff_eq] at hup
    refine ⟨by omega, by omega, ?_⟩
    intro _; omega
  · refine ⟨q, by simp [hup], ?_⟩
    simp only [hup, Bool.false_eq_true, if_false, hmul0]
    simp only [Bool.or_eq_true, decide_eq_true_eq, Bool.and_eq_true, beq_iff_eq, not_or, not_and] at hup
    refine ⟨by omega, by omega, ?_⟩
    intro _; omega

end JrsVerif.Str
