/- Helper lemmas for C01/C04: `parse_function_call`'s counting logic equals the declarative
   argument-binding rule, and its `unreachable!()` is unreachable. -/
import JrsVerif.Model.Bind
import Batteries.Data.List.Perm

namespace JrsVerif.Bind

theorem has_iff (env : List (String × Src)) (n : String) :
    has env n = true ↔ n ∈ env.map (·.1) := by
  simp only [has, List.any_eq_true, List.mem_map]
  constructor
  · rintro ⟨p, hp, he⟩; exact ⟨p, hp, by simpa using he⟩
  · rintro ⟨p, hp, he⟩; exact ⟨p, hp, by simp [he]⟩

theorem has_append (a b : List (String × Src)) (n : String) :
    has (a ++ b) n = (has a n || has b n) := by simp [has, List.any_append]

/-! #### positional -/

theorem bindPos_names (ps : List Param) (k i : Nat) :
    (bindPos ps k i).map (·.1) = (names ps).take k := by
  induction ps generalizing k i with
  | nil => cases k <;> simp [bindPos, names]
  | cons p ps ih =>
    cases k with
    | zero => simp [bindPos]
    | succ k =>
      have := ih k (i + 1)
      simp only [names] at this
      simp [bindPos, names, this]

theorem bindPos_length (ps : List Param) (k i : Nat) (hk : k ≤ ps.length) :
    (bindPos ps k i).length = k := by
  have := congrArg List.length (bindPos_names ps k i)
  simp [names] at this
  omega

theorem lookup_bindPos (ps : List Param) (hnd : (names ps).Nodup) (k i0 : Nat) (i : Nat) (p : Param)
    (hp : ps[i]? = some p) (hi : i < k) (rest : List (String × Src)) :
    lookup (bindPos ps k i0 ++ rest) p.1 = some (.pos (i0 + i)) := by
  induction ps generalizing k i0 i with
  | nil => simp at hp
  | cons q ps ih =>
    cases k with
    | zero => omega
    | succ k =>
      cases i with
      | zero =>
        simp at hp; subst hp
        simp [bindPos, lookup]
      | succ i =>
        simp at hp
        have hc : names (q :: ps) = q.1 :: names ps := rfl
        rw [hc] at hnd
        have hnd' : (names ps).Nodup := (List.nodup_cons.mp hnd).2
        have hne : q.1 ≠ p.1 := by
          intro he
          have hm : p ∈ ps := List.mem_of_getElem? hp
          have : p.1 ∈ names ps := List.mem_map_of_mem (f := (·.1)) hm
          exact (List.nodup_cons.mp hnd).1 (he ▸ this)
        have := ih hnd' k (i0 + 1) i hp (by omega)
        simp only [bindPos, List.cons_append, lookup, List.find?_cons]
        have hb : (q.1 == p.1) = false := by simpa using hne
        simp only [hb]
        simp only [lookup] at this
        rw [this]; congr 2; omega


/-! #### named -/

def namedEnv : List String → Nat → List (String × Src)
  | [], _ => []
  | n :: r, j => (n, .named j) :: namedEnv r (j + 1)

theorem namedEnv_names (named : List String) (j : Nat) : (namedEnv named j).map (·.1) = named := by
  induction named generalizing j with
  | nil => rfl
  | cons n r ih => simp [namedEnv, ih]

theorem bindNamed_ok_iff (ps : List Param) (env : List (String × Src)) (named : List String) (j : Nat)
    (env' : List (String × Src)) :
    bindNamed ps env named j = .ok env' ↔
      ((∀ n ∈ named, n ∈ names ps) ∧ (∀ n ∈ named, has env n = false) ∧ named.Nodup
        ∧ env' = env ++ namedEnv named j) := by
  induction named generalizing env j with
  | nil =>
    simp only [bindNamed, namedEnv, List.append_nil, List.not_mem_nil, false_imp_iff, implies_true,
      List.nodup_nil, true_and]
    constructor
    · intro h; cases h; rfl
    · intro h; rw [h]
  | cons n r ih =>
    simp only [bindNamed]
    by_cases h1 : (names ps).contains n = true
    · simp only [h1, Bool.not_true, Bool.false_eq_true, ↓reduceIte]
      by_cases h2 : has env n = true
      · simp only [h2, ↓reduceIte]
        constructor
        · intro h; cases h
        · rintro ⟨_, hh, _, _⟩
          have := hh n (by simp)
          rw [h2] at this; cases this
      · simp only [h2, Bool.false_eq_true, ↓reduceIte]
        rw [ih]
        have h1' : n ∈ names ps := by simpa using h1
        have h2' : has env n = false := by simpa using h2
        constructor
        · rintro ⟨ha, hb, hc, hd⟩
          refine ⟨?_, ?_, ?_, ?_⟩
          · intro m hm
            rcases List.mem_cons.mp hm with e | hm
            · subst e; exact h1'
            · exact ha m hm
          · intro m hm
            rcases List.mem_cons.mp hm with e | hm
            · subst e; exact h2'
            · have := hb m hm
              rw [has_append] at this
              simpa using (Bool.or_eq_false_iff.mp this).1
          · refine List.nodup_cons.mpr ⟨?_, hc⟩
            intro hm
            have := hb n hm
            rw [has_append] at this
            have h3 := (Bool.or_eq_false_iff.mp this).2
            simp [has] at h3
          · rw [hd]; simp [namedEnv, List.append_assoc]
        · rintro ⟨ha, hb, hc, hd⟩
          have hc' := List.nodup_cons.mp hc
          refine ⟨?_, ?_, hc'.2, ?_⟩
          · intro m hm; exact ha m (List.mem_cons_of_mem _ hm)
          · intro m hm
            rw [has_append]
            have h3 : has env m = false := hb m (List.mem_cons_of_mem _ hm)
            have h4 : has [(n, Src.named j)] m = false := by
              simp only [has, List.any_cons, List.any_nil, Bool.or_false, beq_eq_false_iff_ne, ne_eq]
              intro e; subst e; exact hc'.1 hm
            simp [h3, h4]
          · rw [hd]; simp [namedEnv, List.append_assoc]
    · simp only [h1, Bool.not_false, ↓reduceIte]
      constructor
      · intro h; cases h
      · rintro ⟨ha, _⟩
        have := ha n (by simp)
        exact absurd (by simpa using this) h1


/-! #### lookup -/

theorem lookup_append_of_not_has (a b : List (String × Src)) (n : String) (h : has a n = false) :
    lookup (a ++ b) n = lookup b n := by
  induction a with
  | nil => rfl
  | cons x r ih =>
    simp only [has, List.any_cons, Bool.or_eq_false_iff] at h
    have hr : has r n = false := h.2
    simp only [List.cons_append, lookup, List.find?_cons, h.1]
    exact ih hr

theorem lookup_none_of_not_has (a : List (String × Src)) (n : String) (h : has a n = false) :
    lookup a n = none := by
  have := lookup_append_of_not_has a [] n h
  simpa [lookup] using this

theorem lookup_namedEnv (named : List String) (j : Nat) (n : String) (rest : List (String × Src)) :
    lookup (namedEnv named j ++ rest) n =
      match indexOf? named n with
      | some k => some (.named (j + k))
      | none => lookup rest n := by
  induction named generalizing j with
  | nil => simp [namedEnv, indexOf?]
  | cons m r ih =>
    simp only [namedEnv, List.cons_append, lookup, List.find?_cons, indexOf?]
    by_cases h : m == n
    · simp [h]
    · simp only [h, Bool.false_eq_true, ↓reduceIte]
      have := ih (j + 1)
      simp only [lookup] at this
      rw [this]
      cases indexOf? r n with
      | none => rfl
      | some k => simp; omega

theorem indexOf?_isSome (l : List String) (n : String) : (indexOf? l n).isSome = l.contains n := by
  induction l with
  | nil => rfl
  | cons m r ih =>
    by_cases h : m = n
    · subst h; simp [indexOf?]
    · have h1 : (m == n) = false := by simpa using h
      have h2 : (n == m) = false := by simpa using (Ne.symm h)
      simp only [indexOf?, h1, Bool.false_eq_true, ↓reduceIte, Option.isSome_map, List.contains_cons,
        h2, Bool.false_or]
      exact ih

theorem has_cons (x : String × Src) (l : List (String × Src)) (n : String) :
    has (x :: l) n = (x.1 == n || has l n) := by simp [has]

/-! #### defaults -/

theorem has_bindDefaults (passed : List (String × Src)) (ps : List Param) (n : String) :
    has (bindDefaults passed ps) n = ps.any (fun p => p.1 == n && (p.2 && !has passed p.1)) := by
  induction ps with
  | nil => rfl
  | cons p r ih =>
    simp only [bindDefaults, List.any_cons]
    split
    · rename_i h
      rw [has_cons, ih, h]; simp
    · rename_i h
      have h' : (p.2 && !has passed p.1) = false := by simpa using h
      rw [ih, h']; simp

theorem lookup_bindDefaults (passed : List (String × Src)) (ps : List Param) (p : Param)
    (hp : p ∈ ps) (hnd : (names ps).Nodup) :
    lookup (bindDefaults passed ps) p.1 = if p.2 && !has passed p.1 then some .dflt else none := by
  induction ps with
  | nil => cases hp
  | cons q r ih =>
    have hc : names (q :: r) = q.1 :: names r := rfl
    rw [hc] at hnd
    have hnd' := (List.nodup_cons.mp hnd)
    rcases List.mem_cons.mp hp with e | hm
    · subst e
      simp only [bindDefaults]
      by_cases h : (p.2 && !has passed p.1) = true
      · simp [h, lookup]
      · simp only [h, Bool.false_eq_true, ↓reduceIte]
        apply lookup_none_of_not_has
        rw [has_bindDefaults]
        apply List.any_eq_false.mpr
        intro x hx
        have hne : x.1 ≠ p.1 := by
          intro e
          exact hnd'.1 (e ▸ List.mem_map_of_mem (f := (·.1)) hx)
        have : (x.1 == p.1) = false := by simpa using hne
        simp [this]
    · have hne : q.1 ≠ p.1 := by
        intro e
        exact hnd'.1 (e ▸ List.mem_map_of_mem (f := (·.1)) hm)
      simp only [bindDefaults]
      split
      · simp only [lookup, List.find?_cons]
        have : (q.1 == p.1) = false := by simpa using hne
        simp only [this]
        have := ih hm hnd'.2
        simpa [lookup] using this
      · exact ih hm hnd'.2


/-! #### counting: named arguments and the parameters beyond the positional prefix -/

structure NamedWF (ps : List Param) (npos : Nat) (named : List String) : Prop where
  nd : named.Nodup
  sub : ∀ n ∈ named, n ∈ names ps
  disj : ∀ n ∈ named, n ∉ (names ps).take npos

theorem named_subset_drop {ps : List Param} {npos : Nat} {named : List String}
    (w : NamedWF ps npos named) : named ⊆ (names ps).drop npos := by
  intro n hn
  have h1 := w.sub n hn
  rw [← List.take_append_drop npos (names ps)] at h1
  rcases List.mem_append.mp h1 with h | h
  · exact absurd h (w.disj n hn)
  · exact h

theorem named_length_le {ps : List Param} {npos : Nat} {named : List String}
    (w : NamedWF ps npos named) (hle : npos ≤ ps.length) : named.length + npos ≤ ps.length := by
  have := (List.subperm_of_subset w.nd (named_subset_drop w)).length_le
  simp [names] at this
  omega

theorem named_covers_of_length {ps : List Param} {npos : Nat} {named : List String}
    (w : NamedWF ps npos named) (hle : npos ≤ ps.length) (hlen : ps.length ≤ named.length + npos) :
    ∀ n ∈ (names ps).drop npos, n ∈ named := by
  have sp := List.subperm_of_subset w.nd (named_subset_drop w)
  have hp := sp.perm_of_length_le (by simp [names]; omega)
  intro n hn
  exact hp.mem_iff.mpr hn

theorem named_length_of_covers {ps : List Param} {npos : Nat} {named : List String}
    (w : NamedWF ps npos named) (hnd : (names ps).Nodup) (hle : npos ≤ ps.length)
    (hc : ∀ n ∈ (names ps).drop npos, n ∈ named) : named.length + npos = ps.length := by
  have h1 := named_length_le w hle
  have ndd : ((names ps).drop npos).Nodup := (List.drop_sublist npos _).nodup hnd
  have := (List.subperm_of_subset ndd hc).length_le
  simp [names] at this
  omega

theorem firstUnbound_none_iff (named : List String) (qs : List Param) :
    firstUnbound named qs = none ↔ ∀ p ∈ qs, p.1 ∈ named := by
  induction qs with
  | nil => simp [firstUnbound]
  | cons q r ih =>
    simp only [firstUnbound]
    by_cases h : named.contains q.1 = true
    · simp only [h, ↓reduceIte, ih, List.mem_cons, forall_eq_or_imp]
      have : q.1 ∈ named := by simpa using h
      simp [this]
    · simp only [h, Bool.false_eq_true, ↓reduceIte, List.mem_cons, forall_eq_or_imp]
      have : ¬ q.1 ∈ named := by simpa using h
      simp [this]

theorem mem_take_names_of_lt (ps : List Param) (npos i : Nat) (p : Param) (hp : ps[i]? = some p)
    (hi : i < npos) : p.1 ∈ (names ps).take npos := by
  have : (names ps)[i]? = some p.1 := by simp [names, hp]
  apply List.mem_of_getElem? (i := i)
  rw [List.getElem?_take]; simp [hi, this]

theorem mem_drop_names_of_ge (ps : List Param) (npos i : Nat) (p : Param) (hp : ps[i]? = some p)
    (hi : npos ≤ i) : p.1 ∈ (names ps).drop npos := by
  have : (names ps)[i]? = some p.1 := by simp [names, hp]
  apply List.mem_of_getElem? (i := i - npos)
  rw [List.getElem?_drop]
  have e : npos + (i - npos) = i := by omega
  rw [e]; exact this

theorem not_mem_take_of_ge (ps : List Param) (hnd : (names ps).Nodup) (npos i : Nat) (p : Param)
    (hp : ps[i]? = some p) (hi : npos ≤ i) : p.1 ∉ (names ps).take npos := by
  intro hm
  have hd := mem_drop_names_of_ge ps npos i p hp hi
  rw [← List.take_append_drop npos (names ps)] at hnd
  exact (List.nodup_append.mp hnd).2.2 _ hm _ hd rfl


/-! #### the defaults that get applied -/

theorem param_inj (qs : List Param) (hq : (names qs).Nodup) :
    ∀ a ∈ qs, ∀ b ∈ qs, a.1 = b.1 → a = b := by
  induction qs with
  | nil => intro a ha; cases ha
  | cons q r ih =>
    intro a ha b hb hab
    have hc : names (q :: r) = q.1 :: names r := rfl
    rw [hc] at hq
    have hq' := List.nodup_cons.mp hq
    rcases List.mem_cons.mp ha with ea | ha' <;> rcases List.mem_cons.mp hb with eb | hb'
    · rw [ea, eb]
    · exfalso; exact hq'.1 (by rw [← ea, hab]; exact List.mem_map_of_mem (f := (·.1)) hb')
    · exfalso; exact hq'.1 (by rw [← eb, ← hab]; exact List.mem_map_of_mem (f := (·.1)) ha')
    · exact ih hq'.2 a ha' b hb' hab

theorem defaults_mem_iff (passed : List (String × Src)) (ps : List Param) (n : String) :
    n ∈ (bindDefaults passed ps).map (·.1) ↔ ∃ x ∈ ps, x.1 = n ∧ x.2 = true ∧ has passed x.1 = false := by
  rw [← has_iff, has_bindDefaults, List.any_eq_true]
  constructor
  · rintro ⟨x, hx, hxe⟩
    simp only [Bool.and_eq_true, beq_iff_eq, Bool.not_eq_true'] at hxe
    exact ⟨x, hx, hxe.1, hxe.2.1, hxe.2.2⟩
  · rintro ⟨x, hx, h1, h2, h3⟩
    subst h1
    exact ⟨x, hx, by simp [h2, h3]⟩

theorem defaults_names_nodup (passed : List (String × Src)) (qs : List Param) (hq : (names qs).Nodup) :
    ((bindDefaults passed qs).map (·.1)).Nodup := by
  induction qs with
  | nil => exact List.nodup_nil
  | cons q r ih =>
    have hc : names (q :: r) = q.1 :: names r := rfl
    rw [hc] at hq
    have hq' := List.nodup_cons.mp hq
    simp only [bindDefaults]
    split
    · simp only [List.map_cons]
      refine List.nodup_cons.mpr ⟨?_, ih hq'.2⟩
      intro hm
      obtain ⟨x, hx, hxe, _⟩ := (defaults_mem_iff passed r q.1).mp hm
      exact hq'.1 (hxe ▸ List.mem_map_of_mem (f := (·.1)) hx)
    · exact ih hq'.2

/-- with `passed = positional ++ named`, the named arguments and the applied defaults together
    are a duplicate-free list of parameters beyond the positional prefix -/
theorem named_defaults_nodup_sub {ps : List Param} {npos : Nat} {named : List String}
    (w : NamedWF ps npos named) (hnd : (names ps).Nodup) (passed : List (String × Src))
    (hpassed : passed = bindPos ps npos 0 ++ namedEnv named 0) :
    (named ++ (bindDefaults passed ps).map (·.1)).Nodup
      ∧ (named ++ (bindDefaults passed ps).map (·.1)) ⊆ (names ps).drop npos := by
  constructor
  · refine List.nodup_append.mpr ⟨w.nd, defaults_names_nodup passed ps hnd, ?_⟩
    intro a ha b hb hab
    subst hab
    obtain ⟨x, _, hx1, _, hx3⟩ := (defaults_mem_iff passed ps a).mp hb
    have : has passed x.1 = true := by
      rw [has_iff, hpassed, List.map_append, namedEnv_names]
      exact List.mem_append_right _ (hx1 ▸ ha)
    rw [this] at hx3; cases hx3
  · intro n hn
    rcases List.mem_append.mp hn with h1 | h1
    · exact named_subset_drop w h1
    · obtain ⟨x, hx, hx1, _, hx3⟩ := (defaults_mem_iff passed ps n).mp h1
      have hx' : x.1 ∈ names ps := List.mem_map_of_mem (f := (·.1)) hx
      rw [← List.take_append_drop npos (names ps)] at hx'
      rcases List.mem_append.mp hx' with h2 | h2
      · exfalso
        have : has passed x.1 = true := by
          rw [has_iff, hpassed, List.map_append, bindPos_names]
          exact List.mem_append_left _ h2
        rw [this] at hx3; cases hx3
      · exact hx1 ▸ h2

/-- if every parameter beyond the positional prefix is named or has a default, the counters add up -/
theorem count_full {ps : List Param} {npos : Nat} {named : List String}
    (w : NamedWF ps npos named) (hnd : (names ps).Nodup) (hle : npos ≤ ps.length)
    (passed : List (String × Src)) (hpassed : passed = bindPos ps npos 0 ++ namedEnv named 0)
    (hall : ∀ i p, ps[i]? = some p → npos ≤ i → p.1 ∈ named ∨ p.2 = true) :
    named.length + (bindDefaults passed ps).length + npos = ps.length := by
  obtain ⟨nd, sub⟩ := named_defaults_nodup_sub w hnd passed hpassed
  have h1 := (List.subperm_of_subset nd sub).length_le
  have ndd : ((names ps).drop npos).Nodup := (List.drop_sublist npos _).nodup hnd
  have sup : (names ps).drop npos ⊆ named ++ (bindDefaults passed ps).map (·.1) := by
    intro n hn
    obtain ⟨k, hk⟩ := List.getElem?_of_mem hn
    rw [List.getElem?_drop] at hk
    simp only [names, List.getElem?_map] at hk
    cases hp : ps[npos + k]? with
    | none => rw [hp] at hk; cases hk
    | some p =>
      rw [hp] at hk
      simp only [Option.map_some, Option.some.injEq] at hk
      subst hk
      by_cases hin : p.1 ∈ named
      · exact List.mem_append_left _ hin
      · rcases hall (npos + k) p hp (by omega) with h | h
        · exact absurd h hin
        · apply List.mem_append_right
          refine (defaults_mem_iff passed ps p.1).mpr ⟨p, List.mem_of_getElem? hp, rfl, h, ?_⟩
          have hnt := not_mem_take_of_ge ps hnd npos (npos + k) p hp (by omega)
          cases hh : has passed p.1 with
          | false => rfl
          | true =>
            exfalso
            rw [has_iff, hpassed, List.map_append, bindPos_names, namedEnv_names] at hh
            rcases List.mem_append.mp hh with h2 | h2
            · exact hnt h2
            · exact hin h2
  have h2 := (List.subperm_of_subset ndd sup).length_le
  simp [names] at h1 h2
  omega


theorem named_wf_iff (ps : List Param) (npos : Nat) (named : List String)
    (passed : List (String × Src)) :
    bindNamed ps (bindPos ps npos 0) named 0 = .ok passed ↔
      (NamedWF ps npos named ∧ passed = bindPos ps npos 0 ++ namedEnv named 0) := by
  rw [bindNamed_ok_iff]
  have key : ∀ n, has (bindPos ps npos 0) n = false ↔ n ∉ (names ps).take npos := by
    intro n
    rw [← bindPos_names ps npos 0, ← has_iff]
    cases has (bindPos ps npos 0) n <;> simp
  constructor
  · rintro ⟨a, b, c, d⟩
    exact ⟨⟨c, a, fun n hn => (key n).mp (b n hn)⟩, d⟩
  · rintro ⟨⟨c, a, b⟩, d⟩
    exact ⟨a, fun n hn => (key n).mpr (b n hn), c, d⟩


/-- a call is well-formed by the language rule: not too many positional arguments, every named
    argument names a parameter not already bound, no name twice, every parameter gets a value -/
def SpecOk (ps : List Param) (npos : Nat) (named : List String) : Prop :=
  npos ≤ ps.length ∧ NamedWF ps npos named ∧
    ∀ i p, ps[i]? = some p → (specSrc npos named i p).isSome = true


theorem map_fst_zip_sublist {α β : Type} : ∀ (l1 : List α) (l2 : List β),
    ((l1.zip l2).map (·.1)).Sublist l1
  | [], _ => by simp
  | _ :: _, [] => by simp
  | a :: as, _ :: bs => by
    simp only [List.zip_cons_cons, List.map_cons]
    exact (map_fst_zip_sublist as bs).cons₂ a

theorem indexOf?_spec {V : Type} (l : List (String × V)) (hnd : (l.map (·.1)).Nodup) (n : String) (v : V)
    (hm : (n, v) ∈ l) : ∃ j, indexOf? (l.map (·.1)) n = some j ∧ l[j]? = some (n, v) := by
  induction l with
  | nil => cases hm
  | cons x r ih =>
    have hnd' : x.1 ∉ r.map (·.1) ∧ (r.map (·.1)).Nodup :=
      List.nodup_cons.mp (by rw [List.map_cons] at hnd; exact hnd)
    rcases List.mem_cons.mp hm with e | hm'
    · subst e
      exact ⟨0, by simp [indexOf?], rfl⟩
    · have hne : x.1 ≠ n := by
        intro e
        exact hnd'.1 (e ▸ List.mem_map_of_mem (f := (·.1)) hm')
      obtain ⟨j, h1, h2⟩ := ih hnd'.2 hm'
      refine ⟨j + 1, ?_, by simpa using h2⟩
      have : (x.1 == n) = false := by simpa using hne
      simp [indexOf?, this, h1]


end JrsVerif.Bind
