/- Helper lemmas for C01/C04: `parse_function_call`'s counting logic equals the declarative
   argument-binding rule, and its `unreachable!()` is unreachable. -/
import JrsVerif.Model.Bind
import Batteries.Data.List.Perm

namespace JrsVerif.Bind

theorem has_iff (env : List (String × Src)) (n : String) :
    has env n = true ↔ n ∈ env.map (·.1) := by
  simp only [has, List.any_eq_true, List.mem_map]
  constructor
  · rintro ⟨p, hp, he⟩; exact ⟨p, hp, by simpa using he⟩
  · rintro ⟨p, hp, he⟩; exact ⟨p, hp, by simp [he]⟩

theorem has_append (a b : List (String × Src)) (n : String) :
    has (a ++ b) n = (has a n || has b n) := by simp [has, List.any_append]

/-! #### positional -/

theorem bindPos_names (ps : List Param) (k i : Nat) :
    (bindPos ps k i).map (·.1) = (names ps).take k := by
  induction ps generalizing k i with
  | nil => cases k <;> simp [bindPos, names]
  | cons p ps ih =>
    cases k with
    | zero => simp [bindPos]
    | succ k => simp [bindPos, names, ih] ; exact ih k (i + 1)

theorem bindPos_length (ps : List Param) (k i : Nat) (hk : k ≤ ps.length) :
    (bindPos ps k i).length = k := by
  have := congrArg List.length (bindPos_names ps k i)
  simp [names] at this
  omega

theorem lookup_bindPos (ps : List Param) (hnd : (names ps).Nodup) (k i0 : Nat) (i : Nat) (p : Param)
    (hp : ps[i]? = some p) (hi : i < k) (rest : List (String × Src)) :
    lookup (bindPos ps k i0 ++ rest) p.1 = some (.pos (i0 + i)) := by
  induction ps generalizing k i0 i with
  | nil => simp at hp
  | cons q ps ih =>
    cases k with
    | zero => omega
    | succ k =>
      cases i with
      | zero =>
        simp at hp; subst hp
        simp [bindPos, lookup]
      | succ i =>
        simp at hp
        have hnd' : (names ps).Nodup := by
          simp [names] at hnd ⊢; exact hnd.2
        have hne : q.1 ≠ p.1 := by
          simp [names] at hnd
          intro he
          have : p ∈ ps := List.mem_of_getElem? hp
          exact hnd.1 p.2 (by rw [he]; cases p; exact this)
        have := ih hnd' k (i0 + 1) i hp (by omega)
        simp only [bindPos, List.cons_append, lookup, List.find?_cons]
        have hb : (q.1 == p.1) = false := by simpa using hne
        simp only [hb]
        simp only [lookup] at this
        rw [this]; congr 2; omega

end JrsVerif.Bind
