/- C05 helper lemmas: the escape table, the escaping loop, and the string-token decoder. -/
import JrsVerif.Model.JsonR

namespace JrsVerif.Escape
open JrsVerif.Generated.Escape JrsVerif.Json

/-- lifting a statement checked on the 256 values `UInt8.ofNat n` to every byte -/
theorem forall_byte {P : UInt8 → Prop} (h : ∀ n, n < 256 → P (UInt8.ofNat n)) (b : UInt8) : P b := by
  have := h b.toNat (UInt8.toNat_lt b)
  simpa using this

theorem table_size : ESCAPE.size = 256 := by decide +kernel

set_option maxRecDepth 4000

theorem row_spec (b : UInt8) : row b = specRow b :=
  forall_byte (P := fun b => row b = specRow b) (by decide +kernel) b

theorem escByte_spec (b : UInt8) : escByte b = some (specEsc b) :=
  forall_byte (P := fun b => escByte b = some (specEsc b)) (by decide +kernel) b

theorem hex_low (b : UInt8) : b < 0x20 →
    hex4 0x30 0x30 (hexDigit (b / 16)) (hexDigit (b % 16)) = some b.toNat :=
  forall_byte (P := fun b => b < 0x20 →
    hex4 0x30 0x30 (hexDigit (b / 16)) (hexDigit (b % 16)) = some b.toNat) (by decide +kernel) b

theorem escapeBody_spec : ∀ s : List UInt8, escapeBody s = some (s.flatMap specEsc)
  | [] => rfl
  | b :: r => by simp [escapeBody, escByte_spec, escapeBody_spec r]

/-! ### the loop computes the per-byte reading -/

theorem loop_spec (value : List UInt8) :
    ∀ (rem pre : List UInt8) (start : Nat) (buf : List UInt8),
      value = pre ++ rem → start ≤ pre.length → (∀ b ∈ pre.drop start, row b = 0) →
      (loop value rem pre.length start buf).map (fun p => p.1 ++ value.drop p.2) =
        (escapeBody rem).map (fun body => buf ++ pre.drop start ++ body) := by
  intro rem
  induction rem with
  | nil =>
    intro pre start buf hv hs _
    simp [loop, escapeBody, hv]
  | cons b rest ih =>
    intro pre start buf hv hs hz
    have hv' : value = (pre ++ [b]) ++ rest := by simp [hv]
    have hlen : (pre ++ [b]).length = pre.length + 1 := by simp
    by_cases h0 : row b = 0
    · have hz' : ∀ x ∈ (pre ++ [b]).drop start, row x = 0 := by
        intro x hx
        rw [List.drop_append_of_le_length hs] at hx
        rcases List.mem_append.mp hx with h | h
        · exact hz x h
        · simp at h; subst h; exact h0
      have := ih (pre ++ [b]) start buf hv' (by rw [hlen]; omega) hz'
      rw [hlen] at this
      simp only [loop, h0, beq_self_eq_true, if_true]
      rw [this]
      have hb : escByte b = some [b] := by simp [escByte, h0]
      cases hr : escapeBody rest with
      | none => simp [escapeBody, hb, hr]
      | some body =>
        simp [escapeBody, hb, hr, List.drop_append_of_le_length hs]
    · have hb : escByte b = escSeq b (row b) := by simp [escByte, h0]
      have hslice : (if start < pre.length then buf ++ slice value start pre.length else buf)
          = buf ++ pre.drop start := by
        split
        · simp [slice, hv]
        · have : start = pre.length := by omega
          simp [this]
      simp only [loop, h0, beq_iff_eq, if_false]
      cases hs' : escSeq b (row b) with
      | none => simp [escapeBody, hb, hs']
      | some s =>
        simp only [hslice]
        have hd : (pre ++ [b]).drop (pre.length + 1) = [] := by
          rw [← hlen]; exact List.drop_length
        have := ih (pre ++ [b]) (pre.length + 1) (buf ++ pre.drop start ++ s) hv'
          (by rw [hlen]; omega) (by rw [hd]; simp)
        rw [hlen] at this
        rw [this]
        cases hr : escapeBody rest with
        | none => simp [escapeBody, hb, hs', hr]
        | some body => simp [escapeBody, hb, hs', hr, hd]

theorem escapeBuf_spec (value buf : List UInt8) :
    escapeBuf value buf = some (buf ++ 0x22 :: (value.flatMap specEsc ++ [0x22])) := by
  have h := loop_spec value value [] 0 (buf ++ [0x22]) (by simp) (by simp) (by simp)
  simp only [List.length_nil, escapeBody_spec, Option.map_some, List.drop_zero, List.append_nil] at h
  unfold escapeBuf
  cases hl : loop value value 0 0 (buf ++ [0x22]) with
  | none => simp [hl] at h
  | some p =>
    obtain ⟨b', s'⟩ := p
    simp only [hl, Option.map_some, Option.some.injEq] at h
    simp only
    have h' : b' ++ (List.drop s' value ++ [0x22]) = buf ++ 0x22 :: (value.flatMap specEsc ++ [0x22]) := by
      rw [← List.append_assoc, h]; simp
    split
    · rename_i he
      have : s' = value.length := by simpa using he
      subst this
      simpa using h'
    · simpa using h'

theorem escape_spec (value : List UInt8) :
    escape value = some (0x22 :: (value.flatMap specEsc ++ [0x22])) := by
  simpa [escape] using escapeBuf_spec value []

theorem escapeD_spec (value : List UInt8) :
    escapeD value = 0x22 :: (value.flatMap specEsc ++ [0x22]) := by
  simp [escapeD, escape_spec]

/-! ### bytes of an escaped string -/

theorem specEsc_safe (b : UInt8) : ∀ x ∈ specEsc b, 0x20 ≤ x :=
  forall_byte (P := fun b => ∀ x ∈ specEsc b, 0x20 ≤ x) (by decide +kernel) b

theorem specEsc_ne_nil (b : UInt8) : specEsc b ≠ [] :=
  forall_byte (P := fun b => specEsc b ≠ []) (by decide +kernel) b

theorem specEsc_high (b : UInt8) : 0x80 ≤ b → specEsc b = [b] :=
  forall_byte (P := fun b => 0x80 ≤ b → specEsc b = [b]) (by decide +kernel) b

theorem specEsc_ascii (b : UInt8) : b < 0x80 → ∀ x ∈ specEsc b, x < 0x80 :=
  forall_byte (P := fun b => b < 0x80 → ∀ x ∈ specEsc b, x < 0x80) (by decide +kernel) b

/-! ### the decoder undoes one escaped byte -/

theorem utf8_ascii (b : UInt8) (h : b < 0x80) : utf8 b.toNat = [b] := by
  have : b.toNat < 0x80 := by simpa [UInt8.lt_iff_toNat_lt] using h
  simp [utf8, this]

theorem decodeOne_step (b : UInt8) (tail : List UInt8) :
    decodeOne (specEsc b ++ tail) = .chunk [b] tail := by
  unfold specEsc
  split
  · rename_i h; have : b = 0x22 := by simpa using h
    subst this; simp [decodeOne, decodeEsc, simpleEsc]
  split
  · rename_i h; have : b = 0x5C := by simpa using h
    subst this; simp [decodeOne, decodeEsc, simpleEsc]
  split
  · rename_i h; have : b = 0x08 := by simpa using h
    subst this; simp [decodeOne, decodeEsc, simpleEsc]
  split
  · rename_i h; have : b = 0x09 := by simpa using h
    subst this; simp [decodeOne, decodeEsc, simpleEsc]
  split
  · rename_i h; have : b = 0x0A := by simpa using h
    subst this; simp [decodeOne, decodeEsc, simpleEsc]
  split
  · rename_i h; have : b = 0x0C := by simpa using h
    subst this; simp [decodeOne, decodeEsc, simpleEsc]
  split
  · rename_i h; have : b = 0x0D := by simpa using h
    subst this; simp [decodeOne, decodeEsc, simpleEsc]
  split
  · rename_i h
    have hlt : b.toNat < 0x20 := by simpa [UInt8.lt_iff_toNat_lt] using h
    have h80 : b < 0x80 := by
      rw [UInt8.lt_iff_toNat_lt]; exact Nat.lt_trans hlt (by decide)
    have h1 : ¬ (0xD800 ≤ b.toNat) := by omega
    have h2 : ¬ (0xDC00 ≤ b.toNat) := by omega
    simp [decodeOne, decodeEsc, decodeU, hex_low b h, h1, h2, utf8_ascii b h80]
  · rename_i h1 h2 _ _ _ _ _ h8
    have e1 : (b == 0x22) = false := by simpa using h1
    have e2 : (b == 0x5C) = false := by simpa using h2
    have e3 : ¬ (b < 0x20) := h8
    simp [decodeOne, e1, e2, e3]

theorem pStrBodyF_flat (s tail : List UInt8) :
    ∀ f, s.length + 1 ≤ f → pStrBodyF f (s.flatMap specEsc ++ 0x22 :: tail) = some (s, tail) := by
  induction s with
  | nil =>
    intro f hf
    obtain ⟨f, rfl⟩ : ∃ g, f = g + 1 := ⟨f - 1, by omega⟩
    simp [pStrBodyF, decodeOne]
  | cons b r ih =>
    intro f hf
    obtain ⟨f, rfl⟩ : ∃ g, f = g + 1 := ⟨f - 1, by omega⟩
    simp only [List.flatMap_cons, List.append_assoc, pStrBodyF]
    rw [decodeOne_step]
    simp only
    rw [ih f (by simpa using hf)]
    simp [consTo]

theorem length_le_flat (s : List UInt8) : s.length ≤ (s.flatMap specEsc).length := by
  induction s with
  | nil => simp
  | cons b r ih =>
    have : 1 ≤ (specEsc b).length := by
      have := specEsc_ne_nil b
      cases h : specEsc b with
      | nil => exact absurd h this
      | cons _ _ => simp
    simp only [List.flatMap_cons, List.length_append, List.length_cons]
    omega

theorem pStrBody_flat (s tail : List UInt8) :
    pStrBody (s.flatMap specEsc ++ 0x22 :: tail) = some (s, tail) := by
  unfold pStrBody
  apply pStrBodyF_flat
  have := length_le_flat s
  simp only [List.length_append, List.length_cons]
  omega

/-! ### UTF-8: bytes of non-ASCII characters pass through unchanged -/

theorem ofNat_ge (n : Nat) (h : 0x80 ≤ n % 256) : (0x80 : UInt8) ≤ UInt8.ofNat n := by
  rw [UInt8.le_iff_toNat_le]
  simpa using h

theorem utf8_high (c : Nat) (h1 : 0x80 ≤ c) (h2 : c < 0x110000) : ∀ b ∈ utf8 c, 0x80 ≤ b := by
  intro b hb
  unfold utf8 at hb
  split at hb
  · omega
  split at hb
  · simp only [List.mem_cons, List.mem_nil_iff, or_false] at hb
    rcases hb with rfl | rfl <;> (apply ofNat_ge; omega)
  split at hb
  · simp only [List.mem_cons, List.mem_nil_iff, or_false] at hb
    rcases hb with rfl | rfl | rfl <;> (apply ofNat_ge; omega)
  · simp only [List.mem_cons, List.mem_nil_iff, or_false] at hb
    rcases hb with rfl | rfl | rfl | rfl <;> (apply ofNat_ge; omega)

theorem flatMap_id_of_high (l : List UInt8) (h : ∀ b ∈ l, 0x80 ≤ b) : l.flatMap specEsc = l := by
  induction l with
  | nil => rfl
  | cons b tl ih =>
    simp only [List.flatMap_cons]
    rw [specEsc_high b (h b (by simp)), ih (fun x hx => h x (by simp [hx]))]
    rfl

end JrsVerif.Escape
