/- Helper lemmas for C02: each saturating-skip walker over `compile t` equals the term semantics.
   Shape (per walker): a *masked* lemma (a skip ≥ |compile t| passes over the whole term and
   decreases by |compile t|) and an *unmasked* lemma (skip 0 splits into the term's own
   contribution and the walk over the rest), both by induction on the term. -/
import JrsVerif.Model.Obj

namespace JrsVerif.Obj

/-- `chain` continued by `k` when no plain definition is met -/
def chainWith : List Field → List Field → List Field
  | [], k => k
  | f :: r, k => if f.add then f :: chainWith r k else [f]

theorem chainWith_nil (l : List Field) : chainWith l [] = chain l := by
  induction l with
  | nil => rfl
  | cons f r ih => simp [chainWith, chain, ih]

theorem chainWith_append (a b k : List Field) :
    chainWith (a ++ b) k = chainWith a (chainWith b k) := by
  induction a with
  | nil => rfl
  | cons f r ih => simp [chainWith, ih]

/-! #### collect (`get_idx_uncached`) -/

theorem collect_masked (t : OT) (rest : List Core) (s : Nat) (n : Name)
    (hs : (compile t).length ≤ s) :
    collect ((compile t).reverse ++ rest) s n = collect rest (s - (compile t).length) n := by
  induction t generalizing rest s with
  | lit fs a =>
    by_cases h : (fs.isEmpty && !a) = true
    · simp [compile, h]
    · simp [compile, h] at hs ⊢
      have : s ≠ 0 := by omega
      simp [collect, this]
  | add a b iha ihb =>
    simp [compile, List.reverse_append, List.append_assoc] at hs ⊢
    rw [ihb _ _ (by omega), iha _ _ (by omega)]; congr 1; omega
  | rm o ns ih =>
    simp [compile, List.reverse_append] at hs ⊢
    simp only [collect]
    split
    · have h1 : max s ((compile o).length + 1) = s := by omega
      rw [h1, ih _ _ (by omega)]; congr 1; omega
    · rw [ih _ _ (by omega)]; congr 1; omega

theorem collect_compile (t : OT) (rest : List Core) (n : Name) :
    (collect ((compile t).reverse ++ rest) 0 n).map (·.1)
      = chainWith (defs t n) ((collect rest 0 n).map (·.1)) := by
  induction t generalizing rest with
  | lit fs a =>
    by_cases h : (fs.isEmpty && !a) = true
    · obtain ⟨h1, h2⟩ : fs = [] ∧ a = false := by simpa using h
      subst h1; subst h2; simp [compile, defs, lookup, chainWith]
    · simp only [compile, h, Bool.false_eq_true, ↓reduceIte, List.reverse_cons, List.reverse_nil,
        List.nil_append, List.cons_append, collect, defs, beq_self_eq_true]
      cases hl : lookup fs n with
      | none => simp [chainWith]
      | some f =>
        by_cases ha : f.add <;> simp [chainWith, ha]
  | add a b iha ihb =>
    simp only [compile, List.reverse_append, List.append_assoc, defs]
    rw [ihb, iha, chainWith_append]
  | rm o ns ih =>
    simp only [compile, List.reverse_append, List.reverse_cons, List.reverse_nil, List.nil_append,
      List.cons_append, defs]
    simp only [collect]
    by_cases h : ns.contains n
    · simp only [h, ↓reduceIte]
      have h1 : max 0 ((compile o).length + 1) - 1 = (compile o).length := by omega
      rw [h1, collect_masked o rest _ n (Nat.le_refl _)]
      simp [chainWith]
    · simp only [h, Bool.false_eq_true, ↓reduceIte]
      exact ih rest

/-- each contribution is bound to the `sup` index of the core that defines it -/
theorem collect_sup_sound (rev : List Core) (s : Nat) (n : Name) (f : Field) (l : Nat)
    (h : (f, l) ∈ collect rev s n) :
    ∃ fs a, rev.reverse[l]? = some (.oop fs a) ∧ lookup fs n = some f := by
  induction rev generalizing s with
  | nil => simp [collect] at h
  | cons c rest ih =>
    cases c with
    | oop fs a =>
      simp only [collect] at h
      have tail : ∀ s', (f, l) ∈ collect rest s' n →
          ∃ fs' a', (Core.oop fs a :: rest).reverse[l]? = some (.oop fs' a') ∧ lookup fs' n = some f := by
        intro s' hm
        obtain ⟨fs', a', h1, h2⟩ := ih s' hm
        refine ⟨fs', a', ?_, h2⟩
        have hl : l < rest.reverse.length := by
          rcases Nat.lt_or_ge l rest.reverse.length with hlt | hge
          · exact hlt
          · rw [List.getElem?_eq_none hge] at h1; cases h1
        simp only [List.reverse_cons]
        rw [List.getElem?_append_left hl]; exact h1
      split at h
      · rename_i g hg
        have hlk : lookup fs n = some g := by
          split at hg
          · exact hg
          · cases hg
        have here : (f, l) = (g, rest.length) →
            ∃ fs' a', (Core.oop fs a :: rest).reverse[l]? = some (.oop fs' a') ∧ lookup fs' n = some f := by
          intro e
          cases e
          refine ⟨fs, a, ?_, hlk⟩
          simp [List.reverse_cons]
        split at h
        · rcases List.mem_cons.mp h with e | hm
          · exact here e
          · exact tail _ hm
        · exact here (List.mem_singleton.mp h)
      · exact tail _ h
    | omitC ns k =>
      simp only [collect] at h
      obtain ⟨fs', a', h1, h2⟩ := ih _ h
      refine ⟨fs', a', ?_, h2⟩
      have hl : l < rest.reverse.length := by
        rcases Nat.lt_or_ge l rest.reverse.length with hlt | hge
        · exact hlt
        · rw [List.getElem?_eq_none hge] at h1; cases h1
      simp only [List.reverse_cons]
      rw [List.getElem?_append_left hl]; exact h1

/-! #### hasGo (`has_field_include_hidden_idx`) -/

theorem hasGo_masked (t : OT) (rest : List Core) (s : Nat) (n : Name)
    (hs : (compile t).length ≤ s) :
    hasGo ((compile t).reverse ++ rest) s n = hasGo rest (s - (compile t).length) n := by
  induction t generalizing rest s with
  | lit fs a =>
    by_cases h : (fs.isEmpty && !a) = true
    · simp [compile, h]
    · simp [compile, h] at hs ⊢
      have : s ≠ 0 := by omega
      simp [hasGo, this]
  | add a b iha ihb =>
    simp [compile, List.reverse_append, List.append_assoc] at hs ⊢
    rw [ihb _ _ (by omega), iha _ _ (by omega)]; congr 1; omega
  | rm o ns ih =>
    simp [compile, List.reverse_append] at hs ⊢
    simp only [hasGo]
    split
    · have h1 : max s ((compile o).length + 1) = s := by omega
      rw [h1, ih _ _ (by omega)]; congr 1; omega
    · rw [ih _ _ (by omega)]; congr 1; omega

theorem isEmpty_append' (a b : List Field) : (a ++ b).isEmpty = (a.isEmpty && b.isEmpty) := by
  cases a <;> simp

theorem hasGo_compile (t : OT) (rest : List Core) (n : Name) :
    hasGo ((compile t).reverse ++ rest) 0 n = (specHas t n || hasGo rest 0 n) := by
  induction t generalizing rest with
  | lit fs a =>
    by_cases h : (fs.isEmpty && !a) = true
    · obtain ⟨h1, h2⟩ : fs = [] ∧ a = false := by simpa using h
      subst h1; subst h2; simp [compile, specHas, defs, lookup]
    · simp only [compile, h, Bool.false_eq_true, ↓reduceIte, List.reverse_cons, List.reverse_nil,
        List.nil_append, List.cons_append, hasGo, specHas, defs]
      cases hl : lookup fs n <;> simp
  | add a b iha ihb =>
    simp only [compile, List.reverse_append, List.append_assoc]
    rw [ihb, iha]
    simp only [specHas, defs, isEmpty_append', Bool.not_and, Bool.or_assoc]
  | rm o ns ih =>
    simp only [compile, List.reverse_append, List.reverse_cons, List.reverse_nil, List.nil_append,
      List.cons_append]
    simp only [hasGo]
    by_cases h : ns.contains n
    · simp only [h, ↓reduceIte]
      have h1 : max 0 ((compile o).length + 1) - 1 = (compile o).length := by omega
      rw [h1, hasGo_masked o rest _ n (Nat.le_refl _)]
      have h' : n ∈ ns := by simpa using h
      simp [specHas, defs, h']
    · simp only [h, Bool.false_eq_true, ↓reduceIte]
      rw [show (0 : Nat) - 1 = 0 from rfl, ih rest]
      have h' : ¬ n ∈ ns := by simpa using h
      simp [specHas, defs, h']

/-! #### visGo (`field_visibility_idx`) -/

/-- `visSpec` continued below by the walk over the rest: `ex` records a visible-by-default
    definition already seen above -/
def visWith : List Field → Bool → (Bool → Option Vis) → Option Vis
  | [], ex, k => k ex
  | f :: r, ex, k =>
      match f.vis with
      | .normal => visWith r true k
      | v => some v

theorem visWith_append (a b : List Field) (ex : Bool) (k : Bool → Option Vis) :
    visWith (a ++ b) ex k = visWith a ex (fun ex' => visWith b ex' k) := by
  induction a generalizing ex with
  | nil => rfl
  | cons f r ih =>
    simp only [List.cons_append, visWith]
    cases f.vis <;> simp [ih]

theorem visGo_masked (t : OT) (rest : List Core) (s : Nat) (ex : Bool) (n : Name)
    (hs : (compile t).length ≤ s) :
    visGo ((compile t).reverse ++ rest) s ex n = visGo rest (s - (compile t).length) ex n := by
  induction t generalizing rest s with
  | lit fs a =>
    by_cases h : (fs.isEmpty && !a) = true
    · simp [compile, h]
    · simp [compile, h] at hs ⊢
      have : s ≠ 0 := by omega
      simp only [visGo]
      cases lookup fs n <;> simp [this]
  | add a b iha ihb =>
    simp [compile, List.reverse_append, List.append_assoc] at hs ⊢
    rw [ihb _ _ (by omega), iha _ _ (by omega)]; congr 1; omega
  | rm o ns ih =>
    simp [compile, List.reverse_append] at hs ⊢
    simp only [visGo]
    split
    · have h1 : max s ((compile o).length + 1) = s := by omega
      rw [h1, ih _ _ (by omega)]; congr 1; omega
    · rw [ih _ _ (by omega)]; congr 1; omega

theorem visGo_compile (t : OT) (rest : List Core) (ex : Bool) (n : Name) :
    visGo ((compile t).reverse ++ rest) 0 ex n
      = visWith (defs t n) ex (fun ex' => visGo rest 0 ex' n) := by
  induction t generalizing rest ex with
  | lit fs a =>
    by_cases h : (fs.isEmpty && !a) = true
    · obtain ⟨h1, h2⟩ : fs = [] ∧ a = false := by simpa using h
      subst h1; subst h2; simp [compile, defs, lookup, visWith]
    · simp only [compile, h, Bool.false_eq_true, ↓reduceIte, List.reverse_cons, List.reverse_nil,
        List.nil_append, List.cons_append, visGo, defs]
      cases hl : lookup fs n with
      | none => simp [visWith]
      | some f =>
        simp only [beq_self_eq_true, ↓reduceIte, Option.toList_some, visWith]
        cases f.vis <;> simp
  | add a b iha ihb =>
    simp only [compile, List.reverse_append, List.append_assoc, defs]
    rw [ihb, visWith_append]
    congr 1
    funext ex'
    exact iha rest ex'
  | rm o ns ih =>
    simp only [compile, List.reverse_append, List.reverse_cons, List.reverse_nil, List.nil_append,
      List.cons_append, defs]
    simp only [visGo]
    by_cases h : ns.contains n
    · simp only [h, ↓reduceIte]
      have h1 : max 0 ((compile o).length + 1) - 1 = (compile o).length := by omega
      rw [h1, visGo_masked o rest _ ex n (Nat.le_refl _)]
      simp [visWith]
    · simp only [h, Bool.false_eq_true, ↓reduceIte]
      exact ih rest ex

theorem visWith_end (l : List Field) (ex : Bool) :
    visWith l ex (fun ex' => if ex' then some Vis.normal else none)
      = match visSpec l with
        | some v => some v
        | none => if ex then some .normal else none := by
  induction l generalizing ex with
  | nil => simp [visWith, visSpec]
  | cons f r ih =>
    simp only [visWith, visSpec]
    cases hv : f.vis with
    | normal =>
      simp only [ih]
      cases visSpec r <;> simp
    | hidden => simp
    | unhide => simp

/-! #### visAllGo (`fields_visibility`) agrees with visGo -/

/-- the accumulator of `fields_visibility` only matters through: "a non-default marker was fixed"
    (then it is final) or "only a default definition was seen" -/
def curOf (ex : Bool) : Option Vis := if ex then some .normal else none

theorem visAllGo_final (rev : List Core) (i ou : Nat) (v : Vis) (n : Name) (hv : v ≠ .normal) :
    visAllGo rev i ou (some v) n = some v := by
  induction rev generalizing i ou with
  | nil => rfl
  | cons c rest ih =>
    cases c with
    | oop fs a =>
      simp only [visAllGo]
      cases hl : lookup fs n with
      | none => exact ih _ _
      | some f =>
        simp only
        by_cases hle : ou ≤ i
        · simp only [hle, ↓reduceIte]
          cases hf : f.vis <;> cases v <;> simp_all
        · simp only [hle, ↓reduceIte]; exact ih _ _
    | omitC ns k => simp only [visAllGo]; exact ih _ _

theorem visAllGo_eq_visGo (rev : List Core) (i ou skip : Nat) (ex : Bool) (n : Name)
    (hinv : skip = ou - i) :
    visAllGo rev i ou (curOf ex) n = visGo rev skip ex n := by
  induction rev generalizing i ou skip ex with
  | nil => simp [visAllGo, visGo, curOf]
  | cons c rest ih =>
    cases c with
    | oop fs a =>
      simp only [visAllGo, visGo]
      cases hl : lookup fs n with
      | none => exact ih _ _ _ _ (by omega)
      | some f =>
        simp only
        by_cases hle : ou ≤ i
        · have hs : skip = 0 := by omega
          subst hs
          simp only [hle, ↓reduceIte, beq_self_eq_true]
          cases hf : f.vis with
          | normal =>
            have := ih (i + 1) ou (0 - 1) true (by omega)
            simp only [curOf, ↓reduceIte] at this
            cases ex <;> simpa [curOf] using this
          | hidden =>
            have := visAllGo_final rest (i + 1) ou Vis.hidden n (by simp)
            cases ex <;> simpa [curOf] using this
          | unhide =>
            have := visAllGo_final rest (i + 1) ou Vis.unhide n (by simp)
            cases ex <;> simpa [curOf] using this
        · have hs : skip ≠ 0 := by omega
          simp only [hle, ↓reduceIte, beq_iff_eq, hs]
          exact ih _ _ _ _ (by omega)
    | omitC ns k =>
      simp only [visAllGo, visGo]
      apply ih
      split <;> omega

/-! #### prefixes of a compiled object are compiled objects (so `super` lookups are covered) -/

theorem take_compile (t : OT) (l : Nat) : ∃ t', (compile t).take l = compile t' := by
  induction t generalizing l with
  | lit fs a =>
    cases l with
    | zero => exact ⟨.lit [] false, by simp [compile]⟩
    | succ l =>
      refine ⟨.lit fs a, ?_⟩
      by_cases h : (fs.isEmpty && !a) = true <;> simp [compile, h]
  | add a b iha ihb =>
    simp only [compile, List.take_append]
    obtain ⟨a', ha⟩ := iha l
    obtain ⟨b', hb⟩ := ihb (l - (compile a).length)
    exact ⟨.add a' b', by simp [compile, ha, hb]⟩
  | rm o ns ih =>
    by_cases hl : l ≤ (compile o).length
    · obtain ⟨o', ho⟩ := ih l
      refine ⟨o', ?_⟩
      simp only [compile]
      rw [List.take_append_of_le_length hl]; exact ho
    · refine ⟨.rm o ns, ?_⟩
      apply List.take_of_length_le
      simp [compile]; omega

theorem compile_takeTerm (t : OT) (l : Nat) : compile (takeTerm t l) = (compile t).take l := by
  induction t generalizing l with
  | lit fs a =>
    cases l with
    | zero => simp [takeTerm, compile]
    | succ l => by_cases h : (fs.isEmpty && !a) = true <;> simp [takeTerm, compile, h]
  | add a b iha ihb => simp [takeTerm, compile, List.take_append, iha, ihb]
  | rm o ns ih =>
    simp only [takeTerm]
    by_cases hl : l ≤ (compile o).length
    · simp only [hl, ↓reduceIte, ih, compile]
      rw [List.take_append_of_le_length hl]
    · simp only [hl, ↓reduceIte]
      symm; apply List.take_of_length_le
      simp [compile]; omega

/-! #### sorted field lists -/

def Sorted : List Nat → Prop
  | [] => True
  | [_] => True
  | a :: b :: r => a < b ∧ Sorted (b :: r)

theorem sorted_tail {a : Nat} {l : List Nat} (h : Sorted (a :: l)) : Sorted l := by
  cases l with
  | nil => trivial
  | cons b r => exact h.2

theorem insertSorted_sorted (n : Nat) (l : List Nat) (h : Sorted l) :
    Sorted (insertSorted n l) := by
  induction l with
  | nil => trivial
  | cons m r ih =>
    simp only [insertSorted]
    split
    · exact ⟨by assumption, h⟩
    · split
      · exact h
      · have hr := ih (sorted_tail h)
        cases r with
        | nil =>
          simp only [insertSorted]
          exact ⟨by omega, trivial⟩
        | cons b r' =>
          simp only [insertSorted] at hr ⊢
          split
          · exact ⟨by omega, by assumption, h.2⟩
          · split
            · exact h
            · rename_i h1 h2
              simp only [h1, h2, ↓reduceIte] at hr
              exact ⟨h.1, hr⟩

theorem sortDedup_sorted (l : List Nat) : Sorted (sortDedup l) := by
  induction l with
  | nil => trivial
  | cons n r ih => exact insertSorted_sorted n _ ih

theorem mem_insertSorted (n x : Nat) (l : List Nat) :
    x ∈ insertSorted n l ↔ x = n ∨ x ∈ l := by
  induction l with
  | nil => simp [insertSorted]
  | cons m r ih =>
    simp only [insertSorted]
    split
    · simp
    · split
      · rename_i h; subst h; simp
      · simp [ih]; constructor
        · rintro (h | h | h) <;> simp [h]
        · rintro (h | h | h) <;> simp [h]

theorem mem_sortDedup (x : Nat) (l : List Nat) : x ∈ sortDedup l ↔ x ∈ l := by
  induction l with
  | nil => simp [sortDedup]
  | cons n r ih => simp [sortDedup, mem_insertSorted, ih]

theorem sorted_filter (p : Nat → Bool) (l : List Nat) (h : Sorted l) : Sorted (l.filter p) := by
  have key : ∀ (l : List Nat), Sorted l → ∀ a, (∀ x ∈ l, a < x) → ∀ x ∈ l.filter p, a < x := by
    intro l _ a ha x hx; exact ha x (List.mem_filter.mp hx).1
  have lower : ∀ (l : List Nat) (a : Nat), Sorted (a :: l) → ∀ x ∈ l, a < x := by
    intro l
    induction l with
    | nil => intro a _ x hx; cases hx
    | cons b r ih =>
      intro a hs x hx
      rcases List.mem_cons.mp hx with e | hm
      · subst e; exact hs.1
      · have := ih b hs.2 x hm
        exact Nat.lt_trans hs.1 this
  have cons_sorted : ∀ (a : Nat) (l : List Nat), Sorted l → (∀ x ∈ l, a < x) → Sorted (a :: l) := by
    intro a l hl ha
    cases l with
    | nil => trivial
    | cons b r => exact ⟨ha b (by simp), hl⟩
  induction l with
  | nil => trivial
  | cons a r ih =>
    simp only [List.filter_cons]
    split
    · apply cons_sorted _ _ (ih (sorted_tail h))
      intro x hx
      exact lower r a h x (List.mem_filter.mp hx).1
    · exact ih (sorted_tail h)

theorem coreNames_compile (t : OT) (x : Name) : x ∈ coreNames (compile t) ↔ x ∈ termNames t := by
  have app : ∀ (a b : List Core), coreNames (a ++ b) = coreNames a ++ coreNames b := by
    intro a b
    induction a with
    | nil => rfl
    | cons c r ih => cases c <;> simp [coreNames, ih]
  induction t with
  | lit fs a =>
    by_cases h : (fs.isEmpty && !a) = true
    · obtain ⟨h1, h2⟩ : fs = [] ∧ a = false := by simpa using h
      subst h1; subst h2; simp [compile, coreNames, termNames]
    · simp [compile, h, coreNames, termNames]
  | add a b iha ihb => simp [compile, app, termNames, iha, ihb]
  | rm o ns ih => simp [compile, app, termNames, coreNames, ih]

end JrsVerif.Obj
