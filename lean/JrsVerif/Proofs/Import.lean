/- C07 helper lemmas: resolution order and the file-cache machine. Core Lean only. -/
import JrsVerif.Model.Import

namespace JrsVerif.Import

/-! ## resolution -/

/-- what one candidate contributes to the search -/
def verdict : Probe → Option (Except Err Path)
  | .missing => none
  | .file q => some (.ok q)
  | .special => some (.error .special)
  | .ioerr => some (.error .io)

theorem firstHit_eq_findSome (probe : Path → Probe) (cs : List Path) :
    firstHit probe cs = (cs.findSome? (fun c => verdict (probe c))).getD (.error .notfound) := by
  induction cs with
  | nil => rfl
  | cons c cs ih =>
    simp only [firstHit, List.findSome?_cons]
    cases h : probe c <;> simp [verdict, ih]

theorem firstHit_skip (probe : Path → Probe) (pre post : List Path)
    (h : ∀ c ∈ pre, probe c = .missing) : firstHit probe (pre ++ post) = firstHit probe post := by
  induction pre with
  | nil => rfl
  | cons c cs ih =>
    have hc : probe c = .missing := h c (by simp)
    simp only [List.cons_append, firstHit, hc]
    exact ih (fun x hx => h x (by simp [hx]))

theorem firstHit_notfound_iff (probe : Path → Probe) (cs : List Path) :
    firstHit probe cs = .error .notfound ↔ ∀ c ∈ cs, probe c = .missing := by
  induction cs with
  | nil => simp [firstHit]
  | cons c cs ih =>
    simp only [firstHit, List.mem_cons, forall_eq_or_imp]
    cases h : probe c <;> simp [ih]

/-! ## the machine: cell-local facts -/

section machine
variable (valid : Bytes → Bool)

def flag (c : Option Cell) : Bool :=
  match c with
  | some c => c.evaluating
  | none => false

structure CellOK (c : Cell) : Prop where
  has : c.str.isSome ∨ c.bytes.isSome
  strValid : ∀ s, c.str = some s → valid s = true
  coherent : ∀ s b, c.str = some s → c.bytes = some b → s = b
  running : c.evaluating = true → c.parsed = true ∧ c.evaluated = none ∧ c.str.isSome

def content (c : Cell) : Option Bytes :=
  match c.str with
  | some s => some s
  | none => c.bytes

def Ev.path? : Ev → Option Path
  | .str p _ | .bin p _ | .begin p _ _ => some p
  | .finish _ => none

def Ev.isFinish : Ev → Bool
  | .finish _ => true
  | _ => false

theorem getString_ok {c c' : Cell} {s : Bytes} (h : CellOK valid c)
    (hg : getString valid c = .ok (c', s)) :
    CellOK valid c' ∧ c'.str = some s ∧ content c = some s ∧ c'.bytes = c.bytes ∧
      c'.parsed = c.parsed ∧ c'.evaluated = c.evaluated ∧ c'.evaluating = c.evaluating := by
  obtain ⟨h1, h2, h3, h4⟩ := h
  unfold getString at hg
  cases hs : c.str with
  | some s0 =>
    simp [hs] at hg
    obtain ⟨rfl, rfl⟩ := hg
    exact ⟨⟨h1, h2, h3, h4⟩, hs, by simp [content, hs], rfl, rfl, rfl, rfl⟩
  | none =>
    cases hb : c.bytes with
    | none => simp [hs, hb] at hg
    | some b =>
      by_cases hv : valid b
      · simp [hs, hb, hv] at hg
        obtain ⟨rfl, rfl⟩ := hg
        refine ⟨⟨by simp, ?_, ?_, ?_⟩, rfl, by simp [content, hs, hb], rfl, rfl, rfl, rfl⟩
        · intro s hs'; simp at hs'; subst hs'; exact hv
        · intro s b' hs' hb'; simp at hs' hb'; rw [← hs', ← hb']
        · intro he; have := h4 he; simp [hs] at this
      · simp [hs, hb, hv] at hg

theorem getString_err {c : Cell} {e : Err} (h : CellOK valid c)
    (hg : getString valid c = .error e) :
    e = .utf8 ∧ c.str = none ∧ ∃ b, c.bytes = some b ∧ valid b = false := by
  obtain ⟨h1, h2, h3, h4⟩ := h
  unfold getString at hg
  cases hs : c.str with
  | some s0 => simp [hs] at hg
  | none =>
    cases hb : c.bytes with
    | none => simp [hs, hb] at h1
    | some b =>
      by_cases hv : valid b
      · simp [hs, hb, hv] at hg
      · simp [hs, hb, hv] at hg
        exact ⟨hg.symm, rfl, b, rfl, by simpa using hv⟩

@[simp] theorem obtain_some (a : Bool) (c : Cell) (ld : LoadRes) :
    obtain valid a (some c) ld = (.ok c, false) := rfl

theorem newString_ok {b : Bytes} (hv : valid b = true) : CellOK valid (Cell.newString b) :=
  ⟨by simp [Cell.newString], by simp [Cell.newString]; exact hv,
   by simp [Cell.newString], by simp [Cell.newString]⟩

theorem newBytes_ok (b : Bytes) : CellOK valid (Cell.newBytes b) :=
  ⟨by simp [Cell.newBytes], by simp [Cell.newBytes], by simp [Cell.newBytes], by simp [Cell.newBytes]⟩

/-- the load-or-occupied prefix: the cell it hands on is well-formed -/
theorem obtain_ok {a : Bool} {c : Option Cell} {ld : LoadRes} {cell : Cell} {l : Bool}
    (h : ∀ x, c = some x → CellOK valid x) (ho : obtain valid a c ld = (.ok cell, l)) :
    CellOK valid cell ∧ (l = true ↔ c = none) ∧ (c = none → cell.evaluating = false ∧ cell.evaluated = none ∧ cell.parsed = false) ∧ (∀ x, c = some x → cell = x) := by
  cases c with
  | some x =>
    simp at ho
    obtain ⟨rfl, rfl⟩ := ho
    exact ⟨h _ rfl, by simp, by simp, by simp⟩
  | none =>
    cases ld with
    | err cls => simp [obtain] at ho
    | ok b =>
      cases a with
      | true =>
        by_cases hv : valid b
        · simp [obtain, hv] at ho
          obtain ⟨rfl, rfl⟩ := ho
          exact ⟨newString_ok valid hv, by simp, by simp [Cell.newString], by simp⟩
        · simp [obtain, hv] at ho
      | false =>
        simp [obtain] at ho
        obtain ⟨rfl, rfl⟩ := ho
        exact ⟨newBytes_ok valid b, by simp, by simp [Cell.newBytes], by simp⟩

theorem obtain_err {a : Bool} {c : Option Cell} {ld : LoadRes} {e : Err} {l : Bool}
    (ho : obtain valid a c ld = (.error e, l)) :
    c = none ∧ l = true ∧ (e = .utf8 ∨ ∃ cls, e = .load cls) := by
  cases c with
  | some x => simp at ho
  | none =>
    cases ld with
    | err cls => simp [obtain] at ho; exact ⟨rfl, ho.2, .inr ⟨cls, ho.1.symm⟩⟩
    | ok b =>
      cases a with
      | true =>
        by_cases hv : valid b
        · simp [obtain, hv] at ho
        · simp [obtain, hv] at ho; exact ⟨rfl, ho.2, .inl ho.1.symm⟩
      | false => simp [obtain] at ho

/-- everything later proofs need to know about one cell transition -/
structure StepFacts (c : Option Cell) (ev : Ev) (r : Option Cell × StackOp × Obs) : Prop where
  ok : ∀ x, r.1 = some x → CellOK valid x
  mono : c ≠ none → r.1 ≠ none
  content : ∀ x y, c = some x → r.1 = some y → content y = content x
  keep : r.2.1 = .keep → flag r.1 = flag c
  push : r.2.1 = .push → flag c = false ∧ flag r.1 = true
  pop : r.2.1 = .pop → flag r.1 = false
  nonfin : ev.isFinish = false → r.2.1 ≠ .pop ∧ (r.2.2.loaded = true ↔ c = none)
  fin : ev.isFinish = true → r.2.1 = .pop ∧ r.2.2.loaded = false
  nopanic : c ≠ none ∨ ev.isFinish = false → r.2.2.out ≠ .err .panic
  entered : r.2.2.out = .entered ↔ r.2.1 = .push
  failed : (r.2.2.out = .err .utf8 ∨ ∃ cls, r.2.2.out = .err (.load cls)) → r.2.2.loaded = true →
    r.1 = c ∧ r.2.1 = .keep
  cached : r.2.2.loaded = true →
    ¬ (r.2.2.out = .err .utf8 ∨ ∃ cls, r.2.2.out = .err (.load cls)) → r.1 ≠ none

theorem cellStep_facts (c : Option Cell) (p : Path) (ev : Ev)
    (h : ∀ x, c = some x → CellOK valid x) : StepFacts valid c ev (cellStep valid c p ev) := by
  cases ev with
  | str q ld =>
    rcases ho : obtain valid true c ld with ⟨res, l⟩
    cases res with
    | error e =>
      obtain ⟨rfl, rfl, he⟩ := obtain_err valid ho
      simp only [cellStep, ho]
      refine ⟨by simp, by simp, by simp, by simp, by simp, by simp, by simp [Ev.isFinish],
        by simp [Ev.isFinish], ?_, by simp, by simp, ?_⟩
      · rcases he with rfl | ⟨cls, rfl⟩ <;> simp
      · rcases he with rfl | ⟨cls, rfl⟩ <;> simp
    | ok cell =>
      obtain ⟨hok, hl, hfresh, hsame⟩ := obtain_ok valid h ho
      cases hg : getString valid cell with
      | ok pr =>
        obtain ⟨c', s⟩ := pr
        obtain ⟨g1, g2, g3, g4, g5, g6, g7⟩ := getString_ok valid hok hg
        simp only [cellStep, ho, hg]
        refine ⟨by intro x hx; simp at hx; subst hx; exact g1, by simp, ?_, ?_, by simp, by simp,
          by simpa [Ev.isFinish] using hl, by simp [Ev.isFinish], by simp, by simp, by simp, by simp⟩
        · intro x y hx hy; simp at hy; subst hy; rw [← hsame x hx, g3]; simp [content, g2]
        · intro _; cases c with
          | none => simp [flag, g7, (hfresh rfl).1]
          | some x => simp [flag, g7, hsame x rfl]
      | error e =>
        obtain ⟨rfl, e2, b, e3, e4⟩ := getString_err valid hok hg
        simp only [cellStep, ho, hg]
        have hc : c = some cell := by
          cases c with
          | none =>
            cases ld with
            | err cls => simp [obtain] at ho
            | ok b' =>
              by_cases hv : valid b'
              · simp [obtain, hv] at ho; obtain ⟨rfl, rfl⟩ := ho; simp [Cell.newString] at e2
              · simp [obtain, hv] at ho
          | some x => rw [hsame x rfl]
        subst hc
        simp at ho
        subst ho
        refine ⟨by intro x hx; simp at hx; subst hx; exact hok, by simp, by simp,
          by simp, by simp, by simp, by simp [Ev.isFinish], by simp [Ev.isFinish], by simp,
          by simp, by simp, by simp⟩
  | bin q ld =>
    rcases ho : obtain valid false c ld with ⟨res, l⟩
    cases res with
    | error e =>
      obtain ⟨rfl, rfl, he⟩ := obtain_err valid ho
      simp only [cellStep, ho]
      refine ⟨by simp, by simp, by simp, by simp, by simp, by simp, by simp [Ev.isFinish],
        by simp [Ev.isFinish], ?_, by simp, by simp, ?_⟩
      · rcases he with rfl | ⟨cls, rfl⟩ <;> simp
      · rcases he with rfl | ⟨cls, rfl⟩ <;> simp
    | ok cell =>
      obtain ⟨hok, hl, hfresh, hsame⟩ := obtain_ok valid h ho
      have hflag : flag (some cell) = flag c := by
        cases c with
        | none => simp [flag, (hfresh rfl).1]
        | some x => simp [hsame x rfl]
      cases hb : cell.bytes with
      | some b =>
        simp only [cellStep, ho, hb]
        refine ⟨by intro x hx; simp at hx; subst hx; exact hok, by simp, ?_, fun _ => hflag, by simp,
          by simp, by simpa [Ev.isFinish] using hl, by simp [Ev.isFinish], by simp, by simp, by simp,
          by simp⟩
        intro x y hx hy; simp at hy; subst hy; rw [hsame x hx]
      | none =>
        obtain ⟨k1, k2, k3, k4⟩ := hok
        cases hs : cell.str with
        | none => simp [hb, hs] at k1
        | some s =>
          simp only [cellStep, ho, hb, hs]
          refine ⟨?_, by simp, ?_, ?_, by simp, by simp, by simpa [Ev.isFinish] using hl,
            by simp [Ev.isFinish], by simp, by simp, by simp, by simp⟩
          · intro x hx; simp at hx; subst hx
            refine ⟨by simp, ?_, ?_, fun he => ⟨(k4 he).1, (k4 he).2.1, by simp⟩⟩
            · intro s' hs'; simp at hs'; subst hs'; exact k2 _ hs
            · intro s' b' hs' hb'; simp at hs' hb'; rw [← hs', ← hb']
          · intro x y hx hy; simp at hy; subst hy; rw [← hsame x hx]; simp [content, hs]
          · intro _; rw [← hflag]; simp [flag]
  | «begin» q ld pk =>
    rcases ho : obtain valid true c ld with ⟨res, l⟩
    cases res with
    | error e =>
      obtain ⟨rfl, rfl, he⟩ := obtain_err valid ho
      simp only [cellStep, ho]
      refine ⟨by simp, by simp, by simp, by simp, by simp, by simp, by simp [Ev.isFinish],
        by simp [Ev.isFinish], ?_, by simp, by simp, ?_⟩
      · rcases he with rfl | ⟨cls, rfl⟩ <;> simp
      · rcases he with rfl | ⟨cls, rfl⟩ <;> simp
    | ok cell =>
      obtain ⟨hok, hl, hfresh, hsame⟩ := obtain_ok valid h ho
      have hflag : flag (some cell) = flag c := by
        cases c with
        | none => simp [flag, (hfresh rfl).1]
        | some x => simp [hsame x rfl]
      cases hev : cell.evaluated with
      | some v =>
        simp only [cellStep, ho, hev]
        refine ⟨by intro x hx; simp at hx; subst hx; exact hok, by simp, ?_, fun _ => hflag, by simp,
          by simp, by simpa [Ev.isFinish] using hl, by simp [Ev.isFinish], by simp, by simp, by simp,
          by simp⟩
        intro x y hx hy; simp at hy; subst hy; rw [hsame x hx]
      | none =>
        cases hg : getString valid cell with
        | error e =>
          obtain ⟨rfl, e2, b, e3, e4⟩ := getString_err valid hok hg
          simp only [cellStep, ho, hev, hg]
          have hc : c = some cell := by
            cases c with
            | none =>
              cases ld with
              | err cls => simp [obtain] at ho
              | ok b' =>
                by_cases hv : valid b'
                · simp [obtain, hv] at ho; obtain ⟨rfl, rfl⟩ := ho; simp [Cell.newString] at e2
                · simp [obtain, hv] at ho
            | some x => rw [hsame x rfl]
          subst hc
          simp at ho
          subst ho
          refine ⟨by intro x hx; simp at hx; subst hx; exact hok, by simp,
            by simp, by simp, by simp, by simp,
            by simp [Ev.isFinish], by simp [Ev.isFinish], by simp, by simp, by simp,
            by simp⟩
        | ok pr =>
          obtain ⟨c1, s⟩ := pr
          obtain ⟨g1, g2, g3, g4, g5, g6, g7⟩ := getString_ok valid hok hg
          obtain ⟨k1, k2, k3, k4⟩ := g1
          have hcont : ∀ x, c = some x → content x = some s := by
            intro x hx; rw [← hsame x hx]; exact g3
          by_cases hsyn : (!c1.parsed && !pk) = true
          · simp only [cellStep, ho, hev, hg, hsyn, if_true]
            refine ⟨by intro x hx; simp at hx; subst hx; exact ⟨k1, k2, k3, k4⟩, by simp, ?_, ?_,
              by simp, by simp, by simpa [Ev.isFinish] using hl, by simp [Ev.isFinish], by simp,
              by simp, by simp, by simp⟩
            · intro x y hx hy; simp at hy; subst hy; rw [hcont x hx]; simp [content, g2]
            · intro _; rw [← hflag]; simp [flag, g7]
          · by_cases hrun : c1.evaluating = true
            · simp only [cellStep, ho, hev, hg, hsyn, hrun, if_true]
              refine ⟨?_, by simp, ?_, ?_, by simp, by simp, by simpa [Ev.isFinish] using hl,
                by simp [Ev.isFinish], by simp, by simp, by simp, by simp⟩
              · intro x hx; simp at hx; subst hx
                exact ⟨k1, k2, k3, fun _ => ⟨rfl, (k4 hrun).2⟩⟩
              · intro x y hx hy; simp at hy; subst hy; rw [hcont x hx]; simp [content, g2]
              · intro _; rw [← hflag]; simp [flag]; rw [← g7]; exact hrun
            · simp only [cellStep, ho, hev, hg, hsyn, hrun]
              simp only [Bool.false_eq_true, if_false]
              refine ⟨?_, by simp, ?_, by simp, ?_, by simp, by simpa [Ev.isFinish] using hl,
                by simp [Ev.isFinish], by simp, by simp, by simp, by simp⟩
              · intro x hx; simp at hx; subst hx
                exact ⟨k1, k2, k3, fun _ => ⟨rfl, by rw [g6]; exact hev, by simp [g2]⟩⟩
              · intro x y hx hy; simp at hy; subst hy; rw [hcont x hx]; simp [content, g2]
              · intro _; rw [← hflag]; simp [flag]; rw [← g7]; simpa using hrun
  | finish r =>
    cases c with
    | none =>
      simp only [cellStep]
      exact ⟨by simp, by simp, by simp, by simp, by simp, by simp [flag], by simp [Ev.isFinish],
        by simp [Ev.isFinish], by simp [Ev.isFinish], by simp, by simp, by simp⟩
    | some cell =>
      obtain ⟨k1, k2, k3, k4⟩ := h cell rfl
      simp only [cellStep]
      refine ⟨?_, by simp, ?_, by simp, by simp, by simp [flag], by simp [Ev.isFinish],
        by simp [Ev.isFinish], by simp, by simp, by simp, by simp⟩
      · intro x hx; simp at hx; subst hx; exact ⟨k1, k2, k3, by simp⟩
      · intro x y hx hy; simp at hx hy; subst hx; subst hy; simp [content]

/-! ## the machine: global invariant -/

structure Inv (s : St) : Prop where
  cells : ∀ p c, s.cache p = some c → CellOK valid c
  flags : ∀ p, p ∈ s.stack ↔ flag (s.cache p) = true
  nodup : s.stack.Nodup

theorem init_inv : Inv valid init := ⟨by simp [init], by simp [init, flag], by simp [init]⟩

theorem target_finish {stack : List Path} {ev : Ev} {p : Path} (hf : ev.isFinish = true)
    (ht : ev.target stack = some p) : ∃ tl, stack = p :: tl := by
  cases ev <;> simp [Ev.isFinish] at hf
  simp only [Ev.target] at ht
  cases stack with
  | nil => simp at ht
  | cons x tl => simp at ht; exact ⟨tl, by rw [ht]⟩

theorem target_path {stack : List Path} {ev : Ev} (hf : ev.isFinish = false) :
    ev.target stack = ev.path? := by
  cases ev <;> simp [Ev.isFinish] at hf <;> rfl

theorem step_inv {s : St} (h : Inv valid s) (ev : Ev) : Inv valid (step valid s ev).1 := by
  unfold step
  cases ht : ev.target s.stack with
  | none => exact h
  | some p =>
    simp only
    have F := cellStep_facts valid (s.cache p) p ev (fun x hx => h.cells p x hx)
    generalize cellStep valid (s.cache p) p ev = r at F
    obtain ⟨c', op, ob⟩ := r
    simp only at F ⊢
    have hpop : op = .pop → ∃ tl, s.stack = p :: tl := by
      intro ho
      cases hf : ev.isFinish with
      | true => exact target_finish hf ht
      | false => exact absurd ho (F.nonfin hf).1
    refine ⟨?_, ?_, ?_⟩
    · intro q c hq
      by_cases hqp : q = p
      · subst hqp; simp at hq; exact F.ok c hq
      · simp [hqp] at hq; exact h.cells q c hq
    · intro q
      by_cases hqp : q = p
      · subst hqp
        simp only [if_true]
        cases op with
        | keep => simp only [applyOp]; rw [F.keep rfl]; exact h.flags q
        | push => simp [applyOp, (F.push rfl).2]
        | pop =>
          obtain ⟨tl, htl⟩ := hpop rfl
          have hn := h.nodup
          rw [htl] at hn
          simp [applyOp, htl, F.pop rfl, (List.nodup_cons.mp hn).1]
      · simp only [hqp, if_false]
        cases op with
        | keep => exact h.flags q
        | push => simp only [applyOp, List.mem_cons, hqp, false_or]; exact h.flags q
        | pop =>
          obtain ⟨tl, htl⟩ := hpop rfl
          have := h.flags q
          rw [htl] at this
          simpa [applyOp, htl, hqp] using this
    · cases op with
      | keep => exact h.nodup
      | push =>
        have : p ∉ s.stack := by
          intro hm; have := (h.flags p).mp hm; rw [(F.push rfl).1] at this; simp at this
        simpa [applyOp] using ⟨this, h.nodup⟩
      | pop =>
        obtain ⟨tl, htl⟩ := hpop rfl
        have hn := h.nodup
        rw [htl] at hn
        simpa [applyOp, htl] using (List.nodup_cons.mp hn).2

theorem run_inv {s : St} (h : Inv valid s) (evs : List Ev) : Inv valid (run valid s evs).1 := by
  induction evs generalizing s with
  | nil => exact h
  | cons e es ih => simp only [run]; exact ih (step_inv valid h e)

theorem reachable_inv (evs : List Ev) : Inv valid (run valid init evs).1 :=
  run_inv valid (init_inv valid) evs

theorem getString_fields {c c' : Cell} {s : Bytes} (hg : getString valid c = .ok (c', s)) :
    c'.evaluated = c.evaluated ∧ c'.evaluating = c.evaluating ∧ c'.parsed = c.parsed ∧
      c'.bytes = c.bytes ∧ c'.str = some s := by
  unfold getString at hg
  cases hs : c.str with
  | some s0 => simp [hs] at hg; obtain ⟨rfl, rfl⟩ := hg; exact ⟨rfl, rfl, rfl, rfl, hs⟩
  | none =>
    cases hb : c.bytes with
    | none => simp [hs, hb] at hg
    | some b =>
      by_cases hv : valid b
      · simp [hs, hb, hv] at hg; obtain ⟨rfl, rfl⟩ := hg; exact ⟨rfl, rfl, rfl, rfl, rfl⟩
      · simp [hs, hb, hv] at hg

theorem cellStep_evaluated (x y : Cell) (p : Path) (ev : Ev) (hf : ev.isFinish = false)
    (h : (cellStep valid (some x) p ev).1 = some y) : y.evaluated = x.evaluated := by
  cases ev with
  | finish r => simp [Ev.isFinish] at hf
  | str q ld =>
    simp only [cellStep, obtain_some] at h
    cases hg : getString valid x with
    | ok pr => simp [hg] at h; subst h; exact (getString_fields valid hg).1
    | error e => simp [hg] at h; subst h; rfl
  | bin q ld =>
    simp only [cellStep, obtain_some] at h
    cases hb : x.bytes with
    | some b => simp [hb] at h; subst h; rfl
    | none =>
      cases hs : x.str with
      | some s => simp [hb, hs] at h; subst h; rfl
      | none => simp [hb, hs] at h; subst h; rfl
  | «begin» q ld pk =>
    simp only [cellStep, obtain_some] at h
    cases hev : x.evaluated with
    | some v => simp [hev] at h; subst h; exact hev
    | none =>
      cases hg : getString valid x with
      | error e => simp [hev, hg] at h; subst h; exact hev
      | ok pr =>
        have := (getString_fields valid hg).1
        simp only [hev, hg] at h
        split at h
        · simp at h; subst h; rw [this, hev]
        · split at h <;> (simp at h; subst h; simp [this, hev])

theorem cellStep_out_finished (c : Option Cell) (p q : Path) (ev : Ev) (r : Option Nat)
    (h : (cellStep valid c p ev).2.2.out = .finished q r) : ev = .finish r ∧ q = p := by
  cases ev <;> simp only [cellStep, obtain, getString] at h <;>
    (repeat' split at h) <;> simp_all

/-! ## traces and counting -/

def trace (s : St) (evs : List Ev) : List (Ev × Obs) := evs.zip (run valid s evs).2

theorem trace_cons (s : St) (e : Ev) (es : List Ev) :
    trace valid s (e :: es) = (e, (step valid s e).2) :: trace valid (step valid s e).1 es := by
  simp [trace, run]

def failOut : Out → Bool
  | .err .utf8 => true
  | .err (.load _) => true
  | _ => false

theorem failOut_iff (o : Out) : failOut o = true ↔ (o = .err .utf8 ∨ ∃ cls, o = .err (.load cls)) := by
  cases o with
  | err e => cases e <;> simp [failOut]
  | _ => simp [failOut]

/-- the loader was called for `p` -/
def isLoad (p : Path) (e : Ev × Obs) : Bool := e.1.path? == some p && e.2.loaded
/-- ... and the bytes did not make it into the cache (loader error, or rejected as non-UTF-8) -/
def isFailedLoad (p : Path) (e : Ev × Obs) : Bool := isLoad p e && failOut e.2.out
/-- an evaluation of file `p` completed with a value -/
def isEvalOk (p : Path) (e : Ev × Obs) : Bool :=
  match e.2.out with
  | .finished q (some _) => q == p
  | _ => false

theorem step_on (s : St) {ev : Ev} {p : Path} (hp : ev.path? = some p) :
    step valid s ev =
      (⟨fun q => if q = p then (cellStep valid (s.cache p) p ev).1 else s.cache q,
        applyOp (cellStep valid (s.cache p) p ev).2.1 p s.stack⟩,
       (cellStep valid (s.cache p) p ev).2.2) := by
  have : ev.target s.stack = some p := by cases ev <;> simp_all [Ev.path?, Ev.target]
  simp [step, this]

theorem path_nonfinish {ev : Ev} {p : Path} (hp : ev.path? = some p) : ev.isFinish = false := by
  cases ev <;> simp_all [Ev.path?, Ev.isFinish]

theorem step_other (s : St) (ev : Ev) (q : Path) (hq : ev.target s.stack ≠ some q) :
    (step valid s ev).1.cache q = s.cache q := by
  unfold step
  cases ht : ev.target s.stack with
  | none => rfl
  | some p =>
    have : q ≠ p := by intro h; subst h; exact hq ht
    simp [this]

theorem step_mono {s : St} (h : Inv valid s) (ev : Ev) (q : Path) (hq : s.cache q ≠ none) :
    (step valid s ev).1.cache q ≠ none := by
  by_cases ht : ev.target s.stack = some q
  · have F := cellStep_facts valid (s.cache q) q ev (fun x hx => h.cells q x hx)
    simp only [step, ht, if_true]
    exact F.mono hq
  · rw [step_other valid s ev q ht]; exact hq

theorem head_running {s : St} (h : Inv valid s) {p : Path} (hp : p ∈ s.stack) :
    ∃ c, s.cache p = some c ∧ c.evaluating = true ∧ c.parsed = true ∧ c.evaluated = none ∧
      ∃ str, c.str = some str := by
  have hf := (h.flags p).mp hp
  cases hc : s.cache p with
  | none => simp [hc, flag] at hf
  | some c =>
    simp [hc, flag] at hf
    obtain ⟨r1, r2, r3⟩ := (h.cells p c hc).running hf
    cases hs : c.str with
    | none => simp [hs] at r3
    | some str => exact ⟨c, rfl, hf, r1, r2, str, hs⟩

theorem occupied_no_load {s : St} (h : Inv valid s) (p : Path) (hp : s.cache p ≠ none)
    (evs : List Ev) : (trace valid s evs).countP (isLoad p) = 0 := by
  induction evs generalizing s with
  | nil => simp [trace]
  | cons e es ih =>
    rw [trace_cons, List.countP_cons, ih (step_inv valid h e) (step_mono valid h e p hp)]
    have : isLoad p (e, (step valid s e).2) = false := by
      cases hpe : e.path? with
      | none => simp [isLoad, hpe]
      | some q =>
        by_cases hq : q = p
        · subst hq
          have F := cellStep_facts valid (s.cache q) q e (fun x hx => h.cells q x hx)
          have hl := (F.nonfin (path_nonfinish hpe)).2
          rw [step_on valid s hpe]
          simp only [isLoad, hpe, beq_self_eq_true, Bool.true_and]
          cases hld : (cellStep valid (s.cache q) q e).2.2.loaded with
          | false => rfl
          | true => exact absurd (hl.mp hld) hp
        · simp [isLoad, hpe, hq]
    simp [this]

theorem loads_le {s : St} (h : Inv valid s) (p : Path) (evs : List Ev) :
    (trace valid s evs).countP (isLoad p) ≤ 1 + (trace valid s evs).countP (isFailedLoad p) := by
  induction evs generalizing s with
  | nil => simp [trace]
  | cons e es ih =>
    rw [trace_cons, List.countP_cons, List.countP_cons]
    have ih' := ih (step_inv valid h e)
    cases hl : isLoad p (e, (step valid s e).2) with
    | false => simp [isFailedLoad, hl]; exact ih'
    | true =>
      cases hf : failOut (step valid s e).2.out with
      | true => simp [isFailedLoad, hl, hf]; omega
      | false =>
        -- the load succeeded and populated the cell: nothing is ever loaded for `p` again
        have hpe : e.path? = some p := by simp [isLoad] at hl; exact hl.1
        have hld : (step valid s e).2.loaded = true := by simp [isLoad] at hl; exact hl.2
        have F := cellStep_facts valid (s.cache p) p e (fun x hx => h.cells p x hx)
        rw [step_on valid s hpe] at hld hf
        have hocc : (step valid s e).1.cache p ≠ none := by
          rw [step_on valid s hpe]; simp only [if_true]
          refine F.cached hld ?_
          rw [← failOut_iff]; simp [hf]
        rw [occupied_no_load valid (step_inv valid h e) p hocc]
        simp [isFailedLoad, hl]

theorem evaluated_stable {s : St} (h : Inv valid s) {p : Path} {c : Cell} {v : Nat}
    (hc : s.cache p = some c) (hv : c.evaluated = some v) (ev : Ev) :
    (∃ c', (step valid s ev).1.cache p = some c' ∧ c'.evaluated = some v) ∧
      isEvalOk p (ev, (step valid s ev).2) = false := by
  have hnot : p ∉ s.stack := by
    intro hp
    obtain ⟨c2, h1, _, _, h4, _⟩ := head_running valid h hp
    rw [hc] at h1; cases h1; rw [hv] at h4; cases h4
  by_cases ht : ev.target s.stack = some p
  · cases hf : ev.isFinish with
    | true =>
      obtain ⟨tl, htl⟩ := target_finish hf ht
      exact absurd (by simp [htl]) hnot
    | false =>
      have hpe : ev.path? = some p := by rw [← target_path hf]; exact ht
      have F := cellStep_facts valid (s.cache p) p ev (fun x hx => h.cells p x hx)
      rw [step_on valid s hpe]
      simp only [if_true]
      constructor
      · have hne := F.mono (by simp [hc])
        cases hy : (cellStep valid (s.cache p) p ev).1 with
        | none => exact absurd hy hne
        | some y =>
          refine ⟨y, rfl, ?_⟩
          rw [hc] at hy
          rw [cellStep_evaluated valid c y p ev hf hy, hv]
      · simp only [isEvalOk]
        split
        · rename_i q w heq
          have := cellStep_out_finished valid _ _ _ _ _ heq
          rw [this.1] at hf; simp [Ev.isFinish] at hf
        · rfl
  · refine ⟨⟨c, by rw [step_other valid s ev p ht]; exact hc, hv⟩, ?_⟩
    simp only [isEvalOk]
    split
    · rename_i q w heq
      by_cases hqp : q = p
      · subst hqp
        exfalso
        unfold step at heq
        cases ht2 : ev.target s.stack with
        | none => simp [ht2] at heq
        | some p2 =>
          simp only [ht2] at heq
          have := cellStep_out_finished valid _ _ _ _ _ heq
          exact ht (by rw [ht2, this.2])
      · simp [hqp]
    · rfl

theorem evaluated_no_eval {s : St} (h : Inv valid s) {p : Path} {c : Cell} {v : Nat}
    (hc : s.cache p = some c) (hv : c.evaluated = some v) (evs : List Ev) :
    (trace valid s evs).countP (isEvalOk p) = 0 := by
  induction evs generalizing s c with
  | nil => simp [trace]
  | cons e es ih =>
    obtain ⟨⟨c', h1, h2⟩, h3⟩ := evaluated_stable valid h hc hv e
    rw [trace_cons, List.countP_cons, ih (step_inv valid h e) h1 h2]
    simp [h3]

theorem evaluated_stable_run {s : St} (h : Inv valid s) {p : Path} {c : Cell} {v : Nat}
    (hc : s.cache p = some c) (hv : c.evaluated = some v) (evs : List Ev) :
    ∃ c', (run valid s evs).1.cache p = some c' ∧ c'.evaluated = some v := by
  induction evs generalizing s c with
  | nil => exact ⟨c, hc, hv⟩
  | cons e es ih =>
    obtain ⟨⟨c1, h1, h2⟩, _⟩ := evaluated_stable valid h hc hv e
    simpa [run] using ih (step_inv valid h e) h1 h2

theorem begin_cached (s : St) {p : Path} {c : Cell} {v : Nat} (hc : s.cache p = some c)
    (hv : c.evaluated = some v) (ld : LoadRes) (pk : Bool) :
    step valid s (.begin p ld pk) = (s, ⟨false, .val v⟩) := by
  rw [step_on valid s (p := p) rfl]
  simp only [hc, cellStep, obtain_some, hv, applyOp]
  refine Prod.ext ?_ rfl
  cases s with
  | mk cache stack =>
    simp only [St.mk.injEq, and_true]
    funext q
    by_cases hq : q = p
    · subst hq; simpa using hc.symm
    · simp [hq]

theorem evals_le {s : St} (h : Inv valid s) (p : Path) (evs : List Ev) :
    (trace valid s evs).countP (isEvalOk p) ≤ 1 := by
  induction evs generalizing s with
  | nil => simp [trace]
  | cons e es ih =>
    rw [trace_cons, List.countP_cons]
    cases he : isEvalOk p (e, (step valid s e).2) with
    | false => simpa using ih (step_inv valid h e)
    | true =>
      -- the step was `finish (some v)` on `p`: afterwards `p` carries its value for good
      have hout : ∃ v, (step valid s e).2.out = .finished p (some v) := by
        simp only [isEvalOk] at he
        split at he
        · rename_i q w heq; simp at he; subst he; exact ⟨w, heq⟩
        · cases he
      obtain ⟨v, hv⟩ := hout
      have hocc : ∃ c', (step valid s e).1.cache p = some c' ∧ c'.evaluated = some v := by
        unfold step at hv ⊢
        cases ht : e.target s.stack with
        | none => simp [ht] at hv
        | some p2 =>
          simp only [ht] at hv ⊢
          obtain ⟨rfl, rfl⟩ := cellStep_out_finished valid _ _ _ _ _ hv
          obtain ⟨tl, htl⟩ := target_finish (by simp [Ev.isFinish]) ht
          obtain ⟨c, hc, _⟩ := head_running valid h (p := p) (by simp [htl])
          simp [hc, cellStep]
      obtain ⟨c', h1, h2⟩ := hocc
      rw [evaluated_no_eval valid (step_inv valid h e) h1 h2]
      simp

/-! ## cycle detection, panics, exact contents -/

theorem St.ext' {s t : St} (h1 : ∀ q, s.cache q = t.cache q) (h2 : s.stack = t.stack) : s = t := by
  cases s; cases t; simp at h1 h2 ⊢; exact ⟨funext h1, h2⟩

theorem begin_on_stack {s : St} (h : Inv valid s) {p : Path} (hp : p ∈ s.stack) (ld : LoadRes)
    (pk : Bool) : step valid s (.begin p ld pk) = (s, ⟨false, .err .infrec⟩) := by
  obtain ⟨c, hc, h1, h2, h3, str, h4⟩ := head_running valid h hp
  rw [step_on valid s (p := p) rfl]
  have hcs : cellStep valid (s.cache p) p (.begin p ld pk) = (some c, .keep, ⟨false, .err .infrec⟩) := by
    simp only [hc, cellStep, obtain_some, h3, getString, h4, h2, h1]
    simp
    cases c; simp_all
  rw [hcs]
  simp only [applyOp]
  refine Prod.ext (St.ext' ?_ rfl) rfl
  intro q
  by_cases hq : q = p
  · subst hq; simp [hc]
  · simp [hq]

theorem step_no_panic {s : St} (h : Inv valid s) (ev : Ev) :
    (step valid s ev).2.out ≠ .err .panic := by
  unfold step
  cases ht : ev.target s.stack with
  | none => simp
  | some p =>
    simp only
    have F := cellStep_facts valid (s.cache p) p ev (fun x hx => h.cells p x hx)
    apply F.nopanic
    cases hf : ev.isFinish with
    | false => exact .inr rfl
    | true =>
      left
      obtain ⟨tl, htl⟩ := target_finish hf ht
      obtain ⟨c, hc, _⟩ := head_running valid h (p := p) (by simp [htl])
      simp [hc]

theorem content_stable {s : St} (h : Inv valid s) {p : Path} {c : Cell} (hc : s.cache p = some c)
    (ev : Ev) : ∃ c', (step valid s ev).1.cache p = some c' ∧ content c' = content c := by
  by_cases ht : ev.target s.stack = some p
  · have F := cellStep_facts valid (s.cache p) p ev (fun x hx => h.cells p x hx)
    simp only [step, ht, if_true]
    have hne := F.mono (by simp [hc])
    cases hy : (cellStep valid (s.cache p) p ev).1 with
    | none => exact absurd hy hne
    | some y => exact ⟨y, rfl, F.content c y hc hy⟩
  · exact ⟨c, by rw [step_other valid s ev p ht]; exact hc, rfl⟩

theorem content_stable_run {s : St} (h : Inv valid s) {p : Path} {c : Cell}
    (hc : s.cache p = some c) (evs : List Ev) :
    ∃ c', (run valid s evs).1.cache p = some c' ∧ content c' = content c := by
  induction evs generalizing s c with
  | nil => exact ⟨c, hc, rfl⟩
  | cons e es ih =>
    obtain ⟨c1, h1, h2⟩ := content_stable valid h hc e
    obtain ⟨c2, h3, h4⟩ := ih (step_inv valid h e) h1
    exact ⟨c2, by simpa [run] using h3, by rw [h4, h2]⟩

theorem bin_exact {s : St} (h : Inv valid s) {p : Path} {c : Cell} {b : Bytes}
    (hc : s.cache p = some c) (hb : content c = some b) (ld : LoadRes) :
    (step valid s (.bin p ld)).2 = ⟨false, .binVal b⟩ := by
  rw [step_on valid s (p := p) rfl]
  obtain ⟨k1, k2, k3, k4⟩ := h.cells p c hc
  simp only [hc, cellStep, obtain_some]
  unfold content at hb
  cases hbs : c.bytes with
  | some b' =>
    cases hs : c.str with
    | some s' => simp [hs] at hb; subst hb; simp [k3 _ _ hs hbs]
    | none => simp [hs, hbs] at hb; subst hb; simp
  | none =>
    cases hs : c.str with
    | some s' => simp [hs] at hb; subst hb; simp
    | none => simp [hs, hbs] at hb

theorem str_exact {s : St} (h : Inv valid s) {p : Path} {c : Cell} {b : Bytes}
    (hc : s.cache p = some c) (hb : content c = some b) (ld : LoadRes) :
    (step valid s (.str p ld)).2 = ⟨false, if valid b then .strVal b else .err .utf8⟩ := by
  rw [step_on valid s (p := p) rfl]
  obtain ⟨k1, k2, k3, k4⟩ := h.cells p c hc
  simp only [hc, cellStep, obtain_some, getString]
  unfold content at hb
  cases hs : c.str with
  | some s' => simp [hs] at hb; subst hb; simp [k2 _ hs]
  | none =>
    simp [hs] at hb
    by_cases hv : valid b <;> simp [hb, hv]

/-- a first successful load fixes the cell's contents to the loaded bytes -/
theorem load_content {s : St} {ev : Ev} {p : Path} {b : Bytes}
    (hvac : s.cache p = none)
    (hev : ev = .str p (.ok b) ∨ ev = .bin p (.ok b) ∨ ∃ pk, ev = .begin p (.ok b) pk)
    {c : Cell} (hc : (step valid s ev).1.cache p = some c) : content c = some b := by
  have hpe : ev.path? = some p := by rcases hev with rfl | rfl | ⟨pk, rfl⟩ <;> rfl
  rw [step_on valid s hpe] at hc
  simp only [if_true, hvac] at hc
  rcases hev with rfl | rfl | ⟨pk, rfl⟩
  · by_cases hv : valid b
    · simp [cellStep, obtain, hv, getString, Cell.newString] at hc; subst hc; simp [content]
    · simp [cellStep, obtain, hv] at hc
  · simp [cellStep, obtain, Cell.newBytes] at hc; subst hc; simp [content]
  · by_cases hv : valid b
    · cases pk <;> (simp [cellStep, obtain, hv, getString, Cell.newString] at hc; subst hc; simp [content])
    · simp [cellStep, obtain, hv] at hc

/-! ## frame property -/

def evPaths (evs : List Ev) : List Path := evs.filterMap Ev.path?

/-- two states that agree on the stack and on every path in `P` (which contains the stack) -/
structure Agree (P : Path → Prop) (s t : St) : Prop where
  stack : s.stack = t.stack
  inP : ∀ p ∈ s.stack, P p
  cache : ∀ p, P p → s.cache p = t.cache p

theorem step_agree {P : Path → Prop} {s t : St} (h : Agree P s t) (ev : Ev)
    (hev : ∀ p, ev.path? = some p → P p) :
    (step valid s ev).2 = (step valid t ev).2 ∧ Agree P (step valid s ev).1 (step valid t ev).1 := by
  unfold step
  rw [← h.stack]
  cases ht : ev.target s.stack with
  | none => exact ⟨rfl, h⟩
  | some p =>
    have hP : P p := by
      cases hf : ev.isFinish with
      | true => obtain ⟨tl, htl⟩ := target_finish hf ht; exact h.inP p (by simp [htl])
      | false => exact hev p (by rw [← target_path hf]; exact ht)
    simp only [← h.cache p hP]
    refine ⟨trivial, rfl, ?_, ?_⟩
    · intro q hq
      simp only at hq
      cases hop : (cellStep valid (s.cache p) p ev).2.1 with
      | keep => rw [hop] at hq; exact h.inP q hq
      | push =>
        rw [hop] at hq; simp [applyOp] at hq
        rcases hq with rfl | hq
        · exact hP
        · exact h.inP q hq
      | pop => rw [hop] at hq; exact h.inP q (List.mem_of_mem_tail hq)
    · intro q hq
      by_cases hqp : q = p
      · simp [hqp]
      · simp [hqp]; exact h.cache q hq

theorem run_agree {P : Path → Prop} {s t : St} (h : Agree P s t) (evs : List Ev)
    (hev : ∀ p ∈ evPaths evs, P p) :
    (run valid s evs).2 = (run valid t evs).2 ∧ Agree P (run valid s evs).1 (run valid t evs).1 := by
  induction evs generalizing s t with
  | nil => exact ⟨rfl, h⟩
  | cons e es ih =>
    have h1 := step_agree valid h e (fun p hp => hev p (by simp [evPaths, hp]))
    have h2 := ih h1.2 (fun p hp => hev p (by
      simp only [evPaths, List.filterMap_cons] at hp ⊢
      cases e.path? <;> simp_all))
    simp only [run]
    exact ⟨by rw [h1.1, h2.1], h2.2⟩

/-- a load that fails (loader error, or bytes rejected as non-UTF-8) leaves the state untouched -/
theorem failed_load_no_trace {s : St} (h : Inv valid s) (ev : Ev)
    (hl : (step valid s ev).2.loaded = true) (hf : failOut (step valid s ev).2.out = true) :
    (step valid s ev).1 = s := by
  unfold step at hl hf ⊢
  cases ht : ev.target s.stack with
  | none => rfl
  | some p =>
    simp only [ht] at hl hf ⊢
    have F := cellStep_facts valid (s.cache p) p ev (fun x hx => h.cells p x hx)
    obtain ⟨h1, h2⟩ := F.failed ((failOut_iff _).mp hf) hl
    refine St.ext' ?_ (by simp [h2, applyOp])
    intro q
    by_cases hq : q = p
    · subst hq; simp [h1]
    · simp [hq]

end machine

/-! ## the interpreter only moves the machine through `step`, and leaves the stack balanced -/

theorem Run.inv {valid : Bytes → Bool} (r : Run valid) : Inv valid r.st := by
  rw [r.ok]; exact reachable_inv valid _

theorem cellStep_str_keep (valid : Bytes → Bool) (c : Option Cell) (p q : Path) (ld : LoadRes) :
    (cellStep valid c p (.str q ld)).2.1 = .keep := by
  simp only [cellStep]; (repeat' split) <;> rfl

theorem cellStep_bin_keep (valid : Bytes → Bool) (c : Option Cell) (p q : Path) (ld : LoadRes) :
    (cellStep valid c p (.bin q ld)).2.1 = .keep := by
  simp only [cellStep]; (repeat' split) <;> rfl

theorem fire_str_stack {valid : Bytes → Bool} (r : Run valid) (p : Path) (ld : LoadRes) :
    (r.fire (.str p ld)).1.st.stack = r.st.stack := by
  show (step valid r.st (.str p ld)).1.stack = _
  rw [step_on valid r.st (p := p) rfl]; simp [cellStep_str_keep, applyOp]

theorem fire_bin_stack {valid : Bytes → Bool} (r : Run valid) (p : Path) (ld : LoadRes) :
    (r.fire (.bin p ld)).1.st.stack = r.st.stack := by
  show (step valid r.st (.bin p ld)).1.stack = _
  rw [step_on valid r.st (p := p) rfl]; simp [cellStep_bin_keep, applyOp]

theorem fire_begin_stack {valid : Bytes → Bool} (r : Run valid) (p : Path) (ld : LoadRes) (pk : Bool) :
    ((r.fire (.begin p ld pk)).2.out = .entered ∧ (r.fire (.begin p ld pk)).1.st.stack = p :: r.st.stack) ∨
    ((r.fire (.begin p ld pk)).2.out ≠ .entered ∧ (r.fire (.begin p ld pk)).1.st.stack = r.st.stack) := by
  show ((step valid r.st (.begin p ld pk)).2.out = .entered ∧ (step valid r.st (.begin p ld pk)).1.stack = _) ∨
    ((step valid r.st (.begin p ld pk)).2.out ≠ .entered ∧ (step valid r.st (.begin p ld pk)).1.stack = _)
  rw [step_on valid r.st (p := p) rfl]
  have F := cellStep_facts valid (r.st.cache p) p (.begin p ld pk) (fun x hx => r.inv.cells p x hx)
  simp only
  cases hop : (cellStep valid (r.st.cache p) p (.begin p ld pk)).2.1 with
  | keep =>
    right
    refine ⟨fun h => ?_, by simp [applyOp]⟩
    have := F.entered.mp h; rw [hop] at this; cases this
  | push => left; exact ⟨F.entered.mpr hop, by simp [applyOp]⟩
  | pop => exact absurd hop (F.nonfin rfl).1

theorem fire_finish_stack {valid : Bytes → Bool} (r : Run valid) (res : Option Nat) :
    (r.fire (.finish res)).1.st.stack = r.st.stack.tail := by
  show (step valid r.st (.finish res)).1.stack = _
  unfold step
  cases hs : r.st.stack with
  | nil => simp [Ev.target, hs]
  | cons p tl =>
    simp only [Ev.target, List.head?_cons, List.tail_cons]
    cases hc : r.st.cache p <;> simp [cellStep, applyOp]

theorem doResolve_st (w : World) (fault : Option Fault) (r : Run w.valid) (n : String) (d : Path)
    (sp : Spelling) : (doResolve w fault r n d sp).1.st = r.st := rfl

theorem loadIfVacant_st (w : World) (fault : Option Fault) (r : Run w.valid) (p : Path) :
    (loadIfVacant w fault r p).1.st = r.st := by
  unfold loadIfVacant; split <;> rfl

theorem eval_stack (w : World) (fault : Option Fault) (n : Nat) :
    (∀ (r : Run w.valid) (f : Path) (e : E), (evalE w fault n r f e).1.st.stack = r.st.stack) ∧
    (∀ (r : Run w.valid) (p : Path) (k : Kind), (importAs w fault n r p k).1.st.stack = r.st.stack) := by
  induction n with
  | zero => exact ⟨fun r f e => by simp [evalE], fun r p k => by simp [importAs]⟩
  | succ n ih =>
    obtain ⟨ihE, ihI⟩ := ih
    constructor
    · intro r f e
      cases e with
      | lit k => simp [evalE]
      | pick a b => simp only [evalE]; exact ihE r f a
      | add a b =>
        simp only [evalE]
        have h1 := ihE r f a
        rcases hA : evalE w fault n r f a with ⟨r1, res1⟩
        rw [hA] at h1
        cases res1 with
        | error e => simpa using h1
        | ok x =>
          simp only
          have h2 := ihE r1 f b
          rcases hB : evalE w fault n r1 f b with ⟨r2, res2⟩
          rw [hB] at h2
          cases res2 <;> (simp only; rw [h2]; exact h1)
      | imp k sp =>
        simp only [evalE]
        have h0 := doResolve_st w fault r ("f:" ++ showPath f) f.dropLast sp
        rcases hR : doResolve w fault r ("f:" ++ showPath f) f.dropLast sp with ⟨r1, res1⟩
        rw [hR] at h0
        cases res1 with
        | error e => simp only; rw [h0]
        | ok p =>
          simp only
          have h1 := ihI r1 p k
          rcases hI : importAs w fault n r1 p k with ⟨r2, res2⟩
          rw [hI] at h1
          cases res2 with
          | error e => simp only; rw [h1, h0]
          | ok vb => cases k <;> (simp only; rw [h1, h0])
    · intro r p k
      simp only [importAs]
      have h0 := loadIfVacant_st w fault r p
      rcases hL : loadIfVacant w fault r p with ⟨r1, ld⟩
      rw [hL] at h0
      simp only at h0 ⊢
      cases k with
      | str =>
        simp only
        have h1 := fire_str_stack r1 p ld
        rcases hF : r1.fire (.str p ld) with ⟨r2, ob⟩
        rw [hF] at h1
        split <;> (simp only at *; simp_all)
      | bin =>
        simp only
        have h1 := fire_bin_stack r1 p ld
        rcases hF : r1.fire (.bin p ld) with ⟨r2, ob⟩
        rw [hF] at h1
        split <;> (simp only at *; simp_all)
      | imp =>
        simp only
        have h1 := fire_begin_stack r1 p ld (parseOkOf w.fs p)
        rcases hF : r1.fire (.begin p ld (parseOkOf w.fs p)) with ⟨r2, ob⟩
        rw [hF] at h1
        simp only at h1
        split
        · rename_i r3 l v heq
          cases heq
          rcases h1 with ⟨h, _⟩ | ⟨_, h⟩
          · cases h
          · simp only; rw [h, h0]
        · rename_i r3 l heq
          cases heq
          rcases h1 with ⟨_, h⟩ | ⟨h, _⟩
          · split
            · simp only; rw [fire_finish_stack, h]; simp [h0]
            · rename_i e he
              have h2 := ihE r2 p e
              rcases hE : evalE w fault n r2 p e with ⟨r4, res⟩
              rw [hE] at h2
              simp only at h2 ⊢
              rw [fire_finish_stack, h2, h]; simp [h0]
          · exact absurd rfl h
        · rename_i r3 ob' hne1 hne2 heq
          cases heq
          rcases h1 with ⟨h, _⟩ | ⟨_, h⟩
          · exact absurd h (by
              intro hc
              cases ob with
              | mk l o => simp only at hc; subst hc; exact hne2 l rfl)
          · simp only; rw [h, h0]

end JrsVerif.Import
