/- The definitional interpreter's argument binding (`Eval.bindArgs`) obeys the same language rule
   (`Bind.specSrc` / `Bind.SpecOk`) that `parse_function_call`'s model was proved equivalent to:
   the code-side binder and the spec-side interpreter are tied to ONE declarative rule. -/
import JrsVerif.Model.Eval
import JrsVerif.Proofs.Bind

namespace JrsVerif.EvalBind
open JrsVerif.Eval

/-- the abstraction of a parameter list used by the binding rule: (name, has default) -/
def absParams (ps : List Param) : List Bind.Param := ps.map (fun p => (paramName p, (paramDflt p).isSome))

theorem names_abs (ps : List Param) : Bind.names (absParams ps) = ps.map paramName := by
  simp [Bind.names, absParams, List.map_map, Function.comp_def]

def lookupE (bs : List (String × Src)) (n : String) : Option Src :=
  match bs.find? (fun p => p.1 == n) with
  | some p => some p.2
  | none => none

theorem hasName_iff (acc : List (String × Src)) (n : String) :
    hasName acc n = true ↔ n ∈ acc.map (·.1) := by
  simp only [hasName, List.any_eq_true, List.mem_map]
  constructor
  · rintro ⟨p, hp, he⟩; exact ⟨p, hp, by simpa using he⟩
  · rintro ⟨p, hp, he⟩; exact ⟨p, hp, by simp [he]⟩

theorem hasName_append (a b : List (String × Src)) (n : String) :
    hasName (a ++ b) n = (hasName a n || hasName b n) := by simp [hasName, List.any_append]

theorem lookupE_append_of_not_has (a b : List (String × Src)) (n : String) (h : hasName a n = false) :
    lookupE (a ++ b) n = lookupE b n := by
  induction a with
  | nil => rfl
  | cons x r ih =>
    simp only [hasName, List.any_cons, Bool.or_eq_false_iff] at h
    simp only [List.cons_append, lookupE, List.find?_cons, h.1]
    exact ih h.2

theorem lookupE_none_of_not_has (a : List (String × Src)) (n : String) (h : hasName a n = false) :
    lookupE a n = none := by
  have := lookupE_append_of_not_has a [] n h
  simpa [lookupE] using this

theorem lookupE_append_of_has (a b : List (String × Src)) (n : String) (h : hasName a n = true) :
    lookupE (a ++ b) n = lookupE a n := by
  induction a with
  | nil => simp [hasName] at h
  | cons x r ih =>
    simp only [List.cons_append, lookupE, List.find?_cons]
    by_cases hx : (x.1 == n) = true
    · simp [hx]
    · have hx' : (x.1 == n) = false := by simpa using hx
      simp only [hx']
      have hr : hasName r n = true := by
        simp only [hasName, List.any_cons, hx', Bool.false_or] at h; exact h
      exact ih hr

/-! #### positional prefix -/

def posEnv (names : List String) (pos : List Ref) : List (String × Src) :=
  (names.zip pos).map (fun p => (p.1, Src.arg p.2))

theorem posEnv_names (names : List String) (pos : List Ref) (h : pos.length ≤ names.length) :
    (posEnv names pos).map (·.1) = names.take pos.length := by
  induction names generalizing pos with
  | nil => cases pos <;> simp [posEnv] at h ⊢
  | cons n r ih =>
    cases pos with
    | nil => simp [posEnv]
    | cons x xs =>
      have := ih xs (by simpa using h)
      simp only [posEnv] at this
      simp [posEnv, this]

theorem lookupE_posEnv (names : List String) (hnd : names.Nodup) (pos : List Ref) (i : Nat) (n : String)
    (r : Ref) (hn : names[i]? = some n) (hr : pos[i]? = some r) (rest : List (String × Src)) :
    lookupE (posEnv names pos ++ rest) n = some (.arg r) := by
  induction names generalizing pos i with
  | nil => simp at hn
  | cons m ms ih =>
    cases pos with
    | nil => simp at hr
    | cons x xs =>
      have hnd' := List.nodup_cons.mp hnd
      cases i with
      | zero =>
        simp at hn hr; subst hn; subst hr
        simp [posEnv, lookupE]
      | succ i =>
        simp at hn hr
        have hne : m ≠ n := fun e => hnd'.1 (e ▸ List.mem_of_getElem? hn)
        have hb : (m == n) = false := by simpa using hne
        have := ih hnd'.2 xs i hn hr
        simp only [posEnv, List.zip_cons_cons, List.map_cons, List.cons_append, lookupE,
          List.find?_cons, hb] at this ⊢
        exact this

/-! #### named -/

def namedEnvE : List (String × Ref) → List (String × Src)
  | [] => []
  | (n, r) :: rest => (n, .arg r) :: namedEnvE rest

theorem namedEnvE_names (named : List (String × Ref)) : (namedEnvE named).map (·.1) = named.map (·.1) := by
  induction named with
  | nil => rfl
  | cons x r ih => obtain ⟨n, v⟩ := x; simp [namedEnvE, ih]

theorem addNamed_ok_iff (names : List String) (acc : List (String × Src)) (named : List (String × Ref))
    (acc' : List (String × Src)) :
    addNamed names acc named = .ok acc' ↔
      ((∀ n ∈ named.map (·.1), n ∈ names) ∧ (∀ n ∈ named.map (·.1), hasName acc n = false)
        ∧ (named.map (·.1)).Nodup ∧ acc' = acc ++ namedEnvE named) := by
  induction named generalizing acc with
  | nil =>
    simp only [addNamed, namedEnvE, List.append_nil, List.map_nil, List.not_mem_nil, false_imp_iff,
      implies_true, List.nodup_nil, true_and]
    constructor
    · intro h; cases h; rfl
    · intro h; rw [h]
  | cons x r ih =>
    obtain ⟨n, v⟩ := x
    simp only [addNamed]
    by_cases h1 : names.contains n = true
    · simp only [h1, Bool.not_true, Bool.false_eq_true, ↓reduceIte]
      by_cases h2 : hasName acc n = true
      · simp only [h2, ↓reduceIte]
        constructor
        · intro h; cases h
        · rintro ⟨_, hh, _, _⟩
          have := hh n (by simp)
          rw [h2] at this; cases this
      · simp only [h2, Bool.false_eq_true, ↓reduceIte]
        rw [ih]
        have h1' : n ∈ names := by simpa using h1
        have h2' : hasName acc n = false := by simpa using h2
        simp only [List.map_cons, List.mem_cons, forall_eq_or_imp, List.nodup_cons]
        constructor
        · rintro ⟨ha, hb, hc, hd⟩
          refine ⟨⟨h1', ha⟩, ⟨h2', ?_⟩, ⟨?_, hc⟩, ?_⟩
          · intro m hm
            have := hb m hm
            rw [hasName_append] at this
            exact (Bool.or_eq_false_iff.mp this).1
          · intro hm
            have := hb n hm
            rw [hasName_append] at this
            have h3 := (Bool.or_eq_false_iff.mp this).2
            simp [hasName] at h3
          · rw [hd]; simp [namedEnvE, List.append_assoc]
        · rintro ⟨⟨_, ha⟩, ⟨_, hb⟩, ⟨hnot, hc⟩, hd⟩
          refine ⟨ha, ?_, hc, ?_⟩
          · intro m hm
            rw [hasName_append]
            have h3 : hasName acc m = false := hb m hm
            have h4 : hasName [(n, Src.arg v)] m = false := by
              simp only [hasName, List.any_cons, List.any_nil, Bool.or_false, beq_eq_false_iff_ne, ne_eq]
              intro e; subst e; exact hnot hm
            simp [h3, h4]
          · rw [hd]; simp [namedEnvE, List.append_assoc]
    · simp only [h1, Bool.not_false, ↓reduceIte]
      constructor
      · intro h; cases h
      · rintro ⟨ha, _⟩
        have := ha n (by simp)
        exact absurd (by simpa using this) h1

theorem lookupE_namedEnvE (named : List (String × Ref)) (n : String) (rest : List (String × Src)) :
    lookupE (namedEnvE named ++ rest) n =
      match Bind.indexOf? (named.map (·.1)) n with
      | some k => (named[k]?).map (fun p => Src.arg p.2)
      | none => lookupE rest n := by
  induction named with
  | nil => simp [namedEnvE, Bind.indexOf?]
  | cons x r ih =>
    obtain ⟨m, v⟩ := x
    simp only [namedEnvE, List.cons_append, lookupE, List.find?_cons, List.map_cons, Bind.indexOf?]
    by_cases h : (m == n) = true
    · simp [h]
    · have h' : (m == n) = false := by simpa using h
      simp only [h', Bool.false_eq_true, ↓reduceIte]
      simp only [lookupE] at ih
      rw [ih]
      cases Bind.indexOf? (r.map (·.1)) n <;> simp

/-! #### defaults -/

/-- `fillDefaults` succeeds iff every parameter not yet bound has a default; it appends exactly
    those defaults -/
def defaultsOf (acc : List (String × Src)) : List Param → List (String × Src)
  | [] => []
  | p :: rest =>
    if hasName acc (paramName p) then defaultsOf acc rest
    else match paramDflt p with
      | some d => (paramName p, .dflt d) :: defaultsOf acc rest
      | none => defaultsOf acc rest

theorem fillDefaults_spec (acc0 : List (String × Src)) (ps : List Param) (hnd : (ps.map paramName).Nodup) :
    ∀ (acc : List (String × Src)), (∀ p ∈ ps, hasName acc (paramName p) = hasName acc0 (paramName p)) →
    (∀ bs, fillDefaults acc ps = .ok bs ↔
      ((∀ p ∈ ps, hasName acc0 (paramName p) = false → (paramDflt p).isSome = true)
        ∧ bs = acc ++ defaultsOf acc0 ps)) := by
  induction ps with
  | nil =>
    intro acc _ bs
    simp only [fillDefaults, defaultsOf, List.append_nil, List.not_mem_nil, false_imp_iff,
      implies_true, true_and]
    constructor
    · intro h; cases h; rfl
    · intro h; rw [h]
  | cons p rest ih =>
    intro acc hacc bs
    have hnd' : paramName p ∉ rest.map paramName ∧ (rest.map paramName).Nodup :=
      List.nodup_cons.mp (by rw [List.map_cons] at hnd; exact hnd)
    have hp := hacc p (by simp)
    simp only [fillDefaults, defaultsOf]
    by_cases hb : hasName acc0 (paramName p) = true
    · rw [hb] at hp
      simp only [hp, hb, ↓reduceIte]
      rw [ih hnd'.2 acc (fun q hq => hacc q (List.mem_cons_of_mem _ hq)) bs]
      simp only [List.mem_cons, forall_eq_or_imp, hb, Bool.true_eq_false, false_imp_iff, true_and]
    · have hb' : hasName acc0 (paramName p) = false := by simpa using hb
      rw [hb'] at hp
      simp only [hp, hb', Bool.false_eq_true, ↓reduceIte]
      cases hd : paramDflt p with
      | none =>
        simp only
        constructor
        · intro h; cases h
        · rintro ⟨h, _⟩
          have := h p (by simp) hb'
          rw [hd] at this; cases this
      | some d =>
        simp only
        have hacc' : ∀ q ∈ rest, hasName (acc ++ [(paramName p, Src.dflt d)]) (paramName q)
            = hasName acc0 (paramName q) := by
          intro q hq
          rw [hasName_append, hacc q (List.mem_cons_of_mem _ hq)]
          have hne : paramName p ≠ paramName q := by
            intro e
            exact hnd'.1 (e ▸ List.mem_map_of_mem (f := paramName) hq)
          have : hasName [(paramName p, Src.dflt d)] (paramName q) = false := by
            simp [hasName, hne]
          simp [this]
        rw [ih hnd'.2 _ hacc' bs]
        simp only [List.mem_cons, forall_eq_or_imp, hd, Option.isSome_some, implies_true, true_and,
          List.append_assoc, List.cons_append, List.nil_append]

theorem lookupE_defaultsOf (acc0 : List (String × Src)) (ps : List Param) (hnd : (ps.map paramName).Nodup)
    (p : Param) (hp : p ∈ ps) :
    lookupE (defaultsOf acc0 ps) (paramName p) =
      if hasName acc0 (paramName p) then none
      else match paramDflt p with
        | some d => some (.dflt d)
        | none => none := by
  induction ps with
  | nil => cases hp
  | cons q rest ih =>
    have hnd' : paramName q ∉ rest.map paramName ∧ (rest.map paramName).Nodup :=
      List.nodup_cons.mp (by rw [List.map_cons] at hnd; exact hnd)
    have notin : ∀ (x : Param), x ∈ rest → paramName x = paramName q → False := by
      intro x hx e
      exact hnd'.1 (e ▸ List.mem_map_of_mem (f := paramName) hx)
    have none_rest : ∀ (n : String), (∀ x ∈ rest, paramName x ≠ n) → lookupE (defaultsOf acc0 rest) n = none := by
      intro n hn
      apply lookupE_none_of_not_has
      cases hh : hasName (defaultsOf acc0 rest) n with
      | false => rfl
      | true =>
        exfalso
        have hm := (hasName_iff _ _).mp hh
        have sub : ∀ (l : List Param) (m : String), m ∈ (defaultsOf acc0 l).map (·.1) → ∃ x ∈ l, paramName x = m := by
          intro l
          induction l with
          | nil => intro m hm; simp [defaultsOf] at hm
          | cons y ys ihl =>
            intro m hm
            simp only [defaultsOf] at hm
            split at hm
            · obtain ⟨x, hx, e⟩ := ihl m hm; exact ⟨x, List.mem_cons_of_mem _ hx, e⟩
            · split at hm
              · simp only [List.map_cons, List.mem_cons] at hm
                rcases hm with e | hm
                · exact ⟨y, by simp, e.symm⟩
                · obtain ⟨x, hx, e⟩ := ihl m hm; exact ⟨x, List.mem_cons_of_mem _ hx, e⟩
              · obtain ⟨x, hx, e⟩ := ihl m hm; exact ⟨x, List.mem_cons_of_mem _ hx, e⟩
        obtain ⟨x, hx, e⟩ := sub rest n hm
        exact hn x hx e
    rcases List.mem_cons.mp hp with e | hm
    · subst e
      simp only [defaultsOf]
      by_cases hb : hasName acc0 (paramName p) = true
      · simp only [hb, ↓reduceIte]
        exact none_rest _ (fun x hx e => notin x hx e)
      · have hb' : hasName acc0 (paramName p) = false := by simpa using hb
        simp only [hb', Bool.false_eq_true, ↓reduceIte]
        cases hd : paramDflt p with
        | none => exact none_rest _ (fun x hx e => notin x hx e)
        | some d => simp [lookupE]
    · have hne : paramName q ≠ paramName p := fun e => notin p hm e.symm
      have hb : (paramName q == paramName p) = false := by simpa using hne
      simp only [defaultsOf]
      split
      · exact ih hnd'.2 hm
      · split
        · simp only [lookupE, List.find?_cons, hb]
          have := ih hnd'.2 hm
          simpa [lookupE] using this
        · exact ih hnd'.2 hm


/-- what the interpreter binds parameter `p` to, read off the rule's source -/
def srcOf (pos : List Ref) (named : List (String × Ref)) (p : Param) : Bind.Src → Option Src
  | .pos k => (pos[k]?).map Src.arg
  | .named j => (named[j]?).map (fun q => Src.arg q.2)
  | .dflt => (paramDflt p).map Src.dflt

theorem hasName_posEnv (names : List String) (pos : List Ref) (h : pos.length ≤ names.length) (n : String) :
    hasName (posEnv names pos) n = false ↔ n ∉ names.take pos.length := by
  rw [← posEnv_names names pos h, ← hasName_iff]
  cases hasName (posEnv names pos) n <;> simp

theorem bindArgs_unfold (ps : List Param) (pos : List Ref) (named : List (String × Ref)) :
    bindArgs ps pos named =
      if pos.length > ps.length then .error ⟨"arity", "too many args"⟩ else
      match addNamed (ps.map paramName) (posEnv (ps.map paramName) pos) named with
      | .error e => .error e
      | .ok acc => fillDefaults acc ps := by
  simp only [bindArgs, posEnv]
  split
  · rfl
  · cases addNamed (ps.map paramName) (((ps.map paramName).zip pos).map (fun p => (p.1, Src.arg p.2))) named <;> rfl

theorem evalBind_ok_iff (ps : List Param) (hnd : (ps.map paramName).Nodup) (pos : List Ref)
    (named : List (String × Ref)) :
    (∃ bs, bindArgs ps pos named = .ok bs) ↔
      Bind.SpecOk (absParams ps) pos.length (named.map (·.1)) := by
  rw [bindArgs_unfold]
  have habs : (absParams ps).length = ps.length := by simp [absParams]
  by_cases hlen : pos.length > ps.length
  · simp only [hlen, ↓reduceIte]
    constructor
    · rintro ⟨_, h⟩; cases h
    · rintro ⟨h, _⟩; omega
  · simp only [hlen, ↓reduceIte]
    have hle : pos.length ≤ (ps.map paramName).length := by simp; omega
    constructor
    · rintro ⟨bs, h⟩
      cases ha : addNamed (ps.map paramName) (posEnv (ps.map paramName) pos) named with
      | error e => rw [ha] at h; cases h
      | ok acc =>
        rw [ha] at h
        obtain ⟨a1, a2, a3, a4⟩ := (addNamed_ok_iff _ _ _ _).mp ha
        have hf := (fillDefaults_spec acc ps hnd acc (fun _ _ => rfl) bs).mp h
        refine ⟨by omega, ⟨a3, ?_, ?_⟩, ?_⟩
        · intro n hn; rw [names_abs]; exact a1 n hn
        · intro n hn; rw [names_abs]; exact (hasName_posEnv _ _ hle n).mp (a2 n hn)
        · intro i q hq
          simp only [absParams, List.getElem?_map] at hq
          cases hp : ps[i]? with
          | none => rw [hp] at hq; cases hq
          | some p =>
            rw [hp] at hq
            simp only [Option.map_some, Option.some.injEq] at hq
            subst hq
            simp only [Bind.specSrc]
            by_cases hi : i < pos.length
            · simp [hi]
            · simp only [hi, ↓reduceIte]
              cases hidx : Bind.indexOf? (named.map (·.1)) (paramName p) with
              | some j => simp
              | none =>
                simp only
                have hnot : hasName acc (paramName p) = false := by
                  rw [a4, hasName_append]
                  have h1 : hasName (posEnv (ps.map paramName) pos) (paramName p) = false := by
                    rw [hasName_posEnv _ _ hle]
                    have := Bind.not_mem_take_of_ge (absParams ps) (by rw [names_abs]; exact hnd)
                      pos.length i (paramName p, (paramDflt p).isSome)
                      (by simp [absParams, hp]) (by omega)
                    rw [names_abs] at this; exact this
                  have h2 : hasName (namedEnvE named) (paramName p) = false := by
                    cases hh : hasName (namedEnvE named) (paramName p) with
                    | false => rfl
                    | true =>
                      exfalso
                      rw [hasName_iff, namedEnvE_names] at hh
                      have hc : (named.map (·.1)).contains (paramName p) = true := by simpa using hh
                      rw [← Bind.indexOf?_isSome, hidx] at hc
                      cases hc
                  simp [h1, h2]
                have := hf.1 p (List.mem_of_getElem? hp) hnot
                simp [this]
    · rintro ⟨_, w, hsrc⟩
      have hadd := (addNamed_ok_iff (ps.map paramName) (posEnv (ps.map paramName) pos) named _).mpr
        ⟨fun n hn => by have := w.sub n hn; rw [names_abs] at this; exact this,
         fun n hn => (hasName_posEnv _ _ hle n).mpr (by have := w.disj n hn; rw [names_abs] at this; exact this),
         w.nd, rfl⟩
      rw [hadd]
      simp only
      refine ⟨_, (fillDefaults_spec _ ps hnd _ (fun _ _ => rfl) _).mpr ⟨?_, rfl⟩⟩
      intro p hp hnot
      obtain ⟨i, hi⟩ := List.getElem?_of_mem hp
      have h1 := hsrc i (paramName p, (paramDflt p).isSome) (by simp [absParams, hi])
      simp only [Bind.specSrc] at h1
      rw [hasName_append, Bool.or_eq_false_iff] at hnot
      have hi' : ¬ i < pos.length := by
        intro hlt
        have hm := Bind.mem_take_names_of_lt (absParams ps) pos.length i (paramName p, (paramDflt p).isSome)
          (by simp [absParams, hi]) hlt
        rw [names_abs] at hm
        exact absurd hm ((hasName_posEnv _ _ hle _).mp hnot.1)
      simp only [hi', ↓reduceIte] at h1
      cases hidx : Bind.indexOf? (named.map (·.1)) (paramName p) with
      | some j =>
        exfalso
        have := Bind.indexOf?_isSome (named.map (·.1)) (paramName p)
        rw [hidx] at this
        have hin : paramName p ∈ named.map (·.1) := by simpa using this.symm
        have : hasName (namedEnvE named) (paramName p) = true := by
          rw [hasName_iff, namedEnvE_names]; exact hin
        rw [this] at hnot; cases hnot.2
      | none =>
        rw [hidx] at h1
        cases hd : (paramDflt p).isSome with
        | true => rfl
        | false => rw [hd] at h1; simp at h1

theorem evalBind_assignment (ps : List Param) (hnd : (ps.map paramName).Nodup) (pos : List Ref)
    (named : List (String × Ref)) (bs : List (String × Src)) (h : bindArgs ps pos named = .ok bs)
    (i : Nat) (p : Param) (hp : ps[i]? = some p) :
    lookupE bs (paramName p) =
      (Bind.specSrc pos.length (named.map (·.1)) i (paramName p, (paramDflt p).isSome)).bind
        (srcOf pos named p) := by
  rw [bindArgs_unfold] at h
  by_cases hlen : pos.length > ps.length
  · simp [hlen] at h
  · simp only [hlen, ↓reduceIte] at h
    have hle : pos.length ≤ (ps.map paramName).length := by simp; omega
    cases ha : addNamed (ps.map paramName) (posEnv (ps.map paramName) pos) named with
    | error e => rw [ha] at h; cases h
    | ok acc =>
      rw [ha] at h
      obtain ⟨_, a2, a3, a4⟩ := (addNamed_ok_iff _ _ _ _).mp ha
      obtain ⟨hdef, hbs⟩ := (fillDefaults_spec acc ps hnd acc (fun _ _ => rfl) bs).mp h
      have hname : (ps.map paramName)[i]? = some (paramName p) := by simp [hp]
      subst hbs
      simp only [Bind.specSrc]
      by_cases hi : i < pos.length
      · simp only [hi, ↓reduceIte, Option.bind_some, srcOf]
        have hr : ∃ r, pos[i]? = some r := ⟨pos[i], by simp [hi]⟩
        obtain ⟨r, hr⟩ := hr
        rw [a4, List.append_assoc, lookupE_posEnv _ hnd pos i _ r hname hr, hr]; rfl
      · simp only [hi, ↓reduceIte]
        have h1 : hasName (posEnv (ps.map paramName) pos) (paramName p) = false := by
          rw [hasName_posEnv _ _ hle]
          have := Bind.not_mem_take_of_ge (absParams ps) (by rw [names_abs]; exact hnd)
            pos.length i (paramName p, (paramDflt p).isSome) (by simp [absParams, hp]) (by omega)
          rw [names_abs] at this; exact this
        rw [a4, List.append_assoc, lookupE_append_of_not_has _ _ _ h1, lookupE_namedEnvE]
        cases hidx : Bind.indexOf? (named.map (·.1)) (paramName p) with
        | some j => simp [srcOf]
        | none =>
          simp only
          have hnot : hasName (posEnv (ps.map paramName) pos ++ namedEnvE named) (paramName p) = false := by
            rw [hasName_append]
            have h2 : hasName (namedEnvE named) (paramName p) = false := by
              cases hh : hasName (namedEnvE named) (paramName p) with
              | false => rfl
              | true =>
                exfalso
                rw [hasName_iff, namedEnvE_names] at hh
                have hc : (named.map (·.1)).contains (paramName p) = true := by simpa using hh
                rw [← Bind.indexOf?_isSome, hidx] at hc
                cases hc
            simp [h1, h2]
          rw [a4] at hdef
          have hd := hdef p (List.mem_of_getElem? hp) hnot
          rw [lookupE_defaultsOf _ ps hnd p (List.mem_of_getElem? hp), hnot]
          cases hdd : paramDflt p with
          | none => rw [hdd] at hd; cases hd
          | some d => simp [srcOf, hdd]

end JrsVerif.EvalBind
