/- C16 helper lemmas: orders on names/candidates, sorting of permuted inputs, per-name
   decomposition of the `fields_visibility` map fold, the depth counter. -/
import JrsVerif.Model.Det

namespace JrsVerif.Det
open List

/-! ### byte-string order -/

theorem nameLe_refl : ∀ a : Name, nameLe a a = true
  | [] => rfl
  | x :: xs => by simp [nameLe, nameLe_refl xs]

theorem nameLe_total : ∀ a b : Name, (nameLe a b || nameLe b a) = true
  | [], _ => by simp [nameLe]
  | _ :: _, [] => by simp [nameLe]
  | x :: xs, y :: ys => by
    have ih := nameLe_total xs ys
    simp only [nameLe, Bool.or_eq_true, Bool.and_eq_true, decide_eq_true_eq, beq_iff_eq] at ih ⊢
    rcases Nat.lt_trichotomy x y with h | h | h
    · exact Or.inl (Or.inl h)
    · subst h
      rcases ih with h | h
      · exact Or.inl (Or.inr ⟨rfl, h⟩)
      · exact Or.inr (Or.inr ⟨rfl, h⟩)
    · exact Or.inr (Or.inl h)

theorem nameLe_trans : ∀ a b c : Name, nameLe a b = true → nameLe b c = true → nameLe a c = true
  | [], _, _ => by simp [nameLe]
  | _ :: _, [], _ => by simp [nameLe]
  | _ :: _, _ :: _, [] => by simp [nameLe]
  | x :: xs, y :: ys, z :: zs => by
    have ih := nameLe_trans xs ys zs
    simp only [nameLe, Bool.or_eq_true, Bool.and_eq_true, decide_eq_true_eq, beq_iff_eq] at ih ⊢
    intro h1 h2
    rcases h1 with h1 | ⟨rfl, h1⟩
    · rcases h2 with h2 | ⟨rfl, _⟩
      · exact Or.inl (Nat.lt_trans h1 h2)
      · exact Or.inl h1
    · rcases h2 with h2 | ⟨rfl, h2⟩
      · exact Or.inl h2
      · exact Or.inr ⟨rfl, ih h1 h2⟩

theorem nameLe_antisymm : ∀ a b : Name, nameLe a b = true → nameLe b a = true → a = b
  | [], [] => by simp
  | [], _ :: _ => by simp [nameLe]
  | _ :: _, [] => by simp [nameLe]
  | x :: xs, y :: ys => by
    have ih := nameLe_antisymm xs ys
    simp only [nameLe, Bool.or_eq_true, Bool.and_eq_true, decide_eq_true_eq, beq_iff_eq]
    intro h1 h2
    rcases h1 with h1 | ⟨rfl, h1⟩
    · rcases h2 with h2 | ⟨rfl, _⟩
      · omega
      · omega
    · rcases h2 with h2 | ⟨_, h2⟩
      · omega
      · rw [ih h1 h2]

/-! ### candidates -/

theorem candLe_total (a b : Cand) : (candLe a b || candLe b a) = true := by
  have := nameLe_total a.name b.name
  simp only [candLe, Bool.or_eq_true, Bool.and_eq_true, decide_eq_true_eq, beq_iff_eq] at this ⊢
  rcases Nat.lt_trichotomy a.score b.score with h | h | h
  · exact Or.inr (Or.inl h)
  · rcases this with t | t
    · exact Or.inl (Or.inr ⟨h, t⟩)
    · exact Or.inr (Or.inr ⟨h.symm, t⟩)
  · exact Or.inl (Or.inl h)

theorem candLe_trans (a b c : Cand) : candLe a b = true → candLe b c = true → candLe a c = true := by
  have := nameLe_trans a.name b.name c.name
  simp only [candLe, Bool.or_eq_true, Bool.and_eq_true, decide_eq_true_eq, beq_iff_eq] at this ⊢
  intro h1 h2
  rcases h1 with h1 | ⟨e1, h1⟩
  · rcases h2 with h2 | ⟨e2, _⟩
    · exact Or.inl (by omega)
    · exact Or.inl (by omega)
  · rcases h2 with h2 | ⟨e2, h2⟩
    · exact Or.inl (by omega)
    · exact Or.inr ⟨by omega, this h1 h2⟩

theorem candLe_antisymm (a b : Cand) : candLe a b = true → candLe b a = true → a = b := by
  have := nameLe_antisymm a.name b.name
  simp only [candLe, Bool.or_eq_true, Bool.and_eq_true, decide_eq_true_eq, beq_iff_eq]
  intro h1 h2
  rcases h1 with h1 | ⟨e1, h1⟩
  · rcases h2 with h2 | ⟨e2, _⟩ <;> omega
  · rcases h2 with h2 | ⟨_, h2⟩
    · omega
    · cases a; cases b; simp_all

/-- sorting two permutations of one list by a total, transitive, antisymmetric order gives the
    same list -/
theorem mergeSort_eq_of_perm {α} (le : α → α → Bool)
    (trans : ∀ a b c, le a b = true → le b c = true → le a c = true)
    (total : ∀ a b, (le a b || le b a) = true)
    {l₁ l₂ : List α}
    (anti : ∀ a b, a ∈ l₁ → b ∈ l₁ → le a b = true → le b a = true → a = b)
    (h : l₁.Perm l₂) : l₁.mergeSort le = l₂.mergeSort le := by
  apply Perm.eq_of_pairwise (le := fun a b => le a b = true)
  · intro a b ha hb
    exact anti a b (mem_mergeSort.mp ha) (h.symm.mem_iff.mp (mem_mergeSort.mp hb))
  · exact pairwise_mergeSort trans total l₁
  · exact pairwise_mergeSort trans total l₂
  · exact (mergeSort_perm l₁ le).trans (h.trans (mergeSort_perm l₂ le).symm)

/-- computing a concrete sort: `s` is sorted and a permutation of `l` -/
theorem mergeSort_eq_of_sorted_perm {α} (le : α → α → Bool)
    (trans : ∀ a b c, le a b = true → le b c = true → le a c = true)
    (total : ∀ a b, (le a b || le b a) = true)
    {l s : List α}
    (anti : ∀ a b, a ∈ l → b ∈ l → le a b = true → le b a = true → a = b)
    (hp : l.Perm s) (hs : s.Pairwise (fun a b => le a b = true)) : l.mergeSort le = s := by
  rw [mergeSort_eq_of_perm le trans total anti hp, mergeSort_of_pairwise hs]

/-- entries of an association list with distinct keys are determined by their key -/
theorem eq_of_mem_of_nodup_fst {α β} : ∀ {l : List (α × β)}, (l.map (·.1)).Nodup →
    ∀ a ∈ l, ∀ b ∈ l, a.1 = b.1 → a = b
  | [], _, a, ha, _, _, _ => by simp at ha
  | x :: r, hn, a, ha, b, hb, e => by
    simp only [map_cons, nodup_cons] at hn
    simp only [mem_cons] at ha hb
    rcases ha with rfl | ha <;> rcases hb with rfl | hb
    · rfl
    · exact absurd (e ▸ mem_map_of_mem (f := (·.1)) hb) hn.1
    · exact absurd (e ▸ mem_map_of_mem (f := (·.1)) ha) hn.1
    · exact eq_of_mem_of_nodup_fst hn.2 a ha b hb e

/-! ### per-layer permutations -/

/-- element-wise relation of two lists (core has no `Forall₂`) -/
inductive Rel2 {α β} (R : α → β → Prop) : List α → List β → Prop
  | nil : Rel2 R [] []
  | cons {a b as bs} : R a b → Rel2 R as bs → Rel2 R (a :: as) (b :: bs)

theorem Rel2.append {α β} {R : α → β → Prop} {a₁ a₂ b₁ b₂} (h₁ : Rel2 R a₁ b₁) (h₂ : Rel2 R a₂ b₂) :
    Rel2 R (a₁ ++ a₂) (b₁ ++ b₂) := by
  induction h₁ with
  | nil => exact h₂
  | cons h _ ih => exact .cons h ih

theorem Rel2.reverse {α β} {R : α → β → Prop} {a b} (h : Rel2 R a b) : Rel2 R a.reverse b.reverse := by
  induction h with
  | nil => exact .nil
  | cons h _ ih =>
    simp only [reverse_cons]
    exact ih.append (.cons h .nil)

theorem Rel2.flatten_perm {α} {a b : List (List α)} (h : Rel2 List.Perm a b) :
    a.flatten.Perm b.flatten := by
  induction h with
  | nil => exact .refl _
  | cons h _ ih => simp only [flatten_cons]; exact h.append ih

/-! ### the `fields_visibility` fold, name by name -/

def mlookup (n : Name) : Map → Option Data
  | [] => none
  | (k, d) :: r => if k = n then some d else mlookup n r

theorem mlookup_upsert (m : Map) (n k : Name) (i : Nat) (e : Ev) :
    mlookup k (upsert m n i e) = if n = k then stepOpt i (mlookup k m) e else mlookup k m := by
  induction m with
  | nil =>
    by_cases h : n = k <;> simp [upsert, mlookup, stepOpt, h]
  | cons p r ih =>
    obtain ⟨k', d⟩ := p
    by_cases h1 : k' = n
    · subst h1
      by_cases h2 : k' = k
      · subst h2; simp [upsert, mlookup, stepOpt]
      · simp [upsert, mlookup, h2]
    · by_cases h2 : k' = k
      · subst h2
        have : ¬ n = k' := fun h => h1 h.symm
        simp [upsert, mlookup, h1, this]
      · simp only [upsert, h1, if_false, mlookup, h2, ih]

theorem mlookup_feed (i : Nat) (k : Name) (evs : List (Name × Ev)) (m : Map) :
    mlookup k (feed i m evs) =
      ((evs.filter (fun ne => ne.1 = k)).map (·.2)).foldl (stepOpt i) (mlookup k m) := by
  induction evs generalizing m with
  | nil => rfl
  | cons a r ih =>
    simp only [feed, foldl_cons] at ih ⊢
    rw [ih, mlookup_upsert]
    by_cases h : a.1 = k
    · simp [h]
    · simp [h]

theorem mlookup_visFold (k : Name) (cs : List Core) (i : Nat) (m : Map) :
    mlookup k (visFold cs i m) = dataGo cs i (mlookup k m) k := by
  induction cs generalizing i m with
  | nil => rfl
  | cons c r ih =>
    simp only [visFold, dataGo, ih, mlookup_feed, evsOf]

/-- keys of the association list are distinct -/
def KeysNodup (m : Map) : Prop := (m.map (·.1)).Nodup

theorem mem_keys_upsert (m : Map) (n k : Name) (i : Nat) (e : Ev) :
    k ∈ (upsert m n i e).map (·.1) ↔ k = n ∨ k ∈ m.map (·.1) := by
  induction m with
  | nil => simp [upsert]
  | cons p r ih =>
    obtain ⟨k', d⟩ := p
    by_cases h : k' = n
    · subst h; simp [upsert]
    · simp only [upsert, h, if_false, map_cons, mem_cons, ih]
      constructor
      · rintro (h | h | h) <;> simp [h]
      · rintro (h | h | h) <;> simp [h]

theorem keysNodup_upsert (m : Map) (n : Name) (i : Nat) (e : Ev) (h : KeysNodup m) :
    KeysNodup (upsert m n i e) := by
  induction m with
  | nil => simp [upsert, KeysNodup]
  | cons p r ih =>
    obtain ⟨k', d⟩ := p
    simp only [KeysNodup, map_cons, nodup_cons] at h
    by_cases hk : k' = n
    · subst hk; simpa [upsert, KeysNodup] using h
    · simp only [upsert, hk, if_false, KeysNodup, map_cons, nodup_cons]
      refine ⟨?_, ih h.2⟩
      intro hm
      rcases (mem_keys_upsert r n k' i e).mp hm with h' | h'
      · exact hk h'
      · exact h.1 h'

theorem keysNodup_feed (i : Nat) (evs : List (Name × Ev)) (m : Map) (h : KeysNodup m) :
    KeysNodup (feed i m evs) := by
  induction evs generalizing m with
  | nil => exact h
  | cons a r ih => exact ih _ (keysNodup_upsert m a.1 i a.2 h)

theorem keysNodup_visFold (cs : List Core) (i : Nat) (m : Map) (h : KeysNodup m) :
    KeysNodup (visFold cs i m) := by
  induction cs generalizing i m with
  | nil => exact h
  | cons c r ih => exact ih _ _ (keysNodup_feed i _ m h)

theorem mem_iff_mlookup (m : Map) (h : KeysNodup m) (k : Name) (d : Data) :
    (k, d) ∈ m ↔ mlookup k m = some d := by
  induction m with
  | nil => simp [mlookup]
  | cons p r ih =>
    obtain ⟨k', d'⟩ := p
    simp only [KeysNodup, map_cons, nodup_cons] at h
    by_cases hk : k' = k
    · subst hk
      simp only [mem_cons, Prod.mk.injEq, true_and, mlookup, if_true, Option.some.injEq]
      constructor
      · rintro (h' | h')
        · exact h'.symm
        · exact absurd (mem_map_of_mem (f := (·.1)) h') h.1
      · intro h'; exact Or.inl h'.symm
    · simp only [mem_cons, Prod.mk.injEq, mlookup, hk, if_false]
      rw [← ih h.2]
      constructor
      · rintro (⟨h', _⟩ | h')
        · exact absurd h'.symm hk
        · exact h'
      · intro h'; exact Or.inr h'

/-! ### a layer's events for one name do not depend on the layer's iteration order -/

theorem filter_eq_of_perm_nodup {α β} [DecidableEq α] (f : β → α) (k : α) :
    ∀ {l l' : List β}, l.Perm l' → (l.map f).Nodup →
      l.filter (fun x => f x = k) = l'.filter (fun x => f x = k) := by
  intro l l' hp hn
  have hp' : (l.filter (fun x => decide (f x = k))).Perm (l'.filter (fun x => decide (f x = k))) :=
    hp.filter _
  have hlen : ∀ (l : List β), (l.map f).Nodup → (l.filter (fun x => decide (f x = k))).length ≤ 1 := by
    intro l
    induction l with
    | nil => simp
    | cons a r ih =>
      intro hn
      simp only [map_cons, nodup_cons] at hn
      by_cases h : f a = k
      · have : r.filter (fun x => decide (f x = k)) = [] := by
          rw [filter_eq_nil_iff]
          intro x hx
          simp only [decide_eq_true_eq]
          intro hfx
          exact hn.1 (by rw [h, ← hfx]; exact mem_map_of_mem hx)
        simp [h, this]
      · simpa [filter_cons, h] using ih hn.2
  have h1 := hlen l hn
  generalize l.filter (fun x => decide (f x = k)) = a at hp' h1
  generalize l'.filter (fun x => decide (f x = k)) = b at hp'
  have hl := hp'.length_eq
  match a, b, hl, h1 with
  | [], [], _, _ => rfl
  | [x], [y], _, _ => simpa using hp'
  | _ :: _ :: _, _, _, h1 => simp at h1

/-- same layer up to the order in which its map yields the names -/
inductive CorePerm : Core → Core → Prop
  | oop {fs fs'} : fs.Perm fs' → CorePerm (.oop fs) (.oop fs')
  | omitC {ns ns' k} : ns.Perm ns' → CorePerm (.omitC ns k) (.omitC ns' k)

/-- a layer's names are the keys of a hash map / members of a hash set: pairwise distinct -/
def CoreWF : Core → Prop
  | .oop fs => (fs.map (·.1)).Nodup
  | .omitC ns _ => ns.Nodup

theorem coreEvents_perm {c c'} (h : CorePerm c c') : (coreEvents c).Perm (coreEvents c') := by
  cases h with
  | oop h => exact h.map _
  | omitC h => exact h.map _

theorem coreEvents_nodup {c} (h : CoreWF c) : ((coreEvents c).map (·.1)).Nodup := by
  cases c with
  | oop fs => simpa [coreEvents, CoreWF, Function.comp_def] using h
  | omitC ns k => simpa [coreEvents, CoreWF, Function.comp_def] using h

theorem evsOf_perm {c c'} (h : CorePerm c c') (wf : CoreWF c) (n : Name) : evsOf c n = evsOf c' n := by
  unfold evsOf
  have := filter_eq_of_perm_nodup (f := fun (ne : Name × Ev) => ne.1) n (coreEvents_perm h) (coreEvents_nodup wf)
  simp only [this]

theorem dataGo_perm {cs cs'} (h : Rel2 CorePerm cs cs') (wf : ∀ c ∈ cs, CoreWF c)
    (i : Nat) (d : Option Data) (n : Name) : dataGo cs i d n = dataGo cs' i d n := by
  induction h generalizing i d with
  | nil => rfl
  | cons hc _ ih =>
    simp only [dataGo]
    rw [evsOf_perm hc (wf _ mem_cons_self) n]
    exact ih (fun c hc' => wf c (mem_cons_of_mem _ hc')) _ _

/-! ### the depth counter -/

mutual
theorem run_depth (limit : Nat) : ∀ (p : Ev2) (d : Nat), (run limit p d).2 = d
  | .ret, d => by simp [run]
  | .fail, d => by simp [run]
  | .frame body, d => by
    unfold run
    split
    · simp [runList_depth limit body (d + 1)]
    · rfl
theorem runList_depth (limit : Nat) : ∀ (ps : List Ev2) (d : Nat), (runList limit ps d).2 = d
  | [], d => by simp [runList]
  | p :: r, d => by
    unfold runList
    have h := run_depth limit p d
    by_cases hc : (run limit p d).1 = true
    · simp only [hc, if_true]; rw [runList_depth limit r, h]
    · simp only [hc]; exact h
end

end JrsVerif.Det
