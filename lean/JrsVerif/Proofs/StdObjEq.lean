/- C13 helper lemmas: std.equals -/
import JrsVerif.Proofs.StdObj

namespace JrsVerif.StdObj

theorem lookup_cons_eq {β : Type} (k : String) (x : β) (r : List (String × β)) :
    List.lookup k ((k, x) :: r) = some x := by
  simp [List.lookup]

theorem lookup_cons_ne {β : Type} {k n : String} (x : β) (r : List (String × β)) (h : n ≠ k) :
    List.lookup k ((n, x) :: r) = List.lookup k r := by
  have : (k == n) = false := by simp [Ne.symm h]
  simp [List.lookup, this]

theorem lookup_eqOuts (fs gs : FL) (k : String) :
    (eqOuts fs gs).lookup k = (fs.find? k).map (fun p => equals p.2 (getLazy gs k)) := by
  induction fs using FL.ind with
  | nil => rfl
  | cons n h v rest ih =>
    simp only [eqOuts, FL.find?]
    by_cases hn : n = k
    · subst hn; simp
    · simp [lookup_cons_ne _ _ hn, hn, ih]

theorem eqLoop_all_true (outs : List (String × Option Bool)) (ks : List String)
    (H : ∀ k ∈ ks, ∀ b, outs.lookup k = some (some b) → b = true) :
    ∀ b, eqLoop outs ks = some b → b = true := by
  induction ks with
  | nil => intro b h; simp [eqLoop] at h; exact h
  | cons k ks ih =>
    intro b h
    simp only [eqLoop] at h
    split at h
    · exact ih (fun k' hk' => H k' (List.mem_cons_of_mem _ hk')) b h
    · rename_i heq
      have := H k (by simp) false heq
      simp at this
    · simp at h

theorem eqLoop_congr (outs outs' : List (String × Option Bool)) (ks : List String)
    (H : ∀ k ∈ ks, outs.lookup k = outs'.lookup k) : eqLoop outs ks = eqLoop outs' ks := by
  induction ks with
  | nil => rfl
  | cons k ks ih =>
    simp only [eqLoop]
    rw [H k (by simp), ih (fun k' hk' => H k' (List.mem_cons_of_mem _ hk'))]

theorem eqLoop_true (outs : List (String × Option Bool)) (ks : List String)
    (H : ∀ k ∈ ks, outs.lookup k = some (some true)) : eqLoop outs ks = some true := by
  induction ks with
  | nil => rfl
  | cons k ks ih =>
    simp only [eqLoop]
    rw [H k (by simp)]
    exact ih (fun k' hk' => H k' (List.mem_cons_of_mem _ hk'))

/-- a visible name has an entry -/
theorem find?_of_has {o : FL} {k : String} (h : has o k = true) :
    ∃ v, o.find? k = some (false, v) := by
  unfold has at h
  cases hf : o.find? k with
  | none => simp [hf] at h
  | some p =>
    obtain ⟨hid, v⟩ := p
    cases hid
    · exact ⟨v, rfl⟩
    · simp [hf] at h

theorem getLazy_of_find? {o : FL} {k : String} {hid : Bool} {v : V} (h : o.find? k = some (hid, v)) :
    getLazy o k = v := by
  simp [getLazy, h]

/-! ### reflexivity whenever defined -/

mutual
theorem equals_self_V : ∀ (v : V) (b : Bool), equals v v = some b → b = true
  | .err, b, h => by simp [equals] at h
  | .null, b, h => by simp [equals, primitiveEquals] at h; exact h
  | .bool x, b, h => by simp [equals, primitiveEquals] at h; exact h
  | .num x, b, h => by simp [equals, primitiveEquals] at h; exact h
  | .str x, b, h => by simp [equals, primitiveEquals] at h; exact h
  | .func x, b, h => by simp [equals, primitiveEquals] at h
  | .arr xs, b, h => by
    simp only [equals] at h
    simp at h
    exact equals_self_VL xs b h
  | .obj fs, b, h => by
    simp only [equals] at h
    simp at h
    refine eqLoop_all_true _ _ ?_ b h
    intro k hk b' hb'
    rw [lookup_eqOuts] at hb'
    cases hf : fs.find? k with
    | none => simp [hf] at hb'
    | some p =>
      obtain ⟨hid, v⟩ := p
      simp [hf, getLazy_of_find? hf] at hb'
      exact equals_self_FL fs k hid v hf b' hb'
theorem equals_self_VL : ∀ (xs : VL) (b : Bool), eqL xs xs = some b → b = true
  | .nil, b, h => by simp [eqL] at h; exact h
  | .cons x xs, b, h => by
    simp only [eqL] at h
    cases hx : equals x x with
    | none => simp [hx] at h
    | some bx =>
      have := equals_self_V x bx hx
      subst this
      simp [hx] at h
      exact equals_self_VL xs b h
theorem equals_self_FL : ∀ (fs : FL) (k : String) (hid : Bool) (v : V),
    fs.find? k = some (hid, v) → ∀ b, equals v v = some b → b = true
  | .nil, k, hid, v, hf, b, hb => by simp [FL.find?] at hf
  | .cons n h' v' rest, k, hid, v, hf, b, hb => by
    simp only [FL.find?] at hf
    split at hf
    · simp at hf; obtain ⟨_, rfl⟩ := hf
      exact equals_self_V v' b hb
    · exact equals_self_FL rest k hid v hf b hb
end


/-! ### symmetry -/

theorem primitiveEquals_symm (a b : V) : primitiveEquals a b = primitiveEquals b a := by
  cases a <;> cases b <;> simp [primitiveEquals, Bool.beq_comm]

theorem equals_prim_left (a b : V) (ha : ∀ xs, a ≠ .arr xs) (ho : ∀ fs, a ≠ .obj fs) :
    equals a b = primitiveEquals a b := by
  cases a <;> simp_all [equals, primitiveEquals]

theorem equals_prim_right (a b : V) (ha : ∀ xs, b ≠ .arr xs) (ho : ∀ fs, b ≠ .obj fs) :
    equals a b = primitiveEquals a b := by
  cases a <;> cases b <;> simp_all [equals, primitiveEquals]

mutual
theorem equals_symm_V : ∀ (a b : V), equals a b = equals b a
  | .err, b => by rw [equals_prim_left .err b (by simp) (by simp), equals_prim_right b .err (by simp) (by simp), primitiveEquals_symm]
  | .null, b => by rw [equals_prim_left .null b (by simp) (by simp), equals_prim_right b .null (by simp) (by simp), primitiveEquals_symm]
  | .bool x, b => by rw [equals_prim_left (.bool x) b (by simp) (by simp), equals_prim_right b (.bool x) (by simp) (by simp), primitiveEquals_symm]
  | .num x, b => by rw [equals_prim_left (.num x) b (by simp) (by simp), equals_prim_right b (.num x) (by simp) (by simp), primitiveEquals_symm]
  | .str x, b => by rw [equals_prim_left (.str x) b (by simp) (by simp), equals_prim_right b (.str x) (by simp) (by simp), primitiveEquals_symm]
  | .func x, b => by rw [equals_prim_left (.func x) b (by simp) (by simp), equals_prim_right b (.func x) (by simp) (by simp), primitiveEquals_symm]
  | .arr xs, b => by
    cases b with
    | arr ys =>
      simp only [equals]
      by_cases hl : xs.length = ys.length
      · simp [hl, equals_symm_VL xs ys]
      · have hl' : ¬ ys.length = xs.length := fun e => hl e.symm
        simp [hl, hl']
    | _ => simp [equals, primitiveEquals]
  | .obj fs, b => by
    cases b with
    | obj gs =>
      simp only [equals]
      by_cases hf : fieldsEx fs false = fieldsEx gs false
      · simp only [hf, ne_eq, not_true_eq_false, ↓reduceIte]
        apply eqLoop_congr
        intro k hk
        have hkg : has gs k = true := by simpa [hasEx] using (mem_fieldsEx.mp hk)
        have hkf : has fs k = true := by rw [← hf] at hk; simpa [hasEx] using (mem_fieldsEx.mp hk)
        obtain ⟨vf, hvf⟩ := find?_of_has hkf
        obtain ⟨vg, hvg⟩ := find?_of_has hkg
        rw [lookup_eqOuts, lookup_eqOuts]
        simp [hvf, hvg, getLazy_of_find? hvf, getLazy_of_find? hvg]
        exact equals_symm_FL fs k false vf hvf vg
      · have hf' : ¬ fieldsEx gs false = fieldsEx fs false := fun e => hf e.symm
        simp [hf, hf']
    | _ => simp [equals, primitiveEquals]
theorem equals_symm_VL : ∀ (xs ys : VL), eqL xs ys = eqL ys xs
  | .nil, ys => by cases ys <;> simp [eqL]
  | .cons x xs, ys => by
    cases ys with
    | nil => simp [eqL]
    | cons y ys => simp only [eqL]; rw [equals_symm_V x y, equals_symm_VL xs ys]
theorem equals_symm_FL : ∀ (fs : FL) (k : String) (hid : Bool) (v : V),
    fs.find? k = some (hid, v) → ∀ w, equals v w = equals w v
  | .nil, k, hid, v, hf, w => by simp [FL.find?] at hf
  | .cons n h' v' rest, k, hid, v, hf, w => by
    simp only [FL.find?] at hf
    split at hf
    · simp at hf; obtain ⟨_, rfl⟩ := hf
      exact equals_symm_V v' w
    · exact equals_symm_FL rest k hid v hf w
end

/-! ### values without failing thunks and without functions -/

mutual
def clean : V → Bool
  | .err => false
  | .func _ => false
  | .arr xs => cleanL xs
  | .obj fs => cleanF fs
  | _ => true
def cleanL : VL → Bool
  | .nil => true
  | .cons v vs => clean v && cleanL vs
def cleanF : FL → Bool
  | .nil => true
  | .cons _ _ v rest => clean v && cleanF rest
end

mutual
theorem equals_refl_V : ∀ (v : V), clean v = true → equals v v = some true
  | .err, h => by simp [clean] at h
  | .func _, h => by simp [clean] at h
  | .null, _ => by simp [equals, primitiveEquals]
  | .bool _, _ => by simp [equals, primitiveEquals]
  | .num _, _ => by simp [equals, primitiveEquals]
  | .str _, _ => by simp [equals, primitiveEquals]
  | .arr xs, h => by
    simp only [clean] at h
    simp only [equals]; simp
    exact equals_refl_VL xs h
  | .obj fs, h => by
    simp only [clean] at h
    simp only [equals]; simp
    apply eqLoop_true
    intro k hk
    have hkf : has fs k = true := by simpa [hasEx] using (mem_fieldsEx.mp hk)
    obtain ⟨vf, hvf⟩ := find?_of_has hkf
    rw [lookup_eqOuts]
    simp [hvf, getLazy_of_find? hvf]
    exact equals_refl_FL fs h k false vf hvf
theorem equals_refl_VL : ∀ (xs : VL), cleanL xs = true → eqL xs xs = some true
  | .nil, _ => by simp [eqL]
  | .cons x xs, h => by
    simp only [cleanL, Bool.and_eq_true] at h
    simp only [eqL]
    rw [equals_refl_V x h.1]
    exact equals_refl_VL xs h.2
theorem equals_refl_FL : ∀ (fs : FL), cleanF fs = true → ∀ (k : String) (hid : Bool) (v : V),
    fs.find? k = some (hid, v) → equals v v = some true
  | .nil, _, k, hid, v, hf => by simp [FL.find?] at hf
  | .cons n h' v' rest, h, k, hid, v, hf => by
    simp only [cleanF, Bool.and_eq_true] at h
    simp only [FL.find?] at hf
    split at hf
    · simp at hf; obtain ⟨_, rfl⟩ := hf
      exact equals_refl_V v' h.1
    · exact equals_refl_FL rest h.2 k hid v hf
end

end JrsVerif.StdObj
