/- C14 helper lemmas for the domain claims: the writers' node-by-node checks equal the
   declarative "no function / no null anywhere" and JsonML-shape predicates. -/
import JrsVerif.Model.Manif
import JrsVerif.Model.ManifSpec

namespace JrsVerif.ManifProofs
open JrsVerif.Manif JrsVerif.ManifSpec JrsVerif.ManifVal

mutual
theorem allNodes_eq (p : V → Bool) : ∀ v, allNodes p v = (nodes v).all p
  | .arr xs => by simp [allNodes, nodes, allList_eq p xs]
  | .obj kvs => by simp [allNodes, nodes, allFields_eq p kvs]
  | .null => by simp [allNodes, nodes]
  | .bool _ => by simp [allNodes, nodes]
  | .num _ => by simp [allNodes, nodes]
  | .str _ => by simp [allNodes, nodes]
  | .func => by simp [allNodes, nodes]
theorem allList_eq (p : V → Bool) : ∀ xs, allList p xs = (nodesList xs).all p
  | [] => by simp [allList, nodesList]
  | x :: xs => by simp [allList, nodesList, allNodes_eq p x, allList_eq p xs, List.all_append]
theorem allFields_eq (p : V → Bool) : ∀ kvs, allFields p kvs = (nodesFields kvs).all p
  | [] => by simp [allFields, nodesFields]
  | kv :: r => by simp [allFields, nodesFields, allNodes_eq p kv.2, allFields_eq p r, List.all_append]
end

theorem all_not_eq_not_any (l : List V) (f : V → Bool) : (l.all fun x => !f x) = !l.any f := by
  induction l with
  | nil => simp
  | cons a l ih => simp [ih, Bool.not_or]

theorem all_not2 (l : List V) (f g : V → Bool) : (l.all fun x => !f x && !g x) = (!l.any f && !l.any g) := by
  induction l with
  | nil => simp
  | cons a l ih => simp [ih, Bool.not_or]; cases f a <;> cases g a <;> cases l.any f <;> cases l.any g <;> rfl

theorem noFunc_eq (v : V) : noFunc v = !hasFunc v := by
  simp [noFunc, hasFunc, allNodes_eq, all_not_eq_not_any]

theorem noFuncNull_eq (v : V) : noFuncNull v = (!hasFunc v && !hasNull v) := by
  simp [noFuncNull, hasFunc, hasNull, allNodes_eq, all_not2]

mutual
theorem jsonml_eq : ∀ v, jsonmlOk v = (isJsonml v && !hasFunc v)
  | .str s => by simp [jsonmlOk, isJsonml, hasFunc, nodes, V.isFunc]
  | .arr [] => by simp [jsonmlOk, isJsonml]
  | .arr (.str t :: .obj attrs :: kids) => by
    have hk := jsonmlKids_eq kids
    have e1 : allFields (fun x => !x.isFunc) attrs = !(nodesFields attrs).any V.isFunc := by
      rw [allFields_eq, all_not_eq_not_any]
    have e2 : hasFunc (.arr (.str t :: .obj attrs :: kids))
        = ((nodesFields attrs).any V.isFunc || (nodesList kids).any V.isFunc) := by
      have h0 : (V.arr (.str t :: .obj attrs :: kids)).isFunc = false := rfl
      have h1 : (V.str t).isFunc = false := rfl
      have h2 : (V.obj attrs).isFunc = false := rfl
      simp [hasFunc, nodes, nodesList, List.any_append, h0, h1, h2]
    simp only [jsonmlOk, isJsonml, e1, e2, hk]
    cases isJsonmlAll kids <;> cases (nodesFields attrs).any V.isFunc <;> cases (nodesList kids).any V.isFunc <;> rfl
  | .arr (.str t :: []) => by simp [jsonmlOk, isJsonml, jsonmlKids, isJsonmlAll, hasFunc, nodes, nodesList, V.isFunc]
  | .arr (.str t :: .null :: kids) => by simp [jsonmlOk, isJsonml, jsonmlKids, isJsonmlAll]
  | .arr (.str t :: .bool _ :: kids) => by simp [jsonmlOk, isJsonml, jsonmlKids, isJsonmlAll]
  | .arr (.str t :: .num _ :: kids) => by simp [jsonmlOk, isJsonml, jsonmlKids, isJsonmlAll]
  | .arr (.str t :: .func :: kids) => by simp [jsonmlOk, isJsonml, jsonmlKids, isJsonmlAll]
  | .arr (.str t :: .str s :: kids) => by
    have := jsonmlKids_eq (.str s :: kids)
    simp [jsonmlOk, isJsonml, this, hasFunc, nodes, nodesList, V.isFunc]
  | .arr (.str t :: .arr ys :: kids) => by
    have := jsonmlKids_eq (.arr ys :: kids)
    simp [jsonmlOk, isJsonml, this, hasFunc, nodes, nodesList, V.isFunc]
  | .arr (.null :: _) => by simp [jsonmlOk, isJsonml]
  | .arr (.bool _ :: _) => by simp [jsonmlOk, isJsonml]
  | .arr (.num _ :: _) => by simp [jsonmlOk, isJsonml]
  | .arr (.func :: _) => by simp [jsonmlOk, isJsonml]
  | .arr (.arr _ :: _) => by simp [jsonmlOk, isJsonml]
  | .arr (.obj _ :: _) => by simp [jsonmlOk, isJsonml]
  | .obj _ => by simp [jsonmlOk, isJsonml]
  | .null => by simp [jsonmlOk, isJsonml]
  | .bool _ => by simp [jsonmlOk, isJsonml]
  | .num _ => by simp [jsonmlOk, isJsonml]
  | .func => by simp [jsonmlOk, isJsonml]
theorem jsonmlKids_eq : ∀ ks, jsonmlKids ks = (isJsonmlAll ks && !(nodesList ks).any V.isFunc)
  | [] => by simp [jsonmlKids, isJsonmlAll, nodesList]
  | k :: ks => by
    have h1 := jsonml_eq k
    have h2 := jsonmlKids_eq ks
    simp [jsonmlKids, isJsonmlAll, nodesList, h1, h2, hasFunc, List.any_append]
    cases isJsonml k <;> cases isJsonmlAll ks <;> cases (nodes k).any V.isFunc <;> cases (nodesList ks).any V.isFunc <;> rfl
end


end JrsVerif.ManifProofs
