/- C20 — lemmas about the model of `Sink::finish`, the green-tree builder and the Marker API. -/
import JrsVerif.Model.FmtDiagSink

namespace JrsVerif.FmtSink

/-! ### lexeme side: `offset` never leaves the lexeme list, every lexeme is given to the builder once, in order -/

/-- invariant of the lexeme cursor -/
def Good (lex : List Lexeme) (s : St) : Prop :=
  s.off ≤ lex.length ∧ tokIdxR s.ops = (List.range s.off).reverse

theorem range_succ_rev (n : Nat) : (List.range (n + 1)).reverse = n :: (List.range n).reverse := by
  rw [List.range_succ, List.reverse_append]; rfl

theorem good_tok {lex : List Lexeme} {s : St} (k : Nat) (h : Good lex s) (hl : s.off < lex.length) :
    Good lex { s with ops := .tok k s.off :: s.ops, off := s.off + 1 } := by
  refine ⟨hl, ?_⟩
  show s.off :: tokIdxR s.ops = _
  rw [h.2, range_succ_rev]

theorem skipWs_good (triv : Nat → Bool) (lex : List Lexeme) (s : St) (h : Good lex s) :
    Good lex (skipWs triv lex s) := by
  fun_induction skipWs triv lex s with
  | case1 s _ => exact h
  | case2 s l hl ht ih =>
    exact ih (good_tok l.kind h (List.getElem?_eq_some_iff.mp hl).1)
  | case3 s l _ _ => exact h

theorem skipWs_frame (triv : Nat → Bool) (lex : List Lexeme) (s : St) :
    (skipWs triv lex s).depth = s.depth ∧ (skipWs triv lex s).starts = s.starts ∧
    (skipWs triv lex s).eat = s.eat ∧ (skipWs triv lex s).errs = s.errs ∧ s.off ≤ (skipWs triv lex s).off := by
  fun_induction skipWs triv lex s with
  | case1 s _ => simp
  | case2 s l hl ht ih => obtain ⟨a, b, c, d, e⟩ := ih; exact ⟨a, b, c, d, by simp at e; omega⟩
  | case3 s l _ _ => simp

/-- after `skip_whitespace` the cursor is at the end or at a non-trivia lexeme -/
theorem skipWs_at (triv : Nat → Bool) (lex : List Lexeme) (s : St) :
    ∀ l, lex[(skipWs triv lex s).off]? = some l → triv l.kind = false := by
  fun_induction skipWs triv lex s with
  | case1 s h => intro l hl; rw [h] at hl; cases hl
  | case2 s l hl ht ih => exact ih
  | case3 s l hl ht => intro l' hl'; rw [hl] at hl'; cases hl'; simpa using ht

theorem textOffset_ok (lex : List Lexeme) (off : Nat) (h : off ≤ lex.length) :
    ∃ t, textOffset lex off = .ok t := by
  unfold textOffset
  by_cases h0 : off = 0
  · simp [h0]
  · simp only [h0, if_false]
    cases h1 : lex[off]? with
    | some l => exact ⟨_, rfl⟩
    | none =>
      have : lex.length ≤ off := List.getElem?_eq_none_iff.mp h1
      have hlt : off - 1 < lex.length := by omega
      have : lex[off - 1]? = some lex[off - 1] := List.getElem?_eq_getElem hlt
      simp only [this]; exact ⟨_, rfl⟩

/-- outcome of a sink step: the cursor invariant survives, and a panic is never `hard oob` -/
def Post (lex : List Lexeme) : Except Panic St → Prop
  | .ok s => Good lex s
  | .error p => p ≠ .hardOob

theorem tokenOp_post (lex : List Lexeme) (k : Nat) (s : St) (h : Good lex s) : Post lex (tokenOp lex k s) := by
  unfold tokenOp
  cases hl : lex[s.off]? with
  | none => simp [Post]
  | some l => exact good_tok k h (List.getElem?_eq_some_iff.mp hl).1

theorem ite_skip_good (triv : Nat → Bool) (lex : List Lexeme) (c : Prop) [Decidable c] (s : St)
    (h : Good lex s) : Good lex (if c then skipWs triv lex s else s) := by
  split
  · exact skipWs_good triv lex s h
  · exact h

theorem openAll_post (triv : Nat → Bool) (lex : List Lexeme) (ks : List Nat) (s : St) (h : Good lex s) :
    Post lex (openAll triv lex ks s) := by
  induction ks generalizing s with
  | nil => exact h
  | cons k ks ih =>
    unfold openAll
    have g1 : Good lex ({ s with ops := .opn k :: s.ops, depth := s.depth + 1 } : St) := h
    have g2 := ite_skip_good triv lex (({ s with ops := .opn k :: s.ops, depth := s.depth + 1 } : St).depth = 1) _ g1
    obtain ⟨t, ht⟩ := textOffset_ok lex _ g2.1
    simp only [ht]
    exact ih _ g2

theorem closeMain_post (triv : Nat → Bool) (lex : List Lexeme) (e : Bool) (s : St) (h : Good lex s) :
    Post lex (closeMain triv lex e s) := by
  unfold closeMain
  have g := ite_skip_good triv lex (s.depth = 1) s h
  simp only []
  split
  · simp [Post]
  · obtain ⟨t, ht⟩ := textOffset_ok lex _ g.1
    simp only [ht]
    exact g

theorem closeWrapped_post (triv : Nat → Bool) (lex : List Lexeme) (e : Bool) (s : St) (h : Good lex s) :
    Post lex (closeWrapped triv lex e s) := by
  unfold closeWrapped
  split
  · simp [Post]
  · rename_i st rest hs
    obtain ⟨t, ht⟩ := textOffset_ok lex _ h.1
    simp only [ht]
    have g1 : Good lex ({ s with starts := rest, errs := if e then (st, t) :: s.errs else s.errs } : St) := h
    exact ite_skip_good triv lex _ _ g1

theorem walkFinish_post (triv : Nat → Bool) (lex : List Lexeme) (n : Nat) (evs : List Event) (idx w : Nat)
    (s : St) (h : Good lex s) :
    match walkFinish triv lex n evs idx w s with
    | .ok (s', _) => Good lex s'
    | .error p => p ≠ .hardOob := by
  fun_induction walkFinish triv lex n evs idx w s with
  | case1 => exact h
  | case2 evs idx w s _ _ w' err p hev hc =>
    have := closeWrapped_post triv lex err s h
    rw [hc] at this; exact this
  | case3 evs idx w s _ _ w' err s' hev hc ih =>
    have := closeWrapped_post triv lex err s h
    rw [hc] at this; exact ih this
  | case4 => simp
  | case5 => simp
  | case6 => simp

theorem dite_skip_good (triv : Nat → Bool) (lex : List Lexeme) (c : Prop) [Decidable c] (s : St)
    (h : Good lex s) : Good lex (if _h : c then skipWs triv lex s else s) := by
  split
  · exact skipWs_good triv lex s h
  · exact h

theorem walkStart_err (n : Nat) (evs : List Event) (idx fp : Nat) (kinds : List Nat) (p : Panic)
    (h : walkStart n evs idx fp kinds = .error p) : p = .unreachableStart ∨ p = .eventIndex := by
  fun_induction walkStart n evs idx fp kinds with
  | case1 => cases h
  | case2 evs idx fp kinds _ _ k fp' hev ih => exact ih h
  | case3 => cases h; exact .inl rfl
  | case4 => cases h; exact .inr rfl
  | case5 => cases h; exact .inr rfl

theorem go_post (triv : Nat → Bool) (lex : List Lexeme) (n : Nat) (evs : List Event) (idx : Nat) (s : St)
    (h : Good lex s) : Post lex (go triv lex n evs idx s) := by
  fun_induction go triv lex n evs idx s with
  | case1 => simp [Post]
  | case2 evs idx s _ k fp p hw hev =>
    rcases walkStart_err _ _ _ _ _ _ hw with rfl | rfl <;> simp [Post]
  | case3 evs idx s _ k fp s0 kinds evs' hw p ho hev =>
    have := openAll_post triv lex kinds s0 (dite_skip_good triv lex _ s h)
    rw [ho] at this; exact this
  | case4 evs idx s _ k fp s0 kinds evs' hw s1 ho hev ih =>
    have := openAll_post triv lex kinds s0 (dite_skip_good triv lex _ s h)
    rw [ho] at this; exact ih this
  | case5 evs idx s _ k s0 p ht hev =>
    have := tokenOp_post lex k s0 (dite_skip_good triv lex _ s h)
    rw [ht] at this; exact this
  | case6 evs idx s _ k s0 s1 ht hev ih =>
    have := tokenOp_post lex k s0 (dite_skip_good triv lex _ s h)
    rw [ht] at this; exact ih this
  | case7 evs idx s _ w err p hc hev =>
    have := closeMain_post triv lex err s h
    rw [hc] at this; exact this
  | case8 evs idx s _ w err s1 hc p hw hev =>
    have h1 := closeMain_post triv lex err s h
    rw [hc] at h1
    have := walkFinish_post triv lex n (evs.set idx .noop) idx w s1 h1
    rw [hw] at this; exact this
  | case9 evs idx s _ w err s1 hc s2 evs' hw hev ih =>
    have h1 := closeMain_post triv lex err s h
    rw [hc] at h1
    have := walkFinish_post triv lex n (evs.set idx .noop) idx w s1 h1
    rw [hw] at this; exact ih this
  | case10 => simp [Post]
  | case11 evs idx s _ hev ih => exact ih h
  | case12 => exact h


/-! ### counting: every `Token` event takes a NON-trivia lexeme, so no code lexeme is lost and
    `lexemes[offset]` is in bounds as long as the parser did not emit more tokens than it was given -/

def atNT (triv : Nat → Bool) (lex : List Lexeme) (off : Nat) : Prop :=
  ∀ l, lex[off]? = some l → triv l.kind = false

/-- non-trivia lexemes among the first `off` -/
def nt (triv : Nat → Bool) (lex : List Lexeme) (off : Nat) : Nat :=
  ((lex.take off).filter (fun l => !triv l.kind)).length

/-- `Token` events not yet processed -/
def tkFrom (evs : List Event) (idx : Nat) : Nat := (evs.drop idx).countP Event.isToken

theorem nt_step (triv : Nat → Bool) (lex : List Lexeme) (off : Nat) (l : Lexeme) (h : lex[off]? = some l) :
    nt triv lex (off + 1) = nt triv lex off + (if triv l.kind then 0 else 1) := by
  unfold nt
  rw [List.take_add_one, h, List.filter_append, List.length_append]
  cases ht : triv l.kind <;> simp [ht]

theorem nt_end (triv : Nat → Bool) (lex : List Lexeme) (off : Nat) (h : lex[off]? = none) :
    nt triv lex off = nt triv lex lex.length := by
  have : lex.length ≤ off := List.getElem?_eq_none_iff.mp h
  unfold nt
  rw [List.take_of_length_le this, List.take_of_length_le (Nat.le_refl _)]

theorem nt_skip (triv : Nat → Bool) (lex : List Lexeme) (s : St) :
    nt triv lex (skipWs triv lex s).off = nt triv lex s.off := by
  fun_induction skipWs triv lex s with
  | case1 s _ => rfl
  | case2 s l hl ht ih =>
    rw [ih]; show nt triv lex (s.off + 1) = _
    rw [nt_step triv lex s.off l hl]; simp [ht]
  | case3 s l _ _ => rfl

theorem tkFrom_set_ge (evs : List Event) (i j : Nat) (a : Event) (h : i < j) :
    tkFrom (evs.set i a) j = tkFrom evs j := by
  unfold tkFrom; rw [List.drop_set_of_lt h]

theorem tkFrom_step (evs : List Event) (i : Nat) (e : Event) (h : evs[i]? = some e) :
    tkFrom evs i = tkFrom evs (i + 1) + (if e.isToken then 1 else 0) := by
  unfold tkFrom
  have hl := (List.getElem?_eq_some_iff.mp h)
  rw [List.drop_eq_getElem_cons hl.1, List.countP_cons, hl.2]

/-- overwriting a non-token event by `Noop` anywhere does not change the number of pending tokens -/
theorem countP_drop_set (evs : List Event) (j m : Nat) (e : Event) (h : evs[j]? = some e)
    (he : e.isToken = false) :
    ((evs.set j .noop).drop m).countP Event.isToken = (evs.drop m).countP Event.isToken := by
  induction evs generalizing j m with
  | nil => simp
  | cons x xs ih =>
    cases j with
    | zero =>
      simp at h; subst h
      cases m with
      | zero =>
        have hn : Event.isToken .noop = false := rfl
        simp [he, hn]
      | succ m => simp
    | succ j =>
      cases m with
      | zero =>
        have := ih j 0 (by simpa using h)
        simp only [List.drop_zero] at this
        simp [List.countP_cons, this]
      | succ m => simpa using ih j m (by simpa using h)

theorem walkStart_frame (n : Nat) (evs : List Event) (idx fp : Nat) (kinds : List Nat)
    (ks : List Nat) (evs' : List Event) (h : walkStart n evs idx fp kinds = .ok (ks, evs')) :
    evs'.length = evs.length ∧ (∀ m, tkFrom evs' m = tkFrom evs m) ∧ (kinds ≠ [] → ks ≠ []) := by
  fun_induction walkStart n evs idx fp kinds with
  | case1 => cases h; exact ⟨rfl, fun _ => rfl, id⟩
  | case2 evs idx fp kinds _ _ k fp' hev ih =>
    obtain ⟨a, b, c⟩ := ih h
    refine ⟨by simpa using a, fun m => ?_, fun _ => c (by simp)⟩
    rw [b m]; exact countP_drop_set evs _ m _ hev rfl
  | case3 => cases h
  | case4 => cases h
  | case5 => cases h

theorem openAll_nt (triv : Nat → Bool) (lex : List Lexeme) (ks : List Nat) (s s' : St)
    (h : openAll triv lex ks s = .ok s') : nt triv lex s'.off = nt triv lex s.off := by
  induction ks generalizing s with
  | nil => cases h; rfl
  | cons k ks ih =>
    unfold openAll at h
    simp only [] at h
    split at h
    · cases h
    · rw [ih _ h]; simp only []
      split
      · exact nt_skip triv lex _
      · rfl

theorem openAll_keep (triv : Nat → Bool) (lex : List Lexeme) (ks : List Nat) (s s' : St)
    (ha : atNT triv lex s.off) (h : openAll triv lex ks s = .ok s') : atNT triv lex s'.off := by
  induction ks generalizing s with
  | nil => cases h; exact ha
  | cons k ks ih =>
    unfold openAll at h
    simp only [] at h
    split at h
    · cases h
    · refine ih _ ?_ h
      simp only []
      split
      · exact skipWs_at triv lex _
      · exact ha

theorem openAll_at (triv : Nat → Bool) (lex : List Lexeme) (ks : List Nat) (s s' : St) (hk : ks ≠ [])
    (ha : s.depth ≠ 0 → atNT triv lex s.off) (h : openAll triv lex ks s = .ok s') : atNT triv lex s'.off := by
  cases ks with
  | nil => exact absurd rfl hk
  | cons k ks =>
    unfold openAll at h
    simp only [] at h
    split at h
    · cases h
    · refine openAll_keep triv lex ks _ s' ?_ h
      simp only []
      split
      · exact skipWs_at triv lex _
      · rename_i hd
        exact ha (by intro h0; apply hd; simp [h0])

theorem closeMain_nt (triv : Nat → Bool) (lex : List Lexeme) (e : Bool) (s s' : St)
    (h : closeMain triv lex e s = .ok s') : nt triv lex s'.off = nt triv lex s.off := by
  unfold closeMain at h
  simp only [] at h
  split at h
  · cases h
  · split at h
    · cases h
    · cases h; simp only []
      split
      · exact nt_skip triv lex _
      · rfl

theorem closeWrapped_nt (triv : Nat → Bool) (lex : List Lexeme) (e : Bool) (s s' : St)
    (h : closeWrapped triv lex e s = .ok s') : nt triv lex s'.off = nt triv lex s.off := by
  unfold closeWrapped at h
  split at h
  · cases h
  · split at h
    · cases h
    · cases h; simp only []
      split
      · exact nt_skip triv lex _
      · rfl

theorem walkFinish_frame (triv : Nat → Bool) (lex : List Lexeme) (n : Nat) (evs : List Event) (idx w : Nat)
    (s s' : St) (evs' : List Event) (h : walkFinish triv lex n evs idx w s = .ok (s', evs')) :
    evs'.length = evs.length ∧ (∀ m, tkFrom evs' m = tkFrom evs m) ∧ nt triv lex s'.off = nt triv lex s.off := by
  fun_induction walkFinish triv lex n evs idx w s with
  | case1 => cases h; exact ⟨rfl, fun _ => rfl, rfl⟩
  | case2 evs idx w s _ _ w' err hev p hc => first | cases h | simp [hc] at h
  | case3 evs idx w s _ _ w' err hev s1 hc ih =>
    obtain ⟨a, b, c⟩ := ih (by first | exact h | simpa [hc] using h)
    refine ⟨by simpa using a, fun m => ?_, by rw [c, closeWrapped_nt triv lex err s s1 hc]⟩
    rw [b m]; exact countP_drop_set evs _ m _ hev rfl
  | case4 => cases h
  | case5 => cases h
  | case6 => cases h

theorem textOffset_err (lex : List Lexeme) (off : Nat) (p : Panic) (h : textOffset lex off = .error p) :
    p = .hardOob := by
  unfold textOffset at h
  split at h
  · cases h
  · split at h
    · cases h
    · split at h
      · cases h
      · cases h; rfl

theorem openAll_err (triv : Nat → Bool) (lex : List Lexeme) (ks : List Nat) (s : St) (p : Panic)
    (h : openAll triv lex ks s = .error p) : p = .hardOob := by
  induction ks generalizing s with
  | nil => cases h
  | cons k ks ih =>
    unfold openAll at h
    simp only [] at h
    split at h
    · rename_i p' ht; cases h; exact textOffset_err lex _ _ ht
    · exact ih _ h

theorem closeMain_err (triv : Nat → Bool) (lex : List Lexeme) (e : Bool) (s : St) (p : Panic)
    (h : closeMain triv lex e s = .error p) : p = .hardOob ∨ p = .startsFinishes := by
  unfold closeMain at h
  simp only [] at h
  split at h
  · cases h; exact .inr rfl
  · split at h
    · rename_i p' ht; cases h; exact .inl (textOffset_err lex _ _ ht)
    · cases h

theorem closeWrapped_err (triv : Nat → Bool) (lex : List Lexeme) (e : Bool) (s : St) (p : Panic)
    (h : closeWrapped triv lex e s = .error p) : p = .hardOob ∨ p = .startsFinishes := by
  unfold closeWrapped at h
  split at h
  · cases h; exact .inr rfl
  · split at h
    · rename_i p' ht; cases h; exact .inl (textOffset_err lex _ _ ht)
    · cases h

theorem walkFinish_err (triv : Nat → Bool) (lex : List Lexeme) (n : Nat) (evs : List Event) (idx w : Nat)
    (s : St) (p : Panic) (h : walkFinish triv lex n evs idx w s = .error p) : p ≠ .lexemeIndex := by
  fun_induction walkFinish triv lex n evs idx w s with
  | case1 => cases h
  | case2 evs idx w s _ _ w' err hev p' hc =>
    cases h
    rcases closeWrapped_err triv lex err s _ hc with rfl | rfl <;> simp
  | case3 evs idx w s _ _ w' err hev s1 hc ih => exact ih (by first | exact h | simpa [hc] using h)
  | case4 => cases h; simp
  | case5 => cases h; simp
  | case6 => cases h; simp

/-- the counting invariant of `Sink::finish` -/
def JK (triv : Nat → Bool) (lex : List Lexeme) (n C : Nat) (evs : List Event) (idx : Nat) (s : St) : Prop :=
  evs.length = n ∧
  (s.eat = false → atNT triv lex s.off ∨ ∃ k fp, evs[idx]? = some (.start k fp)) ∧
  nt triv lex s.off + tkFrom evs idx = C

/-- result of the loop under the counting invariant: all `C` tokens took a non-trivia lexeme each;
    `lexemes[offset]` fails only if there were more `Token` events than non-trivia lexemes -/
def JKPost (triv : Nat → Bool) (lex : List Lexeme) (C : Nat) : Except Panic St → Prop
  | .ok s => nt triv lex s.off = C
  | .error p => p = .lexemeIndex → nt triv lex lex.length < C

theorem dite_skip_nt (triv : Nat → Bool) (lex : List Lexeme) (c : Prop) [Decidable c] (s : St) :
    nt triv lex (if _h : c then skipWs triv lex s else s).off = nt triv lex s.off := by
  split
  · exact nt_skip triv lex s
  · rfl

theorem go_jk (triv : Nat → Bool) (lex : List Lexeme) (n C : Nat) (evs : List Event) (idx : Nat) (s : St)
    (h : JK triv lex n C evs idx s) : JKPost triv lex C (go triv lex n evs idx s) := by
  fun_induction go triv lex n evs idx s with
  | case1 => simp [JKPost]
  | case2 evs idx s _ k fp p hw hev =>
    rcases walkStart_err _ _ _ _ _ _ hw with rfl | rfl <;> simp [JKPost]
  | case3 evs idx s _ k fp s0 kinds evs' hw p ho hev =>
    have := openAll_err triv lex kinds s0 p ho
    subst this; simp [JKPost]
  | case4 evs idx s _ k fp s0 kinds evs' hw s1 ho hev ih =>
    obtain ⟨hlen, hb, hc⟩ := h
    obtain ⟨f1, f2, f3⟩ := walkStart_frame _ _ _ _ _ _ _ hw
    apply ih
    refine ⟨by simpa using f1.trans (by simp [hlen]), fun _ => .inl ?_, ?_⟩
    · refine openAll_at triv lex kinds s0 s1 (f3 (by simp)) ?_ ho
      intro hd
      show atNT triv lex (if _h : s.depth ≠ 0 then skipWs triv lex s else s).off
      split
      · exact skipWs_at triv lex s
      · rename_i h0
        exfalso; apply hd
        show (if _h : s.depth ≠ 0 then skipWs triv lex s else s).depth = 0
        rw [dif_neg h0]; simpa using h0
    · show nt triv lex s1.off + tkFrom evs' (idx + 1) = C
      rw [openAll_nt triv lex kinds s0 s1 ho, f2, tkFrom_set_ge _ _ _ _ (by omega : idx < idx + 1)]
      have := tkFrom_step evs idx _ hev
      have e0 : nt triv lex s0.off = nt triv lex s.off := dite_skip_nt triv lex _ s
      simp [Event.isToken] at this
      omega
  | case5 evs idx s _ k s0 p ht hev =>
    obtain ⟨hlen, hb, hc⟩ := h
    unfold tokenOp at ht
    split at ht
    · rename_i hnone
      intro _
      have e0 : nt triv lex s0.off = nt triv lex s.off := dite_skip_nt triv lex _ s
      have e1 := nt_end triv lex _ hnone
      have := tkFrom_step evs idx _ hev
      simp [Event.isToken] at this
      omega
    · cases ht
  | case6 evs idx s _ k s0 s1 ht hev ih =>
    obtain ⟨hlen, hb, hc⟩ := h
    unfold tokenOp at ht
    split at ht
    · cases ht
    · rename_i l hl
      cases ht
      have hat : atNT triv lex s0.off := by
        show atNT triv lex (if _h : s.eat = true then skipWs triv lex s else s).off
        split
        · exact skipWs_at triv lex s
        · rename_i he
          rcases hb (by simpa using he) with h1 | ⟨k', fp', h2⟩
          · exact h1
          · rw [hev] at h2; cases h2
      have hl' := hat l hl
      apply ih
      refine ⟨by simpa using hlen, fun he => by simp at he, ?_⟩
      show nt triv lex (s0.off + 1) + tkFrom (evs.set idx .noop) (idx + 1) = C
      rw [nt_step triv lex _ l hl, tkFrom_set_ge _ _ _ _ (by omega : idx < idx + 1)]
      have e0 : nt triv lex s0.off = nt triv lex s.off := dite_skip_nt triv lex _ s
      have := tkFrom_step evs idx _ hev
      simp [Event.isToken] at this
      simp [hl']
      omega
  | case7 evs idx s _ w err p hc hev =>
    rcases closeMain_err triv lex err s p hc with rfl | rfl <;> simp [JKPost]
  | case8 evs idx s _ w err s1 hc p hw hev =>
    have := walkFinish_err triv lex n _ idx w s1 p hw
    simp [JKPost, this]
  | case9 evs idx s _ w err s1 hc s2 evs' hw hev ih =>
    obtain ⟨hlen, hb, hcc⟩ := h
    obtain ⟨f1, f2, f3⟩ := walkFinish_frame triv lex n _ idx w s1 s2 evs' hw
    apply ih
    refine ⟨by simpa using f1.trans (by simp [hlen]), fun he => by simp at he, ?_⟩
    show nt triv lex s2.off + tkFrom evs' (idx + 1) = C
    rw [f3, closeMain_nt triv lex err s s1 hc, f2, tkFrom_set_ge _ _ _ _ (by omega : idx < idx + 1)]
    have := tkFrom_step evs idx _ hev
    simp [Event.isToken] at this
    omega
  | case10 => simp [JKPost]
  | case11 evs idx s _ hev ih =>
    obtain ⟨hlen, hb, hc⟩ := h
    apply ih
    refine ⟨by simpa using hlen, fun he => ?_, ?_⟩
    · rcases hb he with h1 | ⟨k', fp', h2⟩
      · exact .inl h1
      · rw [hev] at h2; cases h2
    · rw [tkFrom_set_ge _ _ _ _ (by omega : idx < idx + 1)]
      have := tkFrom_step evs idx _ hev
      simp [Event.isToken] at this
      omega
  | case12 evs idx s hge =>
    obtain ⟨hlen, hb, hc⟩ := h
    show nt triv lex s.off = C
    have : tkFrom evs idx = 0 := by
      unfold tkFrom
      rw [List.drop_of_length_le (by omega)]; rfl
    omega

/-! ### builder side: the tree holds exactly the tokens given to the builder -/

def opToks : List Op → List Nat
  | [] => []
  | .tok _ i :: ops => i :: opToks ops
  | _ :: ops => opToks ops

theorem opToks_append (a b : List Op) : opToks (a ++ b) = opToks a ++ opToks b := by
  induction a with
  | nil => rfl
  | cons x xs ih => cases x <;> simp [opToks, ih]

theorem opToks_reverse (ops : List Op) : opToks ops.reverse = (tokIdxR ops).reverse := by
  induction ops with
  | nil => rfl
  | cons x xs ih =>
    rw [List.reverse_cons, opToks_append, ih]
    cases x <;> simp [opToks, tokIdxR]

theorem leavesL_append (a b : List Tree) : Tree.leavesL (a ++ b) = Tree.leavesL a ++ Tree.leavesL b := by
  induction a with
  | nil => rfl
  | cons x xs ih => simp [Tree.leavesL, ih]

/-- leaves of rowan's flat `children` Vec in the stack representation of `build` -/
def stackLeaves : List (Nat × List Tree) → List Nat
  | [] => []
  | (_, outer) :: st => stackLeaves st ++ Tree.leavesL outer.reverse

theorem leavesL_single_of_flat (cur : List Tree) (stack : List (Nat × List Tree)) (t : Tree)
    (h : cur ++ stack.flatMap (·.2) = [t]) :
    stackLeaves stack ++ Tree.leavesL cur.reverse = t.leaves := by
  induction stack generalizing cur with
  | nil =>
    simp at h; subst h; simp [stackLeaves, Tree.leavesL]
  | cons f st ih =>
    obtain ⟨k, outer⟩ := f
    simp only [List.flatMap_cons] at h
    cases cur with
    | nil =>
      simp only [List.nil_append] at h
      have := ih outer h
      simp [stackLeaves, Tree.leavesL, this]
    | cons c cs =>
      simp only [List.cons_append] at h
      injection h with hc hrest
      obtain ⟨h1, h23⟩ := List.append_eq_nil_iff.mp hrest
      obtain ⟨h2, h3⟩ := List.append_eq_nil_iff.mp h23
      subst h1 h2 hc
      have := ih [c] (by simp [h3])
      simpa [stackLeaves, Tree.leavesL] using this

theorem build_leaves (ops : List Op) (stack : List (Nat × List Tree)) (cur : List Tree) (t : Tree)
    (h : build ops stack cur = .ok t) :
    t.leaves = stackLeaves stack ++ Tree.leavesL cur.reverse ++ opToks ops := by
  induction ops generalizing stack cur with
  | nil =>
    unfold build at h
    split at h
    · rename_i k cs heq
      cases h
      simp [opToks, leavesL_single_of_flat cur stack _ heq]
    · cases h
  | cons o ops ih =>
    cases o with
    | opn k =>
      have := ih _ _ (by simpa [build] using h)
      simp [this, stackLeaves, opToks, Tree.leavesL]
    | tok k i =>
      have := ih _ _ (by simpa [build] using h)
      simp [this, opToks, leavesL_append, Tree.leavesL, Tree.leaves]
    | cls =>
      unfold build at h
      cases stack with
      | nil => cases h
      | cons f st =>
        obtain ⟨k, outer⟩ := f
        have := ih _ _ h
        simp [this, stackLeaves, opToks, leavesL_append, Tree.leavesL, Tree.leaves]

/-! ### "same tokens" -/

theorem sameTokB_iff (triv : Nat → Bool) (a b : List KT) : sameTokB triv a b = true ↔ SameTok triv a b := by
  unfold SameTok
  fun_induction sameTokB triv a b with
  | case1 => simp [codeToks]
  | case2 y ys ht ih => simp [codeToks, ht] at ih ⊢; exact ih
  | case3 y ys ht => simp [codeToks, ht]
  | case4 x xs ht ih => simp [codeToks, ht] at ih ⊢; exact ih
  | case5 x xs ht => simp [codeToks, ht]
  | case6 x xs y ys ht ih => simp [codeToks, ht] at ih ⊢; exact ih
  | case7 x xs y ys hx hy ih => simp [codeToks, hx, hy] at ih ⊢; exact ih
  | case8 x xs y ys hx hy ih =>
    simp only [codeToks] at ih ⊢
    simp [hx, hy, ih]

/-! ### projections of `finish` with decidable equality (for concrete instances) -/
def finishOff (triv : Nat → Bool) (evs : List Event) (lex : List Lexeme) : Option Nat :=
  match finish triv evs lex with | .ok r => some r.off | .error _ => none
def finishLeaves (triv : Nat → Bool) (evs : List Event) (lex : List Lexeme) : Option (List Nat) :=
  match finish triv evs lex with | .ok r => some r.tree.leaves | .error _ => none
def finishPanic (triv : Nat → Bool) (evs : List Event) (lex : List Lexeme) : Option Panic :=
  match finish triv evs lex with | .ok _ => none | .error p => some p

end JrsVerif.FmtSink
