/- C19 (round 3): the sugar rewrite may sit anywhere below *strict* positions of an expression.

   `SameRun e e'` : evaluating `e` and `e'` is the same computation of the definitional interpreter
   (`Model/Eval.lean`) — same result, same store, same trace — for every fuel and every context.
   `eval_local_sugar` says the head rewrite of a `local` is such a pair.  The lemmas below show that
   `SameRun` is a congruence for every constructor whose `run` case evaluates the sub-expression
   directly in the current context (`evalV c sub`): condition / branches of `if`, operand of a unary
   operator, body of a `local`, operand of `error`, condition / message / continuation of `assert`,
   the callee of an application.  `StrictEq` closes the head rewrite under these constructors and
   `strictEq_sameRun` is the resulting soundness statement for the interpreter itself.

   NOT covered (the sub-expression is stored in a thunk or a closure, so the stores differ
   syntactically and equality of computations is the wrong relation; a store bisimulation would be
   needed): array elements, application arguments, function bodies, object members, comprehension
   bodies, bound values of a `local`, operands of binary operators (their `run` cases overlap with
   the `e in super` special form), index / slice operands. -/
import JrsVerif.Proofs.FmtEval

namespace JrsVerif.Eval

def SameRun (e e' : Expr) : Prop := ∀ (n : Nat) (c : Ctx), run n (.eval c e) = run n (.eval c e')

theorem SameRun.rfl' (e : Expr) : SameRun e e := fun _ _ => rfl
theorem SameRun.symm' {e e' : Expr} (h : SameRun e e') : SameRun e' e := fun n c => (h n c).symm
theorem SameRun.trans' {a b c : Expr} (h1 : SameRun a b) (h2 : SameRun b c) : SameRun a c :=
  fun n k => (h1 n k).trans (h2 n k)

theorem sameRun_local_sugar (bs : List Bind) (body : Expr) :
    SameRun (.localE (bs.map unsugarBind) body) (.localE bs body) :=
  fun n c => run_local_sugar n c bs body

theorem sameRun_unary (op : UOp) {x x' : Expr} (h : SameRun x x') : SameRun (.unary op x) (.unary op x') := by
  intro n c
  cases n with
  | zero => simp only [run]
  | succ n => simp only [run, h n c]

theorem sameRun_error {x x' : Expr} (h : SameRun x x') : SameRun (.errorE x) (.errorE x') := by
  intro n c
  cases n with
  | zero => simp only [run]
  | succ n => simp only [run, h n c]

theorem sameRun_localBody (bs : List Bind) {b b' : Expr} (h : SameRun b b') :
    SameRun (.localE bs b) (.localE bs b') := by
  intro n c
  cases n with
  | zero => simp only [run]
  | succ n => simp only [run, h n]

theorem sameRun_ifNone {cd cd' t t' : Expr} (hc : SameRun cd cd') (ht : SameRun t t') :
    SameRun (.ifE cd t none) (.ifE cd' t' none) := by
  intro n c
  cases n with
  | zero => simp only [run]
  | succ n => simp only [run, hc n c, ht n c]

theorem sameRun_ifSome {cd cd' t t' e e' : Expr} (hc : SameRun cd cd') (ht : SameRun t t') (he : SameRun e e') :
    SameRun (.ifE cd t (some e)) (.ifE cd' t' (some e')) := by
  intro n c
  cases n with
  | zero => simp only [run]
  | succ n => simp only [run, hc n c, ht n c, he n c]

theorem sameRun_assertNone {cd cd' r r' : Expr} (hc : SameRun cd cd') (hr : SameRun r r') :
    SameRun (.assertE cd none r) (.assertE cd' none r') := by
  intro n c
  cases n with
  | zero => simp only [run]
  | succ n => simp only [run, hc n c, hr n c]

theorem sameRun_assertSome {cd cd' m m' r r' : Expr} (hc : SameRun cd cd') (hm : SameRun m m') (hr : SameRun r r') :
    SameRun (.assertE cd (some m) r) (.assertE cd' (some m') r') := by
  intro n c
  cases n with
  | zero => simp only [run]
  | succ n => simp only [run, hc n c, hm n c, hr n c]

theorem sameRun_applyCallee {f f' : Expr} (pos : List Expr) (named : List (String × Expr)) (ts : Bool)
    (h : SameRun f f') : SameRun (.apply f pos named ts) (.apply f' pos named ts) := by
  intro n c
  cases n with
  | zero => simp only [run]
  | succ n => simp only [run, h n c]

theorem sameRun_binary (op : BOp) (hop : op ≠ .in_) {a a' b b' : Expr} (ha : SameRun a a') (hb : SameRun b b') :
    SameRun (.binary op a b) (.binary op a' b') := by
  intro n c
  cases n with
  | zero => simp only [run]
  | succ n => cases op <;> first | exact absurd rfl hop | simp only [run, ha n c, hb n c]

/-- the head rewrite of a `local`, closed under the strict constructors -/
inductive StrictEq : Expr → Expr → Prop
  | refl (e : Expr) : StrictEq e e
  | sugar (bs : List Bind) {b b' : Expr} : StrictEq b b' →
      StrictEq (.localE (bs.map unsugarBind) b) (.localE bs b')
  | localBody (bs : List Bind) {b b' : Expr} : StrictEq b b' → StrictEq (.localE bs b) (.localE bs b')
  | unary (op : UOp) {x x' : Expr} : StrictEq x x' → StrictEq (.unary op x) (.unary op x')
  | binary (op : BOp) (hop : op ≠ .in_) {a a' b b' : Expr} : StrictEq a a' → StrictEq b b' →
      StrictEq (.binary op a b) (.binary op a' b')
  | error {x x' : Expr} : StrictEq x x' → StrictEq (.errorE x) (.errorE x')
  | ifNone {c c' t t' : Expr} : StrictEq c c' → StrictEq t t' → StrictEq (.ifE c t none) (.ifE c' t' none)
  | ifSome {c c' t t' e e' : Expr} : StrictEq c c' → StrictEq t t' → StrictEq e e' →
      StrictEq (.ifE c t (some e)) (.ifE c' t' (some e'))
  | assertNone {c c' r r' : Expr} : StrictEq c c' → StrictEq r r' →
      StrictEq (.assertE c none r) (.assertE c' none r')
  | assertSome {c c' m m' r r' : Expr} : StrictEq c c' → StrictEq m m' → StrictEq r r' →
      StrictEq (.assertE c (some m) r) (.assertE c' (some m') r')
  | applyCallee {f f' : Expr} (pos : List Expr) (named : List (String × Expr)) (ts : Bool) :
      StrictEq f f' → StrictEq (.apply f pos named ts) (.apply f' pos named ts)
  | symm {a b : Expr} : StrictEq a b → StrictEq b a
  | trans {a b c : Expr} : StrictEq a b → StrictEq b c → StrictEq a c

theorem strictEq_sameRun {e e' : Expr} (h : StrictEq e e') : SameRun e e' := by
  induction h with
  | refl e => exact SameRun.rfl' e
  | sugar bs _ ih => exact SameRun.trans' (sameRun_local_sugar bs _) (sameRun_localBody bs ih)
  | localBody bs _ ih => exact sameRun_localBody bs ih
  | unary op _ ih => exact sameRun_unary op ih
  | binary op hop _ _ iha ihb => exact sameRun_binary op hop iha ihb
  | error _ ih => exact sameRun_error ih
  | ifNone _ _ ihc iht => exact sameRun_ifNone ihc iht
  | ifSome _ _ _ ihc iht ihe => exact sameRun_ifSome ihc iht ihe
  | assertNone _ _ ihc ihr => exact sameRun_assertNone ihc ihr
  | assertSome _ _ _ ihc ihm ihr => exact sameRun_assertSome ihc ihm ihr
  | applyCallee pos named ts _ ih => exact sameRun_applyCallee pos named ts ih
  | symm _ ih => exact SameRun.symm' ih
  | trans _ _ ih1 ih2 => exact SameRun.trans' ih1 ih2

end JrsVerif.Eval
