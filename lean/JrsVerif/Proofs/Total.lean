/- Lemmas about the C04 kernels of Model/Total.lean (core Lean only). -/
import JrsVerif.Model.Total

namespace JrsVerif.Total

/-! ## pigeonhole -/

theorem nodup_subset_length {α : Type} [DecidableEq α] :
    ∀ (l m : List α), l.Nodup → (∀ x ∈ l, x ∈ m) → l.length ≤ m.length
  | [], _, _, _ => Nat.zero_le _
  | x :: l, m, hn, hs => by
    have hx : x ∈ m := hs x (by simp)
    have hn' := List.nodup_cons.mp hn
    have h1 : l.length ≤ (m.erase x).length :=
      nodup_subset_length l (m.erase x) hn'.2 (by
        intro y hy
        have hne : y ≠ x := by intro h; subst h; exact hn'.1 hy
        exact (List.mem_erase_of_ne hne).mpr (hs y (by simp [hy])))
    rw [List.length_erase_of_mem hx] at h1
    have h2 : 0 < m.length := List.length_pos_of_mem hx
    simp only [List.length_cons]; omega

/-! ## prepare_call -/

theorem position_lt : ∀ (ps : List Param) (n : String) (i : Nat), position ps n = some i → i < ps.length
  | [], _, _, h => by simp [position] at h
  | p :: ps, n, i, h => by
    simp only [position] at h
    split at h
    · simp only [Option.some.injEq] at h; subst h; simp
    · cases hp : position ps n with
      | none => simp [hp] at h
      | some k =>
        simp only [hp, Option.map_some, Option.some.injEq] at h; subst h
        have := position_lt ps n k hp
        simp only [List.length_cons]; omega

/-- the named loop keeps `passed` duplicate-free, inside the parameter range, and adds one entry
    per named argument -/
theorem namedLoop_inv (ps : List Param) : ∀ (named : List String) (passed : List Nat)
    (ops : List (Nat × Nat)) (j : Nat) (passed' : List Nat) (ops' : List (Nat × Nat)),
    namedLoop ps passed ops named j = .ok (passed', ops') →
    passed.Nodup → (∀ i ∈ passed, i < ps.length) →
    passed'.Nodup ∧ (∀ i ∈ passed', i < ps.length) ∧ passed'.length = passed.length + named.length
  | [], passed, ops, j, passed', ops', h, hn, hb => by
    simp only [namedLoop, Except.ok.injEq, Prod.mk.injEq] at h
    obtain ⟨h1, _⟩ := h; subst h1
    exact ⟨hn, hb, by simp⟩
  | n :: rest, passed, ops, j, passed', ops', h, hn, hb => by
    simp only [namedLoop] at h
    split at h
    · exact absurd h (by simp)
    · rename_i idx hpos
      split at h
      · exact absurd h (by simp)
      · rename_i hc
        have hnot : idx ∉ passed := by simpa using hc
        have := namedLoop_inv ps rest (idx :: passed) _ (j + 1) passed' ops' h
          (List.nodup_cons.mpr ⟨hnot, hn⟩)
          (by
            intro i hi
            simp only [List.mem_cons] at hi
            cases hi with
            | inl h' => subst h'; exact position_lt ps n _ hpos
            | inr h' => exact hb i h')
        refine ⟨this.1, this.2.1, ?_⟩
        have := this.2.2
        simp only [List.length_cons] at this ⊢; omega

theorem firstUnbound_none (named : List String) : ∀ (l : List Param), firstUnbound named l = none →
    (l.filterMap (·.name)).length = l.length ∧ ∀ x ∈ l.filterMap (·.name), x ∈ named
  | [], _ => by simp
  | p :: l, h => by
    simp only [firstUnbound] at h
    split at h
    · rename_i n hn
      split at h
      · rename_i hc
        have ih := firstUnbound_none named l h
        have hmem : n ∈ named := by simpa using hc
        simp only [List.filterMap_cons, hn, List.length_cons, List.mem_cons]
        refine ⟨by omega, ?_⟩
        intro x hx
        cases hx with
        | inl h' => subst h'; exact hmem
        | inr h' => exact ih.2 x h'
      · exact absurd h (by simp)
    · exact absurd h (by simp)

/-- with pairwise different parameter names the `unreachable!()` is unreachable -/
theorem firstUnbound_some_of_short (ps : List Param) (unnamed : Nat) (named : List String)
    (hnd : NodupNames ps) (hlt : unnamed + named.length < ps.length) :
    firstUnbound named (ps.drop unnamed) ≠ none := by
  intro h
  have hf := firstUnbound_none named (ps.drop unnamed) h
  have hsub : (ps.drop unnamed).filterMap (·.name) |>.Sublist (ps.filterMap (·.name)) :=
    (List.drop_sublist unnamed ps).filterMap _
  have hn : ((ps.drop unnamed).filterMap (·.name)).Nodup := List.Nodup.sublist hsub hnd
  have hle := nodup_subset_length _ named hn hf.2
  rw [hf.1, List.length_drop] at hle
  omega

/-! ## debug truncation -/

theorem width_pos (c : Nat) : 0 < width c := by
  unfold width
  split
  · omega
  · split
    · omega
    · split <;> omega

theorem isBoundary_cons_ge (c : Nat) (cs : List Nat) (i : Nat) (h : width c ≤ i) :
    isBoundary (c :: cs) i = isBoundary cs (i - width c) := by
  have hw := width_pos c
  obtain ⟨k, rfl⟩ : ∃ k, i = k + 1 := ⟨i - 1, by omega⟩
  have : ¬ (k + 1 < width c) := by omega
  simp [isBoundary, this]

theorem isBoundary_cons_lt (c : Nat) (cs : List Nat) (i : Nat) (h0 : 0 < i) (h : i < width c) :
    isBoundary (c :: cs) i = false := by
  obtain ⟨k, rfl⟩ : ∃ k, i = k + 1 := ⟨i - 1, by omega⟩
  simp [isBoundary, h]

theorem floorB_nil : ∀ i, floorB [] i = some 0
  | 0 => by simp [floorB, isBoundary]
  | i + 1 => by simp [floorB, isBoundary, floorB_nil i]

theorem floorB_cons_lt (c : Nat) (cs : List Nat) : ∀ i, i < width c → floorB (c :: cs) i = some 0
  | 0, _ => by simp [floorB, isBoundary]
  | i + 1, h => by
    have := isBoundary_cons_lt c cs (i + 1) (by omega) h
    simp only [floorB, this]
    exact floorB_cons_lt c cs i (by omega)

theorem floorB_cons_ge (c : Nat) (cs : List Nat) : ∀ i, width c ≤ i →
    floorB (c :: cs) i = (floorB cs (i - width c)).map (· + width c)
  | 0, h => by have := width_pos c; omega
  | i + 1, h => by
    have hw := width_pos c
    have hb := isBoundary_cons_ge c cs (i + 1) h
    by_cases hbd : isBoundary cs (i + 1 - width c) = true
    · -- boundary on both sides
      have e : floorB cs (i + 1 - width c) = some (i + 1 - width c) := by
        cases hk : i + 1 - width c with
        | zero => simp [floorB, isBoundary]
        | succ k => rw [hk] at hbd; simp [floorB, hbd]
      simp only [floorB, hb, hbd, if_true, e, Option.map_some, Option.some.injEq]
      omega
    · have hbd' : isBoundary cs (i + 1 - width c) = false := by simpa using hbd
      -- `i + 1 = width c` would be a boundary (offset 0)
      have hgt : width c < i + 1 := by
        by_cases heq : i + 1 = width c
        · rw [heq, Nat.sub_self] at hbd'
          cases cs <;> simp [isBoundary] at hbd'
        · omega
      obtain ⟨k, hk⟩ : ∃ k, i + 1 - width c = k + 1 := ⟨i - width c, by omega⟩
      have ih := floorB_cons_ge c cs i (by omega)
      have hk' : i - width c = k := by omega
      simp only [floorB, hb, hbd', ih, hk']
      rw [hk] at hbd'
      simp [hk, floorB, hbd']

theorem floorB_eq_prefixFit : ∀ (cs : List Nat) (b : Nat),
    floorB cs b = some (byteLen (Spec.prefixFit cs b))
  | [], b => by simp [floorB_nil, Spec.prefixFit, byteLen]
  | c :: cs, b => by
    by_cases h : width c ≤ b
    · rw [floorB_cons_ge c cs b h, floorB_eq_prefixFit cs (b - width c)]
      simp [Spec.prefixFit, h, byteLen, Nat.add_comm]
    · rw [floorB_cons_lt c cs b (by omega)]
      simp [Spec.prefixFit, h, byteLen]

theorem takeBytes_append : ∀ (p rest : List Nat), takeBytes (p ++ rest) (byteLen p) = some p
  | [], rest => by cases rest <;> simp [takeBytes, byteLen]
  | c :: p, rest => by
    have hw := width_pos c
    obtain ⟨k, hk⟩ : ∃ k, byteLen (c :: p) = k + 1 := ⟨byteLen (c :: p) - 1, by simp [byteLen]; omega⟩
    have hk2 : k + 1 - width c = byteLen p := by simp only [byteLen] at hk; omega
    have hk3 : ¬ (k + 1 < width c) := by simp only [byteLen] at hk; omega
    rw [hk]
    simp only [List.cons_append, takeBytes, hk3, if_false, hk2, takeBytes_append p rest, Option.map_some]

theorem dropBytes_append : ∀ (p rest : List Nat), dropBytes (p ++ rest) (byteLen p) = some rest
  | [], rest => by simp [dropBytes, byteLen]
  | c :: p, rest => by
    have hw := width_pos c
    obtain ⟨k, hk⟩ : ∃ k, byteLen (c :: p) = k + 1 := ⟨byteLen (c :: p) - 1, by simp [byteLen]; omega⟩
    have hk2 : k + 1 - width c = byteLen p := by simp only [byteLen] at hk; omega
    have hk3 : ¬ (k + 1 < width c) := by simp only [byteLen] at hk; omega
    rw [hk]
    simp only [List.cons_append, dropBytes, hk3, if_false, hk2, dropBytes_append p rest]

theorem byteLen_append : ∀ (a b : List Nat), byteLen (a ++ b) = byteLen a + byteLen b
  | [], b => by simp [byteLen]
  | c :: a, b => by simp [byteLen, byteLen_append a b, Nat.add_assoc]

theorem prefixFit_prefix : ∀ (cs : List Nat) (b : Nat), ∃ rest, cs = Spec.prefixFit cs b ++ rest
  | [], _ => ⟨[], by simp [Spec.prefixFit]⟩
  | c :: cs, b => by
    by_cases h : width c ≤ b
    · obtain ⟨rest, hr⟩ := prefixFit_prefix cs (b - width c)
      exact ⟨rest, by simp only [Spec.prefixFit, h, if_true, List.cons_append]; rw [← hr]⟩
    · exact ⟨c :: cs, by simp [Spec.prefixFit, h]⟩

theorem prefixFit_fits : ∀ (cs : List Nat) (b : Nat), byteLen (Spec.prefixFit cs b) ≤ b
  | [], _ => by simp [Spec.prefixFit, byteLen]
  | c :: cs, b => by
    by_cases h : width c ≤ b
    · have := prefixFit_fits cs (b - width c)
      simp only [Spec.prefixFit, h, if_true, byteLen]; omega
    · simp [Spec.prefixFit, h, byteLen]

theorem suffixFit_suffix : ∀ (cs : List Nat) (b : Nat), ∃ pre, cs = pre ++ Spec.suffixFit cs b
  | [], _ => ⟨[], by simp [Spec.suffixFit]⟩
  | c :: cs, b => by
    by_cases h : byteLen (c :: cs) ≤ b
    · exact ⟨[], by simp [Spec.suffixFit, h]⟩
    · obtain ⟨pre, hp⟩ := suffixFit_suffix cs b
      exact ⟨c :: pre, by simp only [Spec.suffixFit, h, if_false, List.cons_append]; rw [← hp]⟩

theorem suffixFit_fits : ∀ (cs : List Nat) (b : Nat), byteLen (Spec.suffixFit cs b) ≤ b
  | [], _ => by simp [Spec.suffixFit, byteLen]
  | c :: cs, b => by
    by_cases h : byteLen (c :: cs) ≤ b
    · simp only [Spec.suffixFit, h, if_true]
    · simp only [Spec.suffixFit, h, if_false]; exact suffixFit_fits cs b

theorem suffixFit_le : ∀ (cs : List Nat) (b : Nat), byteLen (Spec.suffixFit cs b) ≤ byteLen cs
  | [], _ => by simp [Spec.suffixFit, byteLen]
  | c :: cs, b => by
    by_cases h : byteLen (c :: cs) ≤ b
    · simp [Spec.suffixFit, h]
    · have := suffixFit_le cs b
      simp only [Spec.suffixFit, h, if_false]
      simp only [byteLen]; omega

theorem suffixFit_all (cs : List Nat) (b : Nat) (h : byteLen cs ≤ b) : Spec.suffixFit cs b = cs := by
  cases cs with
  | nil => simp [Spec.suffixFit]
  | cons c cs => simp [Spec.suffixFit, h]

theorem isBoundary_width (c : Nat) (cs : List Nat) : isBoundary (c :: cs) (width c) = true := by
  rw [isBoundary_cons_ge c cs (width c) (Nat.le_refl _), Nat.sub_self]
  cases cs <;> simp [isBoundary]

/-- from inside the first character the loop stops right after it -/
theorem ceilB_cons_inside (c : Nat) (cs : List Nat) : ∀ (fuel i : Nat), 0 < i → i ≤ width c →
    width c - i ≤ fuel → ceilB (c :: cs) i fuel = some (width c)
  | 0, i, h0, hle, hf => by
    have : i = width c := by omega
    subst this
    simp [ceilB, isBoundary_width]
  | fuel + 1, i, h0, hle, hf => by
    by_cases heq : i = width c
    · subst heq; simp [ceilB, isBoundary_width]
    · have hb := isBoundary_cons_lt c cs i h0 (by omega)
      simp only [ceilB, hb]
      exact ceilB_cons_inside c cs fuel (i + 1) (by omega) (by omega) (by omega)

theorem ceilB_cons_ge (c : Nat) (cs : List Nat) : ∀ (fuel i : Nat), width c ≤ i →
    ceilB (c :: cs) i fuel = (ceilB cs (i - width c) fuel).map (· + width c)
  | 0, i, h => by
    have hb := isBoundary_cons_ge c cs i h
    simp only [ceilB, hb]
    split
    · simp only [Option.map_some, Option.some.injEq]; omega
    · simp
  | fuel + 1, i, h => by
    have hb := isBoundary_cons_ge c cs i h
    simp only [ceilB, hb]
    split
    · simp only [Option.map_some, Option.some.injEq]; omega
    · have ih := ceilB_cons_ge c cs fuel (i + 1) (by omega)
      have e : i + 1 - width c = i - width c + 1 := by omega
      rw [ih, e]

theorem ceilB_zero (cs : List Nat) (fuel : Nat) : ceilB cs 0 fuel = some 0 := by
  cases fuel <;> cases cs <;> simp [ceilB, isBoundary]

theorem ceilB_eq_suffixFit : ∀ (cs : List Nat) (b fuel : Nat), byteLen cs ≤ fuel →
    ceilB cs (byteLen cs - b) fuel = some (byteLen cs - byteLen (Spec.suffixFit cs b))
  | [], b, fuel, _ => by simp [byteLen, Spec.suffixFit, ceilB_zero]
  | c :: cs, b, fuel, hf => by
    have hw := width_pos c
    by_cases h : byteLen (c :: cs) ≤ b
    · have e : byteLen (c :: cs) - b = 0 := by omega
      simp [e, ceilB_zero, Spec.suffixFit, h]
    · simp only [Spec.suffixFit, h, if_false]
      simp only [byteLen] at h hf ⊢
      by_cases hin : width c + byteLen cs - b < width c
      · -- the cut falls inside the first character: the whole rest is kept
        have hall : Spec.suffixFit cs b = cs := suffixFit_all cs b (by omega)
        rw [hall, ceilB_cons_inside c cs fuel _ (by omega) (by omega) (by omega)]
        congr 1; omega
      · have hge : width c ≤ width c + byteLen cs - b := by omega
        rw [ceilB_cons_ge c cs fuel _ hge]
        have e : width c + byteLen cs - b - width c = byteLen cs - b := by omega
        rw [e, ceilB_eq_suffixFit cs b fuel (by omega)]
        have := suffixFit_le cs b
        simp only [Option.map_some, Option.some.injEq]; omega

end JrsVerif.Total
