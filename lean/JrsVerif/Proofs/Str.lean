/- C11 helper lemmas: UTF-8 codec, prefix-freeness, the findSubstr walk, digits, base64. -/
import JrsVerif.Model.Str

namespace JrsVerif.Str

/-! ### UTF-8 -/

theorem dec1_enc1 (c : Nat) (h : isScalar c = true) (rest : List Nat) :
    dec1 (enc1 c ++ rest) = some (c, rest) := by
  unfold enc1
  simp only [isScalar, Bool.or_eq_true, Bool.and_eq_true, decide_eq_true_eq] at h
  split
  · simp [dec1, *]
  · split
    · simp only [List.cons_append, List.nil_append, dec1, isCont]
      have h1 : ¬ (192 + c / 64 < 128) := by omega
      have h2 : ¬ (192 + c / 64 < 194) := by omega
      have h3 : 192 + c / 64 < 224 := by omega
      simp only [h1, h2, h3, if_true, if_false]
      have : (decide (128 ≤ 128 + c % 64) && decide (128 + c % 64 < 192)) = true := by
        simp; omega
      have e : (192 + c / 64 - 192) * 64 + (128 + c % 64 - 128) = c := by omega
      simp only [this, if_true, e]
    · split
      · simp only [List.cons_append, List.nil_append, dec1, isCont, isScalar]
        have h1 : ¬ (224 + c / 4096 < 128) := by omega
        have h2 : ¬ (224 + c / 4096 < 194) := by omega
        have h3 : ¬ (224 + c / 4096 < 224) := by omega
        have h4 : 224 + c / 4096 < 240 := by omega
        simp only [h1, h2, h3, h4, if_true, if_false]
        have e : (224 + c / 4096 - 224) * 4096 + (128 + c / 64 % 64 - 128) * 64 + (128 + c % 64 - 128) = c := by omega
        simp only [e]
        have : (decide (128 ≤ 128 + c / 64 % 64) && decide (128 + c / 64 % 64 < 192) &&
            (decide (128 ≤ 128 + c % 64) && decide (128 + c % 64 < 192)) && decide (2048 ≤ c) &&
            (decide (c < 55296) || decide (57344 ≤ c) && decide (c < 1114112))) = true := by
          simp; omega
        simp only [this, if_true]
      · simp only [List.cons_append, List.nil_append, dec1, isCont]
        have h1 : ¬ (240 + c / 262144 < 128) := by omega
        have h2 : ¬ (240 + c / 262144 < 194) := by omega
        have h3 : ¬ (240 + c / 262144 < 224) := by omega
        have h4 : ¬ (240 + c / 262144 < 240) := by omega
        have h5 : 240 + c / 262144 < 245 := by omega
        simp only [h1, h2, h3, h4, h5, if_true, if_false]
        have e : (240 + c / 262144 - 240) * 262144 + (128 + c / 4096 % 64 - 128) * 4096 +
            (128 + c / 64 % 64 - 128) * 64 + (128 + c % 64 - 128) = c := by omega
        simp only [e]
        have : (decide (128 ≤ 128 + c / 4096 % 64) && decide (128 + c / 4096 % 64 < 192) &&
            (decide (128 ≤ 128 + c / 64 % 64) && decide (128 + c / 64 % 64 < 192)) &&
            (decide (128 ≤ 128 + c % 64) && decide (128 + c % 64 < 192)) && decide (65536 ≤ c) &&
            decide (c < 1114112)) = true := by
          simp; omega
        simp only [this, if_true]

theorem dec1_sound {bs : List Nat} {c : Nat} {r : List Nat} (h : dec1 bs = some (c, r)) :
    bs = enc1 c ++ r ∧ isScalar c = true := by
  match bs, h with
  | [], h => simp [dec1] at h
  | b0 :: t, h =>
    simp only [dec1] at h
    split at h
    · simp only [Option.some.injEq, Prod.mk.injEq] at h
      obtain ⟨rfl, rfl⟩ := h
      rename_i h1
      simp only [enc1, isScalar, h1, if_true]
      refine ⟨by simp, by simp; omega⟩
    · split at h
      · simp at h
      · split at h
        · split at h
          · rename_i b1 r1
            split at h
            · rename_i hc
              simp only [Option.some.injEq, Prod.mk.injEq] at h
              obtain ⟨rfl, rfl⟩ := h
              simp only [isCont, Bool.and_eq_true, decide_eq_true_eq] at hc
              have e1 : ¬ ((b0 - 192) * 64 + (b1 - 128) < 128) := by omega
              have e2 : (b0 - 192) * 64 + (b1 - 128) < 2048 := by omega
              simp only [enc1, e1, e2, if_true, if_false, isScalar]
              refine ⟨?_, by simp; omega⟩
              simp only [List.cons_append, List.nil_append, List.cons.injEq, and_true]
              omega
            · simp at h
          · simp at h
        · split at h
          · split at h
            · rename_i b1 b2 r2
              split at h
              · rename_i hc
                simp only [Option.some.injEq, Prod.mk.injEq] at h
                obtain ⟨rfl, rfl⟩ := h
                simp only [isCont, isScalar, Bool.and_eq_true, Bool.or_eq_true, decide_eq_true_eq] at hc
                have e1 : ¬ ((b0 - 224) * 4096 + (b1 - 128) * 64 + (b2 - 128) < 128) := by omega
                have e2 : ¬ ((b0 - 224) * 4096 + (b1 - 128) * 64 + (b2 - 128) < 2048) := by omega
                have e3 : (b0 - 224) * 4096 + (b1 - 128) * 64 + (b2 - 128) < 65536 := by omega
                simp only [enc1, e1, e2, e3, if_true, if_false, isScalar]
                refine ⟨?_, by simp; omega⟩
                simp only [List.cons_append, List.nil_append, List.cons.injEq, and_true]
                omega
              · simp at h
            · simp at h
          · split at h
            · split at h
              · rename_i b1 b2 b3 r3
                split at h
                · rename_i hc
                  simp only [Option.some.injEq, Prod.mk.injEq] at h
                  obtain ⟨rfl, rfl⟩ := h
                  simp only [isCont, Bool.and_eq_true, decide_eq_true_eq] at hc
                  have e1 : ¬ ((b0 - 240) * 262144 + (b1 - 128) * 4096 + (b2 - 128) * 64 + (b3 - 128) < 128) := by omega
                  have e2 : ¬ ((b0 - 240) * 262144 + (b1 - 128) * 4096 + (b2 - 128) * 64 + (b3 - 128) < 2048) := by omega
                  have e3 : ¬ ((b0 - 240) * 262144 + (b1 - 128) * 4096 + (b2 - 128) * 64 + (b3 - 128) < 65536) := by omega
                  simp only [enc1, e1, e2, e3, if_false, isScalar]
                  refine ⟨?_, by simp; omega⟩
                  simp only [List.cons_append, List.nil_append, List.cons.injEq, and_true]
                  omega
                · simp at h
              · simp at h
            · simp at h

/-- all elements are Unicode scalar values (the invariant of a Rust `str`) -/
def AllScalar (s : List Nat) : Prop := ∀ c ∈ s, isScalar c = true

theorem enc1_ne_nil (c : Nat) : enc1 c ≠ [] := by
  unfold enc1; split <;> (try split) <;> (try split) <;> simp

theorem enc1_length_pos (c : Nat) : 0 < (enc1 c).length := by
  unfold enc1; split <;> (try split) <;> (try split) <;> simp

theorem enc_append (s t : List Nat) : enc (s ++ t) = enc s ++ enc t := by
  induction s with
  | nil => simp [enc]
  | cons c s ih => simp [enc, ih]

theorem length_le_enc (s : List Nat) : s.length ≤ (enc s).length := by
  induction s with
  | nil => simp [enc]
  | cons c s ih =>
    have := enc1_length_pos c
    simp only [enc, List.length_cons, List.length_append]; omega

theorem decF_nil (f : Nat) : decF f [] = some [] := by cases f <;> rfl

theorem decF_enc (s : List Nat) (hs : AllScalar s) (f : Nat) (hf : s.length ≤ f) :
    decF f (enc s) = some s := by
  induction s generalizing f with
  | nil => simp [enc, decF_nil]
  | cons c s ih =>
    match f, hf with
    | f + 1, hf =>
      have hc : isScalar c = true := hs c (by simp)
      have hs' : AllScalar s := fun d hd => hs d (by simp [hd])
      obtain ⟨b, t, hbt⟩ : ∃ b t, enc1 c ++ enc s = b :: t := by
        cases h : enc1 c ++ enc s with
        | nil => simp [enc1_ne_nil] at h
        | cons b t => exact ⟨b, t, rfl⟩
      simp only [enc, hbt, decF]
      rw [← hbt, dec1_enc1 c hc]
      simp only [List.length_cons] at hf
      simp [ih hs' f (by omega)]

theorem decF_sound (f : Nat) (bs s : List Nat) (h : decF f bs = some s) :
    enc s = bs ∧ AllScalar s := by
  induction f generalizing bs s with
  | zero =>
    cases bs with
    | nil => simp [decF] at h; subst h; simp [enc, AllScalar]
    | cons b t => simp [decF] at h
  | succ f ih =>
    cases bs with
    | nil => simp [decF] at h; subst h; simp [enc, AllScalar]
    | cons b t =>
      simp only [decF] at h
      split at h
      · simp at h
      · rename_i c r hd
        simp only [Option.map_eq_some_iff] at h
        obtain ⟨s', hs', rfl⟩ := h
        obtain ⟨e1, e2⟩ := dec1_sound hd
        obtain ⟨i1, i2⟩ := ih r s' hs'
        refine ⟨by simp [enc, i1, e1], ?_⟩
        intro d hd'
        simp only [List.mem_cons] at hd'
        rcases hd' with rfl | hd'
        · exact e2
        · exact i2 d hd'

theorem enc1_prefix {c d : Nat} {x y : List Nat} (h : enc1 c ++ x <+: enc1 d ++ y) :
    c = d ∧ x <+: y := by
  unfold enc1 at h
  repeat' split at h
  all_goals simp only [List.cons_append, List.nil_append, List.cons_prefix_cons] at h
  all_goals first | (exfalso; omega) | exact ⟨by omega, by simp_all⟩

theorem enc_prefix_iff (p t : List Nat) : enc p <+: enc t ↔ p <+: t := by
  constructor
  · intro h
    induction p generalizing t with
    | nil => exact List.nil_prefix
    | cons c p ih =>
      cases t with
      | nil =>
        simp only [enc, List.prefix_nil, List.append_eq_nil_iff] at h
        exact absurd h.1 (enc1_ne_nil c)
      | cons d t =>
        simp only [enc] at h
        obtain ⟨rfl, h'⟩ := enc1_prefix h
        exact List.cons_prefix_cons.mpr ⟨rfl, ih t h'⟩
  · rintro ⟨k, rfl⟩
    rw [enc_append]; exact List.prefix_append _ _

theorem enc_eq_nil {s : List Nat} : enc s = [] ↔ s = [] := by
  cases s with
  | nil => simp [enc]
  | cons c s => simp [enc, enc1_ne_nil]

/-! ### findSubstr -/

/-- recursive form of the reference definition -/
def specGo (pat : List Nat) : List Nat → Nat → List Nat
  | [], _ => []
  | c :: cs, ch =>
    if pat.isPrefixOf (c :: cs) then ch :: specGo pat cs (ch + 1) else specGo pat cs (ch + 1)

theorem filter_range_eq_specGo (pat s : List Nat) (ch : Nat) :
    ((List.range s.length).filter (fun i => pat.isPrefixOf (s.drop i))).map (· + ch) =
      specGo pat s ch := by
  induction s generalizing ch with
  | nil => simp [specGo]
  | cons c cs ih =>
    simp only [List.length_cons, List.range_succ_eq_map, List.filter_cons, List.drop_zero,
      List.filter_map, specGo]
    have e : ((fun i => pat.isPrefixOf (List.drop i (c :: cs))) ∘ Nat.succ) =
        (fun i => pat.isPrefixOf (cs.drop i)) := by
      funext i; simp
    rw [e]
    have e2 : List.map (· + ch) (List.map Nat.succ
        (List.filter (fun i => pat.isPrefixOf (List.drop i cs)) (List.range cs.length))) =
        specGo pat cs (ch + 1) := by
      rw [← ih (ch + 1), List.map_map]
      congr 1; funext i; simp; omega
    split <;> simp [e2]

theorem specGo_short (pat cs : List Nat) (ch : Nat) (h : (enc cs).length < (enc pat).length) :
    specGo pat cs ch = [] := by
  induction cs generalizing ch with
  | nil => simp [specGo]
  | cons c cs ih =>
    have hnp : pat.isPrefixOf (c :: cs) = false := by
      rw [Bool.eq_false_iff]; intro hp
      rw [List.isPrefixOf_iff_prefix] at hp
      have := ((enc_prefix_iff pat (c :: cs)).mpr hp).length_le
      omega
    have hl : (enc cs).length < (enc pat).length := by
      simp only [enc, List.length_append] at h; omega
    simp [specGo, hnp, ih (ch + 1) hl]

theorem findGo_eq_specGo (pat : List Nat) (sb : List Nat) (hle : (enc pat).length ≤ sb.length)
    (cs : List Nat) (i ch : Nat) (hinv : sb.drop i = enc cs) :
    Model.findGo sb (enc pat) (sb.length - (enc pat).length) cs i ch = specGo pat cs ch := by
  induction cs generalizing i ch with
  | nil => simp [Model.findGo, specGo]
  | cons c cs ih =>
    simp only [Model.findGo]
    have hlen : sb.length - i = (enc (c :: cs)).length := by
      rw [← hinv, List.length_drop]
    split
    · have hinv' : sb.drop (i + (enc1 c).length) = enc cs := by
        rw [← List.drop_drop, hinv]; simp [enc]
      rw [ih _ _ hinv']
      have htest : ((sb.drop i).take (enc pat).length == enc pat) = pat.isPrefixOf (c :: cs) := by
        rw [Bool.eq_iff_iff, beq_iff_eq, List.isPrefixOf_iff_prefix, ← enc_prefix_iff, hinv,
          List.prefix_iff_eq_take]
        exact eq_comm
      simp only [htest, specGo]
    · rename_i hgt
      have hpos : 0 < (enc (c :: cs)).length := by
        have := enc1_length_pos c
        simp only [enc, List.length_append]; omega
      have hsh : (enc (c :: cs)).length < (enc pat).length := by omega
      rw [specGo_short _ _ _ hsh]

theorem findSubstr_model_eq_spec (pat s : List Nat) :
    Model.findSubstr pat s = Spec.findSubstr pat s := by
  unfold Model.findSubstr Spec.findSubstr
  by_cases hp : pat = []
  · subst hp; simp [enc]
  · have hpb : enc pat ≠ [] := fun h => hp (enc_eq_nil.mp h)
    have hspec : (List.range s.length).filter (fun i => pat.isPrefixOf (s.drop i)) = specGo pat s 0 := by
      have := filter_range_eq_specGo pat s 0
      simpa using this
    simp only [List.isEmpty_iff, hp, hpb, if_false, hspec, Bool.or_eq_true,
      decide_eq_true_eq, enc_eq_nil]
    split
    · rename_i h
      rcases h with (h | h) | h
      · exact h.elim
      · subst h; simp [specGo]
      · exact (specGo_short pat s 0 (by omega)).symm
    · rename_i h
      exact findGo_eq_specGo pat (enc s) (by omega) s 0 0 (by simp)

theorem enc_injective {a b : List Nat} (h : enc a = enc b) : a = b := by
  have h1 : a <+: b := (enc_prefix_iff a b).mp (h ▸ List.prefix_refl _)
  have h2 : b <+: a := (enc_prefix_iff b a).mp (h ▸ List.prefix_refl _)
  exact List.IsPrefix.eq_of_length_le h1 h2.length_le

/-! ### lossy decoding agrees with strict decoding where the latter succeeds -/

theorem decLossyF_of_decF (f : Nat) (bs s : List Nat) (h : decF f bs = some s) :
    decLossyF f bs = s := by
  induction f generalizing bs s with
  | zero =>
    cases bs with
    | nil => simp [decF] at h; subst h; simp [decLossyF]
    | cons b t => simp [decF] at h
  | succ f ih =>
    cases bs with
    | nil => simp [decF] at h; subst h; simp [decLossyF]
    | cons b t =>
      simp only [decF] at h
      simp only [decLossyF]
      split at h
      · simp at h
      · rename_i c r hd
        simp only [Option.map_eq_some_iff] at h
        obtain ⟨s', hs', rfl⟩ := h
        simp [hd, ih r s' hs']

/-! ### strip family -/

theorem dropWhile_decomp (p : Nat → Bool) (s : List Nat) :
    ∃ pre, s = pre ++ s.dropWhile p ∧ (∀ x ∈ pre, p x = true) ∧
      (∀ h, (s.dropWhile p).head? = some h → p h = false) := by
  induction s with
  | nil => exact ⟨[], by simp⟩
  | cons c s ih =>
    by_cases hc : p c = true
    · obtain ⟨pre, e, h1, h2⟩ := ih
      refine ⟨c :: pre, ?_, ?_, ?_⟩
      · rw [List.dropWhile_cons_of_pos hc, List.cons_append, ← e]
      · intro x hx
        simp only [List.mem_cons] at hx
        rcases hx with rfl | hx
        · exact hc
        · exact h1 x hx
      · rw [List.dropWhile_cons_of_pos hc]; exact h2
    · refine ⟨[], ?_, by simp, ?_⟩
      · simp [List.dropWhile_cons_of_neg hc]
      · rw [List.dropWhile_cons_of_neg hc]
        intro h hh
        simp only [List.head?_cons, Option.some.injEq] at hh
        subst hh; simpa using hc

theorem dropWhile_const_false (s : List Nat) : s.dropWhile (fun _ => false) = s := by
  cases s <;> simp [List.dropWhile]

theorem lstrip_model_eq_spec (s cs : List Nat) : Model.lstrip s cs = Spec.lstrip s cs := by
  unfold Model.lstrip Spec.lstrip
  split
  · rename_i h
    simp only [Bool.or_eq_true, List.isEmpty_iff] at h
    rcases h with rfl | rfl
    · simp
    · simp [dropWhile_const_false]
  · rfl

theorem rstrip_model_eq_spec (s cs : List Nat) : Model.rstrip s cs = Spec.rstrip s cs := by
  unfold Model.rstrip Spec.rstrip
  split
  · rename_i h
    simp only [Bool.or_eq_true, List.isEmpty_iff] at h
    rcases h with rfl | rfl
    · simp
    · simp [dropWhile_const_false]
  · rfl

theorem strip_model_eq_spec (s cs : List Nat) : Model.strip s cs = Spec.strip s cs := by
  unfold Model.strip Spec.strip Spec.rstrip Spec.lstrip
  split
  · rename_i h
    simp only [Bool.or_eq_true, List.isEmpty_iff] at h
    rcases h with rfl | rfl
    · simp
    · simp [dropWhile_const_false]
  · rfl

/-! ### parse_nat -/

theorem roundF64_small {n : Nat} (h : n < 2 ^ 53) : Model.roundF64 n = n := by
  simp [Model.roundF64, h]

theorem digitOf_eq (base c : Nat) (hb : base = 8 ∨ base = 10 ∨ base = 16) :
    Spec.digitVal base c =
      if Model.digitOf base c < base then some (Model.digitOf base c) else none := by
  unfold Spec.digitVal Model.digitOf
  rcases hb with rfl | rfl | rfl
  all_goals repeat' split
  all_goals first | rfl | (exfalso; omega) | (simp only [Option.some.injEq]; omega)

theorem natValue_ge (base : Nat) (hb : 1 ≤ base) (cs : List Nat) (acc v : Nat)
    (h : Spec.natValue base cs acc = some v) : acc ≤ v := by
  induction cs generalizing acc with
  | nil => simp [Spec.natValue] at h; omega
  | cons c cs ih =>
    simp only [Spec.natValue] at h
    split at h
    · simp at h
    · rename_i d hd
      have := ih _ h
      have : acc ≤ base * acc := Nat.le_mul_of_pos_left acc hb
      omega

theorem parseNatGo_exact (base : Nat) (hb : base = 8 ∨ base = 10 ∨ base = 16) (cs : List Nat)
    (acc v : Nat) (h : Spec.natValue base cs acc = some v) (hv : v < 2 ^ 53) :
    Model.parseNatGo base cs acc = some v := by
  induction cs generalizing acc with
  | nil => simpa [Spec.natValue, Model.parseNatGo] using h
  | cons c cs ih =>
    simp only [Spec.natValue] at h
    simp only [Model.parseNatGo]
    rw [digitOf_eq base c hb] at h
    split at h
    · simp at h
    · rename_i d hd
      split at hd
      · rename_i hlt
        simp only [Option.some.injEq] at hd
        subst hd
        have hge := natValue_ge base (by omega) cs _ v h
        rw [if_pos hlt, roundF64_small (by omega)]
        exact ih _ h
      · simp at hd

theorem parseNatGo_none_iff (base : Nat) (hb : base = 8 ∨ base = 10 ∨ base = 16) (cs : List Nat)
    (acc : Nat) : Model.parseNatGo base cs acc = none ↔ ∃ c ∈ cs, Spec.digitVal base c = none := by
  induction cs generalizing acc with
  | nil => simp [Model.parseNatGo]
  | cons c cs ih =>
    simp only [Model.parseNatGo, List.mem_cons, exists_eq_or_imp, digitOf_eq base c hb]
    split
    · rename_i hlt
      simp [ih]
    · simp

/-! ### ASCII case mapping works byte-wise -/

theorem map_upB_enc1 (c : Nat) : (enc1 c).map Model.upB = enc1 (Spec.upCp c) := by
  unfold enc1 Model.upB Spec.upCp
  repeat' split
  all_goals simp only [List.map_cons, List.map_nil]
  all_goals first | rfl | (exfalso; omega) | skip
  all_goals (repeat' split) <;> first | rfl | (exfalso; omega) | skip

theorem map_lowB_enc1 (c : Nat) : (enc1 c).map Model.lowB = enc1 (Spec.lowCp c) := by
  unfold enc1 Model.lowB Spec.lowCp
  repeat' split
  all_goals simp only [List.map_cons, List.map_nil]
  all_goals first | rfl | (exfalso; omega) | skip
  all_goals (repeat' split) <;> first | rfl | (exfalso; omega) | skip

theorem map_upB_enc (s : List Nat) : (enc s).map Model.upB = enc (s.map Spec.upCp) := by
  induction s with
  | nil => simp [enc]
  | cons c s ih => simp [enc, map_upB_enc1, ih]

theorem map_lowB_enc (s : List Nat) : (enc s).map Model.lowB = enc (s.map Spec.lowCp) := by
  induction s with
  | nil => simp [enc]
  | cons c s ih => simp [enc, map_lowB_enc1, ih]

theorem upCp_scalar {c : Nat} (h : isScalar c = true) : isScalar (Spec.upCp c) = true := by
  unfold Spec.upCp; split
  · simp [isScalar]; omega
  · exact h

theorem lowCp_scalar {c : Nat} (h : isScalar c = true) : isScalar (Spec.lowCp c) = true := by
  unfold Spec.lowCp; split
  · simp [isScalar]; omega
  · exact h

/-! ### base64 -/

theorem b64Val_b64Char (i : Nat) (h : i < 64) : Spec.b64Val (Spec.b64Char i) = some i := by
  unfold Spec.b64Val Spec.b64Char
  repeat' split
  all_goals first | (exfalso; omega) | (simp only [Option.some.injEq]; omega) | skip
  all_goals simp_all <;> omega

theorem b64Char_ne_pad (i : Nat) (h : i < 64) : Spec.b64Char i ≠ 61 := by
  unfold Spec.b64Char
  repeat' split
  all_goals omega

theorem b64_roundtrip (bs : List Nat) (h : ∀ b ∈ bs, b < 256) :
    Spec.b64Dec (Spec.b64Enc bs) = some bs := by
  fun_induction Spec.b64Enc bs with
  | case1 => simp [Spec.b64Dec]
  | case2 a =>
    have ha : a < 256 := h a (by simp)
    simp only [Spec.b64Dec, List.isEmpty_nil, beq_self_eq_true, Bool.and_self, if_true,
      b64Val_b64Char (a / 4) (by omega), b64Val_b64Char (a % 4 * 16) (by omega)]
    have : (a % 4 * 16 % 16 == 0) = true := by simp
    simp only [this, if_true, Option.some.injEq, List.cons.injEq, and_true]
    omega
  | case3 a b =>
    have ha : a < 256 := h a (by simp)
    have hb : b < 256 := h b (by simp)
    have hne : (Spec.b64Char (b % 16 * 4) == 61) = false := by
      simpa using b64Char_ne_pad (b % 16 * 4) (by omega)
    simp only [Spec.b64Dec, List.isEmpty_nil, beq_self_eq_true, Bool.and_self, if_true, hne,
      b64Val_b64Char (a / 4) (by omega), b64Val_b64Char (a % 4 * 16 + b / 16) (by omega),
      b64Val_b64Char (b % 16 * 4) (by omega)]
    have : (b % 16 * 4 % 4 == 0) = true := by simp
    simp only [this, if_true, Bool.false_eq_true, if_false, Option.some.injEq, List.cons.injEq, and_true]
    omega
  | case4 a b c r ih =>
    have ha : a < 256 := h a (by simp)
    have hb : b < 256 := h b (by simp)
    have hc : c < 256 := h c (by simp)
    have hr : ∀ x ∈ r, x < 256 := fun x hx => h x (by simp [hx])
    have hne : (Spec.b64Char (c % 64) == 61) = false := by
      simpa using b64Char_ne_pad (c % 64) (by omega)
    simp only [Spec.b64Dec, hne, Bool.and_false, Bool.false_eq_true, if_false,
      b64Val_b64Char (a / 4) (by omega), b64Val_b64Char (a % 4 * 16 + b / 16) (by omega),
      b64Val_b64Char (b % 16 * 4 + c / 64) (by omega), b64Val_b64Char (c % 64) (by omega), ih hr]
    simp only [Option.some.injEq, List.cons.injEq, and_true]
    omega

/-! ### char / codepoint -/

theorem scalar_lt (n : Nat) (h : isScalar n = true) : (n : Int) < 4294967296 := by
  simp only [isScalar, Bool.or_eq_true, Bool.and_eq_true, decide_eq_true_eq] at h; omega

theorem char_scalar (n : Nat) (h : isScalar n = true) : Model.char n = some [n] := by
  unfold Model.char
  rw [if_pos ⟨by omega, scalar_lt n h⟩]
  simp only [Int.toNat_natCast, h, if_true]

/-! ### byte-limited truncation -/

theorem takeBytes_prefix (n : Nat) (s : List Nat) : Model.takeBytes n s <+: s := by
  induction s generalizing n with
  | nil => simp [Model.takeBytes]
  | cons c s ih =>
    simp only [Model.takeBytes]
    split
    · exact List.cons_prefix_cons.mpr ⟨rfl, ih _⟩
    · exact List.nil_prefix

theorem takeBytes_len (n : Nat) (s : List Nat) : (enc (Model.takeBytes n s)).length ≤ n := by
  induction s generalizing n with
  | nil => simp [Model.takeBytes, enc]
  | cons c s ih =>
    simp only [Model.takeBytes]
    split
    · have := ih (n - (enc1 c).length)
      simp only [enc, List.length_append]; omega
    · simp [enc]

/-! ### split (reference definition) -/

theorem intercalate_cons_ne (sep a : List Nat) (xs : List (List Nat)) (h : xs ≠ []) :
    List.intercalate sep (a :: xs) = a ++ sep ++ List.intercalate sep xs := by
  cases xs with
  | nil => exact absurd rfl h
  | cons b r => simp [List.intercalate, List.intersperse]

theorem splitGo_ne_nil (sep : List Nat) (lim : Option Nat) (s cur : List Nat) :
    Spec.splitGo sep lim s cur ≠ [] := by
  fun_induction Spec.splitGo sep lim s cur <;> simp_all

theorem splitGo_join (sep : List Nat) (hsep : sep ≠ []) (lim : Option Nat) (s cur : List Nat) :
    List.intercalate sep (Spec.splitGo sep lim s cur) = cur.reverse ++ s := by
  fun_induction Spec.splitGo sep lim s cur with
  | case1 lim cur => simp [List.intercalate]
  | case2 lim cur c t h => simp [List.intercalate]
  | case3 lim cur c t h hp ih =>
    rw [intercalate_cons_ne _ _ _ (splitGo_ne_nil _ _ _ _), ih]
    rw [List.isPrefixOf_iff_prefix] at hp
    obtain ⟨k, hk⟩ := hp
    cases sep with
    | nil => exact absurd rfl hsep
    | cons d sep' =>
      simp only [List.cons_append, List.cons.injEq] at hk
      obtain ⟨rfl, hk⟩ := hk
      subst hk
      simp
  | case4 lim cur c t h hp ih => rw [ih]; simp

theorem splitGo_count (sep : List Nat) (n : Nat) (s cur : List Nat) :
    (Spec.splitGo sep (some n) s cur).length ≤ n + 1 := by
  generalize hl : some n = lim
  fun_induction Spec.splitGo sep lim s cur generalizing n with
  | case1 lim cur => simp
  | case2 lim cur c t h => simp
  | case3 lim cur c t h hp ih =>
    subst hl
    cases n with
    | zero => simp at h
    | succ m =>
      have := ih m (by simp)
      simp only [List.length_cons]; omega
  | case4 lim cur c t h hp ih => exact ih n hl

end JrsVerif.Str
