/- C02: the builder's `has_assertions` flag is exact, and the `run_assertions` protocol is
   well-behaved under arbitrary re-entrancy (Model/ObjAssert.lean). -/
import JrsVerif.Model.ObjAssert

namespace JrsVerif.Obj

/-! ### builder -/

theorem anyAssert_eq_cores (t : OT) : anyAssert t = (compile t).any Core.hasAssert := by
  induction t with
  | lit fs a =>
    by_cases h : (fs.isEmpty && !a) = true
    · obtain ⟨h1, h2⟩ : fs = [] ∧ a = false := by simpa using h
      subst h1; subst h2; simp [anyAssert, compile]
    · simp [anyAssert, compile, h, Core.hasAssert]
  | add x y ihx ihy => simp [anyAssert, compile, ihx, ihy]
  | rm o ns ih => simp [anyAssert, compile, ih, Core.hasAssert]

theorem buildT_spec (t : OT) :
    (buildT t).cores = compile t ∧ (buildT t).hasAssertions = anyAssert t := by
  induction t with
  | lit fs a =>
    by_cases h : (fs.isEmpty && !a) = true
    · obtain ⟨h1, h2⟩ : fs = [] ∧ a = false := by simpa using h
      subst h1; subst h2
      simp [buildT, evalLiteral, Builder.new, Builder.fields, Builder.build, Builder.commit,
        ObjV.empty, compile, anyAssert]
    · cases a with
      | true =>
        simp [buildT, evalLiteral, Builder.new, Builder.fields, Builder.assert, Builder.build,
          Builder.commit, compile, anyAssert]
      | false =>
        have hne : fs.isEmpty = false := by simpa using h
        simp [buildT, evalLiteral, Builder.new, Builder.fields, Builder.build,
          Builder.commit, compile, anyAssert, hne]
  | add x y ihx ihy =>
    simp [buildT, ObjV.extendFrom, compile, anyAssert, ihx.1, ihx.2, ihy.1, ihy.2]
  | rm o ns ih =>
    simp [buildT, removeKeys, Builder.new, Builder.withSuper, Builder.withFieldsOmitted,
      Builder.build, Builder.commit, compile, anyAssert, ih.1, ih.2]

/-- `sup { fs }` (the `with_super` path) builds the same object value as `sup + { fs }`
    (the `extend_from` path), flag included -/
theorem evalLiteral_super_eq_add (x : OT) (fs : List Field) (a : Bool) :
    evalLiteral (some (buildT x)) fs a = buildT (.add x (.lit fs a)) := by
  obtain ⟨hc, hh⟩ := buildT_spec x
  have hempty : compile x = [] → anyAssert x = false := by
    intro h; rw [anyAssert_eq_cores, h]; rfl
  by_cases h : (fs.isEmpty && !a) = true
  · obtain ⟨h1, h2⟩ : fs = [] ∧ a = false := by simpa using h
    subst h1; subst h2
    by_cases hx : compile x = []
    · have := hempty hx
      simp [buildT, evalLiteral, Builder.new, Builder.fields, Builder.build, Builder.commit,
        Builder.withSuper, ObjV.empty, ObjV.extendFrom, hc, hh, hx, this]
    · have hx' : (compile x).isEmpty = false := by cases hcx : compile x <;> simp_all
      simp [buildT, evalLiteral, Builder.new, Builder.fields, Builder.build, Builder.commit,
        Builder.withSuper, ObjV.empty, ObjV.extendFrom, hc, hh, hx']
  · cases a with
    | true =>
      simp [buildT, evalLiteral, Builder.new, Builder.fields, Builder.assert, Builder.build,
        Builder.commit, Builder.withSuper, ObjV.extendFrom, hc, hh]
    | false =>
      have hne : fs.isEmpty = false := by simpa using h
      simp [buildT, evalLiteral, Builder.new, Builder.fields, Builder.build,
        Builder.commit, Builder.withSuper, ObjV.extendFrom, hc, hh, hne]

/-! ### protocol -/

/-- what any (nested) run of assertions preserves -/
structure Inv (st st' : ASt) : Prop where
  running_eq : st'.running = st.running
  ran_mono : ∀ x, x ∈ st.ran → x ∈ st'.ran
  ran_running : ∀ x, x ∈ st.running → x ∈ st'.ran → x ∈ st.ran
  log_ext : ∃ new, st'.log = new ++ st.log ∧ ∀ e ∈ new, e.1 ∉ st.ran

theorem Inv.refl (st : ASt) : Inv st st :=
  ⟨rfl, fun _ h => h, fun _ _ h => h, ⟨[], rfl, by simp⟩⟩

theorem Inv.trans {a b c : ASt} (h1 : Inv a b) (h2 : Inv b c) : Inv a c := by
  refine ⟨h2.running_eq.trans h1.running_eq, fun x hx => h2.ran_mono x (h1.ran_mono x hx), ?_, ?_⟩
  · intro x hx hc
    exact h1.ran_running x hx (h2.ran_running x (h1.running_eq ▸ hx) hc)
  · obtain ⟨n1, e1, p1⟩ := h1.log_ext
    obtain ⟨n2, e2, p2⟩ := h2.log_ext
    refine ⟨n2 ++ n1, by rw [e2, e1, List.append_assoc], ?_⟩
    intro e he
    rcases List.mem_append.mp he with h | h
    · exact fun hx => p2 e h (h1.ran_mono _ hx)
    · exact p1 e h

abbrev Rec := ObjId → ASt → Option (Bool × ASt)

theorem runReads_inv (rec : Rec) (hrec : ∀ o st r st', rec o st = some (r, st') → Inv st st')
    (l : List ObjId) (st : ASt) (r : Bool) (st' : ASt) (h : runReads rec l st = some (r, st')) :
    Inv st st' := by
  induction l generalizing st with
  | nil => simp [runReads] at h; rw [← h.2]; exact Inv.refl _
  | cons o l ih =>
    simp only [runReads] at h
    cases hr : rec o st with
    | none => rw [hr] at h; cases h
    | some p =>
      obtain ⟨b, st1⟩ := p
      rw [hr] at h
      cases b with
      | true => exact (hrec _ _ _ _ hr).trans (ih _ h)
      | false =>
        simp at h; obtain ⟨_, e⟩ := h; subst e
        exact hrec _ _ _ _ hr

theorem runCores_inv (rec : Rec) (hrec : ∀ o st r st', rec o st = some (r, st') → Inv st st')
    (o : ObjId) (l : List (Option Body)) (idx : Nat) (st : ASt) (r : Bool) (st' : ASt)
    (hrun : o ∈ st.running) (hnot : o ∉ st.ran)
    (h : runCores rec o l idx st = some (r, st')) : Inv st st' := by
  induction l generalizing st idx with
  | nil => simp [runCores] at h; rw [← h.2]; exact Inv.refl _
  | cons b l ih =>
    cases b with
    | none => simp only [runCores] at h; exact ih _ _ hrun hnot h
    | some b =>
      simp only [runCores] at h
      have hlog : Inv st { st with log := (o, idx) :: st.log } :=
        ⟨rfl, fun _ h => h, fun _ _ h => h, ⟨[(o, idx)], rfl, by simpa using hnot⟩⟩
      cases hr : runReads rec b.reads { st with log := (o, idx) :: st.log } with
      | none => rw [hr] at h; cases h
      | some p =>
        obtain ⟨ok, st1⟩ := p
        rw [hr] at h
        have h1 : Inv st st1 := hlog.trans (runReads_inv rec hrec _ _ _ _ hr)
        cases ok with
        | false =>
          simp at h; obtain ⟨_, e⟩ := h; subst e; exact h1
        | true =>
          simp only at h
          by_cases hb : b.ok = true
          · simp only [hb, ↓reduceIte] at h
            have hrun1 : o ∈ st1.running := h1.running_eq ▸ hrun
            have hnot1 : o ∉ st1.ran := fun hx => hnot (h1.ran_running o hrun hx)
            exact h1.trans (ih _ _ hrun1 hnot1 h)
          · simp only [hb, Bool.false_eq_true, ↓reduceIte] at h
            simp at h; obtain ⟨_, e⟩ := h; subst e; exact h1

/-- the full post-condition of one `run_assertions` call, for every fuel and every world -/
theorem runAssertions_post (w : World) (fuel : Nat) (o : ObjId) (st : ASt) (r : Bool) (st' : ASt)
    (h : runAssertions w fuel o st = some (r, st')) :
    Inv st st' ∧ (r = true → o ∈ st'.ran ∨ o ∈ st.running) ∧ (r = false → o ∉ st'.ran) := by
  induction fuel generalizing o st r st' with
  | zero => simp [runAssertions] at h
  | succ fuel ih =>
    simp only [runAssertions] at h
    by_cases h1 : st.ran.contains o = true
    · simp only [h1, ↓reduceIte] at h
      simp at h; obtain ⟨e1, e2⟩ := h; subst e1; subst e2
      exact ⟨Inv.refl _, fun _ => Or.inl (by simpa using h1), fun h => by cases h⟩
    · simp only [h1, Bool.false_eq_true, ↓reduceIte] at h
      by_cases h2 : st.running.contains o = true
      · simp only [h2, ↓reduceIte] at h
        simp at h; obtain ⟨e1, e2⟩ := h; subst e1; subst e2
        exact ⟨Inv.refl _, fun _ => Or.inr (by simpa using h2), fun h => by cases h⟩
      · simp only [h2, Bool.false_eq_true, ↓reduceIte] at h
        have hnr : o ∉ st.ran := by simpa using h1
        have hnrun : o ∉ st.running := by simpa using h2
        have hrec : ∀ o st r st', runAssertions w fuel o st = some (r, st') → Inv st st' :=
          fun o st r st' h => (ih o st r st' h).1
        cases hc : runCores (runAssertions w fuel) o (w o) 0
            { st with running := o :: st.running } with
        | none => rw [hc] at h; cases h
        | some p =>
          obtain ⟨ok, st2⟩ := p
          rw [hc] at h
          have hi := runCores_inv _ hrec o (w o) 0 { st with running := o :: st.running } ok st2
            (by simp) hnr hc
          have hrun2 : st2.running = o :: st.running := hi.running_eq
          have hno2 : o ∉ st2.ran := fun hx => hnr (hi.ran_running o (by simp) hx)
          obtain ⟨new, elog, pnew⟩ := hi.log_ext
          cases ok with
          | true =>
            simp at h; obtain ⟨e1, e2⟩ := h; subst e1; subst e2
            refine ⟨⟨by simp [hrun2], ?_, ?_, ⟨new, elog, pnew⟩⟩, fun _ => Or.inl (by simp),
              fun h => by cases h⟩
            · intro x hx; exact List.mem_cons_of_mem _ (hi.ran_mono x hx)
            · intro x hx hc'
              rcases List.mem_cons.mp hc' with e | hm
              · subst e; exact absurd hx hnrun
              · exact hi.ran_running x (List.mem_cons_of_mem _ hx) hm
          | false =>
            simp at h; obtain ⟨e1, e2⟩ := h; subst e1; subst e2
            refine ⟨⟨by simp [hrun2], hi.ran_mono, ?_, ⟨new, elog, pnew⟩⟩, (fun h => by cases h),
              fun _ => hno2⟩
            intro x hx hc'
            exact hi.ran_running x (List.mem_cons_of_mem _ hx) hc'

end JrsVerif.Obj
