/- C05 helper lemmas: the reader undoes the writer (structure), ordering of object members. -/
import JrsVerif.Model.JsonW
import JrsVerif.Proofs.Escape

namespace JrsVerif.Json
open JrsVerif.Escape JrsVerif.Generated.Escape

/-! ### hypotheses -/

def AllWs (l : List UInt8) : Prop := ∀ b ∈ l, isWs b = true

/-- padding and newline are whitespace, the key/value separator is `ws* ':' ws*` -/
structure WsOpts (o : Opts) : Prop where
  padding : AllWs o.padding
  newline : AllWs o.newline
  kvsep : ∃ a b, AllWs a ∧ AllWs b ∧ o.kvsep = a ++ 0x3A :: b

/-- first byte of a number token -/
def numStart (b : UInt8) : Bool := b == 0x2D || isDigit b

/-- the numeric-token hypothesis for one double `d` (bit pattern): what the number printer emits
    for it is a token of number bytes starting with `-` or a digit that the reference reader
    (`numVal`: JSON number grammar + exact rounding) maps back to `d` -/
structure NumOK (fmt : Nat → List UInt8) (d : Nat) : Prop where
  start : ∃ b r, fmt d = b :: r ∧ numStart b = true
  chars : ∀ x ∈ fmt d, numChar x = true
  value : numVal (fmt d) = some d

mutual
def NumsOK (fmt : Nat → List UInt8) : J → Prop
  | .num d => NumOK fmt d
  | .arr xs => NumsOKL fmt xs
  | .obj kvs => NumsOKO fmt kvs
  | _ => True
def NumsOKL (fmt : Nat → List UInt8) : List J → Prop
  | [] => True
  | x :: tl => NumsOK fmt x ∧ NumsOKL fmt tl
def NumsOKO (fmt : Nat → List UInt8) : List (List UInt8 × J) → Prop
  | [] => True
  | (_, v) :: tl => NumsOK fmt v ∧ NumsOKO fmt tl
end

mutual
def size : J → Nat
  | .arr xs => 1 + sizeL xs
  | .obj kvs => 1 + sizeO kvs
  | _ => 1
def sizeL : List J → Nat
  | [] => 0
  | x :: tl => 1 + size x + sizeL tl
def sizeO : List (List UInt8 × J) → Nat
  | [] => 0
  | (_, v) :: tl => 1 + size v + sizeO tl
end

/-- the byte after a value is not a number byte (so a number token ends where it should) -/
def noNumHead : List UInt8 → Bool
  | [] => true
  | b :: _ => !numChar b

/-! ### byte facts (all by exhaustive check of the 256 bytes) -/

set_option maxRecDepth 4000
set_option linter.unusedSimpArgs false

theorem ws_not_num (b : UInt8) : isWs b = true → numChar b = false :=
  forall_byte (P := fun b => isWs b = true → numChar b = false) (by decide +kernel) b

theorem numStart_facts (b : UInt8) : numStart b = true →
    isWs b = false ∧ (b == 0x22) = false ∧ (b == 0x5B) = false ∧ (b == 0x7B) = false ∧
    (b == 0x6E) = false ∧ (b == 0x74) = false ∧ (b == 0x66) = false ∧ (b == 0x5D) = false :=
  forall_byte (P := fun b => numStart b = true →
    isWs b = false ∧ (b == 0x22) = false ∧ (b == 0x5B) = false ∧ (b == 0x7B) = false ∧
    (b == 0x6E) = false ∧ (b == 0x74) = false ∧ (b == 0x66) = false ∧ (b == 0x5D) = false)
    (by decide +kernel) b

/-! ### whitespace -/

theorem skipWs_ws (w r : List UInt8) (h : AllWs w) : skipWs (w ++ r) = skipWs r := by
  induction w with
  | nil => rfl
  | cons b tl ih =>
    have hb : isWs b = true := h b (by simp)
    have : AllWs tl := fun x hx => h x (by simp [hx])
    simp [skipWs, hb, ih this]

theorem skipWs_cons (b : UInt8) (r : List UInt8) (h : isWs b = false) : skipWs (b :: r) = b :: r := by
  simp [skipWs, h]

theorem allWs_append {a b : List UInt8} (ha : AllWs a) (hb : AllWs b) : AllWs (a ++ b) := by
  intro x hx
  rcases List.mem_append.mp hx with h | h
  · exact ha x h
  · exact hb x h

theorem allWs_nil : AllWs [] := by intro x hx; simp at hx

theorem allWs_of_all (l : List UInt8) (h : l.all isWs = true) : AllWs l := by
  intro x hx; exact (List.all_eq_true.mp h) x hx

theorem allWs_sp : AllWs [0x20] := by
  intro x hx; simp at hx; subst hx; decide

theorem noNumHead_ws (w r : List UInt8) (h : AllWs w) (hr : noNumHead r = true) :
    noNumHead (w ++ r) = true := by
  cases w with
  | nil => simpa using hr
  | cons b tl => simp [noNumHead, ws_not_num b (h b (by simp))]

theorem noNumHead_cons (b : UInt8) (r : List UInt8) (h : numChar b = false) :
    noNumHead (b :: r) = true := by simp [noNumHead, h]

/-- the whitespace part of `sepSeq` -/
def sepWs (o : Opts) (cur : List UInt8) (first : Bool) : List UInt8 :=
  match o.kind with
  | .manifest | .std => o.newline ++ cur
  | .toString => if first then [] else [0x20]
  | .minify => []

theorem sepSeq_eq (o : Opts) (cur : List UInt8) (first : Bool) :
    sepSeq o cur first = (if first then [] else [0x2C]) ++ sepWs o cur first := by
  unfold sepSeq sepWs; cases o.kind <;> rfl

theorem sepWs_ws {o : Opts} (ho : WsOpts o) {cur : List UInt8} (hc : AllWs cur) (first : Bool) :
    AllWs (sepWs o cur first) := by
  unfold sepWs
  cases o.kind with
  | manifest => exact allWs_append ho.newline hc
  | std => exact allWs_append ho.newline hc
  | toString => cases first <;> simp [allWs_nil, allWs_sp]
  | minify => exact allWs_nil

theorem closeSeq_ws {o : Opts} (ho : WsOpts o) {cur : List UInt8} (hc : AllWs cur) (e : Bool) :
    AllWs (closeSeq o cur e) := by
  unfold closeSeq
  cases o.kind with
  | manifest => cases e <;> simp [allWs_sp, allWs_append ho.newline hc]
  | toString => cases e <;> simp [allWs_nil, allWs_sp]
  | std =>
    cases e
    · simpa using allWs_append ho.newline hc
    · simpa using allWs_append ho.newline (allWs_append ho.newline hc)
  | minify => exact allWs_nil

/-! ### numbers -/

theorem takeWhile_num (t rest : List UInt8) (ht : ∀ x ∈ t, numChar x = true)
    (hr : noNumHead rest = true) :
    (t ++ rest).takeWhile numChar = t ∧ (t ++ rest).dropWhile numChar = rest := by
  induction t with
  | nil =>
    cases rest with
    | nil => simp
    | cons b r =>
      have : numChar b = false := by simpa [noNumHead] using hr
      simp [this]
  | cons b tl ih =>
    have hb : numChar b = true := ht b (by simp)
    have := ih (fun x hx => ht x (by simp [hx]))
    simp [hb, this.1, this.2]

theorem pNum_tok (fmt : Nat → List UInt8) (d : Nat) (h : NumOK fmt d) (rest : List UInt8)
    (hr : noNumHead rest = true) : pNum (fmt d ++ rest) = some (.num d, rest) := by
  have := takeWhile_num (fmt d) rest h.chars hr
  simp [pNum, this.1, this.2, h.value]

/-! ### first byte of a written value -/

/-- a value starts with a byte that is neither whitespace nor a closing bracket -/
def startOK (b : UInt8) : Bool := !isWs b && b != 0x5D

theorem wVal_head (o : Opts) (fmt : Nat → List UInt8) (cur : List UInt8) (j : J)
    (hn : NumsOK fmt j) : ∃ b r, wVal o fmt cur j = b :: r ∧ startOK b = true := by
  cases j with
  | null => exact ⟨0x6E, _, by rw [wVal], by decide⟩
  | bool b =>
    cases b
    · exact ⟨0x66, _, by rw [wVal], by decide⟩
    · exact ⟨0x74, _, by rw [wVal], by decide⟩
  | str s => exact ⟨0x22, _, by rw [wVal, escapeD_spec], by decide⟩
  | num d =>
    obtain ⟨b, r, hb, hs⟩ := (by simpa [NumsOK] using hn : NumOK fmt d).start
    have := numStart_facts b hs
    refine ⟨b, r, by simp [wVal, hb], ?_⟩
    have h5 : b ≠ 0x5D := by simpa using this.2.2.2.2.2.2.2
    simp [startOK, this.1, h5]
  | arr xs => exact ⟨0x5B, _, by rw [wVal], by decide⟩
  | obj kvs => exact ⟨0x7B, _, by rw [wVal], by decide⟩

theorem skipWs_wVal (o : Opts) (fmt : Nat → List UInt8) (cur : List UInt8) (j : J)
    (hn : NumsOK fmt j) (w rest : List UInt8) (hw : AllWs w) :
    skipWs (w ++ (wVal o fmt cur j ++ rest)) = wVal o fmt cur j ++ rest := by
  obtain ⟨b, r, hb, hs⟩ := wVal_head o fmt cur j hn
  rw [skipWs_ws _ _ hw, hb]
  have : isWs b = false := by
    simp only [startOK, Bool.and_eq_true, Bool.not_eq_true'] at hs; exact hs.1
  simp [skipWs, this]

/-! ### the reader undoes the writer -/

theorem pString_escapeD (k rest : List UInt8) : pString (escapeD k ++ rest) = some (k, rest) := by
  simp [escapeD_spec, pString, pStrBody_flat]

mutual
theorem pVal_wVal (o : Opts) (ho : WsOpts o) (fmt : Nat → List UInt8) :
    ∀ (j : J), NumsOK fmt j → ∀ f, size j ≤ f → ∀ cur, AllWs cur → ∀ rest, noNumHead rest = true →
      pVal f (wVal o fmt cur j ++ rest) = some (j, rest)
  | .null, _, f, hf, cur, _, rest, _ => by
    obtain ⟨f, rfl⟩ : ∃ g, f = g + 1 := ⟨f - 1, by simp [size] at hf; omega⟩
    simp [wVal, pVal, stripPrefix, lit]
  | .bool true, _, f, hf, cur, _, rest, _ => by
    obtain ⟨f, rfl⟩ : ∃ g, f = g + 1 := ⟨f - 1, by simp [size] at hf; omega⟩
    simp [wVal, pVal, stripPrefix, lit]
  | .bool false, _, f, hf, cur, _, rest, _ => by
    obtain ⟨f, rfl⟩ : ∃ g, f = g + 1 := ⟨f - 1, by simp [size] at hf; omega⟩
    simp [wVal, pVal, stripPrefix, lit]
  | .str s, _, f, hf, cur, _, rest, _ => by
    obtain ⟨f, rfl⟩ : ∃ g, f = g + 1 := ⟨f - 1, by simp [size] at hf; omega⟩
    simp [wVal, pVal, escapeD_spec, pStrBody_flat, mapFst]
  | .num d, hn, f, hf, cur, _, rest, hr => by
    obtain ⟨f, rfl⟩ : ∃ g, f = g + 1 := ⟨f - 1, by simp [size] at hf; omega⟩
    have hd : NumOK fmt d := by simpa [NumsOK] using hn
    obtain ⟨b, r, hb, hs⟩ := hd.start
    have hf' := numStart_facts b hs
    have hp := pNum_tok fmt d hd rest hr
    rw [hb] at hp
    have hs' : (b == 0x2D || isDigit b) = true := hs
    simp only [wVal, hb, List.cons_append, pVal, hf'.2.1, hf'.2.2.1, hf'.2.2.2.1, hf'.2.2.2.2.1,
      hf'.2.2.2.2.2.1, hf'.2.2.2.2.2.2.1, hs', Bool.false_eq_true, if_false, if_true]
    exact hp
  | .arr [], _, f, hf, cur, hc, rest, _ => by
    obtain ⟨f, rfl⟩ : ∃ g, f = g + 1 := ⟨f - 1, by simp [size] at hf; omega⟩
    have h1 : skipWs (closeSeq o cur true ++ 0x5D :: rest) = 0x5D :: rest := by
      rw [skipWs_ws _ _ (closeSeq_ws ho hc true)]; exact skipWs_cons _ _ (by decide)
    simp [wVal, wElems, pVal, h1]
  | .arr (x :: tl), hn, f, hf, cur, hc, rest, _ => by
    obtain ⟨f, rfl⟩ : ∃ g, f = g + 1 := ⟨f - 1, by simp [size] at hf; omega⟩
    have hn' : NumsOKL fmt (x :: tl) := by simpa [NumsOK] using hn
    have hcp : AllWs (cur ++ o.padding) := allWs_append hc ho.padding
    have hsz : sizeL (x :: tl) ≤ f := by simp [size] at hf; omega
    have hE := pElems_w o ho fmt (x :: tl) hn' f hsz (cur ++ o.padding) cur rest hcp hc x tl rfl
    obtain ⟨b, r, hb, hs⟩ := wVal_head o fmt (cur ++ o.padding) x hn'.1
    have hws : isWs b = false ∧ (b == 0x5D) = false := by
      simpa [startOK] using hs
    have h1 : skipWs (sepSeq o (cur ++ o.padding) true ++
        (wVal o fmt (cur ++ o.padding) x ++ (wElems o fmt (cur ++ o.padding) false tl ++
          (closeSeq o cur false ++ 0x5D :: rest)))) =
        b :: (r ++ (wElems o fmt (cur ++ o.padding) false tl ++ (closeSeq o cur false ++ 0x5D :: rest))) := by
      rw [sepSeq_eq]
      simp only [if_true, List.nil_append]
      rw [skipWs_wVal o fmt _ x hn'.1 _ _ (sepWs_ws ho hcp true), hb]
      rfl
    rw [hb] at hE
    simp only [List.cons_append, List.append_assoc, List.singleton_append, List.nil_append] at hE h1
    simp only [wVal, wElems, List.isEmpty_cons, List.cons_append, List.append_assoc, pVal,
      List.singleton_append]
    simp [h1, hws.2, hE, mapFst]
  | .obj [], _, f, hf, cur, hc, rest, _ => by
    obtain ⟨f, rfl⟩ : ∃ g, f = g + 1 := ⟨f - 1, by simp [size] at hf; omega⟩
    have h1 : skipWs (closeSeq o cur true ++ 0x7D :: rest) = 0x7D :: rest := by
      rw [skipWs_ws _ _ (closeSeq_ws ho hc true)]; exact skipWs_cons _ _ (by decide)
    simp [wVal, wFields, pVal, h1]
  | .obj ((k, v) :: tl), hn, f, hf, cur, hc, rest, _ => by
    obtain ⟨f, rfl⟩ : ∃ g, f = g + 1 := ⟨f - 1, by simp [size] at hf; omega⟩
    have hn' : NumsOKO fmt ((k, v) :: tl) := by simpa [NumsOK] using hn
    have hcp : AllWs (cur ++ o.padding) := allWs_append hc ho.padding
    have hsz : sizeO ((k, v) :: tl) ≤ f := by simp [size] at hf; omega
    have hE := pFields_w o ho fmt ((k, v) :: tl) hn' f hsz (cur ++ o.padding) cur rest hcp hc k v tl rfl
    have hq : escapeD k = 0x22 :: (k.flatMap specEsc ++ [0x22]) := escapeD_spec k
    have h1 : skipWs (sepSeq o (cur ++ o.padding) true ++
        (escapeD k ++ (o.kvsep ++ (wVal o fmt (cur ++ o.padding) v ++
          (wFields o fmt (cur ++ o.padding) false tl ++ (closeSeq o cur false ++ 0x7D :: rest)))))) =
        0x22 :: ((k.flatMap specEsc ++ [0x22]) ++ (o.kvsep ++ (wVal o fmt (cur ++ o.padding) v ++
          (wFields o fmt (cur ++ o.padding) false tl ++ (closeSeq o cur false ++ 0x7D :: rest))))) := by
      rw [sepSeq_eq]
      simp only [if_true, List.nil_append]
      rw [skipWs_ws _ _ (sepWs_ws ho hcp true), hq]
      exact skipWs_cons _ _ (by decide)
    rw [hq] at hE
    simp only [List.cons_append, List.append_assoc, List.singleton_append, List.nil_append] at hE h1
    simp only [wVal, wFields, List.isEmpty_cons, List.cons_append, List.append_assoc, pVal,
      List.singleton_append]
    simp [h1, hE, mapFst]

theorem pElems_w (o : Opts) (ho : WsOpts o) (fmt : Nat → List UInt8) :
    ∀ (l : List J), NumsOKL fmt l → ∀ f, sizeL l ≤ f → ∀ cur cur0 rest, AllWs cur → AllWs cur0 →
      ∀ x tl, l = x :: tl →
      pElems f (wVal o fmt cur x ++ (wElems o fmt cur false tl ++ (closeSeq o cur0 false ++ 0x5D :: rest)))
        = some (l, rest)
  | [], _, _, _, _, _, _, _, _, x, tl, h => by cases h
  | y :: [], hn, f, hf, cur, cur0, rest, hc, hc0, x, tl, h => by
    obtain ⟨rfl, rfl⟩ : y = x ∧ [] = tl := by simpa using h
    obtain ⟨f, rfl⟩ : ∃ g, f = g + 1 := ⟨f - 1, by simp [sizeL] at hf; omega⟩
    have hv := pVal_wVal o ho fmt y hn.1 f (by simp [sizeL] at hf; omega) cur hc
      (closeSeq o cur0 false ++ 0x5D :: rest)
      (noNumHead_ws _ _ (closeSeq_ws ho hc0 false) (noNumHead_cons _ _ (by decide)))
    have h1 : skipWs (closeSeq o cur0 false ++ 0x5D :: rest) = 0x5D :: rest := by
      rw [skipWs_ws _ _ (closeSeq_ws ho hc0 false)]; exact skipWs_cons _ _ (by decide)
    simp [wElems, pElems, hv, h1]
  | y :: z :: tl', hn, f, hf, cur, cur0, rest, hc, hc0, x, tl, h => by
    obtain ⟨rfl, rfl⟩ : y = x ∧ z :: tl' = tl := by simpa using h
    obtain ⟨f, rfl⟩ : ∃ g, f = g + 1 := ⟨f - 1, by simp [sizeL] at hf; omega⟩
    have ih := pElems_w o ho fmt (z :: tl') hn.2 f (by simp [sizeL] at hf ⊢; omega) cur cur0 rest hc hc0
      z tl' rfl
    have hv := pVal_wVal o ho fmt y hn.1 f (by simp [sizeL] at hf; omega) cur hc
      (0x2C :: (sepWs o cur false ++ (wVal o fmt cur z ++ (wElems o fmt cur false tl' ++
        (closeSeq o cur0 false ++ 0x5D :: rest)))))
      (noNumHead_cons _ _ (by decide))
    have h2 := skipWs_wVal o fmt cur z hn.2.1 (sepWs o cur false)
      (wElems o fmt cur false tl' ++ (closeSeq o cur0 false ++ 0x5D :: rest)) (sepWs_ws ho hc false)
    simp only [wElems, sepSeq_eq, Bool.false_eq_true, if_false, List.cons_append, List.nil_append,
      List.append_assoc, pElems, List.singleton_append]
    try simp only [List.append_assoc] at hv h2 ih
    rw [hv]
    simp only [skipWs_cons 0x2C _ (by decide)]
    simp [h2, ih, mapFst]

theorem pFields_w (o : Opts) (ho : WsOpts o) (fmt : Nat → List UInt8) :
    ∀ (l : List (List UInt8 × J)), NumsOKO fmt l → ∀ f, sizeO l ≤ f → ∀ cur cur0 rest,
      AllWs cur → AllWs cur0 → ∀ k v tl, l = (k, v) :: tl →
      pFields f (escapeD k ++ (o.kvsep ++ (wVal o fmt cur v ++
        (wFields o fmt cur false tl ++ (closeSeq o cur0 false ++ 0x7D :: rest))))) = some (l, rest)
  | [], _, _, _, _, _, _, _, _, k, v, tl, h => by cases h
  | (k1, y) :: [], hn, f, hf, cur, cur0, rest, hc, hc0, k, v, tl, h => by
    obtain ⟨⟨rfl, rfl⟩, rfl⟩ : (k1 = k ∧ y = v) ∧ [] = tl := by simpa using h
    obtain ⟨f, rfl⟩ : ∃ g, f = g + 1 := ⟨f - 1, by simp [sizeO] at hf; omega⟩
    obtain ⟨a, b, ha, hb, hk⟩ := ho.kvsep
    have hv := pVal_wVal o ho fmt y hn.1 f (by simp [sizeO] at hf; omega) cur hc
      (closeSeq o cur0 false ++ 0x7D :: rest)
      (noNumHead_ws _ _ (closeSeq_ws ho hc0 false) (noNumHead_cons _ _ (by decide)))
    have h1 : skipWs (closeSeq o cur0 false ++ 0x7D :: rest) = 0x7D :: rest := by
      rw [skipWs_ws _ _ (closeSeq_ws ho hc0 false)]; exact skipWs_cons _ _ (by decide)
    have h3 := skipWs_wVal o fmt cur y hn.1 b (closeSeq o cur0 false ++ 0x7D :: rest) hb
    have h4 : skipWs (a ++ 0x3A :: (b ++ (wVal o fmt cur y ++ (closeSeq o cur0 false ++ 0x7D :: rest))))
        = 0x3A :: (b ++ (wVal o fmt cur y ++ (closeSeq o cur0 false ++ 0x7D :: rest))) := by
      rw [skipWs_ws _ _ ha]; exact skipWs_cons _ _ (by decide)
    simp only [wFields, hk, List.append_assoc, List.cons_append, List.nil_append, pFields,
      pString_escapeD]
    simp [h4, h3, hv, h1]
  | (k1, y) :: (k2, z) :: tl', hn, f, hf, cur, cur0, rest, hc, hc0, k, v, tl, h => by
    obtain ⟨⟨rfl, rfl⟩, rfl⟩ : (k1 = k ∧ y = v) ∧ (k2, z) :: tl' = tl := by simpa using h
    obtain ⟨f, rfl⟩ : ∃ g, f = g + 1 := ⟨f - 1, by simp [sizeO] at hf; omega⟩
    obtain ⟨a, b, ha, hb, hk⟩ := ho.kvsep
    have ih := pFields_w o ho fmt ((k2, z) :: tl') hn.2 f (by simp [sizeO] at hf ⊢; omega) cur cur0 rest
      hc hc0 k2 z tl' rfl
    have hv := pVal_wVal o ho fmt y hn.1 f (by simp [sizeO] at hf; omega) cur hc
      (0x2C :: (sepWs o cur false ++ (escapeD k2 ++ (o.kvsep ++ (wVal o fmt cur z ++
        (wFields o fmt cur false tl' ++ (closeSeq o cur0 false ++ 0x7D :: rest)))))))
      (noNumHead_cons _ _ (by decide))
    have hq : escapeD k2 = 0x22 :: (k2.flatMap specEsc ++ [0x22]) := escapeD_spec k2
    have h2 : skipWs (sepWs o cur false ++ (escapeD k2 ++ (o.kvsep ++ (wVal o fmt cur z ++
        (wFields o fmt cur false tl' ++ (closeSeq o cur0 false ++ 0x7D :: rest)))))) =
        escapeD k2 ++ (o.kvsep ++ (wVal o fmt cur z ++
        (wFields o fmt cur false tl' ++ (closeSeq o cur0 false ++ 0x7D :: rest)))) := by
      rw [skipWs_ws _ _ (sepWs_ws ho hc false), hq]
      exact skipWs_cons _ _ (by decide)
    have h3 := skipWs_wVal o fmt cur y hn.1 b
      (0x2C :: (sepWs o cur false ++ (escapeD k2 ++ (o.kvsep ++ (wVal o fmt cur z ++
        (wFields o fmt cur false tl' ++ (closeSeq o cur0 false ++ 0x7D :: rest))))))) hb
    have h4 : ∀ t, skipWs (a ++ 0x3A :: t) = 0x3A :: t := by
      intro t; rw [skipWs_ws _ _ ha]; exact skipWs_cons _ _ (by decide)
    simp only [wFields, sepSeq_eq, Bool.false_eq_true, if_false, List.cons_append, List.nil_append,
      List.append_assoc, pFields, pString_escapeD, List.singleton_append]
    rw [hk] at h2 h3 hv ih ⊢
    simp only [List.append_assoc, List.cons_append] at hv h2 h3 ih ⊢
    simp only [h4]
    simp only [beq_self_eq_true, if_true, h3, hv, skipWs_cons 0x2C _ (by decide)]
    simp [h2, ih, mapFst]
end

/-! ### fuel: a written value is at least as long as its node count -/

theorem escapeD_len (s : List UInt8) : 1 ≤ (escapeD s).length := by simp [escapeD_spec]

mutual
theorem size_le (o : Opts) (fmt : Nat → List UInt8) :
    ∀ (j : J), NumsOK fmt j → ∀ cur, size j ≤ (wVal o fmt cur j).length
  | .null, _, _ => by simp [size, wVal]
  | .bool true, _, _ => by simp [size, wVal]
  | .bool false, _, _ => by simp [size, wVal]
  | .str s, _, _ => by simp [size, wVal, escapeD_spec]
  | .num d, hn, _ => by
    obtain ⟨b, r, hb, _⟩ := (by simpa [NumsOK] using hn : NumOK fmt d).start
    simp [size, wVal, hb]
  | .arr xs, hn, cur => by
    have := sizeL_le o fmt xs (by simpa [NumsOK] using hn) (cur ++ o.padding) true
    simp at this
    simp [size, wVal]; omega
  | .obj kvs, hn, cur => by
    have := sizeO_le o fmt kvs (by simpa [NumsOK] using hn) (cur ++ o.padding) true
    simp at this
    simp [size, wVal]; omega
theorem sizeL_le (o : Opts) (fmt : Nat → List UInt8) :
    ∀ (l : List J), NumsOKL fmt l → ∀ cur first,
      sizeL l ≤ (wElems o fmt cur first l).length + (if first then 1 else 0)
  | [], _, _, _ => by simp [sizeL]
  | x :: tl, hn, cur, first => by
    have h1 := size_le o fmt x hn.1 cur
    have h2 := sizeL_le o fmt tl hn.2 cur false
    cases first <;> simp [sizeL, wElems, sepSeq_eq] at h2 ⊢ <;> omega
theorem sizeO_le (o : Opts) (fmt : Nat → List UInt8) :
    ∀ (l : List (List UInt8 × J)), NumsOKO fmt l → ∀ cur first,
      sizeO l ≤ (wFields o fmt cur first l).length + (if first then 1 else 0)
  | [], _, _, _ => by simp [sizeO]
  | (k, v) :: tl, hn, cur, first => by
    have h1 := size_le o fmt v hn.1 cur
    have h2 := sizeO_le o fmt tl hn.2 cur false
    have h3 := escapeD_len k
    cases first <;> simp [sizeO, wFields, sepSeq_eq] at h2 ⊢ <;> omega
end

/-! ### ordering of object members -/

theorem keyLt_irrefl : ∀ a : List UInt8, keyLt a a = false
  | [] => rfl
  | x :: xs => by simp [keyLt, keyLt_irrefl xs, UInt8.lt_irrefl]

theorem keyLt_total : ∀ a b : List UInt8, keyLt a b = false → keyLt b a = false → a = b
  | [], [], _, _ => rfl
  | [], _ :: _, h, _ => by simp [keyLt] at h
  | _ :: _, [], _, h => by simp [keyLt] at h
  | x :: xs, y :: ys, h1, h2 => by
    simp only [keyLt] at h1 h2
    by_cases hxy : x < y
    · simp [hxy] at h1
    · by_cases hyx : y < x
      · simp [hyx] at h2
      · have hx : x = y := by
          have a1 : ¬ x.toNat < y.toNat := by simpa [UInt8.lt_iff_toNat_lt] using hxy
          have a2 : ¬ y.toNat < x.toNat := by simpa [UInt8.lt_iff_toNat_lt] using hyx
          exact UInt8.toNat_inj.mp (by omega)
        subst hx
        simp [hxy] at h1 h2
        rw [keyLt_total xs ys h1 h2]

theorem keyLt_trans : ∀ a b c : List UInt8, keyLt a b = true → keyLt b c = true → keyLt a c = true
  | [], [], _, h, _ => by simp [keyLt] at h
  | [], _ :: _, [], _, h => by simp [keyLt] at h
  | [], _ :: _, _ :: _, _, _ => by simp [keyLt]
  | _ :: _, [], _, h, _ => by simp [keyLt] at h
  | _ :: _, _ :: _, [], _, h => by simp [keyLt] at h
  | x :: xs, y :: ys, z :: zs, h1, h2 => by
    simp only [keyLt] at h1 h2 ⊢
    have lt_iff : ∀ p q : UInt8, p < q ↔ p.toNat < q.toNat := fun p q => UInt8.lt_iff_toNat_lt
    by_cases hxy : x < y
    · by_cases hyz : y < z
      · have : x < z := by rw [lt_iff] at *; omega
        simp [this]
      · by_cases hzy : z < y
        · simp [hyz, hzy] at h2
        · have : y = z := by
            have a1 := (not_congr (lt_iff y z)).mp hyz
            have a2 := (not_congr (lt_iff z y)).mp hzy
            exact UInt8.toNat_inj.mp (by omega)
          subst this; simp [hxy]
    · by_cases hyx : y < x
      · simp [hxy, hyx] at h1
      · have : x = y := by
          have a1 := (not_congr (lt_iff x y)).mp hxy
          have a2 := (not_congr (lt_iff y x)).mp hyx
          exact UInt8.toNat_inj.mp (by omega)
        subst this
        simp only [hxy, if_false] at h1
        by_cases hxz : x < z
        · simp [hxz]
        · by_cases hzx : z < x
          · simp [hxz, hzx] at h2
          · simp only [hxz, hzx, if_false] at h2 ⊢
            exact keyLt_trans xs ys zs h1 h2

/-- keys in (non-strictly) ascending order -/
def KeysAsc : List (List UInt8 × J) → Prop
  | [] => True
  | (k, _) :: tl => (∀ p ∈ tl, keyLe k p.1 = true) ∧ KeysAsc tl

theorem keyLe_trans (a b c : List UInt8) (h1 : keyLe a b = true) (h2 : keyLe b c = true) :
    keyLe a c = true := by
  simp only [keyLe, Bool.not_eq_true'] at *
  cases hca : keyLt c a with
  | false => rfl
  | true =>
    -- c < a; a ≤ b means ¬ b < a; b ≤ c means ¬ c < b
    cases hab : keyLt a b with
    | true =>
      have := keyLt_trans c a b hca hab
      simp [this] at h2
    | false =>
      have : a = b := keyLt_total a b hab h1
      subst this
      simp [hca] at h2

theorem keyLe_of_not (a b : List UInt8) (h : keyLe a b = false) : keyLe b a = true := by
  simp only [keyLe, Bool.not_eq_false', Bool.not_eq_true'] at *
  cases hab : keyLt a b with
  | false => rfl
  | true =>
    have := keyLt_trans a b a hab h
    simp [keyLt_irrefl] at this

theorem mem_insertKV (k : List UInt8) (v : J) (l : List (List UInt8 × J)) (p : List UInt8 × J) :
    p ∈ insertKV k v l ↔ p = (k, v) ∨ p ∈ l := by
  induction l with
  | nil => simp [insertKV]
  | cons hd tl ih =>
    obtain ⟨k', v'⟩ := hd
    simp only [insertKV]
    split
    · simp
    · simp only [List.mem_cons, ih]
      constructor
      · rintro (h | h | h) <;> simp [h]
      · rintro (h | h | h) <;> simp [h]

theorem insertKV_asc (k : List UInt8) (v : J) (l : List (List UInt8 × J)) (h : KeysAsc l) :
    KeysAsc (insertKV k v l) := by
  induction l with
  | nil => simp [insertKV, KeysAsc]
  | cons hd tl ih =>
    obtain ⟨k', v'⟩ := hd
    simp only [insertKV]
    cases hle : keyLe k k' with
    | true =>
      simp only [if_true, KeysAsc]
      refine ⟨?_, h⟩
      intro p hp
      rcases List.mem_cons.mp hp with rfl | hp
      · exact hle
      · exact keyLe_trans _ _ _ hle (h.1 p hp)
    | false =>
      simp only [Bool.false_eq_true, if_false, KeysAsc]
      refine ⟨?_, ih h.2⟩
      intro p hp
      rcases (mem_insertKV k v tl p).mp hp with rfl | hp
      · exact keyLe_of_not _ _ hle
      · exact h.1 p hp

theorem sortKV_asc : ∀ l : List (List UInt8 × J), KeysAsc (sortKV l)
  | [] => by simp [sortKV, KeysAsc]
  | (k, v) :: tl => by simpa [sortKV] using insertKV_asc k v _ (sortKV_asc tl)

theorem mem_sortKV (l : List (List UInt8 × J)) (p : List UInt8 × J) : p ∈ sortKV l ↔ p ∈ l := by
  induction l with
  | nil => simp [sortKV]
  | cons hd tl ih =>
    obtain ⟨k, v⟩ := hd
    simp [sortKV, mem_insertKV, ih]

theorem length_insertKV (k : List UInt8) (v : J) (l : List (List UInt8 × J)) :
    (insertKV k v l).length = l.length + 1 := by
  induction l with
  | nil => simp [insertKV]
  | cons hd tl ih =>
    obtain ⟨k', v'⟩ := hd
    simp only [insertKV]; split <;> simp [ih]

theorem length_sortKV : ∀ l : List (List UInt8 × J), (sortKV l).length = l.length
  | [] => rfl
  | (k, v) :: tl => by simp [sortKV, length_insertKV, length_sortKV tl]

end JrsVerif.Json
