/- C04 round 3: `format_code` / `parse_codes` never reach a panic site — corollaries of C12's
   specification theorems (Props/C12.lean is imported read-only). -/
import JrsVerif.Props.C12

namespace JrsVerif.Format

/-- the reference conversion has no panic outcome -/
theorem specConv_no_panic (c : Code) (w : Nat) (p : Option Nat) (v : Val) :
    FormatSpec.conv c w p v ≠ .error .panic := by
  intro h
  unfold FormatSpec.conv at h
  simp only [FormatSpec.needNum, bind, Except.bind, pure, Except.pure, throw,
    throwThe, MonadExceptOf.throw] at h
  repeat' split at h
  all_goals first | cases h | skip
  all_goals (cases v <;> simp_all)
  all_goals (split at * <;> simp_all)

/-- a value that is not a number handed to a numeric conversion is an error of the value, whatever
    the flags, width and precision -/
theorem formatCode_nonnum (v : Val) (c : Code) (w : Nat) (p : Option Nat)
    (hv : ∀ n d, v ≠ .num n d)
    (hc : c.conv = .dec ∨ c.conv = .oct ∨ c.conv = .hex ∨ c.conv = .sci ∨ c.conv = .flt ∨ c.conv = .shorter) :
    formatCode v c w p = .error .type ∨ formatCode v c w p = .error .tooLarge := by
  have ha : v.asNum = .error .type := by
    cases v with
    | num n d => exact absurd rfl (hv n d)
    | _ => rfl
  rw [formatCode_unfold]
  have hb : formatBody v c w p = .error .type ∨ formatBody v c w p = .error .tooLarge := by
    unfold formatBody
    rcases hc with h | h | h | h | h | h <;>
      simp only [h, ha, bind, Except.bind, reduceCtorEq, decide_false, decide_true, Bool.or_false,
        Bool.or_true, Bool.and_false, Bool.and_true, Bool.false_eq_true, if_false, true_or] <;>
      (try split) <;> simp
  rcases hb with h | h <;> rw [h] <;> simp [Except.map]

/-- `format_code` never reaches one of its panic sites (`u16` additions of `render_integer` /
    `render_float_digits`), for every value, conversion, flag set, width and precision; numbers are
    finite doubles (integer part below 2^1024) on which Rust's float formatting — the source of the
    digit text of e/f/g since the round-5 repair — is exact (`OracleOK`). -/
theorem formatCode_no_panic (v : Val) (c : Code) (w : Nat) (p : Option Nat)
    (hv : ∀ n d, v = .num n d → n.whole < DBL_BOUND ∧ OracleOK n) :
    formatCode v c w p ≠ .error .panic := by
  cases hc : c.conv with
  | str => rw [pad_spec v c w p hc]; simp
  | pct => rw [percent_text v c w p hc]; simp
  | chr => rw [char_conv_spec v c w p hc]; exact specConv_no_panic c w p v
  | dec | oct | hex =>
    by_cases hnum : ∃ n d, v = .num n d
    · obtain ⟨n, d, rfl⟩ := hnum
      rw [int_conv_spec n d c w p (by simp [hc]) (hv n d rfl).1]; simp
    · have hv' : ∀ n d, v ≠ .num n d := fun n d h => hnum ⟨n, d, h⟩
      rcases formatCode_nonnum v c w p hv' (by simp [hc]) with h | h <;> rw [h] <;> simp
  | sci | flt | shorter =>
    by_cases hnum : ∃ n d, v = .num n d
    · obtain ⟨n, d, rfl⟩ := hnum
      rw [float_conv_spec n d c w p (by simp [hc]) (hv n d rfl).2]
      exact specConv_no_panic c w p _
    · have hv' : ∀ n d, v ≠ .num n d := fun n d h => hnum ⟨n, d, h⟩
      rcases formatCode_nonnum v c w p hv' (by simp [hc]) with h | h <;> rw [h] <;> simp

/-- `parse_codes` never panics: its only failures are the three format errors -/
theorem parseCodes_no_panic (s : List Char) : parseCodes s ≠ .error .panic := by
  intro h
  rcases parse_errors_only s .panic h with h | h | h <;> cases h

end JrsVerif.Format
