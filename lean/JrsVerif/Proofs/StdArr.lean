/- Helper lemmas for C10 (core Lean only). -/
import JrsVerif.Model.StdArr

namespace JrsVerif.StdArr

section Generic
variable {α κ : Type}

/-! ### slices and removeAt -/

theorem everyNth_one (l : List α) : everyNth 1 0 l = l := by
  induction l with
  | nil => rfl
  | cons x r ih => simp [everyNth, ih]

theorem sliceL_prefix (arr : List α) (n : Nat) :
    sliceL arr none (some (n : Int)) 1 = arr.take n := by
  have h : ¬ ((n : Int) < 0) := by omega
  simp [sliceL, normIdx, everyNth_one, h]

theorem sliceL_suffix (arr : List α) (n : Nat) :
    sliceL arr (some (n : Int)) none 1 = arr.drop n := by
  have h : ¬ ((n : Int) < 0) := by omega
  simp [sliceL, normIdx, everyNth_one, h]

theorem removeAtSpecGo_nat (n : Nat) (l : List α) (j : Nat) :
    removeAtSpecGo (n : Int) j l =
      if j ≤ n then l.take (n - j) ++ l.drop (n - j + 1) else l := by
  induction l generalizing j with
  | nil => simp [removeAtSpecGo]
  | cons x r ih =>
    simp only [removeAtSpecGo, ih]
    by_cases hj : j = n
    · subst hj
      have : ¬ (j + 1 ≤ j) := by omega
      simp [this]
    · have : ¬ ((j : Int) = (n : Int)) := by omega
      simp only [this, if_false]
      by_cases hle : j ≤ n
      · have h1 : j + 1 ≤ n := by omega
        have h2 : n - j = (n - (j + 1)) + 1 := by omega
        simp [hle, h1, h2]
      · have h1 : ¬ (j + 1 ≤ n) := by omega
        simp [hle, h1]

theorem removeAtSpecGo_neg (a : Int) (h : a < 0) (l : List α) (j : Nat) :
    removeAtSpecGo a j l = l := by
  induction l generalizing j with
  | nil => rfl
  | cons x r ih =>
    have : ¬ ((j : Int) = a) := by omega
    simp [removeAtSpecGo, this, ih]

theorem removeAtM_eq (arr : List α) (a : Int) (hlen : (arr.length : Int) < 2 ^ 31) :
    removeAtM arr a = removeAtSpec arr a := by
  unfold removeAtM removeAtSpec
  by_cases hneg : a < 0
  · simp [hneg, removeAtSpecGo_neg a hneg]
  · simp only [hneg, if_false]
    obtain ⟨n, rfl⟩ : ∃ n : Nat, a = (n : Int) := ⟨a.toNat, by omega⟩
    rw [removeAtSpecGo_nat]
    simp only [Nat.zero_le, if_true, Nat.sub_zero, extended]
    rw [sliceL_prefix]
    by_cases hov : (n : Int) + 1 < 2 ^ 31
    · simp only [hov, if_true]
      have : ((n : Int) + 1) = ((n + 1 : Nat) : Int) := by omega
      rw [this, sliceL_suffix]
    · simp only [hov, if_false]
      have : arr.length ≤ n + 1 := by omega
      rw [List.drop_of_length_le this]

theorem findIdxGo_ge (p : α → Bool) (l : List α) (j i : Nat) (h : findIdxGo p j l = some i) : j ≤ i := by
  induction l generalizing j with
  | nil => simp [findIdxGo] at h
  | cons x r ih =>
    simp only [findIdxGo] at h
    split at h
    · simp at h; omega
    · have := ih _ h; omega

theorem removeSpec_eq_go (p : α → Bool) (l : List α) (j : Nat) :
    removeSpec p l = match findIdxGo p j l with
      | some i => removeAtSpecGo (i : Int) j l
      | none => l := by
  induction l generalizing j with
  | nil => simp [removeSpec, findIdxGo]
  | cons x r ih =>
    simp only [removeSpec, findIdxGo]
    by_cases hp : p x = true
    · have : ¬ (j + 1 ≤ j) := by omega
      simp [hp, removeAtSpecGo, removeAtSpecGo_nat, this]
    · simp only [hp]
      rw [ih (j + 1)]
      cases hf : findIdxGo p (j + 1) r with
      | none => simp
      | some i =>
        have := findIdxGo_ge p r _ _ hf
        have hne : ¬ ((j : Int) = (i : Int)) := by omega
        simp [removeAtSpecGo, hne]

theorem removeM_eq (p : α → Bool) (arr : List α) (hlen : (arr.length : Int) < 2 ^ 31) :
    removeM p arr = removeSpec p arr := by
  unfold removeM
  rw [removeSpec_eq_go p arr 0]
  cases findIdxGo p 0 arr with
  | none => rfl
  | some i => simp only []; rw [removeAtM_eq arr _ hlen]; rfl

/-! ### flattenArrays -/

theorem foldl_append_flatten (xss : List (List α)) (acc : List α) :
    xss.foldl (· ++ ·) acc = acc ++ xss.flatten := by
  induction xss generalizing acc with
  | nil => simp
  | cons x r ih => simp [ih]

theorem flattenInner_eq (fuel : Nat) (vs : List (List α)) (h1 : 1 ≤ vs.length) (h2 : vs.length ≤ fuel) :
    flattenInner fuel vs = vs.flatten := by
  induction fuel generalizing vs with
  | zero => omega
  | succ fuel ih =>
    unfold flattenInner
    split
    · simp
    · simp [extended]
    · rename_i hne1 hne2
      have h3 : 3 ≤ vs.length := by
        match vs, hne1, hne2 with
        | [], _, _ => simp at h1
        | [a], h, _ => exact absurd rfl (h a)
        | [a, b], _, h => exact absurd rfl (h a b)
        | _ :: _ :: _ :: _, _, _ => simp
      simp only [extended]
      rw [ih, ih]
      · rw [← List.flatten_append, List.take_append_drop]
      · simp; omega
      · simp; omega
      · simp; omega
      · simp; omega

theorem flattenM_eq (arrs : List (List α)) : flattenM arrs = flattenSpec arrs := by
  unfold flattenM flattenSpec
  rw [foldl_append_flatten]
  split
  · simp
  · simp
  · rw [flattenInner_eq _ _ _ (Nat.le_refl _)]
    · simp
    · match arrs with
      | [] => simp_all
      | _ :: _ => simp

/-! ### join -/

theorem intercalate_cons (sep p : List α) (rest : List (List α)) :
    intercalate sep (p :: rest) = p ++ (rest.map (sep ++ ·)).flatten := by
  induction rest generalizing p with
  | nil => simp [intercalate]
  | cons q r ih => simp [intercalate, ih]

theorem joinGo_false (sep out : List α) (items : List (Option (List α))) :
    joinGo sep false out items = out ++ ((items.filterMap id).map (sep ++ ·)).flatten := by
  induction items generalizing out with
  | nil => simp [joinGo]
  | cons it r ih =>
    cases it with
    | none => simp [joinGo, ih]
    | some p => simp [joinGo, ih]

theorem joinM_eq (sep : List α) (items : List (Option (List α))) :
    joinM sep items = joinSpec sep items := by
  unfold joinM joinSpec
  induction items with
  | nil => simp [joinGo, intercalate]
  | cons it r ih =>
    cases it with
    | none => simpa [joinGo] using ih
    | some p => simp [joinGo, joinGo_false, intercalate_cons]

end Generic
end JrsVerif.StdArr
