/- C10: the native sort structure returns a stable ordered permutation (core Lean only). -/
import JrsVerif.Model.StdArr

namespace JrsVerif.StdArr
open Std

section Sorting
variable {α κ : Type}

/-- pure twin of `insR` for an infallible comparison -/
def insF (f : α → α → Bool) (x : α) : List α → List α
  | [] => [x]
  | y :: r => if f x y then y :: insF f x r else x :: y :: r

def sortGoF (f : α → α → Bool) : List α → List α → List α
  | acc, [] => acc.reverse
  | acc, x :: xs => sortGoF f (insF f x acc) xs

theorem insR_eq {lt : α → α → Option Bool} {f : α → α → Bool} (h : ∀ a b, lt a b = some (f a b))
    (x : α) (acc : List α) : insR lt x acc = some (insF f x acc) := by
  induction acc with
  | nil => rfl
  | cons y r ih =>
    simp only [insR, insF, h]
    cases f x y <;> simp [ih]

theorem sortGo_eq {lt : α → α → Option Bool} {f : α → α → Bool} (h : ∀ a b, lt a b = some (f a b))
    (acc xs : List α) : sortGo lt acc xs = some (sortGoF f acc xs) := by
  induction xs generalizing acc with
  | nil => rfl
  | cons x xs ih => simp only [sortGo, sortGoF, insR_eq h, ih]

theorem insF_perm (f : α → α → Bool) (x : α) (acc : List α) : (insF f x acc).Perm (x :: acc) := by
  induction acc with
  | nil => exact List.Perm.refl _
  | cons y r ih =>
    simp only [insF]
    split
    · exact ((List.Perm.cons y ih).trans (List.Perm.swap x y r))
    · exact List.Perm.refl _

theorem sortGoF_perm (f : α → α → Bool) (acc xs : List α) :
    (sortGoF f acc xs).Perm (acc.reverse ++ xs) := by
  induction xs generalizing acc with
  | nil => simp [sortGoF]
  | cons x xs ih =>
    simp only [sortGoF]
    refine (ih _).trans ?_
    have h1 : (insF f x acc).reverse.Perm (x :: acc.reverse) :=
      (List.reverse_perm _).trans ((insF_perm f x acc).trans (List.Perm.cons x (List.reverse_perm acc).symm))
    refine (List.Perm.append_right xs h1).trans ?_
    simp only [List.cons_append]
    exact (List.perm_middle).symm

variable (kk : α → κ) (ord : κ → κ → Ordering)

/-- the comparison the sort uses: "key of a is less than key of b" -/
def fOf (a b : α) : Bool := ord (kk a) (kk b) == .lt

/-- the reversed accumulator is descending -/
def RevSorted (l : List α) : Prop := l.Pairwise (fun a b => (ord (kk a) (kk b)).isGE)

theorem insF_revSorted [TransCmp ord] (x : α) (acc : List α) (h : RevSorted kk ord acc) :
    RevSorted kk ord (insF (fOf kk ord) x acc) := by
  induction acc with
  | nil => simp [insF, RevSorted]
  | cons y r ih =>
    have hy := (List.pairwise_cons.1 h).1
    have hr := (List.pairwise_cons.1 h).2
    simp only [insF]
    split
    · rename_i hf
      have hxy : ord (kk x) (kk y) = .lt := by simpa [fOf] using hf
      refine List.pairwise_cons.2 ⟨fun z hz => ?_, ih hr⟩
      rcases List.mem_cons.1 ((insF_perm _ x r).subset hz) with rfl | hz
      · rw [OrientedCmp.gt_of_lt hxy]; rfl
      · exact hy z hz
    · rename_i hf
      have hxy : (ord (kk x) (kk y)).isGE := by
        have : ord (kk x) (kk y) ≠ .lt := by simpa [fOf] using hf
        cases hc : ord (kk x) (kk y) <;> simp_all
      refine List.pairwise_cons.2 ⟨fun z hz => ?_, h⟩
      rcases List.mem_cons.1 hz with rfl | hz
      · exact hxy
      · exact TransCmp.isGE_trans hxy (hy z hz)

theorem sortGoF_sorted [TransCmp ord] (acc xs : List α) (h : RevSorted kk ord acc) :
    (sortGoF (fOf kk ord) acc xs).Pairwise (fun a b => (ord (kk a) (kk b)).isLE) := by
  induction xs generalizing acc with
  | nil =>
    simp only [sortGoF]
    rw [List.pairwise_reverse]
    exact h.imp (fun hab => OrientedCmp.isGE_iff_isLE.1 hab)
  | cons x xs ih => exact ih _ (insF_revSorted kk ord x acc h)

/-- stability, step: among the elements whose key is equivalent to `c`, the new one comes last
    (first in the reversed accumulator) and the others keep their order -/
theorem insF_filter [TransCmp ord] (c : κ) (x : α) (acc : List α) :
    (insF (fOf kk ord) x acc).filter (fun a => ord (kk a) c == .eq) =
      (x :: acc).filter (fun a => ord (kk a) c == .eq) := by
  induction acc with
  | nil => rfl
  | cons y r ih =>
    simp only [insF]
    split
    · rename_i hf
      have hxy : ord (kk x) (kk y) = .lt := by simpa [fOf] using hf
      rw [List.filter_cons, ih]
      by_cases hx : ord (kk x) c = .eq
      · have hy : ord (kk y) c ≠ .eq := by
          intro hy
          have : ord (kk x) (kk y) = .eq := TransCmp.eq_trans hx (OrientedCmp.eq_symm hy)
          rw [this] at hxy; cases hxy
        simp [List.filter_cons, hx, hy]
      · simp [List.filter_cons, hx]
    · rfl

theorem sortGoF_filter [TransCmp ord] (c : κ) (acc xs : List α) :
    (sortGoF (fOf kk ord) acc xs).filter (fun a => ord (kk a) c == .eq) =
      (acc.filter (fun a => ord (kk a) c == .eq)).reverse ++ xs.filter (fun a => ord (kk a) c == .eq) := by
  induction xs generalizing acc with
  | nil => simp [sortGoF, List.filter_reverse]
  | cons x xs ih =>
    simp only [sortGoF]
    rw [ih, insF_filter]
    by_cases hx : ord (kk x) c = .eq <;> simp [List.filter_cons, hx]

/-- the std sort with an infallible key comparison: result, permutation, order, stability -/
theorem sortR_total [TransCmp ord] {lt : α → α → Option Bool}
    (h : ∀ a b, lt a b = some (fOf kk ord a b)) (xs : List α) :
    ∃ r, sortR lt xs = some r ∧ r.Perm xs ∧
      r.Pairwise (fun a b => (ord (kk a) (kk b)).isLE) ∧
      ∀ c, r.filter (fun a => ord (kk a) c == .eq) = xs.filter (fun a => ord (kk a) c == .eq) := by
  refine ⟨sortGoF (fOf kk ord) [] xs, sortGo_eq h [] xs, ?_, ?_, ?_⟩
  · simpa using sortGoF_perm (fOf kk ord) [] xs
  · exact sortGoF_sorted kk ord [] xs List.Pairwise.nil
  · intro c; simpa using sortGoF_filter kk ord c [] xs

theorem withKeys_total {key : α → Option κ} {k : α → κ} (hk : ∀ x, key x = some (k x)) (xs : List α) :
    withKeys key xs = some (xs.map (fun x => (x, k x))) := by
  induction xs with
  | nil => rfl
  | cons x r ih => simp [withKeys, hk, ih]

/-- `sort_keyf` (key every element, sort the pairs, drop the keys) for a total key function into a
    total order -/
theorem sortByKeyM_total [TransCmp ord] {key : α → Option κ} {cmp : κ → κ → Option Ordering}
    {k : α → κ} (hk : ∀ x, key x = some (k x)) (hc : ∀ p q, cmp p q = some (ord p q)) (xs : List α) :
    ∃ r, sortByKeyM key cmp xs = some r ∧ r.Perm xs ∧
      r.Pairwise (fun a b => (ord (k a) (k b)).isLE) ∧
      ∀ c, r.filter (fun a => ord (k a) c == .eq) = xs.filter (fun a => ord (k a) c == .eq) := by
  have hlt : ∀ a b : α × κ, ltOfCmp cmp a b = some (fOf Prod.snd ord a b) := by
    intro a b; simp [ltOfCmp, hc, fOf]
  obtain ⟨r, hr, hp, hs, hst⟩ := sortR_total Prod.snd ord hlt (xs.map (fun x => (x, k x)))
  have hmem : ∀ p ∈ r, p.2 = k p.1 := by
    intro p hp'
    obtain ⟨x, _, rfl⟩ := List.mem_map.1 (hp.subset hp')
    rfl
  refine ⟨r.map Prod.fst, ?_, ?_, ?_, ?_⟩
  · simp [sortByKeyM, withKeys_total hk, hr]
  · have := hp.map Prod.fst
    simpa [List.map_map, Function.comp_def] using this
  · rw [List.pairwise_map]
    refine hs.imp_of_mem ?_
    intro a b ha hb hab
    rw [← hmem a ha, ← hmem b hb]; exact hab
  · intro c
    have h1 : (r.map Prod.fst).filter (fun a => ord (k a) c == .eq) =
        (r.filter (fun p => ord p.2 c == .eq)).map Prod.fst := by
      rw [List.filter_map]
      congr 1
      apply List.filter_congr
      intro p hp'
      simp [Function.comp_def, hmem p hp']
    rw [h1, hst c, List.filter_map, List.map_map]
    simp [Function.comp_def]

end Sorting
section Congr
variable {α : Type}

theorem insR_mem {lt : α → α → Option Bool} {x : α} {acc r : List α} (h : insR lt x acc = some r) :
    ∀ z ∈ r, z = x ∨ z ∈ acc := by
  induction acc generalizing r with
  | nil => simp [insR] at h; subst h; simp
  | cons y t ih =>
    simp only [insR] at h
    split at h
    · cases h
    · cases hr : insR lt x t with
      | none => simp [hr] at h
      | some r' =>
        simp [hr] at h; subst h
        intro z hz
        rcases List.mem_cons.1 hz with rfl | hz
        · simp
        · rcases ih hr z hz with h | h
          · exact Or.inl h
          · exact Or.inr (List.mem_cons_of_mem _ h)
    · simp at h; subst h
      intro z hz
      rcases List.mem_cons.1 hz with rfl | hz
      · simp
      · exact Or.inr hz

theorem insR_congr {lt lt' : α → α → Option Bool} (x : α) (acc : List α)
    (h : ∀ y ∈ acc, lt x y = lt' x y) : insR lt x acc = insR lt' x acc := by
  induction acc with
  | nil => rfl
  | cons y t ih =>
    simp only [insR]
    rw [h y (List.mem_cons_self ..), ih (fun z hz => h z (List.mem_cons_of_mem _ hz))]

theorem sortGo_congr {lt lt' : α → α → Option Bool} (S : α → Prop)
    (h : ∀ a b, S a → S b → lt a b = lt' a b) (acc xs : List α)
    (hacc : ∀ z ∈ acc, S z) (hxs : ∀ z ∈ xs, S z) : sortGo lt acc xs = sortGo lt' acc xs := by
  induction xs generalizing acc with
  | nil => rfl
  | cons x xs ih =>
    have hx : S x := hxs x (List.mem_cons_self ..)
    simp only [sortGo]
    rw [← insR_congr (lt := lt) (lt' := lt') x acc (fun y hy => h x y hx (hacc y hy))]
    cases hr : insR lt x acc with
    | none => rfl
    | some acc' =>
      simp only []
      apply ih
      · intro z hz
        rcases insR_mem hr z hz with rfl | hz'
        · exact hx
        · exact hacc z hz'
      · intro z hz; exact hxs z (List.mem_cons_of_mem _ hz)

end Congr

namespace Model

/-- a key of the type the fast path assumes -/
def agree : SortType → V → Prop
  | .number, k => ∃ n, k = .num n
  | .string, k => ∃ s, k = .str s
  | _, _ => True

theorem sortTypeGo_stays (t0 t : SortType) (ks : List V) (h : sortTypeGo t0 ks = some t)
    (h0 : t0 ≠ .unknown) : t = t0 ∨ t = .unspec := by
  induction ks generalizing t0 with
  | nil => simp [sortTypeGo] at h; exact Or.inl h.symm
  | cons k r ih =>
    cases k <;> cases t0 <;> simp [sortTypeGo] at h <;> first
      | exact absurd rfl h0
      | exact Or.inr h.symm
      | exact ih _ h (by simp)

theorem sortTypeGo_agree (t0 t : SortType) (ks : List V) (h : sortTypeGo t0 ks = some t) :
    ∀ k ∈ ks, agree t k := by
  induction ks generalizing t0 with
  | nil => simp
  | cons k r ih =>
    intro k' hk'
    cases t with
    | unspec => trivial
    | unknown => trivial
    | number =>
      cases k <;> cases t0 <;> simp [sortTypeGo] at h
      all_goals first
        | (rcases List.mem_cons.1 hk' with rfl | hk'
           · exact ⟨_, rfl⟩
           · exact ih _ h _ hk')
        | (have := sortTypeGo_stays _ _ _ h (by simp); simp at this)
    | string =>
      cases k <;> cases t0 <;> simp [sortTypeGo] at h
      all_goals first
        | (rcases List.mem_cons.1 hk' with rfl | hk'
           · exact ⟨_, rfl⟩
           · exact ih _ h _ hk')
        | (have := sortTypeGo_stays _ _ _ h (by simp); simp at this)

theorem pathCmp_agree (t : SortType) (a b : V) (ha : agree t a) (hb : agree t b) :
    pathCmp t a b = cmpV a b := by
  cases t with
  | number => obtain ⟨x, rfl⟩ := ha; obtain ⟨y, rfl⟩ := hb; simp [pathCmp, numKey, cmpV]
  | string => obtain ⟨x, rfl⟩ := ha; obtain ⟨y, rfl⟩ := hb; simp [pathCmp, strKey, cmpV]
  | unspec => rfl
  | unknown => rfl

theorem sortTypeGo_number_none (ks : List V) (h : sortTypeGo .number ks = none) :
    ∃ s, V.str s ∈ ks := by
  induction ks with
  | nil => simp [sortTypeGo] at h
  | cons k r ih =>
    cases k <;> simp [sortTypeGo] at h
    · obtain ⟨s, hs⟩ := ih h; exact ⟨s, List.mem_cons_of_mem _ hs⟩
    · exact ⟨_, List.mem_cons_self ..⟩

theorem sortTypeGo_string_none (ks : List V) (h : sortTypeGo .string ks = none) :
    ∃ n, V.num n ∈ ks := by
  induction ks with
  | nil => simp [sortTypeGo] at h
  | cons k r ih =>
    cases k <;> simp [sortTypeGo] at h
    · exact ⟨_, List.mem_cons_self ..⟩
    · obtain ⟨s, hs⟩ := ih h; exact ⟨s, List.mem_cons_of_mem _ hs⟩

/-- a failing `get_sort_type` means a number key and a string key are both present -/
theorem sortTypeGo_none (ks : List V) (h : sortTypeGo .unknown ks = none) :
    (∃ n, V.num n ∈ ks) ∧ (∃ s, V.str s ∈ ks) := by
  induction ks with
  | nil => simp [sortTypeGo] at h
  | cons k r ih =>
    cases k <;> simp [sortTypeGo] at h
    · obtain ⟨s, hs⟩ := sortTypeGo_number_none r h
      exact ⟨⟨_, List.mem_cons_self ..⟩, ⟨s, List.mem_cons_of_mem _ hs⟩⟩
    · obtain ⟨n, hn⟩ := sortTypeGo_string_none r h
      exact ⟨⟨n, List.mem_cons_of_mem _ hn⟩, ⟨_, List.mem_cons_self ..⟩⟩

/-- the type-specialised paths are transparent: whenever `get_sort_type` succeeds, the call is the
    generic keyed sort with the jsonnet comparison -/
theorem sortCore_eq (key : V → Option V) (xs : List V) (vk : List (V × V)) (t : SortType)
    (hvk : withKeys key xs = some vk) (ht : sortTypeGo .unknown (vk.map Prod.snd) = some t) :
    sortCore key xs = sortByKeyM key cmpV xs := by
  have hag := sortTypeGo_agree _ _ _ ht
  simp only [sortCore, sortByKeyM, hvk, ht]
  congr 1
  unfold sortR
  apply sortGo_congr (fun p => agree t p.2)
  · intro a b ha hb
    simp [ltOfCmp, pathCmp_agree t a.2 b.2 ha hb]
  · simp
  · intro z hz
    exact hag z.2 (List.mem_map.2 ⟨z, hz, rfl⟩)

end Model

end JrsVerif.StdArr
