/- C02: the two object semantics of the framework agree.
   `Eval.findDefs` / `visOf` / `hasFieldAll` (the definitional interpreter's object meaning: layer
   list with key-removal markers and an absolute `maskLow` index) against the models of the real
   walkers (`collect`, `hasGo`, `visGo`: relative saturating skip counters) on EVERY core vector,
   and hence against the term semantics `defs`/`specHas`/`specVis`/`specGet` on compiled terms. -/
import JrsVerif.Model.Eval
import JrsVerif.Proofs.Obj

namespace JrsVerif.Obj
open JrsVerif

/-- an injective rendering of model names as field-name strings -/
def unary (n : Nat) : String := String.ofList (List.replicate n 'a')

theorem unary_injective : ∀ a b, unary a = unary b → a = b := by
  intro a b h
  have := congrArg String.length h
  simpa [unary] using this

def toVis : Vis → Eval.Vis
  | .normal => .normal | .hidden => .hidden | .unhide => .unhide

/-- a model field as an interpreter field definition (body `[val]`, as the harness renders it) -/
def toFD (nm : Nat → String) (f : Field) : Eval.FieldDef :=
  { name := nm f.name, plus := f.add, vis := toVis f.vis, env := [],
    body := .arr [.num (Float.ofNat f.val)] }

/-- a core as an interpreter layer (`std.objectRemoveKey` builds exactly this marker) -/
def toLayer (nm : Nat → String) : Core → Eval.Layer
  | .oop fs a =>
      { dollar := none, locals := [], asserts := if a then [(.tru, none)] else [], assertEnv := [],
        fields := fs.map (toFD nm) }
  | .omitC ns k =>
      { mask := some (ns.map nm, k), dollar := none, locals := [], asserts := [], assertEnv := [],
        fields := [] }

def toLayers (nm : Nat → String) (cores : List Core) : List Eval.Layer := cores.map (toLayer nm)

/-- every unmasked definition of `n`, top-most first, with the index of its core — the saturating
    skip walk without the `+:` cut -/
def defsGo : List Core → Nat → Name → List (Nat × Field)
  | [], _, _ => []
  | .oop fs _ :: rest, skip, n =>
      match lookup fs n with
      | some f => if skip == 0 then (rest.length, f) :: defsGo rest (skip - 1) n
                  else defsGo rest (skip - 1) n
      | none => defsGo rest (skip - 1) n
  | .omitC ns k :: rest, skip, n =>
      defsGo rest ((if ns.contains n then max skip (k + 1) else skip) - 1) n

/-- the read keeps the definitions down to the first plain one -/
def cutPlain : List (Nat × Field) → List (Field × Nat)
  | [] => []
  | (l, f) :: r => if f.add then (f, l) :: cutPlain r else [(f, l)]

section
variable (nm : Nat → String) (hinj : ∀ a b, nm a = nm b → a = b)
include hinj

theorem findField_toFD (fs : List Field) (n : Name) :
    Eval.findField (fs.map (toFD nm)) (nm n) = (lookup fs n).map (toFD nm) := by
  induction fs with
  | nil => rfl
  | cons f r ih =>
    unfold Eval.findField lookup at *
    simp only [List.map_cons, List.find?_cons]
    by_cases h : f.name = n
    · subst h; simp [toFD]
    · have h' : (nm f.name == nm n) = false := by simpa using fun e => h (hinj _ _ e)
      have h'' : (f.name == n) = false := by simpa using h
      simp only [toFD, h', h'']
      exact ih

theorem contains_map_nm (ns : List Name) (n : Name) :
    (ns.map nm).contains (nm n) = ns.contains n := by
  induction ns with
  | nil => rfl
  | cons a r ih =>
    simp only [List.map_cons, List.contains_cons, ih]
    by_cases h : n = a
    · subst h; simp
    · have e1 : (nm n == nm a) = false := by simpa using fun e => h (hinj _ _ e)
      have e2 : (n == a) = false := by simpa using h
      rw [e1, e2]

/-- absolute `maskLow` (interpreter) vs relative saturating `skip` (implementation):
    `min skip (#remaining) = #remaining - maskLow` is the simulation invariant -/
theorem findDefs_go_eq (rev : List Core) (i m skip : Nat) (n : Name)
    (hi : i = rev.length - 1) (hinv : min skip rev.length = rev.length - m) :
    Eval.findDefs.go (nm n) (rev.map (toLayer nm)) i m
      = (defsGo rev skip n).map (fun p => (p.1, toFD nm p.2)) := by
  induction rev generalizing i m skip with
  | nil => simp [Eval.findDefs.go, defsGo]
  | cons c rest ih =>
    simp only [List.length_cons, Nat.add_sub_cancel] at hi hinv
    subst hi
    cases c with
    | oop fs a =>
      simp only [List.map_cons, toLayer, Eval.findDefs.go, defsGo]
      rw [findField_toFD nm hinj]
      cases hl : lookup fs n with
      | none =>
        simp only [Option.map_none]
        exact ih _ _ _ rfl (by omega)
      | some f =>
        simp only [Option.map_some]
        by_cases hs : skip = 0
        · subst hs
          have hm : ¬ rest.length ≥ m := by omega
          simp only [hm, ↓reduceIte, beq_self_eq_true, List.map_cons]
          rw [ih (rest.length - 1) m (0 - 1) rfl (by omega)]
        · have hm : rest.length ≥ m := by omega
          have hb : (skip == 0) = false := by simpa using hs
          simp only [hm, ↓reduceIte, hb, Bool.false_eq_true]
          exact ih _ _ _ rfl (by omega)
    | omitC ns k =>
      simp only [List.map_cons, toLayer, Eval.findDefs.go, defsGo]
      rw [contains_map_nm nm hinj]
      by_cases hc : ns.contains n = true
      · simp only [hc, ↓reduceIte]
        exact ih _ _ _ rfl (by omega)
      · simp only [hc, Bool.false_eq_true, ↓reduceIte]
        exact ih _ _ _ rfl (by omega)

/-- the interpreter's `findDefs` = the skip walk, for every core vector and every start layer -/
theorem findDefs_eq_defsGo (cores : List Core) (idx : Nat) (n : Name) :
    Eval.findDefs (toLayers nm cores) idx (nm n)
      = (defsGo (cores.take idx).reverse 0 n).map (fun p => (p.1, toFD nm p.2)) := by
  have h := findDefs_go_eq nm hinj (cores.take idx).reverse ((cores.take idx).reverse.length - 1)
    (cores.take idx).reverse.length 0 n rfl (by omega)
  simp only [Eval.findDefs, toLayers]
  rw [← List.map_take, ← List.map_reverse]
  simpa using h

end

/-! the three walker models are projections of `defsGo` (every core vector, every skip) -/

theorem collect_eq_cut (rev : List Core) (s : Nat) (n : Name) :
    collect rev s n = cutPlain (defsGo rev s n) := by
  induction rev generalizing s with
  | nil => rfl
  | cons c rest ih =>
    cases c with
    | oop fs a =>
      simp only [collect, defsGo]
      by_cases hs : s = 0
      · subst hs
        simp only [beq_self_eq_true, ↓reduceIte]
        cases hl : lookup fs n with
        | none => exact ih _
        | some f => by_cases ha : f.add = true <;> simp [cutPlain, ha, ih]
      · have hb : (s == 0) = false := by simpa using hs
        simp only [hb, Bool.false_eq_true, ↓reduceIte]
        cases hl : lookup fs n <;> exact ih _
    | omitC ns k => simp only [collect, defsGo]; exact ih _

theorem hasGo_eq_defsGo (rev : List Core) (s : Nat) (n : Name) :
    hasGo rev s n = !(defsGo rev s n).isEmpty := by
  induction rev generalizing s with
  | nil => rfl
  | cons c rest ih =>
    cases c with
    | oop fs a =>
      simp only [hasGo, defsGo]
      cases hl : lookup fs n with
      | none => simpa using ih _
      | some f =>
        by_cases hs : s = 0
        · subst hs; simp
        · have hb : (s == 0) = false := by simpa using hs
          simp only [Option.isSome_some, hb, Bool.and_false, Bool.false_eq_true, ↓reduceIte]
          exact ih _
    | omitC ns k => simp only [hasGo, defsGo]; exact ih _

theorem visGo_eq_defsGo (rev : List Core) (s : Nat) (ex : Bool) (n : Name) :
    visGo rev s ex n
      = visWith ((defsGo rev s n).map (·.2)) ex (fun ex' => if ex' then some Vis.normal else none) := by
  induction rev generalizing s ex with
  | nil => simp [visGo, defsGo, visWith]
  | cons c rest ih =>
    cases c with
    | oop fs a =>
      simp only [visGo, defsGo]
      cases hl : lookup fs n with
      | none => exact ih _ _
      | some f =>
        by_cases hs : s = 0
        · subst hs
          simp only [beq_self_eq_true, ↓reduceIte, List.map_cons, visWith]
          cases hv : f.vis <;> simp [ih]
        · have hb : (s == 0) = false := by simpa using hs
          simp only [hb, Bool.false_eq_true, ↓reduceIte]
          exact ih _ _
    | omitC ns k => simp only [visGo, defsGo]; exact ih _ _

/-! `defsGo` on compiled terms = the term semantics `defs` (masked / unmasked pair) -/

theorem defsGo_masked (t : OT) (rest : List Core) (s : Nat) (n : Name)
    (hs : (compile t).length ≤ s) :
    defsGo ((compile t).reverse ++ rest) s n = defsGo rest (s - (compile t).length) n := by
  induction t generalizing rest s with
  | lit fs a =>
    by_cases h : (fs.isEmpty && !a) = true
    · simp [compile, h]
    · simp [compile, h] at hs ⊢
      have : s ≠ 0 := by omega
      simp only [defsGo]
      cases lookup fs n <;> simp [this]
  | add a b iha ihb =>
    simp [compile, List.reverse_append, List.append_assoc] at hs ⊢
    rw [ihb _ _ (by omega), iha _ _ (by omega)]; congr 1; omega
  | rm o ns ih =>
    simp [compile, List.reverse_append] at hs ⊢
    simp only [defsGo]
    split
    · have h1 : max s ((compile o).length + 1) = s := by omega
      rw [h1, ih _ _ (by omega)]; congr 1; omega
    · rw [ih _ _ (by omega)]; congr 1; omega

theorem defsGo_compile (t : OT) (rest : List Core) (n : Name) :
    (defsGo ((compile t).reverse ++ rest) 0 n).map (·.2)
      = defs t n ++ (defsGo rest 0 n).map (·.2) := by
  induction t generalizing rest with
  | lit fs a =>
    by_cases h : (fs.isEmpty && !a) = true
    · obtain ⟨h1, h2⟩ : fs = [] ∧ a = false := by simpa using h
      subst h1; subst h2; simp [compile, defs, lookup]
    · simp only [compile, h, Bool.false_eq_true, ↓reduceIte, List.reverse_cons, List.reverse_nil,
        List.nil_append, List.cons_append, defsGo, defs, beq_self_eq_true]
      cases hl : lookup fs n <;> simp
  | add a b iha ihb =>
    simp only [compile, List.reverse_append, List.append_assoc, defs]
    rw [ihb, iha]
  | rm o ns ih =>
    simp only [compile, List.reverse_append, List.reverse_cons, List.reverse_nil, List.nil_append,
      List.cons_append, defs]
    simp only [defsGo]
    by_cases h : ns.contains n
    · simp only [h, ↓reduceIte]
      have h1 : max 0 ((compile o).length + 1) - 1 = (compile o).length := by omega
      rw [h1, defsGo_masked o rest _ n (Nat.le_refl _)]
      simp
    · simp only [h, Bool.false_eq_true, ↓reduceIte]
      exact ih rest

/-- `visOf`'s inner walk is `visSpec` -/
theorem visOf_go_eq (nm : Nat → String) (l : List Field) :
    Eval.visOf.go (l.map (toFD nm)) = (visSpec l).map toVis := by
  induction l with
  | nil => rfl
  | cons f r ih =>
    simp only [List.map_cons, Eval.visOf.go, visSpec, toFD]
    cases hv : f.vis <;> simp [toVis, ih]
    cases visSpec r <;> simp [toVis]

/-- the interpreter's read loop (`Task.field`): evaluate the definitions top-down and stop after
    the first one that is not `+:` -/
def cutFD : List (Nat × Eval.FieldDef) → List (Nat × Eval.FieldDef)
  | [] => []
  | (l, f) :: r => if f.plus then (l, f) :: cutFD r else [(l, f)]

theorem cutFD_map (nm : Nat → String) (l : List (Nat × Field)) :
    cutFD (l.map (fun p => (p.1, toFD nm p.2))) = (cutPlain l).map (fun p => (p.2, toFD nm p.1)) := by
  induction l with
  | nil => rfl
  | cons p r ih =>
    obtain ⟨i, f⟩ := p
    have hp : (toFD nm f).plus = f.add := rfl
    simp only [List.map_cons, cutFD, cutPlain, hp]
    by_cases h : f.add = true
    · simp only [h, ↓reduceIte, List.map_cons, ih]
    · simp [h]

end JrsVerif.Obj
