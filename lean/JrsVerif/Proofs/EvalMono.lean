/-
  C01 — `run_fuel_mono`: the definitional interpreter is monotone in its fuel.  One lemma per `Task`
  case; each walks the body of `run` with the closure lemmas of `EvalMonoBase` (tactic `mono`).
-/
import JrsVerif.Proofs.EvalMonoBase

namespace JrsVerif.Eval

set_option hygiene false in
/-- one step of the structural walk; `ih` is the induction hypothesis for the recursive calls -/
macro "mono1" : tactic => `(tactic| first
  | (with_reducible exact Le.refl _)
  | (apply ih)
  | (apply ihr)
  | (refine Le.attempt2 ?_ ?_ (fun w yr s hd => hd w rfl) (fun w xr s hd => by
        rcases xr with (_|_)|_ <;> exact hd _ rfl))
  | (apply Le.bind)
  | (apply Le.forIn)
  | (apply Le.mapM)
  | (intro _)
  | (refine Le.tryCatch ?_ ?_ (fun w s hd => hd w rfl))
  | split)

macro "mono" : tactic => `(tactic| repeat' mono1)

/-- the JSON renderer of `toString` is monotone in its own fuel -/
theorem render_mono (n m : Nat) (h : n ≤ m) (j : JV) : Le (run.render n j) (run.render m j) := by
  induction n generalizing m j with
  | zero => exact ⟨fun s hd => absurd hd (by simp only [run.render]; exact not_decided_undecided _ _)⟩
  | succ n ihn =>
    cases m with
    | zero => omega
    | succ m =>
      have ihr : ∀ j, Le (run.render n j) (run.render m j) := fun j => ihn m (by omega) j
      have ih := ihr
      simp only [run.render]
      mono

set_option linter.unusedSectionVars false

section
variable (n m : Nat) (ih : ∀ t, Le (run n t) (run m t)) (ihr : ∀ j, Le (run.render n j) (run.render m j))
include ih ihr

theorem mono_force (r : Ref) : Le (run (n+1) (.force r)) (run (m+1) (.force r)) := by
  simp only [run]; mono

theorem mono_asserts (o : ObjId) : Le (run (n+1) (.asserts o)) (run (m+1) (.asserts o)) := by
  simp only [run]; mono

theorem mono_field (o : ObjId) (nm : String) (i : Nat) :
    Le (run (n+1) (.field o nm i)) (run (m+1) (.field o nm i)) := by
  simp only [run]; mono

theorem mono_comp (c : Ctx) (specs : List CompSpec) :
    Le (run (n+1) (.comp c specs)) (run (m+1) (.comp c specs)) := by
  simp only [run]; mono

theorem mono_toStr (v : Val) : Le (run (n+1) (.toStr v)) (run (m+1) (.toStr v)) := by
  simp only [run]; mono

theorem mono_manifest (v : Val) : Le (run (n+1) (.manifest v)) (run (m+1) (.manifest v)) := by
  simp only [run]; mono

theorem mono_equals (a b : Val) : Le (run (n+1) (.equals a b)) (run (m+1) (.equals a b)) := by
  simp only [run]; mono

theorem mono_compare (a b : Val) : Le (run (n+1) (.compare a b)) (run (m+1) (.compare a b)) := by
  simp only [run]; mono

theorem mono_call (f : Val) (pos : List Ref) (named : List (String × Ref)) :
    Le (run (n+1) (.call f pos named)) (run (m+1) (.call f pos named)) := by
  cases f <;> (simp only [run]; mono)

set_option maxHeartbeats 1000000 in
theorem mono_eval_obj (c : Ctx) (b : ObjBody) :
    Le (run (n+1) (.eval c (.obj b))) (run (m+1) (.eval c (.obj b))) := by
  simp only [run]; mono

set_option maxHeartbeats 1000000 in
theorem mono_eval_objExt (c : Ctx) (e : Expr) (b : ObjBody) :
    Le (run (n+1) (.eval c (.objExt e b))) (run (m+1) (.eval c (.objExt e b))) := by
  simp only [run]; mono

set_option maxHeartbeats 1000000 in
theorem mono_eval_index (c : Ctx) (e : Expr) (ps : List Expr) :
    Le (run (n+1) (.eval c (.index e ps))) (run (m+1) (.eval c (.index e ps))) := by
  simp only [run]; mono

set_option maxHeartbeats 2000000 in
theorem mono_eval_binary (c : Ctx) (op : BOp) (a b : Expr) :
    Le (run (n+1) (.eval c (.binary op a b))) (run (m+1) (.eval c (.binary op a b))) := by
  simp only [run]; mono

set_option maxHeartbeats 1000000 in
theorem mono_eval (c : Ctx) (e : Expr) : Le (run (n+1) (.eval c e)) (run (m+1) (.eval c e)) := by
  cases e
  case binary op a b => exact mono_eval_binary n m ih ihr c op a b
  case index e ps => exact mono_eval_index n m ih ihr c e ps
  case obj b => exact mono_eval_obj n m ih ihr c b
  case objExt e b => exact mono_eval_objExt n m ih ihr c e b
  all_goals (simp only [run]; mono)

end

/-- ☆ the interpreter is monotone in its fuel: once `run n` is decided (a value or an error), every
    larger fuel gives the same result and the same store -/
theorem run_mono : ∀ (n m : Nat), n ≤ m → ∀ t, Le (run n t) (run m t) := by
  intro n
  induction n with
  | zero =>
    intro m _ t
    exact ⟨fun s hd => absurd hd (by simp only [run]; exact not_decided_undecided _ _)⟩
  | succ n ihn =>
    intro m h t
    cases m with
    | zero => omega
    | succ m =>
      have ih : ∀ t, Le (run n t) (run m t) := ihn m (by omega)
      have ihr : ∀ j, Le (run.render n j) (run.render m j) := render_mono n m (by omega)
      cases t with
      | eval c e => exact mono_eval n m ih ihr c e
      | force r => exact mono_force n m ih ihr r
      | field o nm i => exact mono_field n m ih ihr o nm i
      | call f pos named => exact mono_call n m ih ihr f pos named
      | manifest v => exact mono_manifest n m ih ihr v
      | equals a b => exact mono_equals n m ih ihr a b
      | compare a b => exact mono_compare n m ih ihr a b
      | toStr v => exact mono_toStr n m ih ihr v
      | comp c specs => exact mono_comp n m ih ihr c specs
      | asserts o => exact mono_asserts n m ih ihr o

/-- the whole-program computation of `evalProgram` (evaluate, then manifest) -/
def progM (fuel : Nat) (e : Expr) : M JV := do
  let v ← expectVal (← run fuel (.eval { env := [], this := none, dollar := none } e))
  match ← run fuel (.manifest v) with
  | .json j => pure j
  | _ => undecided "internal"

theorem progM_mono (n m : Nat) (h : n ≤ m) (e : Expr) : Le (progM n e) (progM m e) := by
  have ih := run_mono n m h
  have ihr := ih
  unfold progM
  mono

def outcomeOf (r : Except Stop JV × St) : Outcome :=
  match r with
  | (.ok j, s) => .value j s.trace
  | (.error (.err e), s) => .error e.cls e.msg s.trace
  | (.error (.undecided w), _) => .undecided w

theorem evalProgram_eq (fuel : Nat) (e : Expr) : evalProgram fuel e = outcomeOf (progM fuel e {}) := rfl

theorem outcomeOf_decided (r : Except Stop JV × St) (h : ∀ w, outcomeOf r ≠ .undecided w) : Decided r := by
  intro w hw
  rcases r with ⟨x, s⟩
  simp only at hw
  subst hw
  exact h w rfl

end JrsVerif.Eval
