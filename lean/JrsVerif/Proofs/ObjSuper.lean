/- C02: a `StandaloneSuperCore` (bare `super`) is, for the existence / visibility / listing walkers,
   exactly one ordinary layer holding the resolved fields of the layers below `sup`
   (`XCore.flatten`); hence objects built with bare `super` inherit every C02 theorem through
   `flattenT`. -/
import JrsVerif.Model.ObjSuper
import JrsVerif.Proofs.ObjEval

namespace JrsVerif.Obj

theorem coreNames_append (a b : List Core) : coreNames (a ++ b) = coreNames a ++ coreNames b := by
  induction a with
  | nil => rfl
  | cons c r ih => cases c <;> simp [coreNames, ih]

theorem mem_coreNames_reverse (l : List Core) (x : Name) :
    x ∈ coreNames l.reverse ↔ x ∈ coreNames l := by
  induction l with
  | nil => simp
  | cons c r ih =>
    rw [List.reverse_cons, coreNames_append]
    cases c <;> simp [coreNames, ih, or_comm]

theorem lookup_some_name {fs : List Field} {n : Name} {f : Field} (h : lookup fs n = some f) :
    f ∈ fs ∧ f.name = n := by
  unfold lookup at h
  have h1 := List.mem_of_find?_eq_some h
  have h2 := List.find?_some h
  exact ⟨h1, by simpa using h2⟩

theorem defsGo_mem (rev : List Core) (s : Nat) (n : Name) (p : Nat × Field)
    (h : p ∈ defsGo rev s n) : n ∈ coreNames rev := by
  induction rev generalizing s with
  | nil => simp [defsGo] at h
  | cons c rest ih =>
    cases c with
    | oop fs a =>
      simp only [defsGo] at h
      simp only [coreNames, List.mem_append]
      cases hl : lookup fs n with
      | none => rw [hl] at h; exact Or.inr (ih _ h)
      | some f =>
        left
        obtain ⟨h1, h2⟩ := lookup_some_name hl
        exact List.mem_map.mpr ⟨f, h1, h2⟩
    | omitC ns k =>
      simp only [defsGo] at h
      simp only [coreNames, List.mem_append]
      exact Or.inr (ih _ h)

theorem visSpec_isSome (l : List Field) : (visSpec l).isSome = !l.isEmpty := by
  cases l with
  | nil => rfl
  | cons f r =>
    simp only [visSpec, List.isEmpty_cons, Bool.not_false]
    cases f.vis <;> simp
    cases visSpec r <;> simp

/-- the per-name visibility walker in terms of the unmasked definitions, on every core vector -/
theorem visIdx_eq_visSpec (cores : List Core) (idx : Nat) (n : Name) :
    visIdx cores idx n = visSpec ((defsGo (cores.take idx).reverse 0 n).map (·.2)) := by
  simp only [visIdx, visGo_eq_defsGo, visWith_end]
  cases visSpec (List.map (fun x => x.2) (defsGo (List.take idx cores).reverse 0 n)) <;> simp

/-- presence and visibility agree on EVERY core vector and start layer -/
theorem hasIdx_eq_vis_isSome (cores : List Core) (idx : Nat) (n : Name) :
    hasIdx cores idx n = (visIdx cores idx n).isSome := by
  rw [visIdx_eq_visSpec, visSpec_isSome, hasIdx, hasGo_eq_defsGo]
  simp

theorem visIdx_some_mem (cores : List Core) (idx : Nat) (n : Name) (v : Vis)
    (h : visIdx cores idx n = some v) : n ∈ coreNames (cores.take idx) := by
  have h1 : (visIdx cores idx n).isSome = true := by rw [h]; rfl
  rw [visIdx_eq_visSpec, visSpec_isSome] at h1
  cases hd : defsGo (cores.take idx).reverse 0 n with
  | nil => rw [hd] at h1; simp at h1
  | cons p r =>
    have := defsGo_mem (cores.take idx).reverse 0 n p (by rw [hd]; simp)
    exact (mem_coreNames_reverse _ _).mp this

theorem lookup_filterMap (L : List Name) (g : Name → Option Field)
    (hg : ∀ a f, g a = some f → f.name = a) (n : Name) :
    lookup (L.filterMap g) n = if n ∈ L then g n else none := by
  induction L with
  | nil => rfl
  | cons a r ih =>
    simp only [List.filterMap_cons]
    cases hga : g a with
    | none =>
      simp only [ih, List.mem_cons]
      by_cases e : n = a
      · subst e; simp [hga]
      · simp [e]
    | some f =>
      have hn := hg a f hga
      simp only [lookup, List.find?_cons] at ih ⊢
      by_cases e : n = a
      · subst e; simp [hn, hga]
      · have : (f.name == n) = false := by rw [hn]; simpa using fun h => e h.symm
        simp only [this, ih, List.mem_cons, e, false_or]

theorem lookup_flatFields (this : List Core) (sup : Nat) (n : Name) :
    lookup (flatFields this sup) n = (visIdx this sup n).map (fun v => (⟨n, false, v, 0⟩ : Field)) := by
  unfold flatFields
  rw [lookup_filterMap _ _ (by
    intro a f h
    cases hv : visIdx this sup a with
    | none => rw [hv] at h; cases h
    | some v => rw [hv] at h; simp at h; rw [← h])]
  cases hv : visIdx this sup n with
  | none => simp
  | some v =>
    have := visIdx_some_mem this sup n v hv
    simp [mem_sortDedup, this]

theorem hasGoX_flatten (l : List XCore) (s : Nat) (n : Name) :
    hasGoX l s n = hasGo (l.map XCore.flatten) s n := by
  induction l generalizing s with
  | nil => rfl
  | cons c rest ih =>
    cases c with
    | base c =>
      cases c with
      | oop fs a => simp only [hasGoX, List.map_cons, XCore.flatten, hasGo, ih]
      | omitC ns k => simp only [hasGoX, List.map_cons, XCore.flatten, hasGo, ih]
    | standalone sup this =>
      simp only [hasGoX, List.map_cons, XCore.flatten, hasGo, ih, lookup_flatFields,
        hasIdx_eq_vis_isSome, Option.isSome_map]

theorem visGoX_flatten (l : List XCore) (s : Nat) (ex : Bool) (n : Name) :
    visGoX l s ex n = visGo (l.map XCore.flatten) s ex n := by
  induction l generalizing s ex with
  | nil => rfl
  | cons c rest ih =>
    cases c with
    | base c =>
      cases c with
      | oop fs a =>
        simp only [visGoX, List.map_cons, XCore.flatten, visGo, ih]
        cases lookup fs n with
        | none => rfl
        | some f =>
          simp only
          split
          · cases f.vis <;> rfl
          · rfl
      | omitC ns k => simp only [visGoX, List.map_cons, XCore.flatten, visGo, ih]
    | standalone sup this =>
      simp only [visGoX, List.map_cons, XCore.flatten, visGo, ih, lookup_flatFields]
      cases visIdx this sup n with
      | none => rfl
      | some v =>
        simp only [Option.map_some]
        split
        · cases v <;> rfl
        · rfl

theorem visAllGo_oop (fs : List Field) (a : Bool) (rest : List Core) (i ou : Nat) (cur : Option Vis)
    (n : Name) :
    visAllGo (.oop fs a :: rest) i ou cur n =
      match lookup fs n with
      | some f => visAllGo rest (i + 1) ou (if ou ≤ i then updVis f.vis cur else cur) n
      | none => visAllGo rest (i + 1) ou cur n := by
  simp only [visAllGo]
  cases lookup fs n with
  | none => rfl
  | some f => simp only [updVis]; cases f.vis <;> rfl

theorem visAllGoX_flatten (l : List XCore) (i ou : Nat) (cur : Option Vis) (n : Name) :
    visAllGoX l i ou cur n = visAllGo (l.map XCore.flatten) i ou cur n := by
  induction l generalizing i ou cur with
  | nil => rfl
  | cons c rest ih =>
    cases c with
    | base c =>
      cases c with
      | oop fs a =>
        simp only [List.map_cons, XCore.flatten, visAllGo_oop, visAllGoX, ih]
        cases lookup fs n <;> rfl
      | omitC ns k => simp only [visAllGoX, List.map_cons, XCore.flatten, visAllGo, ih]
    | standalone sup this =>
      simp only [List.map_cons, XCore.flatten, visAllGo_oop, visAllGoX, ih, lookup_flatFields]
      cases hv : visIdx this sup n with
      | none => simp
      | some v =>
        have := visIdx_some_mem this sup n v hv
        simp [this]

theorem compileX_flatten (x : XT) : (compileX x).map XCore.flatten = compile (flattenT x) := by
  induction x with
  | base t => simp [compileX, flattenT, List.map_map, Function.comp_def, XCore.flatten]
  | sup t l => simp [compileX, flattenT, XCore.flatten, compile]
  | add a b iha ihb => simp [compileX, flattenT, compile, iha, ihb]
  | rm o ns ih =>
    have hl : (compileX o).length = (compile (flattenT o)).length := by
      rw [← ih, List.length_map]
    simp [compileX, flattenT, compile, ih, XCore.flatten, hl]

theorem visAll_some_mem (cores : List Core) (n : Name) (v : Vis) (h : visAll cores n = some v) :
    n ∈ coreNames cores := by
  have h0 := visAllGo_eq_visGo cores.reverse 0 0 0 false n rfl
  have h' : visIdx cores cores.length n = some v := by
    simp only [visIdx, List.take_length]
    rw [← h0]
    simpa [visAll, curOf] using h
  have := visIdx_some_mem cores cores.length n v h'
  simpa using this

theorem flatFields_names (this : List Core) (sup : Nat) (f : Field) (h : f ∈ flatFields this sup) :
    f.name ∈ coreNames (this.take sup) := by
  unfold flatFields at h
  obtain ⟨a, ha, hf⟩ := List.mem_filterMap.mp h
  cases hv : visIdx this sup a with
  | none => rw [hv] at hf; cases hf
  | some v =>
    rw [hv] at hf
    simp at hf
    rw [← hf]
    exact (mem_sortDedup _ _).mp ha

theorem coreNames_flatten_sub (cs : List XCore) (x : Name)
    (h : x ∈ coreNames (cs.map XCore.flatten)) : x ∈ xcoreNames cs := by
  induction cs with
  | nil => simp [coreNames] at h
  | cons c r ih =>
    cases c with
    | base c =>
      cases c with
      | oop fs a =>
        simp only [List.map_cons, XCore.flatten, coreNames, xcoreNames, List.mem_append] at h ⊢
        exact h.imp id ih
      | omitC ns k =>
        simp only [List.map_cons, XCore.flatten, coreNames, xcoreNames, List.mem_append] at h ⊢
        exact h.imp id ih
    | standalone sup this =>
      simp only [List.map_cons, XCore.flatten, coreNames, xcoreNames, List.mem_append] at h ⊢
      rcases h with h | h
      · left
        obtain ⟨f, hf, e⟩ := List.mem_map.mp h
        rw [← e]; exact flatFields_names this sup f hf
      · exact Or.inr (ih h)

theorem fieldsExX_mem_iff_flatten (cs : List XCore) (h : Bool) (x : Name) :
    x ∈ fieldsExX cs h ↔ x ∈ fieldsEx (cs.map XCore.flatten) h := by
  have hv : visAllX cs x = visAll (cs.map XCore.flatten) x := by
    simp [visAllX, visAll, visAllGoX_flatten, List.map_reverse]
  simp only [fieldsExX, fieldsEx, List.mem_filter, mem_sortDedup, hv]
  constructor
  · rintro ⟨_, hp⟩
    refine ⟨?_, hp⟩
    cases hq : visAll (cs.map XCore.flatten) x with
    | none => rw [hq] at hp; cases hp
    | some v => exact visAll_some_mem _ _ _ hq
  · rintro ⟨hm, hp⟩
    exact ⟨coreNames_flatten_sub cs x hm, hp⟩

end JrsVerif.Obj
