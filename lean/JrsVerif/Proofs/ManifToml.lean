/- C14 helper lemmas: the lines the TOML table writers start, read as TOML statements, rebuild the
   value (`build_items`).  Core Lean only. -/
import JrsVerif.Model.ManifDoc
import JrsVerif.Model.ManifTomlR

namespace JrsVerif.ManifTomlProofs
open JrsVerif.ManifDoc JrsVerif.ManifTomlR JrsVerif.ManifVal

abbrev Path := List (List Char)
abbrev VF := List (List Char × V)

/-! ### statements of the items; the same lists without depths -/

def stmtOf : Item → Stmt
  | .kv _ k v => .kv k v
  | .hdr _ arr path _ => .hdr arr path

def plainS : VF → List Stmt
  | [] => []
  | kv :: r => if isSection kv.2 then plainS r else .kv kv.1 kv.2 :: plainS r

mutual
def secS (skip : Bool) (path : Path) : VF → List Stmt
  | [] => []
  | kv :: r =>
    if isSection kv.2 then sectS skip (path ++ [kv.1]) kv.2 ++ secS skip path r
    else secS skip path r
def sectS (skip : Bool) (path : Path) : V → List Stmt
  | .obj kvs =>
    if skipHeader skip kvs then plainS kvs ++ secS skip path kvs
    else if kvs.isEmpty then [.hdr false path]
    else .hdr false path :: (plainS kvs ++ secS skip path kvs)
  | .arr xs => tableS skip path xs
  | _ => []
def tableS (skip : Bool) (path : Path) : List V → List Stmt
  | [] => []
  | x :: xs =>
    (match x with
     | .obj kvs =>
       if kvs.isEmpty then [.hdr true path]
       else .hdr true path :: (plainS kvs ++ secS skip path kvs)
     | _ => []) ++ tableS skip path xs
end

theorem plains_stmt (d : Nat) (kvs : VF) : (plains d kvs).map stmtOf = plainS kvs := by
  induction kvs with
  | nil => rfl
  | cons kv r ih => unfold plains plainS; split <;> simp [ih, stmtOf]

mutual
theorem secs_stmt (skip : Bool) (path : Path) (d : Nat) : (kvs : VF) →
    (secs skip path d kvs).map stmtOf = secS skip path kvs
  | [] => by simp [secs, secS]
  | kv :: r => by
    unfold secs secS
    split
    · rw [List.map_append, sect_stmt skip _ d kv.2, secs_stmt skip path d r]
    · exact secs_stmt skip path d r
theorem sect_stmt (skip : Bool) (path : Path) (d : Nat) : (v : V) →
    (sect skip path d v).map stmtOf = sectS skip path v
  | .obj kvs => by
    unfold sect sectS
    split
    · rw [List.map_append, plains_stmt, secs_stmt skip path d kvs]
    · split
      · simp [stmtOf]
      · rw [List.map_cons, List.map_append, plains_stmt, secs_stmt skip path (d + 1) kvs]; simp [stmtOf]
  | .arr xs => by unfold sect sectS; exact tables_stmt skip path d xs
  | .null => by simp [sect, sectS]
  | .bool _ => by simp [sect, sectS]
  | .num _ => by simp [sect, sectS]
  | .str _ => by simp [sect, sectS]
  | .func => by simp [sect, sectS]
theorem tables_stmt (skip : Bool) (path : Path) (d : Nat) : (xs : List V) →
    (tables skip path d xs).map stmtOf = tableS skip path xs
  | [] => by simp [tables, tableS]
  | x :: xs => by
    unfold tables tableS
    rw [List.map_append, tables_stmt skip path d xs]
    congr 1
    cases x with
    | obj kvs =>
      simp only
      split
      · simp [stmtOf]
      · rw [List.map_cons, List.map_append, plains_stmt, secs_stmt skip path (d + 1) kvs]; simp [stmtOf]
    | _ => simp
end

theorem items_stmt (skip : Bool) (kvs : VF) :
    (items skip kvs).map stmtOf = plainS kvs ++ secS skip [] kvs := by
  rw [items, List.map_append, plains_stmt, secs_stmt]

/-! ### statements relative to a path prefix -/

def pre (p : Path) : Stmt → Stmt
  | .kv k v => .kv k v
  | .hdr arr path => .hdr arr (p ++ path)

theorem plainS_pre (p : Path) (kvs : VF) : (plainS kvs).map (pre p) = plainS kvs := by
  induction kvs with
  | nil => rfl
  | cons kv r ih => unfold plainS; split <;> simp [ih, pre]

mutual
theorem secS_pre (skip : Bool) (p q : Path) : (kvs : VF) →
    secS skip (p ++ q) kvs = (secS skip q kvs).map (pre p)
  | [] => by simp [secS]
  | kv :: r => by
    unfold secS
    split
    · rw [List.map_append, ← secS_pre skip p q r, List.append_assoc, sectS_pre skip p (q ++ [kv.1]) kv.2]
    · exact secS_pre skip p q r
theorem sectS_pre (skip : Bool) (p q : Path) : (v : V) →
    sectS skip (p ++ q) v = (sectS skip q v).map (pre p)
  | .obj kvs => by
    unfold sectS
    split
    · rw [List.map_append, plainS_pre, secS_pre skip p q kvs]
    · split
      · simp [pre]
      · rw [List.map_cons, List.map_append, plainS_pre, secS_pre skip p q kvs]; simp [pre]
  | .arr xs => by unfold sectS; exact tableS_pre skip p q xs
  | .null => by simp [sectS]
  | .bool _ => by simp [sectS]
  | .num _ => by simp [sectS]
  | .str _ => by simp [sectS]
  | .func => by simp [sectS]
theorem tableS_pre (skip : Bool) (p q : Path) : (xs : List V) →
    tableS skip (p ++ q) xs = (tableS skip q xs).map (pre p)
  | [] => by simp [tableS]
  | x :: xs => by
    unfold tableS
    rw [List.map_append, ← tableS_pre skip p q xs]
    congr 1
    cases x with
    | obj kvs =>
      simp only
      split
      · simp [pre]
      · rw [List.map_cons, List.map_append, plainS_pre, secS_pre skip p q kvs]; simp [pre]
    | _ => simp
end

/-! ### the fields part of `run` -/

def execF (c : Path) (F : Fields) : Stmt → Option Fields
  | .kv k v => modifyAt c (insertNew k (.leaf v)) F
  | .hdr arr path =>
    match splitLast path with
    | none => none
    | some (p, l) => modifyAt p (if arr then appendTable l else insertNew l (.tbl [])) F

def nextCur (c : Path) : Stmt → Path
  | .kv _ _ => c
  | .hdr _ path => path

def runF : List Stmt → Path → Fields → Option Fields
  | [], _, F => some F
  | s :: ss, c, F => (execF c F s).bind (runF ss (nextCur c s))

theorem exec_eq (c : Path) (F : Fields) (s : Stmt) :
    exec (c, F) s = (execF c F s).map (fun r => (nextCur c s, r)) := by
  cases s with
  | kv k v => simp [exec, execF, nextCur]
  | hdr arr path =>
    simp only [exec, execF, nextCur]
    cases splitLast path with
    | none => rfl
    | some pl => rfl

theorem run_eq (ss : List Stmt) (c : Path) (F : Fields) :
    (run ss (c, F)).map (·.2) = runF ss c F := by
  induction ss generalizing c F with
  | nil => rfl
  | cons s ss ih =>
    simp only [run, runF, exec_eq]
    cases h : execF c F s with
    | none => rfl
    | some r => simp [ih]

/-! ### `updKey`, `modifyAt` -/

def keys (F : Fields) : List (List Char) := F.map (·.1)

theorem updKey_absent (k : List Char) (g : Option T → Option T) (F : Fields) (h : k ∉ keys F) :
    updKey k g F = (g none).map (fun t => F ++ [(k, t)]) := by
  induction F with
  | nil => simp only [updKey]; cases g none <;> rfl
  | cons kv r ih =>
    have h1 : kv.1 ≠ k := fun e => h (by simp [keys, e])
    have h2 : k ∉ keys r := fun e => h (by simp [keys] at e ⊢; exact Or.inr e)
    simp only [updKey, h1, if_false, ih h2]
    cases g none <;> rfl

theorem updKey_last (k : List Char) (g : Option T → Option T) (F : Fields) (t : T) (h : k ∉ keys F) :
    updKey k g (F ++ [(k, t)]) = (g (some t)).map (fun t' => F ++ [(k, t')]) := by
  induction F with
  | nil => simp only [List.nil_append, updKey, if_true]; cases g (some t) <;> rfl
  | cons kv r ih =>
    have h1 : kv.1 ≠ k := fun e => h (by simp [keys, e])
    have h2 : k ∉ keys r := fun e => h (by simp [keys] at e ⊢; exact Or.inr e)
    simp only [List.cons_append, updKey, h1, if_false, ih h2]
    cases g (some t) <;> rfl

theorem updKey_bind (k : List Char) (G H : Option T → Option T) (F : Fields) :
    (updKey k G F).bind (updKey k H) = updKey k (fun t? => (G t?).bind (fun t => H (some t))) F := by
  induction F with
  | nil =>
    simp only [updKey]
    cases G none with
    | none => rfl
    | some t => simp only [Option.bind_some, updKey, if_true]
  | cons kv r ih =>
    simp only [updKey]
    by_cases hk : kv.1 = k
    · simp only [hk, if_true]
      cases G (some kv.2) with
      | none => rfl
      | some t => simp only [Option.bind_some, updKey, if_true]
    · simp only [hk, if_false, ← ih]
      cases updKey k G r with
      | none => rfl
      | some r' => simp only [Option.bind_some, updKey, hk, if_false]

theorem modifyAt_append (p q : Path) (f : Fields → Option Fields) (F : Fields) :
    modifyAt (p ++ q) f F = modifyAt p (modifyAt q f) F := by
  induction p generalizing F with
  | nil => rfl
  | cons k ks ih => simp only [List.cons_append, modifyAt, ih]

/-- the navigation step of `modifyAt` -/
def nav (ks : Path) (f : Fields → Option Fields) : Option T → Option T
  | none => (modifyAt ks f []).map T.tbl
  | some (.tbl sub) => (modifyAt ks f sub).map T.tbl
  | some (.aot (.tbl sub :: es)) => (modifyAt ks f sub).map (fun s => T.aot (.tbl s :: es))
  | _ => none

theorem modifyAt_cons (k : List Char) (ks : Path) (f : Fields → Option Fields) (F : Fields) :
    modifyAt (k :: ks) f F = updKey k (nav ks f) F := by
  simp only [modifyAt]
  congr 1

theorem modifyAt_bind (p : Path) (g h : Fields → Option Fields) (F : Fields) :
    (modifyAt p g F).bind (modifyAt p h) = modifyAt p (fun s => (g s).bind h) F := by
  induction p generalizing F g h with
  | nil => rfl
  | cons k ks ih =>
    have hh : modifyAt (k :: ks) h = updKey k (nav ks h) := funext (modifyAt_cons k ks h)
    rw [modifyAt_cons, modifyAt_cons, hh, updKey_bind]
    congr 1
    funext t?
    have key : ∀ (sub : Fields) (w : Fields → T) (hw : ∀ s, nav ks h (some (w s)) = (modifyAt ks h s).map w),
        ((modifyAt ks g sub).map w).bind (fun t => nav ks h (some t)) =
          (modifyAt ks (fun s => (g s).bind h) sub).map w := by
      intro sub w hw
      rw [← ih]
      cases modifyAt ks g sub with
      | none => rfl
      | some s => simp [hw]
    match t? with
    | none => exact key [] T.tbl (fun s => rfl)
    | some (.tbl sub) => exact key sub T.tbl (fun s => rfl)
    | some (.aot (.tbl sub :: es)) => exact key sub (fun s => T.aot (.tbl s :: es)) (fun s => rfl)
    | some (.leaf _) => rfl
    | some (.aot []) => rfl
    | some (.aot (.leaf _ :: _)) => rfl
    | some (.aot (.aot _ :: _)) => rfl

/-! ### running statements below a prefix -/

def okS : Stmt → Prop
  | .hdr _ [] => False
  | _ => True

theorem splitLast_append (p : Path) : (path : Path) → path ≠ [] →
    splitLast (p ++ path) = (splitLast path).map (fun pl => (p ++ pl.1, pl.2)) := by
  induction p with
  | nil => intro path _; simp only [List.nil_append]; cases splitLast path <;> simp
  | cons k ks ih =>
    intro path hne
    have := ih path hne
    cases hp : ks ++ path with
    | nil => cases ks <;> simp_all
    | cons a b =>
      simp only [List.cons_append, hp, splitLast]
      rw [← hp, this]
      cases splitLast path <;> simp

theorem splitLast_ne (path : Path) (h : path ≠ []) : ∃ pl, splitLast path = some pl := by
  induction path with
  | nil => exact absurd rfl h
  | cons k r ih =>
    cases r with
    | nil => exact ⟨_, rfl⟩
    | cons a b =>
      obtain ⟨pl, hpl⟩ := ih (by simp)
      exact ⟨(k :: pl.1, pl.2), by simp only [splitLast, hpl]⟩

theorem execF_pre (p c : Path) (F : Fields) (s : Stmt) (hs : okS s) :
    execF (p ++ c) F (pre p s) = modifyAt p (fun sub => execF c sub s) F := by
  cases s with
  | kv k v => simp only [pre, execF, modifyAt_append]
  | hdr arr path =>
    have hne : path ≠ [] := by rintro rfl; exact hs
    obtain ⟨pl, hpl⟩ := splitLast_ne path hne
    simp only [pre, execF, splitLast_append p path hne, hpl, Option.map_some, modifyAt_append]

theorem nextCur_pre (p c : Path) (s : Stmt) : nextCur (p ++ c) (pre p s) = p ++ nextCur c s := by
  cases s <;> rfl

theorem runF_pre (p : Path) (ss : List Stmt) (hne : ss ≠ []) (hok : ∀ s, s ∈ ss → okS s) (c : Path) (F : Fields) :
    runF (ss.map (pre p)) (p ++ c) F = modifyAt p (runF ss c) F := by
  induction ss generalizing c F with
  | nil => exact absurd rfl hne
  | cons s ss ih =>
    have hs := hok s (by simp)
    simp only [List.map_cons, runF, execF_pre p c F s hs, nextCur_pre]
    cases ss with
    | nil =>
      simp only [List.map_nil, runF]
      have : (fun sub => (execF c sub s).bind fun F => some F) = fun sub => execF c sub s := by
        funext sub; cases execF c sub s <;> rfl
      rw [this]
      cases modifyAt p (fun sub => execF c sub s) F <;> rfl
    | cons s' ss' =>
      have ih' := fun c F => ih (by simp) (fun x hx => hok x (by simp [hx])) c F
      have : runF ((s' :: ss').map (pre p)) (p ++ nextCur c s) =
          modifyAt p (runF (s' :: ss') (nextCur c s)) := by
        funext F'; exact ih' _ _
      rw [this, modifyAt_bind]

theorem runF_append (a b : List Stmt) (c : Path) (F : Fields) :
    runF (a ++ b) c F = (runF a c F).bind (runF b (a.foldl nextCur c)) := by
  induction a generalizing c F with
  | nil => rfl
  | cons s a ih =>
    simp only [List.cons_append, runF, List.foldl_cons]
    cases execF c F s with
    | none => rfl
    | some r => simp only [Option.bind_some]; exact ih _ _

/-- empty or starting with a header: the current table at the start does not matter -/
def hf : List Stmt → Prop
  | .kv _ _ :: _ => False
  | _ => True

theorem runF_hf (ss : List Stmt) (h : hf ss) (c c' : Path) (F : Fields) : runF ss c F = runF ss c' F := by
  match ss, h with
  | [], _ => rfl
  | .hdr _ _ :: _, _ => rfl

/-- starting with a header -/
def hf1 : List Stmt → Prop
  | .hdr _ _ :: _ => True
  | _ => False

theorem hf1_hf {ss : List Stmt} (h : hf1 ss) : hf ss := by
  match ss, h with
  | .hdr _ _ :: _, _ => trivial

theorem hf1_ne {ss : List Stmt} (h : hf1 ss) : ss ≠ [] := by
  rintro rfl; exact h

theorem hf1_append {a : List Stmt} (b : List Stmt) (h : hf1 a) : hf1 (a ++ b) := by
  match a, h with
  | .hdr _ _ :: _, _ => trivial

theorem hf1_map_pre {a : List Stmt} (p : Path) (h : hf1 a) : hf1 (a.map (pre p)) := by
  match a, h with
  | .hdr _ _ :: _, _ => trivial

/-! ### the lines of a section start with a header — in particular there is at least one
    (this is where `!obj.is_empty()` in the guard of manifest_table is needed) -/

theorem plainS_all_sections (kvs : VF) (h : kvs.all (fun kv => isSection kv.2) = true) : plainS kvs = [] := by
  induction kvs with
  | nil => rfl
  | cons kv r ih =>
    simp only [List.all_cons, Bool.and_eq_true] at h
    simp [plainS, h.1, ih h.2]

theorem tableS_hf1 (skip : Bool) (path : Path) (xs : List V) (hne : xs.isEmpty = false)
    (hall : xs.all V.isObj = true) : hf1 (tableS skip path xs) := by
  match xs, hne, hall with
  | .obj kvs :: r, _, _ =>
    unfold tableS
    apply hf1_append
    simp only
    split <;> trivial

mutual
theorem sectS_hf1 (skip : Bool) (path : Path) : (v : V) → isSection v = true → hf1 (sectS skip path v)
  | .obj kvs, _ => by
    unfold sectS
    split
    · rename_i hsk
      simp only [skipHeader, Bool.and_eq_true] at hsk
      rw [plainS_all_sections kvs hsk.2, List.nil_append]
      exact secS_hf1 skip path kvs (by simpa using hsk.1.2) hsk.2
    · split <;> trivial
  | .arr xs, h => by
    unfold sectS
    simp only [isSection, Bool.and_eq_true] at h
    exact tableS_hf1 skip path xs (by simpa using h.1) h.2
  | .null, h => by simp [isSection] at h
  | .bool _, h => by simp [isSection] at h
  | .num _, h => by simp [isSection] at h
  | .str _, h => by simp [isSection] at h
  | .func, h => by simp [isSection] at h
theorem secS_hf1 (skip : Bool) (path : Path) : (kvs : VF) → kvs.isEmpty = false →
    kvs.all (fun kv => isSection kv.2) = true → hf1 (secS skip path kvs)
  | kv :: r, _, h => by
    simp only [List.all_cons, Bool.and_eq_true] at h
    unfold secS
    simp only [h.1, if_true]
    exact hf1_append _ (sectS_hf1 skip _ kv.2 h.1)
end

theorem secS_hf (skip : Bool) (path : Path) (kvs : VF) : hf (secS skip path kvs) := by
  induction kvs with
  | nil => trivial
  | cons kv r ih =>
    unfold secS
    split
    · rename_i h; exact hf1_hf (hf1_append _ (sectS_hf1 skip _ kv.2 h))
    · exact ih

theorem tableS_hf (skip : Bool) (path : Path) (xs : List V) : hf (tableS skip path xs) := by
  induction xs with
  | nil => trivial
  | cons x xs ih =>
    unfold tableS
    cases x with
    | obj kvs => simp only; split <;> trivial
    | _ => simpa using ih

theorem plainS_ok (kvs : VF) : ∀ s, s ∈ plainS kvs → okS s := by
  induction kvs with
  | nil => intro s h; cases h
  | cons kv r ih =>
    unfold plainS
    split
    · exact ih
    · intro s h
      rcases List.mem_cons.mp h with rfl | h
      · trivial
      · exact ih s h

mutual
theorem secS_ok (skip : Bool) (path : Path) : (kvs : VF) → ∀ s, s ∈ secS skip path kvs → okS s
  | [], s, h => by simp [secS] at h
  | kv :: r, s, h => by
    unfold secS at h
    split at h
    · rcases List.mem_append.mp h with h | h
      · exact sectS_ok skip (path ++ [kv.1]) (by simp) kv.2 s h
      · exact secS_ok skip path r s h
    · exact secS_ok skip path r s h
theorem sectS_ok (skip : Bool) (path : Path) (hp : path ≠ []) : (v : V) → ∀ s, s ∈ sectS skip path v → okS s
  | .obj kvs, s, h => by
    have hh : okS (.hdr false path) := by cases path with | nil => exact absurd rfl hp | cons _ _ => trivial
    have inner : ∀ s, s ∈ plainS kvs ++ secS skip path kvs → okS s := by
      intro s h
      rcases List.mem_append.mp h with h | h
      · exact plainS_ok kvs s h
      · exact secS_ok skip path kvs s h
    unfold sectS at h
    split at h
    · exact inner s h
    · split at h
      · rcases List.mem_singleton.mp h with rfl; exact hh
      · rcases List.mem_cons.mp h with rfl | h
        · exact hh
        · exact inner s h
  | .arr xs, s, h => by unfold sectS at h; exact tableS_ok skip path hp xs s h
  | .null, s, h => by simp [sectS] at h
  | .bool _, s, h => by simp [sectS] at h
  | .num _, s, h => by simp [sectS] at h
  | .str _, s, h => by simp [sectS] at h
  | .func, s, h => by simp [sectS] at h
theorem tableS_ok (skip : Bool) (path : Path) (hp : path ≠ []) : (xs : List V) → ∀ s, s ∈ tableS skip path xs → okS s
  | [], s, h => by simp [tableS] at h
  | x :: xs, s, h => by
    have hh : okS (.hdr true path) := by cases path with | nil => exact absurd rfl hp | cons _ _ => trivial
    unfold tableS at h
    rcases List.mem_append.mp h with h | h
    · cases x with
      | obj kvs =>
        simp only at h
        split at h
        · rcases List.mem_singleton.mp h with rfl; exact hh
        · rcases List.mem_cons.mp h with rfl | h
          · exact hh
          · rcases List.mem_append.mp h with h | h
            · exact plainS_ok kvs s h
            · exact secS_ok skip path kvs s h
      | _ => simp at h
    · exact tableS_ok skip path hp xs s h
end

/-! ### the tree the statements must build, and the value it stands for -/

def tP : VF → Fields
  | [] => []
  | kv :: r => if isSection kv.2 then tP r else (kv.1, .leaf kv.2) :: tP r

mutual
def tS : VF → Fields
  | [] => []
  | kv :: r => if isSection kv.2 then (kv.1, tV kv.2) :: tS r else tS r
def tV : V → T
  | .obj kvs => .tbl (tP kvs ++ tS kvs)
  | .arr xs => .aot (tL xs).reverse
  | .null => .leaf .null
  | .bool b => .leaf (.bool b)
  | .num t => .leaf (.num t)
  | .str s => .leaf (.str s)
  | .func => .leaf .func
def tL : List V → List T
  | [] => []
  | x :: xs => tV x :: tL xs
end

/-- the non-section members of a table, in order (written first) -/
def layoutP : VF → VF
  | [] => []
  | kv :: r => if isSection kv.2 then layoutP r else kv :: layoutP r

mutual
/-- the section members of a table, in order, each laid out the same way -/
def layoutS : VF → VF
  | [] => []
  | kv :: r => if isSection kv.2 then (kv.1, layoutV kv.2) :: layoutS r else layoutS r
def layoutV : V → V
  | .obj kvs => .obj (layoutP kvs ++ layoutS kvs)
  | .arr xs => .arr (layoutL xs)
  | .null => .null
  | .bool b => .bool b
  | .num t => .num t
  | .str s => .str s
  | .func => .func
def layoutL : List V → List V
  | [] => []
  | x :: xs => layoutV x :: layoutL xs
end

theorem toVF_append (a b : Fields) : toVF (a ++ b) = toVF a ++ toVF b := by
  induction a with
  | nil => rfl
  | cons kv r ih => simp [toVF, ih]

theorem toVL_map (l : List T) : toVL l = l.map toV := by
  induction l with
  | nil => rfl
  | cons t r ih => simp [toVL, ih]

theorem toVF_tP (kvs : VF) : toVF (tP kvs) = layoutP kvs := by
  induction kvs with
  | nil => rfl
  | cons kv r ih => unfold tP layoutP; split <;> simp [toVF, toV, ih]

mutual
theorem toVF_tS : (kvs : VF) → toVF (tS kvs) = layoutS kvs
  | [] => rfl
  | kv :: r => by
    unfold tS layoutS
    split
    · simp only [toVF]; rw [toV_tV kv.2, toVF_tS r]
    · exact toVF_tS r
theorem toV_tV : (v : V) → toV (tV v) = layoutV v
  | .obj kvs => by simp only [tV, toV, layoutV, toVF_append, toVF_tP, toVF_tS kvs]
  | .arr xs => by
    simp only [tV, toV, layoutV, toVL_map, List.map_reverse, List.reverse_reverse]
    rw [← toVL_map, toVL_tL xs]
  | .null => rfl
  | .bool _ => rfl
  | .num _ => rfl
  | .str _ => rfl
  | .func => rfl
theorem toVL_tL : (xs : List V) → toVL (tL xs) = layoutL xs
  | [] => rfl
  | x :: xs => by simp only [tL, toVL, layoutL]; rw [toV_tV x, toVL_tL xs]
end

/-! ### distinct keys -/

theorem distinct_nodup : (l : List (List Char)) → distinctKeysL l = true → l.Nodup
  | [], _ => List.nodup_nil
  | k :: r, h => by
    unfold distinctKeysL at h
    simp only [Bool.and_eq_true, Bool.not_eq_true', List.contains_eq_mem, decide_eq_false_iff_not] at h
    exact List.nodup_cons.mpr ⟨h.1, distinct_nodup r h.2⟩

theorem nodup_mid {a b : List (List Char)} {k : List Char} (h : (a ++ k :: b).Nodup) : k ∉ a := by
  induction a with
  | nil => simp
  | cons x a ih =>
    rw [List.cons_append, List.nodup_cons] at h
    intro hk
    rcases List.mem_cons.mp hk with rfl | hk
    · exact h.1 (by simp)
    · exact ih h.2 hk

theorem keys_append (a b : Fields) : keys (a ++ b) = keys a ++ keys b := by simp [keys]

theorem keys_perm (kvs : VF) : (keys (tP kvs) ++ keys (tS kvs)).Perm (kvs.map (·.1)) := by
  induction kvs with
  | nil => simp [tP, tS, keys]
  | cons kv r ih =>
    unfold tP tS
    split
    · simp only [keys, List.map_cons]
      exact List.perm_middle.trans (List.Perm.cons _ ih)
    · simp only [keys, List.map_cons, List.cons_append]
      exact List.Perm.cons _ ih

theorem tP_all_sections (kvs : VF) (h : kvs.all (fun kv => isSection kv.2) = true) : tP kvs = [] := by
  induction kvs with
  | nil => rfl
  | cons kv r ih =>
    simp only [List.all_cons, Bool.and_eq_true] at h
    simp [tP, h.1, ih h.2]

/-! ### the statements rebuild the tree -/

theorem insertNew_absent (k : List Char) (t : T) (F : Fields) (h : k ∉ keys F) :
    insertNew k t F = some (F ++ [(k, t)]) := by
  simp [insertNew, updKey_absent k _ F h]

theorem main_plains (kvs : VF) : ∀ (F : Fields), (keys F ++ keys (tP kvs)).Nodup →
    runF (plainS kvs) [] F = some (F ++ tP kvs) := by
  induction kvs with
  | nil => intro F _; simp [plainS, tP, runF]
  | cons kv r ih =>
    intro F h
    unfold plainS tP
    unfold tP at h
    split
    · rename_i hs; simp only [hs, if_true] at h; exact ih F h
    · rename_i hs
      simp only [hs] at h
      have hk : kv.1 ∉ keys F := nodup_mid (by simpa [keys] using h)
      simp only [runF, execF, modifyAt, insertNew_absent _ _ F hk, Option.bind_some, nextCur]
      have := ih (F ++ [(kv.1, T.leaf kv.2)]) (by simpa [keys] using h)
      rw [this]
      simp

theorem inner (skip : Bool) (sub : VF) (hd : (sub.map (·.1)).Nodup)
    (IH : ∀ (F : Fields) (c : Path), (keys F ++ keys (tS sub)).Nodup →
      runF (secS skip [] sub) c F = some (F ++ tS sub)) :
    runF (plainS sub ++ secS skip [] sub) [] [] = some (tP sub ++ tS sub) := by
  have hn : (keys (tP sub) ++ keys (tS sub)).Nodup := (keys_perm sub).nodup_iff.mpr hd
  have h1 : (keys ([] : Fields) ++ keys (tP sub)).Nodup := by
    simpa [keys] using (List.nodup_append.mp hn).1
  rw [runF_append, main_plains sub [] h1]
  simp only [Option.bind_some, List.nil_append]
  exact IH (tP sub) _ hn

theorem inner_ne (skip : Bool) (sub : VF) (h : sub.isEmpty = false) :
    plainS sub ++ secS skip [] sub ≠ [] := by
  match sub, h with
  | kv :: r, _ =>
    by_cases hs : isSection kv.2 = true
    · have := hf1_ne (hf1_append (secS skip [] r) (sectS_hf1 skip ([] ++ [kv.1]) kv.2 hs))
      intro e
      apply this
      have e2 := (List.append_eq_nil_iff.mp e).2
      simpa [secS, hs] using e2
    · simp [plainS, hs]

theorem inner_ok (skip : Bool) (sub : VF) : ∀ s, s ∈ plainS sub ++ secS skip [] sub → okS s := by
  intro s h
  rcases List.mem_append.mp h with h | h
  · exact plainS_ok sub s h
  · exact secS_ok skip [] sub s h

theorem inner_pre (skip : Bool) (k : List Char) (sub : VF) :
    (plainS sub ++ secS skip [] sub).map (pre [k]) = plainS sub ++ secS skip [k] sub := by
  have := secS_pre skip [k] [] sub
  simp only [List.append_nil] at this
  rw [List.map_append, plainS_pre, this]

/-- running the (non-empty) lines of a table below key `k` fills the table at `k` -/
theorem fill (k : List Char) (ss : List Stmt) (hne : ss ≠ []) (hok : ∀ s, s ∈ ss → okS s) (R : Fields)
    (hR : runF ss [] [] = some R) (F : Fields) (hk : k ∉ keys F) :
    runF (ss.map (pre [k])) [k] F = some (F ++ [(k, .tbl R)]) ∧
    runF (ss.map (pre [k])) [k] (F ++ [(k, .tbl [])]) = some (F ++ [(k, .tbl R)]) ∧
    ∀ es, runF (ss.map (pre [k])) [k] (F ++ [(k, .aot (.tbl [] :: es))]) = some (F ++ [(k, .aot (.tbl R :: es))]) := by
  have e : ∀ G, runF (ss.map (pre [k])) [k] G = modifyAt [k] (runF ss []) G := by
    intro G
    have := runF_pre [k] ss hne hok [] G
    simpa using this
  refine ⟨?_, ?_, ?_⟩
  · rw [e, modifyAt_cons, updKey_absent k _ F hk]; simp [nav, modifyAt, hR]
  · rw [e, modifyAt_cons, updKey_last k _ F _ hk]; simp [nav, modifyAt, hR]
  · intro es; rw [e, modifyAt_cons, updKey_last k _ F _ hk]; simp [nav, modifyAt, hR]

/-- header and body of one element of an array of tables -/
theorem one_table (skip : Bool) (k : List Char) (sub : VF) (hd : (sub.map (·.1)).Nodup)
    (IH : ∀ (F : Fields) (c : Path), (keys F ++ keys (tS sub)).Nodup →
      runF (secS skip [] sub) c F = some (F ++ tS sub))
    (G F : Fields) (es : List T) (hk : k ∉ keys F)
    (hG : appendTable k G = some (F ++ [(k, .aot (.tbl [] :: es))])) (c : Path) :
    runF (if sub.isEmpty then [Stmt.hdr true [k]] else .hdr true [k] :: (plainS sub ++ secS skip [k] sub)) c G =
      some (F ++ [(k, .aot (.tbl (tP sub ++ tS sub) :: es))]) := by
  by_cases he : sub.isEmpty = true
  · have : sub = [] := by simpa using he
    subst this
    simp [runF, execF, splitLast, modifyAt, hG, tP, tS]
  · have he' : sub.isEmpty = false := by simpa using he
    simp only [he', Bool.false_eq_true, if_false, runF, execF, splitLast, modifyAt, if_true, hG, Option.bind_some, nextCur]
    rw [← inner_pre]
    exact (fill k _ (inner_ne skip sub he') (inner_ok skip sub) _ (inner skip sub hd IH) F hk).2.2 es

mutual
theorem main_secs (skip : Bool) : (kvs : VF) → inlineOkF kvs = true → ∀ (F : Fields) (c : Path),
    (keys F ++ keys (tS kvs)).Nodup → runF (secS skip [] kvs) c F = some (F ++ tS kvs)
  | [], _, F, c, _ => by simp [secS, tS, runF]
  | kv :: r, hw, F, c, hn => by
    unfold inlineOkF at hw
    simp only [Bool.and_eq_true] at hw
    unfold secS tS
    unfold tS at hn
    by_cases hs : isSection kv.2 = true
    · simp only [hs, if_true] at hn ⊢
      have hk : kv.1 ∉ keys F := nodup_mid (by simpa [keys] using hn)
      rw [runF_append, List.nil_append, main_sect skip kv.1 kv.2 hs hw.1 F c hk]
      simp only [Option.bind_some]
      rw [runF_hf _ (secS_hf skip [] r) _ c,
        main_secs skip r hw.2 (F ++ [(kv.1, tV kv.2)]) c (by simpa [keys] using hn)]
      simp
    · simp only [hs] at hn ⊢
      exact main_secs skip r hw.2 F c hn
theorem main_sect (skip : Bool) (k : List Char) : (v : V) → isSection v = true → inlineOk v = true →
    ∀ (F : Fields) (c : Path), k ∉ keys F → runF (sectS skip [k] v) c F = some (F ++ [(k, tV v)])
  | .obj sub, _, hw, F, c, hk => by
    unfold inlineOk at hw
    simp only [Bool.and_eq_true] at hw
    have hd : (sub.map (·.1)).Nodup := distinct_nodup _ hw.1
    have IH := main_secs skip sub hw.2
    unfold sectS tV
    split
    · rename_i hsk
      simp only [skipHeader, Bool.and_eq_true] at hsk
      have hne : sub.isEmpty = false := by simpa using hsk.1.2
      rw [← inner_pre]
      have h1 : hf1 (plainS sub ++ secS skip [] sub) := by
        rw [plainS_all_sections sub hsk.2, List.nil_append]
        exact secS_hf1 skip [] sub hne hsk.2
      rw [runF_hf _ (hf1_hf (hf1_map_pre [k] h1)) c [k]]
      exact (fill k _ (inner_ne skip sub hne) (inner_ok skip sub) _ (inner skip sub hd IH) F hk).1
    · split
      · rename_i he
        have : sub = [] := by simpa using he
        subst this
        simp [runF, execF, splitLast, modifyAt, insertNew_absent _ _ F hk, tP, tS]
      · rename_i he
        have he' : sub.isEmpty = false := by simpa using he
        simp only [runF, execF, splitLast, modifyAt, Bool.false_eq_true, if_false, insertNew_absent _ _ F hk,
          Option.bind_some, nextCur]
        rw [← inner_pre]
        exact (fill k _ (inner_ne skip sub he') (inner_ok skip sub) _ (inner skip sub hd IH) F hk).2.1
  | .arr (.obj sub :: xs), hs, hw, F, c, hk => by
    simp only [isSection, List.all_cons, Bool.and_eq_true] at hs
    unfold inlineOk inlineOkL at hw
    simp only [Bool.and_eq_true] at hw
    have hw1 := hw.1
    unfold inlineOk at hw1
    simp only [Bool.and_eq_true] at hw1
    have hd : (sub.map (·.1)).Nodup := distinct_nodup _ hw1.1
    have IH := main_secs skip sub hw1.2
    have hG : appendTable k F = some (F ++ [(k, .aot (.tbl [] :: []))]) := by
      simp [appendTable, updKey_absent k _ F hk]
    unfold sectS tableS
    rw [runF_append, one_table skip k sub hd IH F F [] hk hG c]
    simp only [Option.bind_some]
    rw [runF_hf _ (tableS_hf skip [k] xs) _ c, main_tables skip k xs hs.2.2 hw.2 F _ c hk]
    simp [tV, tL, List.reverse_cons]
  | .arr [], hs, _, _, _, _ => by simp [isSection] at hs
  | .arr (.null :: _), hs, _, _, _, _ => by simp [isSection, V.isObj] at hs
  | .arr (.bool _ :: _), hs, _, _, _, _ => by simp [isSection, V.isObj] at hs
  | .arr (.num _ :: _), hs, _, _, _, _ => by simp [isSection, V.isObj] at hs
  | .arr (.str _ :: _), hs, _, _, _, _ => by simp [isSection, V.isObj] at hs
  | .arr (.func :: _), hs, _, _, _, _ => by simp [isSection, V.isObj] at hs
  | .arr (.arr _ :: _), hs, _, _, _, _ => by simp [isSection, V.isObj] at hs
  | .null, hs, _, _, _, _ => by simp [isSection] at hs
  | .bool _, hs, _, _, _, _ => by simp [isSection] at hs
  | .num _, hs, _, _, _, _ => by simp [isSection] at hs
  | .str _, hs, _, _, _, _ => by simp [isSection] at hs
  | .func, hs, _, _, _, _ => by simp [isSection] at hs
theorem main_tables (skip : Bool) (k : List Char) : (xs : List V) → xs.all V.isObj = true → inlineOkL xs = true →
    ∀ (F : Fields) (es : List T) (c : Path), k ∉ keys F →
    runF (tableS skip [k] xs) c (F ++ [(k, .aot es)]) = some (F ++ [(k, .aot ((tL xs).reverse ++ es))])
  | [], _, _, F, es, c, _ => by simp [tableS, runF, tL]
  | .obj sub :: xs, hs, hw, F, es, c, hk => by
    simp only [List.all_cons, Bool.and_eq_true] at hs
    unfold inlineOkL at hw
    simp only [Bool.and_eq_true] at hw
    have hw1 := hw.1
    unfold inlineOk at hw1
    simp only [Bool.and_eq_true] at hw1
    have hd : (sub.map (·.1)).Nodup := distinct_nodup _ hw1.1
    have IH := main_secs skip sub hw1.2
    have hG : appendTable k (F ++ [(k, .aot es)]) = some (F ++ [(k, .aot (.tbl [] :: es))]) := by
      simp [appendTable, updKey_last k _ F _ hk]
    unfold tableS
    rw [runF_append, one_table skip k sub hd IH _ F es hk hG c]
    simp only [Option.bind_some]
    rw [runF_hf _ (tableS_hf skip [k] xs) _ c, main_tables skip k xs hs.2 hw.2 F _ c hk]
    simp [tV, tL, List.reverse_cons]
  | .null :: _, hs, _, _, _, _, _ => by simp [V.isObj] at hs
  | .bool _ :: _, hs, _, _, _, _, _ => by simp [V.isObj] at hs
  | .num _ :: _, hs, _, _, _, _, _ => by simp [V.isObj] at hs
  | .str _ :: _, hs, _, _, _, _, _ => by simp [V.isObj] at hs
  | .func :: _, hs, _, _, _, _, _ => by simp [V.isObj] at hs
  | .arr _ :: _, hs, _, _, _, _, _ => by simp [V.isObj] at hs
end

/-- what `layoutP ++ layoutS` is: the same members (sections laid out recursively), reordered -/
theorem layout_perm (kvs : VF) :
    (layoutP kvs ++ layoutS kvs).Perm (kvs.map (fun kv => (kv.1, if isSection kv.2 then layoutV kv.2 else kv.2))) := by
  induction kvs with
  | nil => simp [layoutP, layoutS]
  | cons kv r ih =>
    unfold layoutP layoutS
    split
    · rename_i hs
      simp only [List.map_cons, hs, if_true]
      exact List.perm_middle.trans (List.Perm.cons _ ih)
    · rename_i hs
      simp only [List.map_cons, hs, List.cons_append]
      exact List.Perm.cons _ ih

/-- The lines started by the table writers, read as TOML statements, build the value again. -/
theorem build_items (skip : Bool) (kvs : VF) (hw : inlineOk (.obj kvs) = true) :
    build ((items skip kvs).map stmtOf) = some (.obj (layoutP kvs ++ layoutS kvs)) := by
  unfold inlineOk at hw
  simp only [Bool.and_eq_true] at hw
  have h := inner skip kvs (distinct_nodup _ hw.1) (main_secs skip kvs hw.2)
  rw [items_stmt]
  have hr := run_eq (plainS kvs ++ secS skip [] kvs) [] []
  rw [h] at hr
  unfold build
  cases hrun : run (plainS kvs ++ secS skip [] kvs) ([], []) with
  | none => rw [hrun] at hr; simp at hr
  | some st =>
    rw [hrun] at hr
    simp only [Option.map_some, Option.some.injEq] at hr
    simp only [hr, toVF_append, toVF_tP, toVF_tS]

end JrsVerif.ManifTomlProofs
