/- C13 helper lemmas: std.prune -/
import JrsVerif.Proofs.StdObjEq

namespace JrsVerif.StdObj

theorem lookup_pruneOuts (fs : FL) (k : String) :
    (Model.pruneOuts fs).lookup k = (fs.find? k).map (fun p => Model.prune p.2) := by
  induction fs using FL.ind with
  | nil => rfl
  | cons n h v rest ih =>
    simp only [Model.pruneOuts, FL.find?]
    by_cases hn : n = k
    · subst hn; simp
    · simp [lookup_cons_ne _ _ hn, hn, ih]

theorem lookup_pruneF (fs : FL) (k : String) :
    (Spec.pruneF fs).lookup k = (fs.find? k).map (fun p => Spec.prune p.2) := by
  induction fs using FL.ind with
  | nil => rfl
  | cons n h v rest ih =>
    simp only [Spec.pruneF, FL.find?]
    by_cases hn : n = k
    · subst hn; simp
    · simp [lookup_cons_ne _ _ hn, hn, ih]

/-- the loop = the filtered comprehension, provided the per-entry prunings agree -/
theorem pruneLoop_eq (fs : FL)
    (IH : ∀ k hid v, fs.find? k = some (hid, v) → Model.prune v = Spec.prune v) (ks : List String) :
    pruneLoop (Model.pruneOuts fs) ks =
      (sequence (ks.map (fun k => (k, ((Spec.pruneF fs).lookup k).join)))).map filterContent := by
  induction ks with
  | nil => simp [pruneLoop, sequence, filterContent]
  | cons k ks ih =>
    simp only [pruneLoop, List.map_cons]
    rw [lookup_pruneOuts, ih]
    have hhead : ((Spec.pruneF fs).lookup k).join =
        ((fs.find? k).map (fun p => Spec.prune p.2)).join := by rw [lookup_pruneF]
    rw [hhead]
    cases hf : fs.find? k with
    | none => simp [sequence]
    | some p =>
      obtain ⟨hid, v⟩ := p
      simp only [Option.map_some, Option.join_some]
      rw [← IH k hid v hf]
      cases hp : Model.prune v with
      | none => simp [sequence]
      | some r =>
        simp only [sequence]
        generalize sequence (ks.map (fun k => (k, ((Spec.pruneF fs).lookup k).join))) = tail
        cases tail with
        | none => by_cases hc : isContent r <;> simp [hc]
        | some rest => by_cases hc : isContent r <;> simp [hc, filterContent]

mutual
theorem prune_spec_V : ∀ (v : V), Model.prune v = Spec.prune v
  | .err => by simp [Model.prune, Spec.prune]
  | .null => by simp [Model.prune, Spec.prune]
  | .bool _ => by simp [Model.prune, Spec.prune]
  | .num _ => by simp [Model.prune, Spec.prune]
  | .str _ => by simp [Model.prune, Spec.prune]
  | .func _ => by simp [Model.prune, Spec.prune]
  | .arr xs => by
    simp only [Model.prune, Spec.prune]
    rw [prune_spec_VL xs]
    cases allSome (Spec.pruneL xs) <;> simp
  | .obj fs => by
    simp only [Model.prune, Spec.prune]
    rw [pruneLoop_eq fs (fun k hid v hf => prune_spec_FL fs k hid v hf)]
    simp [Option.map_map]
    rfl
theorem prune_spec_VL : ∀ (xs : VL),
    Model.pruneL xs = (allSome (Spec.pruneL xs)).map (fun l => l.filter isContent)
  | .nil => by simp [Model.pruneL, Spec.pruneL, allSome]
  | .cons v vs => by
    simp only [Model.pruneL, Spec.pruneL]
    rw [prune_spec_V v, prune_spec_VL vs]
    cases hp : Spec.prune v with
    | none => simp [allSome]
    | some r =>
      simp only [allSome]
      cases allSome (Spec.pruneL vs) with
      | none => simp
      | some rs => by_cases hc : isContent r <;> simp [hc]
theorem prune_spec_FL : ∀ (fs : FL) (k : String) (hid : Bool) (v : V),
    fs.find? k = some (hid, v) → Model.prune v = Spec.prune v
  | .nil, k, hid, v, hf => by simp [FL.find?] at hf
  | .cons n h' v' rest, k, hid, v, hf => by
    simp only [FL.find?] at hf
    split at hf
    · simp at hf; obtain ⟨_, rfl⟩ := hf
      exact prune_spec_V v'
    · exact prune_spec_FL rest k hid v hf
end


/-! ### idempotence: results are in pruned normal form, and pruning fixes that form -/

mutual
/-- normal form produced by `prune`: no failing thunk; arrays hold only content; objects have only
    visible fields, ascending names, only content -/
def Pruned : V → Prop
  | .err => False
  | .arr xs => PrunedL xs
  | .obj fs => PrunedF fs ∧ Asc fs.names
  | _ => True
def PrunedL : VL → Prop
  | .nil => True
  | .cons v vs => Pruned v ∧ isContent v = true ∧ PrunedL vs
def PrunedF : FL → Prop
  | .nil => True
  | .cons _ h v rest => h = false ∧ Pruned v ∧ isContent v = true ∧ PrunedF rest
end

theorem prunedL_ofList {l : List V} (h : ∀ v ∈ l, Pruned v ∧ isContent v = true) :
    PrunedL (VL.ofList l) := by
  induction l with
  | nil => simp [VL.ofList, PrunedL]
  | cons x xs ih =>
    simp only [VL.ofList, PrunedL]
    exact ⟨(h x (by simp)).1, (h x (by simp)).2, ih (fun v hv => h v (List.mem_cons_of_mem _ hv))⟩

/-- the loop yields an object in normal form whose names are a sub-list of the names walked -/
theorem pruneLoop_pruned (outs : List (String × Option V))
    (H : ∀ k v, outs.lookup k = some (some v) → Pruned v) :
    ∀ (ks : List String) (r : FL), pruneLoop outs ks = some r → PrunedF r ∧ r.names.Sublist ks := by
  intro ks
  induction ks with
  | nil => intro r h; simp [pruneLoop] at h; subst h; simp [PrunedF, FL.names]
  | cons k ks ih =>
    intro r h
    simp only [pruneLoop] at h
    split at h
    · rename_i rv hl
      split at h
      · rename_i hc
        cases hr : pruneLoop outs ks with
        | none => simp [hr] at h
        | some r' =>
          simp [hr] at h; subst h
          obtain ⟨hp, hs⟩ := ih r' hr
          exact ⟨⟨rfl, H k rv hl, hc, hp⟩, by simpa [FL.names] using hs⟩
      · obtain ⟨hp, hs⟩ := ih r h
        exact ⟨hp, hs.trans (List.sublist_cons_self k ks)⟩
    · simp at h

mutual
theorem prune_pruned_V : ∀ (v r : V), Model.prune v = some r → Pruned r
  | .err, r, h => by simp [Model.prune] at h
  | .null, r, h => by simp [Model.prune] at h; subst h; simp [Pruned]
  | .bool _, r, h => by simp [Model.prune] at h; subst h; simp [Pruned]
  | .num _, r, h => by simp [Model.prune] at h; subst h; simp [Pruned]
  | .str _, r, h => by simp [Model.prune] at h; subst h; simp [Pruned]
  | .func _, r, h => by simp [Model.prune] at h; subst h; simp [Pruned]
  | .arr xs, r, h => by
    simp only [Model.prune] at h
    cases hl : Model.pruneL xs with
    | none => simp [hl] at h
    | some l =>
      simp [hl] at h; subst h
      simp only [Pruned]
      exact prunedL_ofList (prune_pruned_VL xs l hl)
  | .obj fs, r, h => by
    simp only [Model.prune] at h
    cases hl : pruneLoop (Model.pruneOuts fs) (fieldsEx fs false) with
    | none => simp [hl] at h
    | some r' =>
      simp [hl] at h; subst h
      have := pruneLoop_pruned (Model.pruneOuts fs) (by
        intro k v hk
        rw [lookup_pruneOuts] at hk
        cases hf : fs.find? k with
        | none => simp [hf] at hk
        | some p =>
          obtain ⟨hid, w⟩ := p
          simp [hf] at hk
          exact prune_pruned_FL fs k hid w hf v hk) _ r' hl
      exact ⟨this.1, (fieldsEx_asc fs false).sublist this.2⟩
theorem prune_pruned_VL : ∀ (xs : VL) (l : List V), Model.pruneL xs = some l →
    ∀ v ∈ l, Pruned v ∧ isContent v = true
  | .nil, l, h => by simp [Model.pruneL] at h; subst h; simp
  | .cons x xs, l, h => by
    simp only [Model.pruneL] at h
    cases hx : Model.prune x with
    | none => simp [hx] at h
    | some rx =>
      cases hxs : Model.pruneL xs with
      | none => simp [hx, hxs] at h
      | some rs =>
        simp [hx, hxs] at h; subst h
        intro v hv
        by_cases hc : isContent rx = true
        · simp [hc] at hv
          rcases hv with rfl | hv
          · exact ⟨prune_pruned_V x v hx, hc⟩
          · exact prune_pruned_VL xs rs hxs v hv
        · simp [hc] at hv
          exact prune_pruned_VL xs rs hxs v hv
theorem prune_pruned_FL : ∀ (fs : FL) (k : String) (hid : Bool) (v : V),
    fs.find? k = some (hid, v) → ∀ r, Model.prune v = some r → Pruned r
  | .nil, k, hid, v, hf, r, h => by simp [FL.find?] at hf
  | .cons n h' v' rest, k, hid, v, hf, r, h => by
    simp only [FL.find?] at hf
    split at hf
    · simp at hf; obtain ⟨_, rfl⟩ := hf
      exact prune_pruned_V v' r h
    · exact prune_pruned_FL rest k hid v hf r h
end


theorem ofList_toList (xs : VL) : VL.ofList xs.toList = xs := by
  induction xs using VL.ind with
  | nil => rfl
  | cons v vs ih => simp [VL.toList, VL.ofList, ih]

theorem prunedF_find {fs : FL} (hp : PrunedF fs) {k : String} {hid : Bool} {v : V}
    (hf : fs.find? k = some (hid, v)) : hid = false ∧ isContent v = true := by
  induction fs using FL.ind with
  | nil => simp [FL.find?] at hf
  | cons n h w rest ih =>
    simp only [PrunedF] at hp
    simp only [FL.find?] at hf
    split at hf
    · simp at hf; obtain ⟨rfl, rfl⟩ := hf; exact ⟨hp.1, hp.2.2.1⟩
    · exact ih hp.2.2.2 hf

theorem mem_names_find {fs : FL} {k : String} (h : k ∈ fs.names) : ∃ p, fs.find? k = some p := by
  induction fs using FL.ind with
  | nil => simp [FL.names] at h
  | cons n hd v rest ih =>
    simp only [FL.find?]
    by_cases hn : n = k
    · simp [hn]
    · simp only [FL.names, List.mem_cons] at h
      rcases h with h | h
      · exact absurd h.symm hn
      · simp [hn, ih h]

theorem prunedF_fields {fs : FL} (hp : PrunedF fs) (ha : Asc fs.names) :
    fieldsEx fs false = fs.names := by
  apply asc_unique (fieldsEx_asc _ _) ha
  intro k
  rw [mem_fieldsEx]
  constructor
  · exact hasEx_mem_names
  · intro hk
    obtain ⟨⟨hid, v⟩, hf⟩ := mem_names_find hk
    have := (prunedF_find hp hf).1
    subst this
    simp [hasEx, has, hf]

theorem pruneLoop_fix (fs : FL) (ks : List String)
    (H : ∀ k ∈ ks, ∃ v, fs.find? k = some (false, v) ∧ Model.prune v = some v ∧ isContent v = true) :
    pruneLoop (Model.pruneOuts fs) ks =
      some (FL.ofList (ks.map (fun k => (k, false, getLazy fs k)))) := by
  induction ks with
  | nil => rfl
  | cons k ks ih =>
    obtain ⟨v, hf, hp, hc⟩ := H k (by simp)
    simp only [pruneLoop, lookup_pruneOuts, hf, Option.map_some, hp, hc, ↓reduceIte,
      ih (fun x hx => H x (List.mem_cons_of_mem _ hx)), List.map_cons, FL.ofList,
      getLazy_of_find? hf]

theorem ofList_names_self {fs : FL} (hp : PrunedF fs) (ha : Asc fs.names) :
    FL.ofList (fs.names.map (fun k => (k, false, getLazy fs k))) = fs := by
  induction fs using FL.ind with
  | nil => rfl
  | cons n h v rest ih =>
    simp only [PrunedF] at hp
    simp only [FL.names] at ha
    have han := List.pairwise_cons.mp ha
    obtain ⟨rfl, _, _, hrest⟩ := hp
    simp only [FL.names, List.map_cons, FL.ofList]
    have h1 : getLazy (.cons n false v rest) n = v := by simp [getLazy, FL.find?]
    rw [h1]
    congr 1
    have hm : rest.names.map (fun k => (k, false, getLazy (.cons n false v rest) k)) =
        rest.names.map (fun k => (k, false, getLazy rest k)) := by
      apply List.map_congr_left
      intro k hk
      have hne : ¬ n = k := fun e => by subst e; exact String.lt_irrefl _ (han.1 _ hk)
      simp [getLazy, FL.find?, hne]
    rw [hm]
    exact ih hrest han.2

mutual
theorem pruned_fix_V : ∀ (r : V), Pruned r → Model.prune r = some r
  | .err, h => by simp [Pruned] at h
  | .null, _ => by simp [Model.prune]
  | .bool _, _ => by simp [Model.prune]
  | .num _, _ => by simp [Model.prune]
  | .str _, _ => by simp [Model.prune]
  | .func _, _ => by simp [Model.prune]
  | .arr xs, h => by
    simp only [Pruned] at h
    simp only [Model.prune, pruned_fix_VL xs h, Option.map_some, ofList_toList]
  | .obj fs, h => by
    simp only [Pruned] at h
    simp only [Model.prune, prunedF_fields h.1 h.2]
    rw [pruneLoop_fix fs fs.names]
    · simp [ofList_names_self h.1 h.2]
    · intro k hk
      obtain ⟨⟨hid, v⟩, hf⟩ := mem_names_find hk
      obtain ⟨rfl, hc⟩ := prunedF_find h.1 hf
      exact ⟨v, hf, pruned_fix_FL fs h.1 k false v hf, hc⟩
theorem pruned_fix_VL : ∀ (xs : VL), PrunedL xs → Model.pruneL xs = some xs.toList
  | .nil, _ => by simp [Model.pruneL, VL.toList]
  | .cons v vs, h => by
    simp only [PrunedL] at h
    simp only [Model.pruneL, pruned_fix_V v h.1, pruned_fix_VL vs h.2.2, h.2.1, ↓reduceIte,
      VL.toList]
theorem pruned_fix_FL : ∀ (fs : FL), PrunedF fs → ∀ (k : String) (hid : Bool) (v : V),
    fs.find? k = some (hid, v) → Model.prune v = some v
  | .nil, _, k, hid, v, hf => by simp [FL.find?] at hf
  | .cons n h' v' rest, hp, k, hid, v, hf => by
    simp only [PrunedF] at hp
    simp only [FL.find?] at hf
    split at hf
    · simp at hf; obtain ⟨_, rfl⟩ := hf
      exact pruned_fix_V v' hp.2.1
    · exact pruned_fix_FL rest hp.2.2.2 k hid v hf
end

end JrsVerif.StdObj
