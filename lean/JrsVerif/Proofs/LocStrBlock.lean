/- C17 — helper lemmas: the text-block scanner of `Model/LocStrBlock.lean` never slices inside a
   character, never bumps past the end, and what it accepts is a block of the reference grammar. -/
import JrsVerif.Proofs.Loc
import JrsVerif.Model.LocStrBlock

namespace JrsVerif.StrBlock
open JrsVerif.Loc (byteLen byteLen_append)
open Spec

/-! ### byte slicing -/

theorem dropB_zero (s : List Char) : dropB s 0 = some s := by
  cases s <;> rfl

theorem dropB_cons (c : Char) (cs : List Char) (n : Nat) (h : 0 < n) :
    dropB (c :: cs) n = if c.utf8Size ≤ n then dropB cs (n - c.utf8Size) else none := by
  cases n with
  | zero => omega
  | succ n => rfl

theorem dropB_append (a b : List Char) : dropB (a ++ b) (byteLen a) = some b := by
  induction a with
  | nil => simp [byteLen, dropB_zero]
  | cons c cs ih =>
    have hp := Char.utf8Size_pos c
    simp only [List.cons_append, byteLen]
    rw [dropB_cons _ _ _ (by omega)]
    have : c.utf8Size + byteLen cs - c.utf8Size = byteLen cs := by omega
    simp [this, ih]

/-- `k` is the byte length of a prefix of `rest`: a position the scanner may stop at -/
def Pre (rest : List Char) (k : Nat) : Prop := ∃ used tail, rest = used ++ tail ∧ k = byteLen used

theorem Pre.zero (rest : List Char) : Pre rest 0 := ⟨[], rest, rfl, rfl⟩
theorem Pre.full (rest : List Char) : Pre rest (byteLen rest) := ⟨rest, [], by simp, rfl⟩
theorem Pre.append {r : List Char} {k : Nat} (a : List Char) (h : Pre r k) : Pre (a ++ r) (byteLen a + k) := by
  obtain ⟨u, t, rfl, rfl⟩ := h
  exact ⟨a ++ u, t, by simp, by rw [byteLen_append]⟩
theorem Pre.of_eq {s r : List Char} {k : Nat} {a : List Char} (h : s = a ++ r) (hk : Pre r k) :
    Pre s (byteLen a + k) := h ▸ Pre.append a hk
theorem Pre.dropB {rest : List Char} {k : Nat} (h : Pre rest k) : (dropB rest k).isSome := by
  obtain ⟨u, t, rfl, rfl⟩ := h
  simp [dropB_append]

theorem isWs_size {c : Char} (h : isWs c = true) : c.utf8Size = 1 := by
  simp only [isWs, Bool.or_eq_true, beq_iff_eq] at h
  rcases h with rfl | rfl <;> decide

theorem byteLen_ws {l : List Char} (h : ∀ c ∈ l, isWs c = true) : byteLen l = l.length := by
  induction l with
  | nil => rfl
  | cons c cs ih =>
    simp [byteLen, isWs_size (h c (List.mem_cons_self ..)),
      ih (fun d hd => h d (List.mem_cons_of_mem _ hd))]; omega

theorem byteLen_bars : byteLen bars = 3 := by decide

theorem byteLen_replicate_nl (n : Nat) : byteLen (List.replicate n '\n') = n := by
  induction n with
  | zero => rfl
  | succ n ih => simp [List.replicate_succ, byteLen, ih, JrsVerif.Loc.nl_size]; omega

/-! ### the small scanners -/

theorem findBars_some {s : List Char} {v : Nat} (h : findBars s = some v) :
    ∃ pre tail, s = pre ++ bars ++ tail ∧ v = byteLen pre := by
  induction s generalizing v with
  | nil => simp [findBars] at h
  | cons c cs ih =>
    simp only [findBars] at h
    split at h
    · rename_i hb
      cases h
      refine ⟨[], (c :: cs).drop 3, ?_, rfl⟩
      rw [List.nil_append, ← hb, List.take_append_drop]
    · simp only [Option.map_eq_some_iff] at h
      obtain ⟨w, hw, rfl⟩ := h
      obtain ⟨pre, tail, rfl, rfl⟩ := ih hw
      exact ⟨c :: pre, tail, by simp, by simp [byteLen]; omega⟩

theorem eatError_pre (idx : Nat) (rest : List Char) : ∃ k, eatError idx rest = idx + k ∧ Pre rest k := by
  unfold eatError
  split
  · rename_i v hv
    obtain ⟨pre, tail, rfl, rfl⟩ := findBars_some hv
    exact ⟨byteLen pre + 3, rfl, pre ++ bars, tail, by simp, by rw [byteLen_append, byteLen_bars]⟩
  · exact ⟨byteLen rest, rfl, Pre.full rest⟩

theorem checkWs_prefix (a : List Char) (ha : ∀ c ∈ a, isWs c = true) :
    ∀ (b : List Char) (i : Nat), checkWs a b i = if a <+: b then i + a.length else 0 := by
  induction a with
  | nil => intro b i; simp [checkWs]
  | cons x a ih =>
    intro b i
    have hx := ha x (List.mem_cons_self ..)
    have ha' : ∀ c ∈ a, isWs c = true := fun d hd => ha d (List.mem_cons_of_mem _ hd)
    cases b with
    | nil => simp [checkWs, hx]
    | cons y b =>
      simp only [checkWs, hx, Bool.not_true, Bool.false_eq_true, if_false]
      by_cases hxy : x = y
      · subst hxy
        simp only [ne_eq, not_true_eq_false, if_false, ih ha' b (i + 1), List.cons_prefix_cons, true_and,
          List.length_cons]
        split <;> omega
      · simp [hxy]

theorem checkWs_self (r : List Char) : ∀ i, checkWs r r i = i + (r.takeWhile isWs).length := by
  induction r with
  | nil => intro i; simp [checkWs]
  | cons x r ih =>
    intro i
    by_cases hx : isWs x = true
    · simp [checkWs, hx, ih]; omega
    · simp [checkWs, hx]

theorem cutLine_some {s l : List Char} (h : cutLine s = some l) :
    ∃ t, s = l ++ '\n' :: t ∧ '\n' ∉ l := by
  induction s generalizing l with
  | nil => simp [cutLine] at h
  | cons c cs ih =>
    simp only [cutLine] at h
    split at h
    · rename_i hc; cases h; exact ⟨cs, by simp [hc], by simp⟩
    · rename_i hc
      simp only [Option.map_eq_some_iff] at h
      obtain ⟨w, hw, rfl⟩ := h
      obtain ⟨t, rfl, hn⟩ := ih hw
      exact ⟨t, by simp, by simp [hn]; exact fun h => hc h.symm⟩

theorem blanks_eq (s : List Char) : s = List.replicate (blanks s).1 '\n' ++ (blanks s).2 := by
  induction s with
  | nil => simp [blanks]
  | cons c cs ih =>
    simp only [blanks]
    split
    · rename_i hc; subst hc
      simp only [List.replicate_succ, List.cons_append]
      exact congrArg _ ih
    · simp

theorem blanks_length (s : List Char) : (blanks s).2.length ≤ s.length := by
  have h := congrArg List.length (blanks_eq s)
  simp at h; omega

/-! ### the main loop -/

theorem mem_takeWhile_p {p : Char → Bool} {l : List Char} {c : Char} (h : c ∈ l.takeWhile p) : p c = true := by
  induction l with
  | nil => simp at h
  | cons x xs ih =>
    simp only [List.takeWhile_cons] at h
    split at h
    · rename_i hx
      simp only [List.mem_cons] at h
      rcases h with rfl | h
      · exact hx
      · exact ih h
    · simp at h

theorem encode_cons (W : List Char) (i : Item) (is : List Item) :
    encode W (i :: is) = i.enc W ++ encode W is := by simp [encode]

theorem encode_append (W : List Char) (a b : List Item) : encode W (a ++ b) = encode W a ++ encode W b := by
  simp [encode]

theorem encode_blanks (W : List Char) (n : Nat) :
    encode W (List.replicate n Item.blank) = List.replicate n '\n' := by
  induction n with
  | zero => rfl
  | succ n ih => simp [List.replicate_succ, encode_cons, ih, Item.enc]

theorem text_blanks (n : Nat) :
    (List.replicate n Item.blank).map Item.text = List.replicate n ([] : List Char) := by
  simp [Item.text]

/-- what a successful run from `rest` (indent `W`, lines collected so far `lines`) has established:
    `rest` starts with content items, an optional run of spaces/tabs that is not the indent, and
    `|||`; exactly that much was consumed; the collected lines are the items' texts -/
def Good (W rest : List Char) (lines : List (List Char)) (k : Nat) (o : Out) : Prop :=
  ∃ items term tail, (∃ l is, items = Item.line l :: is) ∧ rest = encode W items ++ term ++ bars ++ tail ∧
    k = byteLen (encode W items ++ term ++ bars) ∧ o.lines = lines ++ items.map Item.text ∧
    (∀ c ∈ term, isWs c = true) ∧ (∀ i ∈ items, '\n' ∉ i.text) ∧ ¬ W <+: (term ++ bars ++ tail)

theorem loop_spec : ∀ (fuel idx : Nat) (rest W : List Char) (numWs : Nat) (lines : List (List Char)) (tr : Bool),
    rest.length < fuel → (∀ c ∈ W, isWs c = true) → W ≠ [] → numWs = W.length → W <+: rest →
    ∃ o k, loop fuel idx rest W numWs lines tr = some o ∧ o.bump = idx + k ∧ Pre rest k ∧ o.truncate = tr ∧
      (o.res = none → Good W rest lines k o) := by
  intro fuel
  induction fuel with
  | zero => intro idx rest W numWs lines tr h; omega
  | succ fuel ih =>
    intro idx rest W numWs lines tr hfuel hW hne hnum hpre
    obtain ⟨r1, rfl⟩ := hpre
    have hbW : byteLen W = W.length := byteLen_ws hW
    have hWlen : 0 < W.length := List.length_pos_iff.mpr hne
    have hskip : skipB (W ++ r1) numWs = some (r1, numWs) := by
      have : ¬ numWs > byteLen (W ++ r1) := by rw [byteLen_append, hbW, hnum]; omega
      have hd : dropB (W ++ r1) numWs = some r1 := by rw [hnum, ← hbW]; exact dropB_append W r1
      simp [skipB, this, hd]
    simp only [loop, hskip]
    cases hcut : cutLine r1 with
    | none =>
      refine ⟨_, numWs + byteLen r1, rfl, ?_, ?_, rfl, ?_⟩
      · simp [eatError, findBars, byteLen]; omega
      · have := Pre.full (W ++ r1); rw [byteLen_append, hbW, ← hnum] at this; exact this
      · intro h; cases h
    | some line =>
      obtain ⟨r2, rfl, hnl⟩ := cutLine_some hcut
      have hd2 : dropB (line ++ '\n' :: r2) (byteLen line + 1) = some r2 := by
        have := dropB_append (line ++ ['\n']) r2
        rw [byteLen_append] at this
        simpa [byteLen, JrsVerif.Loc.nl_size] using this
      simp only [hd2]
      have hb := blanks_eq r2
      have hbl := blanks_length r2
      generalize hB : blanks r2 = B at hb hbl
      obtain ⟨nb, r3⟩ := B
      simp only at hb hbl ⊢
      -- the consumed part so far
      have hcons : byteLen (W ++ line ++ ['\n'] ++ List.replicate nb '\n') = numWs + (byteLen line + 1) + nb := by
        simp [byteLen_append, hbW, hnum, byteLen, byteLen_replicate_nl, JrsVerif.Loc.nl_size]; omega
      have hrest : W ++ (line ++ '\n' :: r2) = (W ++ line ++ ['\n'] ++ List.replicate nb '\n') ++ r3 := by
        rw [hb]; simp
      rw [checkWs_prefix W hW r3 0]
      by_cases hp : W <+: r3
      · -- another content line
        have hnz : ¬ (0 + W.length = 0) := by omega
        simp only [hp, if_true, hnz, if_false]
        have hlen : r3.length < fuel := by
          simp at hfuel; omega
        obtain ⟨o, k, ho, hbump, hpre', htr, hgood⟩ :=
          ih (idx + numWs + (byteLen line + 1) + nb) r3 W (0 + W.length)
            (lines ++ [line] ++ List.replicate nb []) tr hlen hW hne (by omega) hp
        refine ⟨o, numWs + (byteLen line + 1) + nb + k, ho, by omega, ?_, htr, ?_⟩
        · rw [hrest, ← hcons]; exact Pre.append _ hpre'
        · intro hres
          obtain ⟨items, term, tail, hi, hr3, hk, hlines, hterm, hno, hnp⟩ := hgood hres
          refine ⟨Item.line line :: (List.replicate nb Item.blank ++ items), term, tail, ⟨_, _, rfl⟩, ?_, ?_, ?_,
            hterm, ?_, hnp⟩
          · rw [hrest, hr3, encode_cons, encode_append, encode_blanks]; simp [Item.enc]
          · have e : encode W (Item.line line :: (List.replicate nb Item.blank ++ items)) ++ term ++ bars
                = (W ++ line ++ ['\n'] ++ List.replicate nb '\n') ++ (encode W items ++ term ++ bars) := by
              rw [encode_cons, encode_append, encode_blanks]; simp [Item.enc]
            rw [hk, e, byteLen_append (W ++ line ++ ['\n'] ++ List.replicate nb '\n'), hcons]
          · rw [hlines]; simp [Item.text]
          · intro i hi'
            simp only [List.mem_cons, List.mem_append, List.mem_replicate] at hi'
            rcases hi' with rfl | ⟨_, rfl⟩ | h
            · exact hnl
            · simp [Item.text]
            · exact hno i h
      · -- the terminator line
        simp only [hp, if_false, if_true]
        have hsplit : r3 = r3.takeWhile isWs ++ r3.dropWhile isWs := (List.takeWhile_append_dropWhile).symm
        have hterm : ∀ c ∈ r3.takeWhile isWs, isWs c = true := fun c hc => mem_takeWhile_p hc
        have hbt : byteLen (r3.takeWhile isWs) = (r3.takeWhile isWs).length := byteLen_ws hterm
        by_cases hbars : (r3.dropWhile isWs).take 3 = bars
        · have ht : r3.dropWhile isWs = bars ++ (r3.dropWhile isWs).drop 3 := by
            rw [← hbars, List.take_append_drop]
          obtain ⟨tl, htl⟩ : ∃ tl, r3.dropWhile isWs = bars ++ tl := ⟨_, ht⟩
          have hsk : skipB (bars ++ tl) 3 = some (tl, 3) := by
            have h3 : ¬ 3 > byteLen (bars ++ tl) := by rw [byteLen_append, byteLen_bars]; omega
            have hd := dropB_append bars tl
            rw [byteLen_bars] at hd
            simp [skipB, h3, hd]
          have hbars' : (bars ++ tl).take 3 = bars := by simp [bars]
          have hr3 : r3 = r3.takeWhile isWs ++ bars ++ tl := by
            rw [List.append_assoc, ← htl]; exact hsplit
          simp only [htl, hbars', if_true, hsk, Option.map_some]
          refine ⟨_, numWs + (byteLen line + 1) + nb + (byteLen (r3.takeWhile isWs) + 3), rfl, by simp; omega,
            ?_, rfl, ?_⟩
          · rw [hrest, ← hcons]
            exact Pre.append _ ⟨r3.takeWhile isWs ++ bars, tl, hr3, by rw [byteLen_append, byteLen_bars]⟩
          · intro _
            refine ⟨Item.line line :: List.replicate nb Item.blank, r3.takeWhile isWs, tl,
              ⟨_, _, rfl⟩, ?_, ?_, ?_, hterm, ?_, ?_⟩
            · rw [hrest, encode_cons, encode_blanks]
              conv => lhs; rw [hr3]
              simp [Item.enc]
            · have e : encode W (Item.line line :: List.replicate nb Item.blank) ++ r3.takeWhile isWs ++ bars
                  = (W ++ line ++ ['\n'] ++ List.replicate nb '\n') ++ (r3.takeWhile isWs ++ bars) := by
                rw [encode_cons, encode_blanks]; simp [Item.enc]
              rw [e, byteLen_append, hcons, byteLen_append, byteLen_bars]
            · simp [Item.text]
            · intro i hi'
              simp only [List.mem_cons, List.mem_replicate] at hi'
              rcases hi' with rfl | ⟨_, rfl⟩
              · exact hnl
              · simp [Item.text]
            · rw [← hr3]; exact hp
        · simp only [hbars, if_false]
          by_cases hemp : (r3.dropWhile isWs).isEmpty = true
          · simp only [hemp, if_true]
            refine ⟨_, numWs + (byteLen line + 1) + nb + byteLen (r3.takeWhile isWs), rfl, by simp; omega, ?_, rfl, ?_⟩
            · rw [hrest, ← hcons]
              exact Pre.append _ ⟨r3.takeWhile isWs, r3.dropWhile isWs, hsplit, rfl⟩
            · intro h; cases h
          · simp only [hemp, Bool.false_eq_true, if_false]
            obtain ⟨k, hk, hpk⟩ := eatError_pre
              (idx + numWs + (byteLen line + 1) + nb + byteLen (r3.takeWhile isWs)) (r3.dropWhile isWs)
            refine ⟨_, numWs + (byteLen line + 1) + nb + (byteLen (r3.takeWhile isWs) + k), rfl, ?_, ?_, rfl, ?_⟩
            · simp only [hk]; omega
            · rw [hrest, ← hcons]
              refine Pre.append _ ?_
              rw [hsplit]
              have := Pre.append (r3.takeWhile isWs) hpk
              simpa using this
            · intro h; cases h

/-! ### the whole scanner -/

theorem take_takeWhile_length (p : Char → Bool) (l : List Char) : l.take (l.takeWhile p).length = l.takeWhile p := by
  induction l with
  | nil => rfl
  | cons x xs ih =>
    simp only [List.takeWhile_cons]
    split
    · simp [ih]
    · simp

theorem mem_hdr {l : List Char} {c : Char} (h : c ∈ l.takeWhile isHdr) : isHdr c = true := mem_takeWhile_p h

/-- a well-formed text block at the start of `s0` (the text after `|||` and the optional `-`):
    header whitespace, newline, content items for a non-empty indent `W` of spaces/tabs, an
    optional run of spaces/tabs that does not continue the indent, `|||`; `k` bytes in all -/
def Block (s0 : List Char) (k : Nat) (lines : List (List Char)) : Prop :=
  ∃ hdr W items term tail,
    s0 = hdr ++ ['\n'] ++ encode W items ++ term ++ bars ++ tail ∧
    k = byteLen (hdr ++ ['\n'] ++ encode W items ++ term ++ bars) ∧
    lines = items.map Item.text ∧
    (∀ c ∈ hdr, isHdr c = true) ∧ W ≠ [] ∧ (∀ c ∈ W, isWs c = true) ∧
    (∀ c ∈ term, isWs c = true) ∧ (∀ i ∈ items, '\n' ∉ i.text) ∧ (∃ i ∈ items, i ≠ Item.blank) ∧
    ¬ W <+: (term ++ bars ++ tail)

theorem scanBody_spec (s0 : List Char) (i0 : Nat) (tr : Bool) :
    ∃ o k, scanBody s0 i0 tr = some o ∧ o.bump = i0 + k ∧ Pre s0 k ∧ o.truncate = tr ∧
      (o.res = none → Block s0 k o.lines) := by
  have hsplit : s0 = s0.takeWhile isHdr ++ s0.dropWhile isHdr := (List.takeWhile_append_dropWhile).symm
  unfold scanBody
  cases hs1 : s0.dropWhile isHdr with
  | nil =>
    refine ⟨_, byteLen (s0.takeWhile isHdr), rfl, by simp [eatError, findBars, byteLen], ?_, rfl, ?_⟩
    · exact ⟨s0.takeWhile isHdr, [], by rw [← hs1]; exact hsplit, rfl⟩
    · intro h; cases h
  | cons c s2 =>
    rw [hs1] at hsplit
    simp only
    by_cases hc : c = '\n'
    · subst hc
      simp only [ne_eq, not_true_eq_false, if_false, JrsVerif.Loc.nl_size]
      have hb := blanks_eq s2
      generalize hB : blanks s2 = B at hb
      obtain ⟨nb, r3⟩ := B
      simp only at hb ⊢
      have hhead : byteLen (s0.takeWhile isHdr ++ ['\n'] ++ List.replicate nb '\n')
          = byteLen (s0.takeWhile isHdr) + 1 + nb := by
        simp [byteLen_append, byteLen, byteLen_replicate_nl, JrsVerif.Loc.nl_size]; omega
      have hs0 : s0 = (s0.takeWhile isHdr ++ ['\n'] ++ List.replicate nb '\n') ++ r3 := by
        conv => lhs; rw [hsplit, hb]
        simp
      rw [checkWs_self r3 0]
      by_cases hz : 0 + (r3.takeWhile isWs).length = 0
      · simp only [hz, if_true]
        obtain ⟨k, hk, hpk⟩ := eatError_pre (i0 + byteLen (s0.takeWhile isHdr) + 1 + nb) r3
        refine ⟨_, byteLen (s0.takeWhile isHdr) + 1 + nb + k, rfl, ?_, ?_, rfl, ?_⟩
        · simp only [hk]; omega
        · have := Pre.of_eq hs0 hpk; rw [hhead] at this; exact this
        · intro h; cases h
      · simp only [hz, if_false]
        have hW : ∀ c ∈ r3.takeWhile isWs, isWs c = true := fun c hc => mem_takeWhile_p hc
        have hr3 : r3 = r3.takeWhile isWs ++ r3.dropWhile isWs := (List.takeWhile_append_dropWhile).symm
        have hd : dropB r3 (0 + (r3.takeWhile isWs).length) = some (r3.dropWhile isWs) := by
          have := dropB_append (r3.takeWhile isWs) (r3.dropWhile isWs)
          rw [← hr3, byteLen_ws hW] at this
          simpa using this
        simp only [hd]
        have htake : r3.take (0 + (r3.takeWhile isWs).length) = r3.takeWhile isWs := by
          rw [Nat.zero_add]; exact take_takeWhile_length isWs r3
        rw [htake]
        have hne : r3.takeWhile isWs ≠ [] := by
          intro h; rw [h] at hz; simp at hz
        obtain ⟨o, k, ho, hbump, hpre, htr, hgood⟩ :=
          loop_spec (r3.length + 1) (i0 + byteLen (s0.takeWhile isHdr) + 1 + nb) r3
            (r3.takeWhile isWs) (0 + (r3.takeWhile isWs).length) (List.replicate nb []) tr
            (by omega) hW hne (by omega) ⟨_, hr3.symm⟩
        refine ⟨o, byteLen (s0.takeWhile isHdr) + 1 + nb + k, ho, ?_, ?_, htr, ?_⟩
        · rw [hbump]; omega
        · have := Pre.of_eq hs0 hpre; rw [hhead] at this; exact this
        · intro hres
          obtain ⟨items, term, tail, hi, hr, hk, hlines, hterm, hno, hnp⟩ := hgood hres
          refine ⟨s0.takeWhile isHdr, r3.takeWhile isWs, List.replicate nb Item.blank ++ items, term, tail,
            ?_, ?_, ?_, fun c hc => mem_hdr hc, hne, hW, hterm, ?_, ?_, hnp⟩
          · conv => lhs; rw [hs0, hr]
            rw [encode_append, encode_blanks]; simp
          · have e : s0.takeWhile isHdr ++ ['\n'] ++ encode (r3.takeWhile isWs) (List.replicate nb Item.blank ++ items)
                  ++ term ++ bars
                = (s0.takeWhile isHdr ++ ['\n'] ++ List.replicate nb '\n')
                  ++ (encode (r3.takeWhile isWs) items ++ term ++ bars) := by
              rw [encode_append, encode_blanks]; simp
            rw [e, byteLen_append (s0.takeWhile isHdr ++ ['\n'] ++ List.replicate nb '\n'), hhead, hk]
          · rw [hlines]; simp [Item.text]
          · intro i hi'
            simp only [List.mem_append, List.mem_replicate] at hi'
            rcases hi' with ⟨_, rfl⟩ | h
            · simp [Item.text]
            · exact hno i h
          · -- the first item the loop reads is a line
            obtain ⟨l, is, rfl⟩ := hi
            exact ⟨Item.line l, by simp, by simp⟩
    · simp only [ne_eq, hc, not_false_eq_true, if_true]
      obtain ⟨k, hk, hpk⟩ := eatError_pre (i0 + byteLen (s0.takeWhile isHdr) + c.utf8Size) s2
      refine ⟨_, byteLen (s0.takeWhile isHdr) + c.utf8Size + k, rfl, ?_, ?_, rfl, ?_⟩
      · simp only [hk]; omega
      · have h0 : s0 = (s0.takeWhile isHdr ++ [c]) ++ s2 := by
          conv => lhs; rw [hsplit]
          simp
        have hb : byteLen (s0.takeWhile isHdr ++ [c]) = byteLen (s0.takeWhile isHdr) + c.utf8Size := by
          simp [byteLen_append, byteLen]
        have := Pre.of_eq h0 hpk; rw [hb] at this; exact this
      · intro h; cases h

theorem scanRaw_spec (src : List Char) :
    ∃ o dash s0 k, scanRaw src = some o ∧ src = dash ++ s0 ∧
      (dash = ['-'] ∧ o.truncate = true ∨ dash = [] ∧ o.truncate = false ∧ ∀ t, src ≠ '-' :: t) ∧
      o.bump = byteLen dash + k ∧ Pre s0 k ∧ (o.res = none → Block s0 k o.lines) := by
  cases src with
  | nil =>
    obtain ⟨o, k, ho, hb, hp, ht, hg⟩ := scanBody_spec [] 0 false
    exact ⟨o, [], [], k, by simpa [scanRaw] using ho, rfl, Or.inr ⟨rfl, ht, by simp⟩, by simpa [byteLen] using hb, hp, hg⟩
  | cons c t =>
    by_cases hc : c = '-'
    · subst hc
      have hd : dropB ('-' :: t) 1 = some t := by
        rw [dropB_cons _ _ _ (by omega)]
        have : '-'.utf8Size = 1 := by decide
        simp [this, dropB_zero]
      obtain ⟨o, k, ho, hb, hp, ht, hg⟩ := scanBody_spec t 1 true
      refine ⟨o, ['-'], t, k, by simp [scanRaw, hd, ho], rfl, Or.inl ⟨rfl, ht⟩, ?_, hp, hg⟩
      have : byteLen ['-'] = 1 := by decide
      rw [hb, this]
    · obtain ⟨o, k, ho, hb, hp, ht, hg⟩ := scanBody_spec (c :: t) 0 false
      refine ⟨o, [], c :: t, k, by simp [scanRaw, hc, ho], rfl, Or.inr ⟨rfl, ht, ?_⟩, by simpa [byteLen] using hb, hp, hg⟩
      intro t' h
      simp at h
      exact hc h.1

theorem foldl_join (ls : List (List Char)) : ∀ acc : List Char,
    ls.foldl (fun acc x => acc ++ ['\n'] ++ x) acc ++ ['\n'] =
      acc ++ ['\n'] ++ (ls.map (fun x => x ++ ['\n'])).flatten := by
  induction ls with
  | nil => intro acc; simp
  | cons l ls ih =>
    intro acc
    simp only [List.foldl_cons, List.map_cons, List.flatten_cons]
    rw [ih]; simp

end JrsVerif.StrBlock
