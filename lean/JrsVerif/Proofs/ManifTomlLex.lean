/- C14 helper lemmas: the TOML reader's key / basic-string / header-path readers on text followed
   by more text (prefix form of the round trips). -/
import JrsVerif.Proofs.Manif
import JrsVerif.Model.ManifDoc
import JrsVerif.Model.ManifTomlR

namespace JrsVerif.ManifTomlLex
open JrsVerif.Manif JrsVerif.ManifSpec JrsVerif.ManifProofs JrsVerif.ManifTomlR JrsVerif.Generated.Manif

theorem runPre_done (cs : List Char) (st2 : St) (out : List Char)
    (h : runPre tomlCfg .done cs = some (st2, out)) : st2 = .done := by
  cases cs with
  | nil => simp [runPre] at h; exact h.1.symm
  | cons c cs => simp [runPre, step] at h

theorem readQ_append (u t : List Char) : ∀ (st st2 : St) (out : List Char),
    runPre tomlCfg st u = some (st2, out) → st2 ≠ .done →
    readQ st (u ++ t) = (readQ st2 t).map (fun p => (out ++ p.1, p.2)) := by
  induction u with
  | nil =>
    intro st st2 out h _
    simp [runPre] at h
    obtain ⟨rfl, rfl⟩ := h
    simp only [List.nil_append]
    cases readQ st t <;> simp
  | cons c cs ih =>
    intro st st2 out h hd
    simp only [runPre] at h
    cases hs : step tomlCfg st c with
    | none => simp [hs] at h
    | some p =>
      obtain ⟨st', o⟩ := p
      simp only [hs] at h
      cases hp : runPre tomlCfg st' cs with
      | none => simp [hp] at h
      | some q =>
        obtain ⟨st'', out'⟩ := q
        simp only [hp, Option.some.injEq, Prod.mk.injEq] at h
        obtain ⟨rfl, rfl⟩ := h
        have hne : st' ≠ .done := by
          rintro rfl
          exact hd (runPre_done cs _ _ hp)
        have := ih st' st'' out' hp hd
        simp only [List.cons_append, readQ, hs]
        cases st' with
        | done => exact absurd rfl hne
        | plain => simp only [this]; cases readQ st'' t <;> simp [emit_append]
        | esc => simp only [this]; cases readQ st'' t <;> simp [emit_append]
        | hex l a => simp only [this]; cases readQ st'' t <;> simp [emit_append]

theorem runPre_append (u v : List Char) (st st2 st3 : St) (o1 o2 : List Char)
    (h1 : runPre tomlCfg st u = some (st2, o1)) (h2 : runPre tomlCfg st2 v = some (st3, o2)) :
    runPre tomlCfg st (u ++ v) = some (st3, o1 ++ o2) := by
  induction u generalizing st o1 with
  | nil => simp [runPre] at h1; obtain ⟨rfl, rfl⟩ := h1; simpa using h2
  | cons c cs ih =>
    simp only [runPre] at h1
    cases hs : step tomlCfg st c with
    | none => simp [hs] at h1
    | some p =>
      obtain ⟨st', o⟩ := p
      simp only [hs] at h1
      cases hp : runPre tomlCfg st' cs with
      | none => simp [hp] at h1
      | some q =>
        obtain ⟨st'', out'⟩ := q
        simp only [hp, Option.some.injEq, Prod.mk.injEq] at h1
        obtain ⟨rfl, rfl⟩ := h1
        simp only [List.cons_append, runPre, hs, ih st' out' hp, emit_append]

theorem runPre_flatMap (f : Char → List Char)
    (h : ∀ c, runPre tomlCfg .plain (f c) = some (.plain, [c])) (s : List Char) :
    runPre tomlCfg .plain (s.flatMap f) = some (.plain, s) := by
  induction s with
  | nil => rfl
  | cons c cs ih =>
    simp only [List.flatMap_cons]
    have := runPre_append (f c) (cs.flatMap f) .plain .plain .plain [c] cs (h c) ih
    simpa using this

/-- a basic string written by `escape_string_toml_buf`, followed by anything, is read back with
    exactly the following text left over -/
theorem readQ_escToml (hunit : ∀ c, runPre tomlCfg .plain (unit TOML_EXTRA_ESCAPE c) = some (.plain, [c]))
    (s rest : List Char) :
    ∃ body, escToml s = '"' :: body ∧ readQ .plain (body ++ rest) = some (s, rest) := by
  have hq : inRanges TOML_EXTRA_ESCAPE '"' = false := by decide
  refine ⟨s.flatMap (unit TOML_EXTRA_ESCAPE) ++ ['"'], ?_, ?_⟩
  · rw [escToml, reescape_escJson _ hq]
  · rw [List.append_assoc, readQ_append _ _ .plain .plain s (runPre_flatMap _ hunit s) (by decide)]
    simp [readQ, step]

theorem takeWhile_append_stop (p : Char → Bool) (k rest : List Char) (hk : k.all p = true)
    (hr : ∀ c, rest.head? = some c → p c = false) :
    (k ++ rest).takeWhile p = k ∧ (k ++ rest).dropWhile p = rest := by
  induction k with
  | nil =>
    cases rest with
    | nil => simp
    | cons c r => have := hr c rfl; simp [this]
  | cons c cs ih =>
    simp only [List.all_cons, Bool.and_eq_true] at hk
    have := ih hk.2
    simp [hk.1, this.1, this.2]

/-- a key written by `escape_key_toml_buf`, followed by text that does not continue a bare key, is
    read back with exactly that text left over -/
theorem readKey_tomlKey (hunit : ∀ c, runPre tomlCfg .plain (unit TOML_EXTRA_ESCAPE c) = some (.plain, [c]))
    (hbare : ∀ s, bareAllowed s = true → s ≠ [] ∧ s.all tomlBareChar = true)
    (k rest : List Char) (hr : ∀ c, rest.head? = some c → tomlBareChar c = false) :
    readKey (Manif.tomlKey k ++ rest) = some (k, rest) := by
  unfold Manif.tomlKey
  by_cases hb : bareAllowed k = true
  · obtain ⟨hne, hall⟩ := hbare k hb
    simp only [hb, if_true]
    obtain ⟨ht, hdr⟩ := takeWhile_append_stop tomlBareChar k rest hall hr
    cases k with
    | nil => exact absurd rfl hne
    | cons c cs =>
      have hc : tomlBareChar c = true := by
        simp only [List.all_cons, Bool.and_eq_true] at hall; exact hall.1
      have hq : c ≠ '"' := by rintro rfl; revert hc; decide
      unfold readKey
      split
      · rename_i heq; simp at heq; exact absurd heq.1 hq
      · simp only [List.cons_append] at ht hdr ⊢
        simp [ht, hdr]
  · simp only [hb]
    obtain ⟨body, he, hread⟩ := readQ_escToml hunit k rest
    rw [he]
    simp [readKey, hread]

open JrsVerif.ManifDoc in
/-- the dotted path of a header as written by the `path.iter().enumerate()` loops, followed by
    text that continues neither a bare key nor the path, is read back -/
theorem readPath_joinPath (hunit : ∀ c, runPre tomlCfg .plain (unit TOML_EXTRA_ESCAPE c) = some (.plain, [c]))
    (hbare : ∀ s, bareAllowed s = true → s ≠ [] ∧ s.all tomlBareChar = true) :
    ∀ (path : List (List Char)) (f : Nat) (rest : List Char), path ≠ [] → path.length ≤ f →
      (∀ c, rest.head? = some c → tomlBareChar c = false ∧ c ≠ '.') →
      readPath f (joinPath path ++ rest) = some (path, rest)
  | [], _, _, h, _, _ => absurd rfl h
  | [k], f, rest, _, hf, hr => by
    cases f with
    | zero => simp at hf
    | succ f =>
      simp only [joinPath, readPath, readKey_tomlKey hunit hbare k rest (fun c hc => (hr c hc).1)]
      cases rest with
      | nil => rfl
      | cons c r =>
        have hc := (hr c rfl).2
        split
        · rename_i heq; simp at heq; exact absurd heq.1 hc
        · rfl
  | k :: k2 :: r, f, rest, _, hf, hr => by
    cases f with
    | zero => simp at hf
    | succ f =>
      have ih := readPath_joinPath hunit hbare (k2 :: r) f rest (by simp) (by simp at hf ⊢; omega) hr
      have hk := readKey_tomlKey hunit hbare k ('.' :: (joinPath (k2 :: r) ++ rest))
        (fun c hc => by simp at hc; subst hc; decide)
      simp only [joinPath, List.append_assoc, List.cons_append, readPath, hk, ih]

theorem tomlKey_head (hbare : ∀ s, bareAllowed s = true → s ≠ [] ∧ s.all tomlBareChar = true) (k : List Char) :
    ∃ c t, Manif.tomlKey k = c :: t ∧ c ≠ '[' := by
  unfold Manif.tomlKey
  by_cases hb : bareAllowed k = true
  · obtain ⟨hne, hall⟩ := hbare k hb
    simp only [hb, if_true]
    cases k with
    | nil => exact absurd rfl hne
    | cons c cs =>
      refine ⟨c, cs, rfl, ?_⟩
      simp only [List.all_cons, Bool.and_eq_true] at hall
      rintro rfl
      exact absurd hall.1 (by decide)
  · simp only [hb]
    have hq : inRanges TOML_EXTRA_ESCAPE '"' = false := by decide
    exact ⟨'"', _, by rw [escToml, reescape_escJson _ hq]; rfl, by decide⟩

open JrsVerif.ManifDoc in
theorem joinPath_head (hbare : ∀ s, bareAllowed s = true → s ≠ [] ∧ s.all tomlBareChar = true) :
    (path : List (List Char)) → path ≠ [] → ∃ c t, joinPath path = c :: t ∧ c ≠ '['
  | [], h => absurd rfl h
  | [k], _ => by simpa [joinPath] using tomlKey_head hbare k
  | k :: k2 :: r, _ => by
    obtain ⟨c, t, he, hc⟩ := tomlKey_head hbare k
    exact ⟨c, t ++ '.' :: joinPath (k2 :: r), by simp [joinPath, he], hc⟩

open JrsVerif.ManifDoc in
/-- a `[table]` / `[[array of tables]]` header line as written, followed by the rest of the
    document, is read as that header statement -/
theorem readStmt_header (hunit : ∀ c, runPre tomlCfg .plain (unit TOML_EXTRA_ESCAPE c) = some (.plain, [c]))
    (hbare : ∀ s, bareAllowed s = true → s ≠ [] ∧ s.all tomlBareChar = true)
    (path : List (List Char)) (hne : path ≠ []) (f : Nat) (hf : path.length ≤ f) (rest : List Char) :
    readStmt f ('[' :: (joinPath path ++ ']' :: rest)) = some (.hdr false path, rest) ∧
    readStmt f ('[' :: '[' :: (joinPath path ++ ']' :: ']' :: rest)) = some (.hdr true path, rest) := by
  have hstop : ∀ (r : List Char) c, (']' :: r).head? = some c → tomlBareChar c = false ∧ c ≠ '.' := by
    intro r c hc; simp at hc; subst hc; decide
  obtain ⟨c, t, he, hc⟩ := joinPath_head hbare path hne
  constructor
  · have h1 := readPath_joinPath hunit hbare path f (']' :: rest) hne hf (hstop rest)
    rw [he] at h1 ⊢
    unfold readStmt
    split
    · rename_i heq; simp at heq; exact (hc heq.1).elim
    · rename_i heq
      simp only [List.cons_append, List.cons.injEq, true_and] at heq
      subst heq
      simp only [List.cons_append] at h1
      simp [h1]
    · rename_i _ h; exact (h _ rfl).elim
  · have h1 := readPath_joinPath hunit hbare path f (']' :: ']' :: rest) hne hf (hstop _)
    simp [readStmt, h1]

end JrsVerif.ManifTomlLex
