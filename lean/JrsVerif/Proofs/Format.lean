/- Helper lemmas for C12 (std.format): digit loops, render_integer arithmetic, value threading. -/
import JrsVerif.Model.Format
import JrsVerif.Model.FormatSpec

set_option linter.unusedSimpArgs false

namespace JrsVerif.Format
open JrsVerif.Generated

/-! ## digits -/

theorem digitsRevLoop_zero (b f : Nat) : digitsRevLoop b f 0 = [] := by
  cases f <;> simp [digitsRevLoop]

theorem digitsRevLoop_eq (b : Nat) (hb : 2 ≤ b) :
    ∀ f1 f2 v, v ≤ f1 → v ≤ f2 → 0 < v →
      (digitsRevLoop b f1 v).reverse = FormatSpec.digitsF f2 b v := by
  intro f1
  induction f1 with
  | zero => intro f2 v h1 _ h3; omega
  | succ f1 ih =>
    intro f2 v h1 h2 h3
    cases f2 with
    | zero => omega
    | succ f2 =>
      have hv : v ≠ 0 := by omega
      simp only [digitsRevLoop, hv, if_false, FormatSpec.digitsF, List.reverse_cons]
      by_cases hlt : v < b
      · simp [hlt, Nat.div_eq_of_lt hlt, digitsRevLoop_zero, Nat.mod_eq_of_lt hlt]
      · simp only [hlt, if_false]
        have hd : v / b < v := Nat.div_lt_self h3 (by omega)
        have hpos : 0 < v / b := Nat.div_pos (by omega) (by omega)
        rw [ih f2 (v / b) (by omega) (by omega) hpos]

theorem digitsRev_eq (b iv : Nat) (hb : 2 ≤ b) :
    (digitsRev b iv).reverse = FormatSpec.digits b iv := by
  unfold digitsRev FormatSpec.digits
  by_cases h : iv = 0
  · subst h; simp [FormatSpec.digitsF]
  · simp only [h, if_false]
    exact digitsRevLoop_eq b hb iv iv iv (Nat.le_refl _) (Nat.le_refl _) (by omega)

theorem digitsRevLoop_length (b : Nat) (hb : 2 ≤ b) :
    ∀ f v k, v < 2 ^ k → (digitsRevLoop b f v).length ≤ k := by
  intro f
  induction f with
  | zero => intro v k _; simp [digitsRevLoop]
  | succ f ih =>
    intro v k hk
    by_cases hv : v = 0
    · simp [digitsRevLoop, hv]
    · simp only [digitsRevLoop, hv, if_false, List.length_cons]
      cases k with
      | zero => simp at hk; omega
      | succ k =>
        have h1 : v / b ≤ v / 2 := Nat.div_le_div_left hb (by omega)
        have h2 : v / 2 < 2 ^ k := by
          apply Nat.div_lt_of_lt_mul
          rw [Nat.pow_succ] at hk; omega
        have := ih (v / b) k (by omega)
        omega

theorem digitsRev_length (b iv k : Nat) (hb : 2 ≤ b) (h : iv < 2 ^ k) :
    1 ≤ (digitsRev b iv).length ∧ (digitsRev b iv).length ≤ max k 1 := by
  unfold digitsRev
  by_cases h0 : iv = 0
  · simp [h0]; omega
  · simp only [h0, if_false]
    refine ⟨?_, Nat.le_trans (digitsRevLoop_length b hb iv iv k h) (Nat.le_max_left _ _)⟩
    cases iv with
    | zero => omega
    | succ n => simp [digitsRevLoop]

theorem digitChar_eq (caps : Bool) (d : Nat) : digitChar caps d = FormatSpec.digitChar caps d := by
  rfl

/-! ## render_integer -/

def signChars (neg blank sign : Bool) : List Char :=
  if neg then ['-'] else if sign then ['+'] else if blank then [' '] else []

theorem signChars_length (neg blank sign : Bool) :
    (signChars neg blank sign).length = if neg || blank || sign then 1 else 0 := by
  cases neg <;> cases blank <;> cases sign <;> rfl

/-- every finite double is below this bound -/
def DBL_BOUND : Nat := 2 ^ 1024

/-- digits as the reference writes them -/
def specDigits (radix iv : Nat) (caps : Bool) : List Char :=
  (FormatSpec.digits radix iv).map (FormatSpec.digitChar caps)

theorem specDigits_length (radix iv : Nat) (caps : Bool) (hr : 2 ≤ radix) (hiv : iv < DBL_BOUND) :
    1 ≤ (specDigits radix iv caps).length ∧ (specDigits radix iv caps).length ≤ 1024 := by
  have h := digitsRev_length radix iv 1024 hr hiv
  have e := digitsRev_eq radix iv hr
  unfold specDigits
  rw [← e]
  simpa using h

theorem specDigits_length_le (radix iv k : Nat) (caps : Bool) (hr : 2 ≤ radix) (hiv : iv < 2 ^ k) :
    1 ≤ (specDigits radix iv caps).length ∧ (specDigits radix iv caps).length ≤ max k 1 := by
  have h := digitsRev_length radix iv k hr hiv
  have e := digitsRev_eq radix iv hr
  unfold specDigits
  rw [← e]
  simpa using h

/-- `render_digits` never panics (its `u16` addition) for a digit text of realistic length, and
    produces sign, prefix, a computed run of zeros, the digits -/
theorem renderDigits_ok (neg : Bool) (D : List Char) (P prec : Nat) (blank sign : Bool)
    (pre : List Char) (pip : Bool) (hp : pre.length ≤ 2) (hD : D.length ≤ 4096) :
    renderDigits neg D P prec blank sign pre pip =
      .ok (signChars neg blank sign ++ pre ++
        List.replicate
          (max (P - (if neg || blank || sign then 1 else 0) - (if pip then 0 else pre.length)) prec
            - ((if pip then pre.length else 0) + D.length)) '0'
        ++ D) := by
  unfold renderDigits
  have hmod : D.length % (U16_MAX + 1) = D.length := Nat.mod_eq_of_lt (by unfold U16_MAX; omega)
  rw [hmod]
  have hno : ¬ ((if pip = true then pre.length else 0) + D.length > U16_MAX) := by
    unfold U16_MAX; split <;> omega
  simp only [hno, if_false]
  rfl

/-- `render_integer` never panics and produces sign, prefix, a computed run of zeros, digits -/
theorem renderInteger_ok (neg : Bool) (iv P prec : Nat) (blank sign : Bool) (radix : Nat)
    (pre : List Char) (pip caps : Bool) (hr : 2 ≤ radix) (hp : pre.length ≤ 2) (hiv : iv < DBL_BOUND) :
    renderInteger neg iv P prec blank sign radix pre pip caps =
      .ok (signChars neg blank sign ++ pre ++
        List.replicate
          (max (P - (if neg || blank || sign then 1 else 0) - (if pip then 0 else pre.length)) prec
            - ((if pip then pre.length else 0) + (specDigits radix iv caps).length)) '0'
        ++ specDigits radix iv caps) := by
  have hl := specDigits_length radix iv caps hr hiv
  have e := digitsRev_eq radix iv hr
  have hD : (digitsRev radix iv).reverse.map (digitChar caps) = specDigits radix iv caps := by
    unfold specDigits; rw [← e]; rfl
  unfold renderInteger
  rw [hD]
  exact renderDigits_ok neg _ P prec blank sign pre pip hp (by omega)

/-! ## zero/space filling arithmetic = the reference `fill` -/

open FormatSpec in
/-- prefix outside the zero padding (`%d`, `%x`): the saturating `u16` computation of
    `render_integer` followed by `format_code`'s final padding is the reference `fill` -/
theorem fill_eq_out (fl : Flags) (w prec : Nat) (sgn pre D : List Char) :
    (let P := if fl.zero && !fl.left then w else 0
     let tmp := sgn ++ pre ++ List.replicate (max (P - sgn.length - pre.length) prec - (0 + D.length)) '0' ++ D
     if fl.left then tmp ++ List.replicate (w - tmp.length) ' ' else List.replicate (w - tmp.length) ' ' ++ tmp)
    = fill fl w sgn pre (zeros (prec - D.length) ++ D) := by
  unfold fill zeros spaces
  cases hl : fl.left <;> cases hz : fl.zero <;>
    simp only [Bool.and_true, Bool.and_false, Bool.not_true, Bool.not_false, if_true, if_false,
      Bool.false_eq_true, List.length_append, List.length_replicate, List.append_assoc]
  · -- right-aligned, spaces
    have h0 : 0 - sgn.length - pre.length = 0 := by omega
    simp only [h0, Nat.zero_max, Nat.zero_add]
    congr 2; omega
  · -- zero filled
    have h2 : w - (sgn.length + (pre.length + (max (w - sgn.length - pre.length) prec - (0 + D.length) + D.length))) = 0 := by omega
    rw [h2]
    simp only [List.replicate_zero, List.nil_append]
    rw [← List.append_assoc (List.replicate _ '0') (List.replicate _ '0') D, List.replicate_append_replicate]
    congr 4; omega
  · have h0 : 0 - sgn.length - pre.length = 0 := by omega
    simp only [h0, Nat.zero_max, Nat.zero_add]
    congr 5; omega
  · have h0 : 0 - sgn.length - pre.length = 0 := by omega
    simp only [h0, Nat.zero_max, Nat.zero_add]
    congr 5; omega

open FormatSpec in
/-- prefix inside the zero padding (`%#o`: the prefix is itself a `0` digit) -/
theorem fill_eq_in (fl : Flags) (w prec q : Nat) (sgn D : List Char) :
    (let P := if fl.zero && !fl.left then w else 0
     let tmp := sgn ++ List.replicate q '0' ++ List.replicate (max (P - sgn.length - 0) prec - (q + D.length)) '0' ++ D
     if fl.left then tmp ++ List.replicate (w - tmp.length) ' ' else List.replicate (w - tmp.length) ' ' ++ tmp)
    = fill fl w sgn [] (zeros (prec - (List.replicate q '0' ++ D).length) ++ (List.replicate q '0' ++ D)) := by
  rw [← fill_eq_out]
  have key : ∀ P : Nat, sgn ++ List.replicate q '0' ++ List.replicate (max (P - sgn.length - 0) prec - (q + D.length)) '0' ++ D
      = sgn ++ [] ++ List.replicate (max (P - sgn.length - ([] : List Char).length) prec - (0 + (List.replicate q '0' ++ D).length)) '0' ++ (List.replicate q '0' ++ D) := by
    intro P
    simp only [List.length_append, List.length_replicate, List.length_nil, List.append_nil, List.append_assoc, Nat.zero_add]
    rw [← List.append_assoc (List.replicate q '0'), ← List.append_assoc (List.replicate _ '0') (List.replicate q '0'),
      List.replicate_append_replicate, List.replicate_append_replicate, Nat.add_comm]
  simp only [key]

theorem natAbs_truncInt (n : Num) : (FormatSpec.truncInt n).natAbs = n.whole := by
  unfold FormatSpec.truncInt; cases n.neg <;> simp

theorem truncInt_neg (n : Num) : decide (FormatSpec.truncInt n < 0) = (n.neg && decide (n.whole ≥ 1)) := by
  unfold FormatSpec.truncInt; cases n.neg <;> simp <;> omega

theorem signText_eq (b : Bool) (fl : Flags) : FormatSpec.signText b fl = signChars b fl.blank fl.sign := rfl

theorem specDigits_small (radix iv : Nat) (caps : Bool) :
    specDigits radix iv caps = (FormatSpec.digits radix iv).map (FormatSpec.digitChar caps) := rfl

/-- the integer conversions: model = reference, for every flag set, width, precision and every
    finite double (integer part below 2^1024) -/
theorem formatCode_int (n : Num) (d : List Char) (c : Code) (w : Nat) (p : Option Nat)
    (hc : c.conv = .dec ∨ c.conv = .oct ∨ c.conv = .hex) (hn : n.whole < DBL_BOUND) :
    formatCode (.num n d) c w p =
      .ok (FormatSpec.intConv c.flags w p c.conv c.caps (FormatSpec.truncInt n)) := by
  have hsl := signChars_length (n.neg && decide (n.whole ≥ 1)) c.flags.blank c.flags.sign
  rcases hc with h | h | h
  · -- %d
    unfold formatCode formatBody FormatSpec.intConv
    simp only [h, Val.asNum, renderDecimal, bind, Except.bind, pure, Except.pure, reduceCtorEq, decide_false,
      Bool.or_self, Bool.and_false, Bool.false_eq_true, if_false]
    rw [renderInteger_ok _ _ _ _ _ _ 10 [] false false (by omega) (by simp) hn]
    simp only [natAbs_truncInt, truncInt_neg, signText_eq, FormatSpec.base, reduceCtorEq, decide_false,
      Bool.false_and, Bool.and_false, if_false, Bool.false_eq_true, FMT_DEFAULT_IPREC]
    rw [← specDigits_small 10 n.whole false, ← hsl]
    have := fill_eq_out c.flags w (p.getD 0) (signChars (n.neg && decide (n.whole ≥ 1)) c.flags.blank c.flags.sign) [] (specDigits 10 n.whole false)
    simp only [List.length_nil, List.append_nil, Nat.sub_zero] at this ⊢
    rw [← this]
  · -- %o
    unfold formatCode formatBody FormatSpec.intConv
    simp only [h, Val.asNum, renderOctal, bind, Except.bind, pure, Except.pure, reduceCtorEq, decide_false,
      Bool.or_self, Bool.and_false, Bool.false_eq_true, if_false]
    by_cases ha : (c.flags.alt && decide (n.whole ≥ 1)) = true
    · have ha' : (c.flags.alt && n.whole != 0) = true := by
        simp only [Bool.and_eq_true, decide_eq_true_eq, bne_iff_ne] at ha ⊢; exact ⟨ha.1, by omega⟩
      have ha2 : (c.flags.alt && decide (n.whole ≠ 0)) = true := by
        simp only [Bool.and_eq_true, decide_eq_true_eq] at ha ⊢; exact ⟨ha.1, by omega⟩
      rw [renderInteger_ok _ _ _ _ _ _ 8 _ true false (by omega) (by split <;> simp) hn]
      simp only [ha, natAbs_truncInt, truncInt_neg, signText_eq, FormatSpec.base, reduceCtorEq, decide_false,
        Bool.false_and, if_false, if_true, Bool.false_eq_true, FMT_DEFAULT_IPREC, decide_true, Bool.true_and, ha2, Nat.zero_add]
      rw [← specDigits_small 8 n.whole false, ← hsl]
      have := fill_eq_in c.flags w (p.getD 0) 1 (signChars (n.neg && decide (n.whole ≥ 1)) c.flags.blank c.flags.sign) (specDigits 8 n.whole false)
      simp only [List.length_nil, List.append_nil, Nat.sub_zero, List.replicate_one, List.length_cons, List.length_singleton,
        List.singleton_append, List.cons_append, List.nil_append, List.append_assoc] at this ⊢
      rw [← this]
    · simp only [Bool.not_eq_true] at ha
      have ha2 : (c.flags.alt && decide (n.whole ≠ 0)) = false := by
        cases hA : c.flags.alt
        · rfl
        · simp only [hA, Bool.true_and, decide_eq_false_iff_not, Nat.not_le] at ha
          simp only [Bool.true_and, decide_eq_false_iff_not]; omega
      rw [renderInteger_ok _ _ _ _ _ _ 8 _ true false (by omega) (by split <;> simp) hn]
      simp only [ha, natAbs_truncInt, truncInt_neg, signText_eq, FormatSpec.base, reduceCtorEq, decide_false,
        Bool.false_and, if_false, if_true, Bool.false_eq_true, FMT_DEFAULT_IPREC, decide_true, Bool.true_and, ha2, Nat.zero_add]
      rw [← specDigits_small 8 n.whole false, ← hsl]
      have := fill_eq_in c.flags w (p.getD 0) 0 (signChars (n.neg && decide (n.whole ≥ 1)) c.flags.blank c.flags.sign) (specDigits 8 n.whole false)
      simp only [List.length_nil, List.append_nil, Nat.sub_zero, List.replicate_zero, Nat.zero_add, List.nil_append] at this ⊢
      rw [← this]
  · -- %x %X
    unfold formatCode formatBody FormatSpec.intConv
    simp only [h, Val.asNum, renderHex, bind, Except.bind, pure, Except.pure, reduceCtorEq, decide_false,
      Bool.or_self, Bool.and_false, Bool.false_eq_true, if_false]
    rw [renderInteger_ok _ _ _ _ _ _ 16 _ false c.caps (by omega) (by split <;> (try split) <;> simp) hn]
    simp only [natAbs_truncInt, truncInt_neg, signText_eq, FormatSpec.base, reduceCtorEq, decide_false, decide_true,
      Bool.false_and, Bool.true_and, if_false, Bool.false_eq_true, FMT_DEFAULT_IPREC]
    rw [← specDigits_small 16 n.whole c.caps, ← hsl]
    have := fill_eq_out c.flags w (p.getD 0) (signChars (n.neg && decide (n.whole ≥ 1)) c.flags.blank c.flags.sign)
      (if c.flags.alt = true then (if c.caps = true then ['0', 'X'] else ['0', 'x']) else []) (specDigits 16 n.whole c.caps)
    simp only [Nat.zero_add] at this ⊢
    rw [← this]

/-! ## value consumption -/

/-- a taker consumes exactly a prefix `u` of length `k` and is indifferent to what follows -/
def Frames {α : Type} (f : List Val → R (α × List Val)) (k : Nat) : Prop :=
  ∀ vals x r, f vals = .ok (x, r) →
    ∃ u, vals = u ++ r ∧ u.length = k ∧ ∀ r', f (u ++ r') = .ok (x, r')

theorem takeStar_frames : Frames takeStar 1 := by
  intro vals x r h
  cases vals with
  | nil => simp [takeStar] at h
  | cons v vs =>
    simp only [takeStar, bind, Except.bind] at h
    cases hv : v.asU16 with
    | error e => simp [hv] at h
    | ok n =>
      simp only [hv, pure, Except.pure, Except.ok.injEq, Prod.mk.injEq] at h
      refine ⟨[v], by simp [h.2], rfl, fun r' => ?_⟩
      simp [takeStar, bind, Except.bind, hv, pure, Except.pure, h.1]

theorem takeWidth_frames (w : Width) : Frames (takeWidth w) (if w = .star then 1 else 0) := by
  cases w with
  | star =>
    have e : takeWidth .star = takeStar := by funext vals; rfl
    rw [e]; simpa using takeStar_frames
  | fixed n =>
    intro vals x r h
    simp only [takeWidth, Except.ok.injEq, Prod.mk.injEq] at h
    exact ⟨[], by simp [h.2], by simp, fun r' => by simp [takeWidth, h.1]⟩

theorem takePrec_frames (p : Option Width) : Frames (takePrec p) (if p = some .star then 1 else 0) := by
  intro vals x r h
  match p with
  | none =>
    simp only [takePrec, Except.ok.injEq, Prod.mk.injEq] at h
    exact ⟨[], by simp [h.2], by simp, fun r' => by simp [takePrec, h.1]⟩
  | some (.fixed n) =>
    simp only [takePrec, Except.ok.injEq, Prod.mk.injEq] at h
    exact ⟨[], by simp [h.2], by simp, fun r' => by simp [takePrec, h.1]⟩
  | some .star =>
    simp only [takePrec] at h
    cases hs : takeStar vals with
    | error e => simp [hs] at h
    | ok pr =>
      obtain ⟨n, vs⟩ := pr
      simp only [hs, Except.ok.injEq, Prod.mk.injEq] at h
      obtain ⟨u, h1, h2, h3⟩ := takeStar_frames vals n vs hs
      refine ⟨u, by rw [h1, h.2], by simpa using h2, fun r' => ?_⟩
      simp [takePrec, h3 r', h.1]

theorem takeValue_frames (b : Bool) : Frames (takeValue b) (if b then 0 else 1) := by
  intro vals x r h
  cases b with
  | true =>
    simp only [takeValue, if_true, Except.ok.injEq, Prod.mk.injEq] at h
    exact ⟨[], by simp [h.2], by simp, fun r' => by simp [takeValue, h.1]⟩
  | false =>
    cases vals with
    | nil => simp [takeValue] at h
    | cons v vs =>
      simp only [takeValue, Bool.false_eq_true, if_false, Except.ok.injEq, Prod.mk.injEq] at h
      exact ⟨[v], by simp [h.2], rfl, fun r' => by simp [takeValue, h.1]⟩

/-- one code consumes exactly `need c` values from the front, its text depends on those only, and
    the remaining values are handed on untouched -/
theorem stepArr_frames (c : Code) : Frames (stepArr c) (FormatSpec.need c) := by
  intro vals s r h
  unfold stepArr at h
  cases h1 : takeWidth c.width vals with
  | error e => simp [h1] at h
  | ok x1 =>
    obtain ⟨w, v1⟩ := x1
    simp only [h1] at h
    cases h2 : takePrec c.prec v1 with
    | error e => simp [h2] at h
    | ok x2 =>
      obtain ⟨p, v2⟩ := x2
      simp only [h2] at h
      cases h3 : takeValue (decide (c.conv = .pct)) v2 with
      | error e => simp [h3] at h
      | ok x3 =>
        obtain ⟨v, v3⟩ := x3
        simp only [h3] at h
        cases h4 : formatCode v c w p with
        | error e => simp [h4] at h
        | ok t =>
          simp only [h4, Except.ok.injEq, Prod.mk.injEq] at h
          obtain ⟨u1, e1, l1, f1⟩ := takeWidth_frames c.width vals w v1 h1
          obtain ⟨u2, e2, l2, f2⟩ := takePrec_frames c.prec v1 p v2 h2
          obtain ⟨u3, e3, l3, f3⟩ := takeValue_frames _ v2 v v3 h3
          refine ⟨u1 ++ u2 ++ u3, ?_, ?_, fun r' => ?_⟩
          · rw [e1, e2, e3, h.2]; simp
          · simp only [List.length_append, l1, l2, l3, FormatSpec.need]
            by_cases hp : c.conv = .pct <;> simp [hp]
          · unfold stepArr
            have := f1 (u2 ++ u3 ++ r')
            simp only [List.append_assoc] at this ⊢
            rw [this]
            have := f2 (u3 ++ r')
            simp only [this]
            have := f3 r'
            simp only [this, h4, h.1]

/-! ## parser -/

theorem lookup_map_snd {α β γ : Type} [BEq α] (f : β → γ) (l : List (α × β)) (a : α) :
    (l.map (fun p => (p.1, f p.2))).lookup a = (l.lookup a).map f := by
  induction l with
  | nil => rfl
  | cons h t ih =>
    obtain ⟨k, v⟩ := h
    simp only [List.map, List.lookup]
    cases a == k <;> simp [ih]

theorem convOf_spec (c : Char) : convOf c = FormatSpec.convTable.lookup c := by
  have h1 : (FMT_CONV_TABLE.map (fun p => (p.1, ((convOfName p.2.1).map (fun v => (v, p.2.2)))))).lookup c
      = (FMT_CONV_TABLE.lookup c).map (fun q => (convOfName q.1).map (fun v => (v, q.2))) :=
    lookup_map_snd (fun q : String × Bool => (convOfName q.1).map (fun v => (v, q.2))) FMT_CONV_TABLE c
  have h2 : FMT_CONV_TABLE.map (fun p => (p.1, ((convOfName p.2.1).map (fun v => (v, p.2.2)))))
      = FormatSpec.convTable.map (fun p => (p.1, some p.2)) := by decide
  have h3 := lookup_map_snd (fun q : Conv × Bool => some q) FormatSpec.convTable c
  rw [h2, h3] at h1
  unfold convOf
  cases hl : FMT_CONV_TABLE.lookup c with
  | none => rw [hl] at h1; cases hs : FormatSpec.convTable.lookup c with
    | none => rfl
    | some x => rw [hs] at h1; simp at h1
  | some q =>
    obtain ⟨nm, caps⟩ := q
    rw [hl] at h1
    cases hs : FormatSpec.convTable.lookup c with
    | none => rw [hs] at h1; simp at h1
    | some x => rw [hs] at h1; simp only [Option.map_some, Option.some.injEq] at h1; simp only; rw [← h1]

/-- the only parse errors -/
def ParseErr (e : Err) : Prop := e = .truncated ∨ e = .unknownConv ∨ e = .tooLarge

theorem parseFlags_err (f : Flags) (s : List Char) (e : Err) (h : parseFlags f s = .error e) : e = .truncated := by
  induction s generalizing f with
  | nil => simp [parseFlags] at h; exact h.symm
  | cons c cs ih =>
    simp only [parseFlags] at h
    cases hf : flagIndex c with
    | none => simp [hf] at h
    | some i => rw [hf] at h; exact ih _ h

theorem parseDigits_err (a : Nat) (s : List Char) (e : Err) (h : parseDigits a s = .error e) : ParseErr e := by
  induction s generalizing a with
  | nil => simp [parseDigits] at h; exact Or.inl h.symm
  | cons c cs ih =>
    simp only [parseDigits] at h
    cases hd : digitVal c with
    | none => simp [hd] at h
    | some d =>
      rw [hd] at h
      by_cases hb : a * 10 + d > U16_MAX
      · simp [hb] at h; exact Or.inr (Or.inr h.symm)
      · simp only [hb, if_false] at h; exact ih _ h

theorem parseWidth_err (s : List Char) (e : Err) (h : parseWidth s = .error e) : ParseErr e := by
  cases s with
  | nil => simp [parseWidth] at h; exact Or.inl h.symm
  | cons c cs =>
    simp only [parseWidth] at h
    by_cases hc : c = '*'
    · simp [hc] at h
    · simp only [hc, if_false, bind, Except.bind] at h
      cases hd : parseDigits 0 (c :: cs) with
      | error e' => rw [hd] at h; simp only [Except.error.injEq] at h; exact h ▸ parseDigits_err _ _ _ hd
      | ok x => rw [hd] at h; simp [pure, Except.pure] at h

theorem parsePrec_err (s : List Char) (e : Err) (h : parsePrec s = .error e) : ParseErr e := by
  cases s with
  | nil => simp [parsePrec] at h; exact Or.inl h.symm
  | cons c cs =>
    simp only [parsePrec] at h
    by_cases hc : c = '.'
    · simp only [hc, if_true, bind, Except.bind] at h
      cases hd : parseWidth cs with
      | error e' => rw [hd] at h; simp only [Except.error.injEq] at h; exact h ▸ parseWidth_err _ _ hd
      | ok x => rw [hd] at h; simp [pure, Except.pure] at h
    · simp [hc] at h

theorem parseLenMod_err (s : List Char) (e : Err) (h : parseLenMod s = .error e) : e = .truncated := by
  induction s with
  | nil => simp [parseLenMod] at h; exact h.symm
  | cons c cs ih =>
    simp only [parseLenMod] at h
    by_cases hc : FMT_LENMOD.contains c = true
    · simp only [hc, if_true] at h; exact ih h
    · simp only [hc, Bool.false_eq_true, if_false] at h; cases h

theorem parseConv_spec (s : List Char) :
    parseConv s = match s with
      | [] => .error .truncated
      | c :: r => match FormatSpec.convTable.lookup c with
        | some v => .ok (v, r)
        | none => .error .unknownConv := by
  cases s with
  | nil => rfl
  | cons c r =>
    simp only [parseConv, convOf_spec]
    cases List.lookup c FormatSpec.convTable <;> rfl

theorem parseConv_err (s : List Char) (e : Err) (h : parseConv s = .error e) : ParseErr e := by
  rw [parseConv_spec] at h
  cases s with
  | nil => simp at h; exact Or.inl h.symm
  | cons c r =>
    simp only at h
    cases hl : FormatSpec.convTable.lookup c with
    | some v => simp [hl] at h
    | none => simp [hl] at h; exact Or.inr (Or.inl h.symm)

theorem parseKey_err (s : List Char) (e : Err) (h : parseKey s = .error e) : e = .truncated := by
  cases s with
  | nil => simp [parseKey] at h; exact h.symm
  | cons c cs =>
    simp only [parseKey] at h
    by_cases hc : c = '('
    · simp only [hc, if_true] at h
      cases hk : scanKey [] cs with
      | none => simp [hk] at h; exact h.symm
      | some r => simp [hk] at h
    · simp [hc] at h

theorem parseCode_err (s : List Char) (e : Err) (h : parseCode s = .error e) : ParseErr e := by
  unfold parseCode at h
  simp only [bind, Except.bind] at h
  cases h1 : parseKey s with
  | error e1 => rw [h1] at h; simp only [Except.error.injEq] at h; exact Or.inl (h ▸ parseKey_err _ _ h1)
  | ok x1 =>
    rw [h1] at h; simp only at h
    cases h2 : parseFlags {} x1.2 with
    | error e2 => rw [h2] at h; simp only [Except.error.injEq] at h; exact Or.inl (h ▸ parseFlags_err _ _ _ h2)
    | ok x2 =>
      rw [h2] at h; simp only at h
      cases h3 : parseWidth x2.2 with
      | error e3 => rw [h3] at h; simp only [Except.error.injEq] at h; exact h ▸ parseWidth_err _ _ h3
      | ok x3 =>
        rw [h3] at h; simp only at h
        cases h4 : parsePrec x3.2 with
        | error e4 => rw [h4] at h; simp only [Except.error.injEq] at h; exact h ▸ parsePrec_err _ _ h4
        | ok x4 =>
          rw [h4] at h; simp only at h
          cases h5 : parseLenMod x4.2 with
          | error e5 => rw [h5] at h; simp only [Except.error.injEq] at h; exact Or.inl (h ▸ parseLenMod_err _ _ h5)
          | ok x5 =>
            rw [h5] at h; simp only at h
            cases h6 : parseConv x5 with
            | error e6 => rw [h6] at h; simp only [Except.error.injEq] at h; exact h ▸ parseConv_err _ _ h6
            | ok x6 => rw [h6] at h; simp [pure, Except.pure] at h

theorem parseCodesF_err (fuel : Nat) (s : List Char) (e : Err) (h : parseCodesF fuel s = .error e) : ParseErr e := by
  induction fuel generalizing s e with
  | zero => simp [parseCodesF] at h
  | succ fuel ih =>
    simp only [parseCodesF] at h
    cases hr : (spanLit s).2 with
    | nil => rw [hr] at h; simp at h
    | cons x r =>
      rw [hr] at h
      simp only [bind, Except.bind] at h
      cases hc : parseCode r with
      | error e1 => rw [hc] at h; simp only [Except.error.injEq] at h; exact h ▸ parseCode_err _ _ hc
      | ok y =>
        rw [hc] at h; simp only at h
        cases hn : parseCodesF fuel y.2 with
        | error e2 => rw [hn] at h; simp only [Except.error.injEq] at h; exact h ▸ ih (e := e2) _ hn
        | ok es => rw [hn] at h; simp [pure, Except.pure] at h

/-! ## literal text, object lookups -/

theorem spanLit_no_percent (s : List Char) (h : '%' ∉ s) : spanLit s = (s, []) := by
  induction s with
  | nil => rfl
  | cons c cs ih =>
    have hc : c ≠ '%' := fun e => h (by simp [e])
    have hcs : '%' ∉ cs := fun e => h (by simp [e])
    simp [spanLit, hc, ih hcs]

theorem dotted_eq_walk (ks : List (List Char)) (v : Val) : dotted v ks = FormatSpec.walk v ks := by
  induction ks generalizing v with
  | nil => cases v <;> rfl
  | cons k ks ih =>
    cases v with
    | obj fs d =>
      simp only [dotted, FormatSpec.walk]
      cases fs.lookup k with
      | none => rfl
      | some x => exact ih x
    | num n d => rfl
    | str s => rfl
    | other d => rfl

theorem splitDots_eq_path (k : List Char) : splitDots k = FormatSpec.path k := by
  induction k with
  | nil => rfl
  | cons c cs ih =>
    simp only [splitDots, FormatSpec.path, List.foldr] at ih ⊢; rw [ih]
    generalize List.foldr _ _ cs = l
    cases l <;> rfl

end JrsVerif.Format
