/- C14 helper lemmas: prefix runs of the quoted-string / XML readers, the per-character
   round trip (complete table over ASCII + an arithmetic argument above it). -/
import JrsVerif.Model.Manif
import JrsVerif.Model.ManifSpec

namespace JrsVerif.ManifProofs
open JrsVerif.Manif JrsVerif.ManifSpec JrsVerif.Generated.Manif

/-! ### reading a prefix -/

/-- run the reader over a prefix: state reached and characters produced -/
def runPre (g : QCfg) : St → List Char → Option (St × List Char)
  | st, [] => some (st, [])
  | st, c :: cs =>
    match step g st c with
    | none => none
    | some (st', o) =>
      match runPre g st' cs with
      | none => none
      | some (st'', out) => some (st'', emit o out)

theorem emit_append (o : Option Char) (a b : List Char) : emit o (a ++ b) = emit o a ++ b := by
  cases o <;> rfl

theorem run_append (g : QCfg) (u t : List Char) (st : St) :
    run g st (u ++ t) =
      match runPre g st u with
      | none => none
      | some (st', out) => (run g st' t).map (out ++ ·) := by
  induction u generalizing st with
  | nil => simp [runPre]
  | cons c cs ih =>
    simp only [List.cons_append, run, runPre]
    cases hs : step g st c with
    | none => simp
    | some p =>
      obtain ⟨st', o⟩ := p
      simp only [ih]
      cases hp : runPre g st' cs with
      | none => simp
      | some q =>
        obtain ⟨st'', out⟩ := q
        simp only
        cases hr : run g st'' t with
        | none => simp
        | some r => simp [emit_append]

/-- if every unit `f c` reads as exactly `c` from the plain state, the whole body reads back -/
theorem run_flatMap (g : QCfg) (f : Char → List Char)
    (h : ∀ c, runPre g .plain (f c) = some (.plain, [c])) (s : List Char) :
    run g .plain (s.flatMap f ++ ['"']) = some s := by
  induction s with
  | nil => simp [run, step, emit]
  | cons c cs ih =>
    simp only [List.flatMap_cons, List.append_assoc]
    rw [run_append, h c]
    simp [ih]

/-! ### hexadecimal digits -/

theorem hexVal_hexDigit : ∀ k, k < 16 → hexVal (hexDigit k) = some k := by decide

theorem u4_value (n : Nat) (h : n < 65536) :
    (((n / 4096 % 16) * 16 + n / 256 % 16) * 16 + n / 16 % 16) * 16 + n % 16 = n := by omega

theorem scalar_toNat (c : Char) : scalar c.toNat = some c := by
  unfold scalar
  have hv : c.toNat.isValidChar := c.valid
  simp [hv, Char.ofNat_toNat]

theorem step_plain_bs (g : QCfg) : step g .plain '\\' = some (.esc, none) := by simp [step]

theorem step_esc_u (g : QCfg) (hs : g.simple 'u' = none) (hh : g.hex 'u' = some 4) :
    step g .esc 'u' = some (.hex 4 0, none) := by simp [step, hs, hh]

theorem step_hex_more (g : QCfg) (left acc k : Nat) (hk : k < 16) (hl : left ≠ 1) :
    step g (.hex left acc) (hexDigit k) = some (.hex (left - 1) (acc * 16 + k), none) := by
  simp [step, hexVal_hexDigit k hk, hl]

theorem step_hex_last (g : QCfg) (acc k : Nat) (hk : k < 16) (c : Char) (hv : acc * 16 + k = c.toNat) :
    step g (.hex 1 acc) (hexDigit k) = some (.plain, some c) := by
  simp [step, hexVal_hexDigit k hk, hv, scalar_toNat]

/-- `\uXXXX` written by `u4` reads back as the character, for any grammar with a 4-digit `\u` -/
theorem runPre_u4 (g : QCfg) (c : Char) (hc : c.toNat < 65536)
    (hs : g.simple 'u' = none) (hh : g.hex 'u' = some 4) :
    runPre g .plain (u4 c) = some (.plain, [c]) := by
  have e3 := step_hex_more g 4 0 (c.toNat / 4096 % 16) (by omega) (by decide)
  have e2 := step_hex_more g 3 (0 * 16 + c.toNat / 4096 % 16) (c.toNat / 256 % 16) (by omega) (by decide)
  have e1 := step_hex_more g 2 ((0 * 16 + c.toNat / 4096 % 16) * 16 + c.toNat / 256 % 16) (c.toNat / 16 % 16) (by omega) (by decide)
  have e0 := step_hex_last g (((0 * 16 + c.toNat / 4096 % 16) * 16 + c.toNat / 256 % 16) * 16 + c.toNat / 16 % 16)
    (c.toNat % 16) (by omega) c (by omega)
  simp only [u4, runPre, step_plain_bs, step_esc_u g hs hh, e3, e2, e1, e0, emit]

/-! ### what one source character becomes in a quoted string -/

/-- one character after `escape_string_json_buf` and the `\\uXXXX` post-pass over class `cls` -/
def unit (cls : List (Nat × Nat)) (c : Char) : List Char :=
  (escChar c).flatMap (fun d => if inRanges cls d then u4 d else [d])

theorem reescape_escJson (cls : List (Nat × Nat)) (hq : inRanges cls '"' = false) (s : List Char) :
    reescape cls (escJson s) = '"' :: (s.flatMap (unit cls) ++ ['"']) := by
  simp [reescape, escJson, escBody, hq, List.flatMap_append, List.flatMap_assoc]
  rfl

theorem unit_high (cls : List (Nat × Nat)) (c : Char) (h : 128 ≤ c.toNat) :
    unit cls c = if inRanges cls c then u4 c else [c] := by
  have hr : row c = 0 := by simp [row]; omega
  simp [unit, escChar, hr]

theorem ne_of_high (c d : Char) (h : 128 ≤ c.toNat) (hd : d.toNat < 128) : c ≠ d := by
  rintro rfl; omega

theorem runPre_single (g : QCfg) (c : Char) (h : 128 ≤ c.toNat) (hp : g.plainOk c = true) :
    runPre g .plain [c] = some (.plain, [c]) := by
  have h1 : c ≠ '"' := ne_of_high c '"' h (by decide)
  have h2 : c ≠ '\\' := ne_of_high c '\\' h (by decide)
  simp [runPre, step, h1, h2, hp, emit]

theorem ofNat_toNat_lt (c : Char) : Char.ofNat c.toNat = c := Char.ofNat_toNat c

/-! ### XML -/

def xrunPre (attr : Bool) : XSt → List Char → Option (XSt × List Char)
  | st, [] => some (st, [])
  | st, c :: cs =>
    match xstep attr st c with
    | none => none
    | some (st', o) =>
      match xrunPre attr st' cs with
      | none => none
      | some (st'', out) => some (st'', emit o out)

theorem xrun_append (attr : Bool) (u t : List Char) (st : XSt) :
    xrun attr st (u ++ t) =
      match xrunPre attr st u with
      | none => none
      | some (st', out) => (xrun attr st' t).map (out ++ ·) := by
  induction u generalizing st with
  | nil => simp [xrunPre]
  | cons c cs ih =>
    simp only [List.cons_append, xrun, xrunPre]
    cases hs : xstep attr st c with
    | none => simp
    | some p =>
      obtain ⟨st', o⟩ := p
      simp only [ih]
      cases hp : xrunPre attr st' cs with
      | none => simp
      | some q =>
        obtain ⟨st'', out⟩ := q
        simp only
        cases hr : xrun attr st'' t with
        | none => simp
        | some r => simp [emit_append]

theorem xrun_flatMap (attr : Bool) (f : Char → List Char) (s : List Char)
    (h : ∀ c, c ∈ s → xrunPre attr .text (f c) = some (.text, [c])) :
    xrun attr .text (s.flatMap f) = some s := by
  induction s with
  | nil => simp [xrun]
  | cons c cs ih =>
    simp only [List.flatMap_cons]
    rw [xrun_append, h c (by simp)]
    have := ih (fun d hd => h d (by simp [hd]))
    simp [this]

theorem xml_escapes_ascii : ∀ e, e ∈ XML_ESCAPES → e.1 < 128 := by decide

theorem xmlEscChar_high (ctx : Nat) (c : Char) (h : 128 ≤ c.toNat) : xmlEscChar ctx c = [c] := by
  have : XML_ESCAPES.find? (fun e => e.1 == c.toNat && decide (e.2.1 ≤ ctx)) = none := by
    rw [List.find?_eq_none]
    intro e he
    have := xml_escapes_ascii e he
    simp; omega
  simp [xmlEscChar, this]

theorem xrunPre_high (attr : Bool) (c : Char) (h : 128 ≤ c.toNat) (hx : xmlChar c = true) :
    xrunPre attr .text [c] = some (.text, [c]) := by
  have h1 := ne_of_high c '<' h (by decide)
  have h2 := ne_of_high c '&' h (by decide)
  have h3 := ne_of_high c '"' h (by decide)
  have h4 := ne_of_high c '\r' h (by decide)
  have h5 := ne_of_high c '\n' h (by decide)
  have h6 := ne_of_high c '\t' h (by decide)
  simp [xrunPre, xstep, h1, h2, h3, h4, h5, h6, hx, emit]

/-! ### YAML `bare_safe` -/

theorem lower_eq (c : Char) : lower c = asciiLower c := rfl

theorem words_reserved : ∀ w, w ∈ yaml11Words → ∃ r, r ∈ YAML_RESERVED ∧ r.toList.map lower = w := by decide

theorem yaml_safe_class (c : Char) (h : inRanges YAML_CLASS_SAFE c = true) : yamlPlainSafeChar c = true := by
  simp [inRanges, YAML_CLASS_SAFE] at h
  simp [yamlPlainSafeChar]
  omega

theorem bareSafe_false_of_reserved (s : List Char) (h : isReserved s = true) : bareSafe s = false := by
  unfold bareSafe
  simp [h]

theorem digits_int (s : List Char) (h : isDigits s = true) :
    s.all (inRanges YAML_CLASS_INT) = true ∧ count s '-' = 0 := by
  simp [isDigits] at h
  constructor
  · simp only [List.all_eq_true]
    intro c hc
    have := h.2 c hc
    simp [inRanges, YAML_CLASS_INT]
    omega
  · simp only [count, List.length_eq_zero_iff, List.filter_eq_nil_iff]
    intro c hc
    have := h.2 c hc
    simp
    rintro rfl
    simp at this

theorem bareSafe_false_of_digits (s : List Char) (h : isDigits s = true) : bareSafe s = false := by
  obtain ⟨h1, h2⟩ := digits_int s h
  unfold bareSafe
  simp [h1, h2]


end JrsVerif.ManifProofs
