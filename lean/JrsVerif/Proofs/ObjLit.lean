/- C02: the literal transliteration of `get_idx_uncached` (Model/ObjLit.lean) computes, on EVERY
   core vector, exactly the refactored walker `collect` (in fold order); the cache protocol of
   `get_idx`. -/
import JrsVerif.Model.ObjLit

namespace JrsVerif.Obj

/-- the items of `cores[..idx].iter().enumerate().rev()`, from the reversed vector -/
def itemsOf (rev : List Core) : List (Core × Nat) := (rev.reverse.zipIdx).reverse

theorem itemsOf_cons (c : Core) (rest : List Core) :
    itemsOf (c :: rest) = (c, rest.length) :: itemsOf rest := by
  simp [itemsOf, List.zipIdx_append]

/-- `prev_layers` fits a `usize` with room for the `+ 1` (it is a `Vec` length) -/
def CoreOk : Core → Prop
  | .oop _ _ => True
  | .omitC _ k => k < USIZE_MAX

/-- the contributions gathered so far, top-most first -/
def accOf (st : LoopSt) : List Contrib := st.firstAdd.toList ++ st.addStack

/-- `add_stack` is only pushed to after `first_add` was set -/
def StWF (st : LoopSt) : Prop := st.firstAdd = none → st.addStack = []

theorem afterLoop_eq (st : LoopSt) (h : StWF st) : afterLoop st = foldOrder (accOf st) := by
  obtain ⟨fa, stack, sk⟩ := st
  cases fa with
  | none =>
    have : stack = [] := h rfl
    subst this
    simp [afterLoop, foldOrder, accOf]
  | some first =>
    cases stack with
    | nil => simp [afterLoop, foldOrder, accOf]
    | cons x r => simp [afterLoop, foldOrder, accOf]

theorem loopLit_eq (rev : List Core) (st : LoopSt) (n : Name) (hwf : StWF st)
    (hok : ∀ c ∈ rev, CoreOk c) :
    loopLit (itemsOf rev) st n = foldOrder (accOf st ++ collect rev st.skip n) := by
  induction rev generalizing st with
  | nil => simp [itemsOf, loopLit, collect, afterLoop_eq st hwf]
  | cons c rest ih =>
    have hok' : ∀ c ∈ rest, CoreOk c := fun c hc => hok c (List.mem_cons_of_mem _ hc)
    rw [itemsOf_cons]
    obtain ⟨fa, stack, sk⟩ := st
    cases c with
    | oop fs a =>
      simp only [loopLit, loopBody, getForCore, collect]
      by_cases hs : sk = 0
      · subst hs
        simp only [bne_self_eq_false, Bool.false_eq_true, ↓reduceIte, beq_self_eq_true]
        cases hl : lookup fs n with
        | none =>
          simp only
          rw [ih ⟨fa, stack, satDec 0⟩ hwf hok']; rfl
        | some f =>
          by_cases hadd : f.add = true
          · simp only [hadd, ↓reduceIte]
            cases fa with
            | none =>
              have : stack = [] := hwf rfl
              subst this
              simp only [Option.isNone_none, ↓reduceIte]
              rw [ih _ (by intro h; cases h) hok']
              simp [accOf, satDec]
            | some first =>
              simp only [Option.isNone_some, Bool.false_eq_true, ↓reduceIte]
              rw [ih _ (by intro h; cases h) hok']
              simp [accOf, satDec]
          · simp only [hadd, Bool.false_eq_true, ↓reduceIte]
            cases fa with
            | none =>
              have : stack = [] := hwf rfl
              subst this
              simp [accOf, foldOrder]
            | some first =>
              simp only [Option.isNone_some, Bool.false_eq_true, ↓reduceIte]
              rw [afterLoop_eq _ (by intro h; cases h)]
              simp [accOf]
      · have hb : (sk != 0) = true := by simpa using hs
        have hb' : (sk == 0) = false := by simpa using hs
        simp only [hb, ↓reduceIte, hb', Bool.false_eq_true]
        rw [ih ⟨fa, stack, satDec sk⟩ hwf hok']; rfl
    | omitC ns k =>
      have hk : k < USIZE_MAX := hok (.omitC ns k) (List.mem_cons_self ..)
      have hsat : satAdd k 1 = k + 1 := by unfold satAdd; omega
      simp only [loopLit, loopBody, getForCore, collect]
      by_cases hc : ns.contains n = true
      · simp only [hc, ↓reduceIte]
        rw [ih ⟨fa, stack, satDec (max sk (satAdd k 1))⟩ hwf hok', hsat]; rfl
      · simp only [hc, Bool.false_eq_true, ↓reduceIte]
        rw [ih ⟨fa, stack, satDec sk⟩ hwf hok']; rfl

theorem itemsOf_reverse (l : List Core) : itemsOf l.reverse = l.zipIdx.reverse := by
  simp [itemsOf]

theorem getIdxLit_eq_collect (cores : List Core) (idx : Nat) (n : Name)
    (hok : ∀ c ∈ cores, CoreOk c) :
    getIdxLit cores idx n = foldOrder (getIdx cores idx n) := by
  have h := loopLit_eq (cores.take idx).reverse LoopSt.init n (by intro _; rfl)
    (by intro c hc; exact hok c (List.mem_of_mem_take (List.mem_reverse.mp hc)))
  rw [itemsOf_reverse] at h
  simpa [getIdxLit, getIdx, accOf, LoopSt.init] using h

/-- every compiled object satisfies `CoreOk` as long as it has fewer than 2^64-1 layers -/
theorem compile_coreOk (t : OT) (h : (compile t).length < USIZE_MAX) :
    ∀ c ∈ compile t, CoreOk c := by
  induction t with
  | lit fs a =>
    intro c hc
    by_cases he : (fs.isEmpty && !a) = true
    · simp [compile, he] at hc
    · simp [compile, he] at hc; subst hc; trivial
  | add x y ihx ihy =>
    simp only [compile, List.length_append] at h
    intro c hc
    simp only [compile, List.mem_append] at hc
    rcases hc with hc | hc
    · exact ihx (by omega) c hc
    · exact ihy (by omega) c hc
  | rm o ns ih =>
    simp only [compile, List.length_append, List.length_cons, List.length_nil] at h
    intro c hc
    simp only [compile, List.mem_append, List.mem_singleton] at hc
    rcases hc with hc | hc
    · exact ih (by omega) c hc
    · subst hc; show (compile o).length < USIZE_MAX; omega

/-! ### the cache protocol -/

section cache
variable {K R : Type} [DecidableEq K]

theorem find_insert_self (c : Cache K R) (k : K) (v : CacheValue R) :
    (c.insert k v).find k = some v := by
  simp [Cache.insert, Cache.find]

theorem find_insert_other (c : Cache K R) (k k' : K) (v : CacheValue R) (h : k ≠ k') :
    (c.insert k v).find k' = c.find k' := by
  simp [Cache.insert, Cache.find, h]

/-- an operation on the cache that never loses or changes a `Cached` entry -/
def KeepsCached (g : Cache K R → Cache K R) : Prop :=
  ∀ (c : Cache K R) (k : K) (v : R), c.find k = some (.cached v) → (g c).find k = some (.cached v)

theorem getIdxCached_keeps (unc : K → Cache K R → R × Cache K R)
    (hu : ∀ k, KeepsCached (fun c => (unc k c).2)) (a : Bool) (k : K) :
    KeepsCached (fun c => (getIdxCached unc a k c).2) := by
  intro c k' v hv
  simp only [getIdxCached]
  cases hf : c.find k with
  | none =>
    simp only
    have hne : k ≠ k' := by intro e; subst e; rw [hf] at hv; cases hv
    rw [find_insert_other _ _ _ _ hne]
    apply hu k
    rw [find_insert_other _ _ _ _ hne]; exact hv
  | some cv =>
    cases cv with
    | cached w => simpa using hv
    | pending =>
      have hne : k ≠ k' := by intro e; subst e; rw [hf] at hv; cases hv
      cases a with
      | false => simpa using hv
      | true =>
        simp only [Bool.not_true, Bool.false_eq_true, ↓reduceIte]
        rw [find_insert_other _ _ _ _ hne]
        exact hu k c k' v hv

end cache

end JrsVerif.Obj
