/- C15 — helper lemmas for the dependency lister (`Deps.loop` = DFS with a visited set). -/
import JrsVerif.Model.Cli

namespace JrsVerif.Deps

theorem mem_ins {t x : Nat} {s : List Nat} : x ∈ ins t s ↔ x = t ∨ x ∈ s := by
  unfold ins
  split
  · rename_i h
    have : t ∈ s := by simpa using h
    constructor
    · intro hx; exact Or.inr hx
    · rintro (rfl | hx)
      · exact this
      · exact hx
  · simp

/-- every edge of `v` is resolved, listed, and (when `import`) visited -/
def Closed (g : Graph) (deps vis : List Nat) (v : Nat) : Prop :=
  ∃ es, g v = some es ∧ ∀ e ∈ es, ∃ t, e.tgt = some t ∧ t ∈ deps ∧ (e.code = true → t ∈ vis)

theorem Closed.mono {g : Graph} {deps vis deps' vis' : List Nat} {v : Nat}
    (h : Closed g deps vis v) (hd : ∀ x, x ∈ deps → x ∈ deps') (hv : ∀ x, x ∈ vis → x ∈ vis') :
    Closed g deps' vis' v := by
  obtain ⟨es, hg, he⟩ := h
  refine ⟨es, hg, fun e hm => ?_⟩
  obtain ⟨t, h1, h2, h3⟩ := he e hm
  exact ⟨t, h1, hd _ h2, fun hc => hv _ (h3 hc)⟩

/-- what a successful run of the loop establishes -/
structure Post (g : Graph) (root : Nat) (es : List Edge) (deps vis deps' vis' : List Nat) : Prop where
  depsMono : ∀ x, x ∈ deps → x ∈ deps'
  visMono : ∀ x, x ∈ vis → x ∈ vis'
  edges : ∀ e ∈ es, ∃ t, e.tgt = some t ∧ t ∈ deps' ∧ (e.code = true → t ∈ vis')
  closed : ∀ v, v ∈ vis' → v ∉ vis → Closed g deps' vis' v
  visSound : ∀ v, v ∈ vis' → v ∉ vis → Reach g root v
  depsSound : ∀ t, t ∈ deps' → t ∉ deps → IsDep g root t

/-- `es` is (a suffix of) the import list of a reachable file -/
def FromReachable (g : Graph) (root : Nat) (es : List Edge) : Prop :=
  ∃ a esA, Reach g root a ∧ g a = some esA ∧ ∀ e, e ∈ es → e ∈ esA

theorem FromReachable.tail {g : Graph} {root : Nat} {e : Edge} {es : List Edge}
    (h : FromReachable g root (e :: es)) : FromReachable g root es := by
  obtain ⟨a, esA, h1, h2, h3⟩ := h
  exact ⟨a, esA, h1, h2, fun x hx => h3 x (List.mem_cons_of_mem _ hx)⟩

theorem FromReachable.target {g : Graph} {root : Nat} {e : Edge} {es es' : List Edge} {t : Nat}
    (h : FromReachable g root (e :: es)) (hc : e.code = true) (ht : e.tgt = some t)
    (hg : g t = some es') : FromReachable g root es' := by
  obtain ⟨a, esA, h1, h2, h3⟩ := h
  exact ⟨t, es', Reach.step h1 h2 (h3 e (List.mem_cons_self ..)) hc ht, hg, fun _ hx => hx⟩

theorem FromReachable.reach {g : Graph} {root : Nat} {e : Edge} {es : List Edge} {t : Nat}
    (h : FromReachable g root (e :: es)) (hc : e.code = true) (ht : e.tgt = some t) :
    Reach g root t := by
  obtain ⟨a, esA, h1, h2, h3⟩ := h
  exact Reach.step h1 h2 (h3 e (List.mem_cons_self ..)) hc ht

theorem FromReachable.isDep {g : Graph} {root : Nat} {e : Edge} {es : List Edge} {t : Nat}
    (h : FromReachable g root (e :: es)) (ht : e.tgt = some t) : IsDep g root t := by
  obtain ⟨a, esA, h1, h2, h3⟩ := h
  exact ⟨a, esA, e, h1, h2, h3 e (List.mem_cons_self ..), ht⟩

theorem loop_ok (g : Graph) (root : Nat) (f : Nat) (es : List Edge) (deps vis : List Nat) :
    ∀ deps' vis', loop g f es deps vis = .ok deps' vis' → FromReachable g root es →
      Post g root es deps vis deps' vis' := by
  fun_induction loop g f es deps vis with
  | case1 f deps vis =>
    intro deps' vis' h _
    simp only [Res.ok.injEq] at h
    obtain ⟨rfl, rfl⟩ := h
    exact ⟨fun _ h => h, fun _ h => h, by simp, fun v h1 h2 => absurd h1 h2,
           fun v h1 h2 => absurd h1 h2, fun v h1 h2 => absurd h1 h2⟩
  | case2 f e es deps vis htgt =>
    intro deps' vis' h; simp at h
  | case3 e es deps vis t htgt hcond =>
    intro deps' vis' h; simp at h
  | case4 e es deps vis t htgt hcond f' hg =>
    intro deps' vis' h; simp at h
  | case5 e es deps vis t htgt hcond f' es' hg d v hin ih1 ih2 =>
    intro deps' vis' h hfr
    have hc : e.code = true := by
      simp only [Bool.and_eq_true] at hcond; exact hcond.1
    have hnew : t ∉ vis := by
      simp only [Bool.and_eq_true, Bool.not_eq_true', List.contains_eq_mem, decide_eq_false_iff_not] at hcond
      simpa using hcond.2
    have p1 := ih1 d v hin (hfr.target hc htgt hg)
    have p2 := ih2 deps' vis' h hfr.tail
    refine ⟨?_, ?_, ?_, ?_, ?_, ?_⟩
    · intro x hx; exact p2.depsMono _ (p1.depsMono _ (mem_ins.mpr (Or.inr hx)))
    · intro x hx; exact p2.visMono _ (p1.visMono _ (List.mem_cons_of_mem _ hx))
    · intro e0 he0
      rcases List.mem_cons.mp he0 with rfl | he0
      · exact ⟨t, htgt, p2.depsMono _ (p1.depsMono _ (mem_ins.mpr (Or.inl rfl))),
               fun _ => p2.visMono _ (p1.visMono _ (List.mem_cons_self ..))⟩
      · exact p2.edges e0 he0
    · intro x hx hnx
      by_cases hxv : x ∈ v
      · by_cases hxt : x = t
        · subst hxt
          exact Closed.mono ⟨es', hg, p1.edges⟩ p2.depsMono p2.visMono
        · have : x ∉ t :: vis := by
            intro hm; rcases List.mem_cons.mp hm with h1 | h1
            · exact hxt h1
            · exact hnx h1
          exact Closed.mono (p1.closed x hxv this) p2.depsMono p2.visMono
      · exact p2.closed x hx hxv
    · intro x hx hnx
      by_cases hxv : x ∈ v
      · by_cases hxt : x = t
        · subst hxt; exact hfr.reach hc htgt
        · have : x ∉ t :: vis := by
            intro hm; rcases List.mem_cons.mp hm with h1 | h1
            · exact hxt h1
            · exact hnx h1
          exact p1.visSound x hxv this
      · exact p2.visSound x hx hxv
    · intro x hx hnx
      by_cases hxd : x ∈ d
      · by_cases hxt : x = t
        · subst hxt; exact hfr.isDep htgt
        · have : x ∉ ins t deps := by
            intro hm; rcases mem_ins.mp hm with h1 | h1
            · exact hxt h1
            · exact hnx h1
          exact p1.depsSound x hxd this
      · exact p2.depsSound x hx hxd
  | case6 e es deps vis t htgt hcond f' es' hg hnot ih1 =>
    intro deps' vis' h
    exact (hnot deps' vis' h).elim
  | case7 f e es deps vis t htgt hcond ih =>
    intro deps' vis' h hfr
    have p := ih deps' vis' h hfr.tail
    refine ⟨?_, p.visMono, ?_, p.closed, p.visSound, ?_⟩
    · intro x hx; exact p.depsMono _ (mem_ins.mpr (Or.inr hx))
    · intro e0 he0
      rcases List.mem_cons.mp he0 with rfl | he0
      · refine ⟨t, htgt, p.depsMono _ (mem_ins.mpr (Or.inl rfl)), fun hc => ?_⟩
        have : t ∈ vis := by
          simp only [hc, Bool.true_and, Bool.not_eq_true, Bool.not_eq_false', List.contains_eq_mem,
            decide_eq_true_eq] at hcond
          simpa using hcond
        exact p.visMono _ this
      · exact p.edges e0 he0
    · intro x hx hnx
      by_cases hxt : x = t
      · subst hxt; exact hfr.isDep htgt
      · have : x ∉ ins t deps := by
          intro hm; rcases mem_ins.mp hm with h1 | h1
          · exact hxt h1
          · exact hnx h1
        exact p.depsSound x hx this

theorem loop_bad (g : Graph) (root : Nat) (f : Nat) (es : List Edge) (deps vis : List Nat) :
    loop g f es deps vis = .bad → FromReachable g root es → Bad g root := by
  fun_induction loop g f es deps vis with
  | case1 f deps vis => intro h; simp at h
  | case2 f e es deps vis htgt =>
    intro _ hfr
    obtain ⟨a, esA, h1, h2, h3⟩ := hfr
    exact ⟨a, h1, Or.inr ⟨esA, e, h2, h3 e (List.mem_cons_self ..), htgt⟩⟩
  | case3 e es deps vis t htgt hcond => intro h; simp at h
  | case4 e es deps vis t htgt hcond f' hg =>
    intro _ hfr
    have hc : e.code = true := by
      simp only [Bool.and_eq_true] at hcond; exact hcond.1
    exact ⟨t, hfr.reach hc htgt, Or.inl hg⟩
  | case5 e es deps vis t htgt hcond f' es' hg d v hin ih1 ih2 =>
    intro h hfr
    exact ih2 h hfr.tail
  | case6 e es deps vis t htgt hcond f' es' hg hnot ih1 =>
    intro h hfr
    have hc : e.code = true := by
      simp only [Bool.and_eq_true] at hcond; exact hcond.1
    exact ih1 h (hfr.target hc htgt hg)
  | case7 f e es deps vis t htgt hcond ih =>
    intro h hfr
    exact ih h hfr.tail

end JrsVerif.Deps
