/- C10: std.set = uniq ∘ sort yields a set (core Lean only). -/
import JrsVerif.Proofs.StdSet
import JrsVerif.Proofs.StdSort
namespace JrsVerif.StdArr
open Std

section Uniq
variable {α κ : Type} {k : α → κ} {ord : κ → κ → Ordering}
variable {key : α → Option κ} {cmp : κ → κ → Option Ordering}

/-- pure twin of `uniqGo` for an infallible key -/
def uniqF (k : α → κ) (eq : κ → κ → Bool) : κ → List α → List α
  | _, [] => []
  | last, x :: r => if eq last (k x) then uniqF k eq (k x) r else x :: uniqF k eq (k x) r

theorem uniqGo_eq (hk : ∀ x, key x = some (k x)) (eq : κ → κ → Bool) (last : κ) (xs : List α) :
    uniqGo key eq last xs = some (uniqF k eq last xs) := by
  induction xs generalizing last with
  | nil => rfl
  | cons x r ih => simp only [uniqGo, uniqF, hk, ih]

theorem uniqF_props [TransCmp ord] (c : κ) (xs : List α)
    (hs : xs.Pairwise (fun a b => (ord (k a) (k b)).isLE))
    (hc : ∀ z ∈ xs, (ord c (k z)).isLE) :
    SSorted k ord (uniqF k (fun p q => ord p q == .eq) c xs) ∧
    (∀ z ∈ uniqF k (fun p q => ord p q == .eq) c xs, ord c (k z) = .lt ∧ z ∈ xs) ∧
    (∀ x ∈ xs, ord c (k x) = .eq ∨
      ∃ z ∈ uniqF k (fun p q => ord p q == .eq) c xs, ord (k x) (k z) = .eq) := by
  induction xs generalizing c with
  | nil => simp [uniqF, SSorted]
  | cons x r ih =>
    have hxr := (List.pairwise_cons.1 hs).1
    obtain ⟨ih1, ih2, ih3⟩ := ih (k x) (List.pairwise_cons.1 hs).2 hxr
    have hcx := hc x (List.mem_cons_self ..)
    simp only [uniqF]
    by_cases he : ord c (k x) = .eq
    · simp only [he, beq_self_eq_true, if_true]
      refine ⟨ih1, ?_, ?_⟩
      · intro z hz
        exact ⟨TransCmp.lt_of_eq_of_lt he (ih2 z hz).1, List.mem_cons_of_mem _ (ih2 z hz).2⟩
      · intro y hy
        rcases List.mem_cons.1 hy with rfl | hy
        · exact Or.inl he
        · rcases ih3 y hy with h | h
          · exact Or.inl (TransCmp.eq_trans he h)
          · exact Or.inr h
    · have hlt : ord c (k x) = .lt := by
        cases h : ord c (k x) <;> simp_all
      have hne : (ord c (k x) == .eq) = false := by simp [hlt]
      simp only [hne]
      refine ⟨?_, ?_, ?_⟩
      · exact List.pairwise_cons.2 ⟨fun z hz => (ih2 z hz).1, ih1⟩
      · intro z hz
        rcases List.mem_cons.1 hz with rfl | hz
        · exact ⟨hlt, List.mem_cons_self ..⟩
        · exact ⟨TransCmp.lt_trans hlt (ih2 z hz).1, List.mem_cons_of_mem _ (ih2 z hz).2⟩
      · intro y hy
        rcases List.mem_cons.1 hy with rfl | hy
        · exact Or.inr ⟨y, List.mem_cons_self .., ReflCmp.compare_self⟩
        · rcases ih3 y hy with h | ⟨z, hz, hyz⟩
          · exact Or.inr ⟨x, List.mem_cons_self .., OrientedCmp.eq_symm h⟩
          · exact Or.inr ⟨z, List.mem_cons_of_mem _ hz, hyz⟩

/-- `builtin_set` structure (`sort_keyf` then `uniq_keyf`): for a total key into a total order the
    result is a set, drawn from the input, in which every input key is represented -/
theorem setM_props [TransCmp ord] (hk : ∀ x, key x = some (k x)) (hc : ∀ p q, cmp p q = some (ord p q))
    (xs : List α) :
    ∃ r, (sortByKeyM key cmp xs).bind (uniqM key (fun p q => ord p q == .eq)) = some r ∧
      SSorted k ord r ∧ (∀ z ∈ r, z ∈ xs) ∧ (∀ x ∈ xs, ∃ z ∈ r, ord (k x) (k z) = .eq) := by
  obtain ⟨s, hs, hperm, hsorted, _⟩ := sortByKeyM_total ord hk hc xs
  rw [hs]
  cases s with
  | nil =>
    refine ⟨[], rfl, List.Pairwise.nil, by simp, ?_⟩
    intro x hx
    exact absurd (hperm.symm.subset hx) (by simp)
  | cons x r =>
    obtain ⟨p1, p2, p3⟩ := uniqF_props (k := k) (ord := ord) (k x) r (List.pairwise_cons.1 hsorted).2
      (List.pairwise_cons.1 hsorted).1
    refine ⟨x :: uniqF k (fun p q => ord p q == .eq) (k x) r, ?_, ?_, ?_, ?_⟩
    · simp [uniqM, hk, uniqGo_eq hk]
    · exact List.pairwise_cons.2 ⟨fun z hz => (p2 z hz).1, p1⟩
    · intro z hz
      apply hperm.subset
      rcases List.mem_cons.1 hz with rfl | hz
      · exact List.mem_cons_self ..
      · exact List.mem_cons_of_mem _ (p2 z hz).2
    · intro y hy
      rcases List.mem_cons.1 (hperm.symm.subset hy) with rfl | hy'
      · exact ⟨y, List.mem_cons_self .., ReflCmp.compare_self⟩
      · rcases p3 y hy' with h | ⟨z, hz, hyz⟩
        · exact ⟨x, List.mem_cons_self .., OrientedCmp.eq_symm h⟩
        · exact ⟨z, List.mem_cons_of_mem _ hz, hyz⟩

end Uniq
end JrsVerif.StdArr
