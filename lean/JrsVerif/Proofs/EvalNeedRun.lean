/- C03 (round 3): every task of the definitional interpreter is `Good` (see EvalNeedStore):
   the walk over `Eval.run`, one lemma per `Task` constructor, by induction on fuel. -/
import JrsVerif.Proofs.EvalNeedStore
namespace JrsVerif.EvalNeed
open JrsVerif.Eval
variable {U : Ref → Prop}

macro "sim_modify" : tactic => `(tactic|
  (intro s s' h
   exact ⟨h.size, h.same, h.bound, h.lz, h.objs, by simp only [h.cache], by simp only [h.layerEnvs],
     by simp only [h.asserted, h.asserting], by simp only [h.asserting], by simp only [h.trace]⟩))

macro "ext_modify" : tactic => `(tactic|
  (intro s
   exact ⟨Nat.le_refl _, fun _ _ _ => rfl, Nat.le_refl _, fun _ _ => rfl, by simp⟩))

macro "sim_read" : tactic => `(tactic|
  (intro s s' h
   first
   | rfl
   | simp only [h.size, h.objs, h.cache, h.layerEnvs, h.asserted, h.asserting, h.trace]))

theorem Good.bindLocals (c : Ctx) (binds : List Bind) (t : Option (ObjId × Nat)) (d : Option ObjId) :
    Good U (Eval.bindLocals c binds t d) := by
  unfold Eval.bindLocals
  refine Good.get_bind ?_ (by sim_read)
  intro s
  apply Good.bind
  · apply Good.forIn
    intro b _
    cases b <;> exact Good.bind (Good.alloc _) (fun _ => Good.pure _)
  · intro _; exact Good.pure _

macro "good_leaf" : tactic => `(tactic| with_reducible first
  | exact Good.pure _
  | exact Good.throw _
  | exact Good.fail _ _
  | exact Good.undecided _
  | exact Good.alloc _
  | exact Good.allocObj _
  | exact Good.layersOf _
  | exact Good.expectVal _
  | exact Good.numStr _
  | exact Good.bindLocals _ _ _ _)

macro "good_modify" : tactic => `(tactic|
  ((with_reducible refine Good.modify _ ?_ ?_) <;> first | ext_modify | sim_modify))

macro "good_step" ih:ident : tactic => `(tactic| first
  | good_leaf
  | good_modify
  | with_reducible exact $ih _
  | with_reducible refine Good.get_bind ?_ (by sim_read)
  | with_reducible apply Good.bind
  | with_reducible apply Good.tryCatch
  | with_reducible apply Good.forIn
  | intro _
  | split)

set_option maxHeartbeats 400000


theorem Good.mapM {α β} (f : α → M β) (xs : List α) (hf : ∀ a, Good U (f a)) : Good U (xs.mapM f) := by
  induction xs with
  | nil => simp only [List.mapM_nil]; exact Good.pure _
  | cons x xs ih =>
    simp only [List.mapM_cons]
    exact Good.bind (hf x) (fun _ => Good.bind ih (fun _ => Good.pure _))

theorem Good.render (k : Nat) (j : JV) : Good U (run.render k j) := by
  induction k generalizing j with
  | zero => unfold run.render; exact Good.undecided _
  | succ k ih =>
    unfold run.render
    simp only []
    repeat' (first | good_leaf | with_reducible exact ih _ | with_reducible apply Good.bind | with_reducible apply Good.mapM | intro _ | split)



def setC (s : St) (r : Ref) (c : Cell) : St := { s with cells := s.cells.setIfInBounds r c }

/-- the memoising wrapper of `force`, as it appears in `run` -/
def memo (r : Ref) (m : M Out) : M Out := do
  setCell r .pending
  tryCatch
    (do
      let x ← m
      let v ← expectVal x
      setCell r (.done v)
      pure (.val v))
    fun stop =>
      match stop with
      | .err er => do setCell r (.failed er); throw (.err er)
      | stop => throw stop

def memoRes (r : Ref) : Except Stop Val × St → Except Stop Out × St
  | (.ok v, s2) => (.ok (.val v), setC s2 r (.done v))
  | (.error (.err er), s2) => (.error (.err er), setC s2 r (.failed er))
  | (.error st, s2) => (.error st, s2)

theorem exec_memo (r : Ref) (m : M Out) (s : St) :
    exec (memo r m) s = memoRes r (exec (m >>= expectVal) (setC s r .pending)) := by
  unfold memo
  rw [exec_bind, exec_setCell]
  simp only []
  rw [exec_tryCatch, exec_bind, exec_bind]
  simp only [setC]
  cases h : exec m { s with cells := s.cells.setIfInBounds r .pending } with
  | mk res s2 =>
    cases res with
    | error st =>
      cases st <;> simp only [memoRes, exec_bind, exec_setCell, exec_throw, setC]
    | ok x =>
      simp only []
      cases h2 : exec (expectVal x) s2 with
      | mk res2 s3 =>
        cases res2 with
        | error st => cases st <;> simp only [memoRes, exec_bind, exec_setCell, exec_throw, setC, h2]
        | ok v => simp only [memoRes, exec_bind, exec_setCell, exec_pure, setC, h2]

theorem force_eq (n : Nat) (r : Ref) :
    run (n+1) (.force r) = (get >>= fun s =>
      match s.cells.getD r .pending with
      | .done v => pure (.val v)
      | .failed e => throw (.err e)
      | .pending => fail "infrec" "infinite recursion detected"
      | .waiting c e => memo r (run n (.eval c e))
      | .app f args => memo r (run n (.call f args []))) := by
  conv => lhs; unfold run
  simp only [memo, bind_assoc]
  rfl


theorem cellAt_setC_ne (s : St) (r r' : Ref) (c : Cell) (h : r' ≠ r) : cellAt (setC s r c) r' = cellAt s r' :=
  getD_set_ne _ _ _ _ _ h

theorem cellAt_setC_eq (s : St) (r : Ref) (c : Cell) (h : r < s.cells.size) : cellAt (setC s r c) r = c :=
  getD_set_eq _ _ _ _ h

theorem setC_size (s : St) (r : Ref) (c : Cell) : (setC s r c).cells.size = s.cells.size := by
  simp [setC]

theorem lazy_lt {s : St} {r : Ref} (h : lazyCell (cellAt s r) = true) : r < s.cells.size := by
  apply Classical.byContradiction
  intro hn
  have : cellAt s r = .pending := by
    simp [cellAt, Array.getD_eq_getD_getElem?, Array.getElem?_eq_none (Nat.le_of_not_lt hn)]
  rw [this] at h; cases h

/-- overwriting a cell that was unevaluated at `s` keeps `t` a later store than `s` -/
theorem Ext.setC_lazy {s t : St} (h : Ext s t) (r : Ref) (c : Cell) (hl : lazyCell (cellAt s r) = true) :
    Ext s (setC t r c) where
  size := by rw [setC_size]; exact h.size
  keep := by
    intro r' hr' hn
    have hne : r' ≠ r := by intro e; subst e; rw [hl] at hn; cases hn
    rw [cellAt_setC_ne _ _ _ _ hne]; exact h.keep r' hr' hn
  osize := h.osize
  okeep := h.okeep
  trace := h.trace

theorem Sim.setC {s s' : St} (h : Sim U s s') (r : Ref) (c : Cell) (hr : ¬ U r) :
    Sim U (setC s r c) (setC s' r c) where
  size := by rw [setC_size, setC_size]; exact h.size
  same := by
    intro r' hr'
    by_cases e : r' = r
    · subst e
      by_cases hlt : r' < s.cells.size
      · rw [cellAt_setC_eq _ _ _ hlt, cellAt_setC_eq _ _ _ (h.size ▸ hlt)]
      · have h1 : cellAt (EvalNeed.setC s r' c) r' = .pending := by
          simp only [cellAt, EvalNeed.setC, Array.getD_eq_getD_getElem?, Array.getElem?_setIfInBounds]
          simp [hlt]
        have h2 : cellAt (EvalNeed.setC s' r' c) r' = .pending := by
          simp only [cellAt, EvalNeed.setC, Array.getD_eq_getD_getElem?, Array.getElem?_setIfInBounds]
          simp [h.size, hlt]
        rw [h1, h2]
    · rw [cellAt_setC_ne _ _ _ _ e, cellAt_setC_ne _ _ _ _ e]; exact h.same r' hr'
  bound := fun u hu => by rw [setC_size]; exact h.bound u hu
  lz := by
    intro u hu
    have hne : u ≠ r := by intro e; subst e; exact hr hu
    rw [cellAt_setC_ne _ _ _ _ hne]; exact h.lz u hu
  objs := h.objs
  cache := h.cache
  layerEnvs := h.layerEnvs
  asserted := h.asserted
  asserting := h.asserting
  trace := h.trace

theorem UL.of_setC {t : St} {r : Ref} {c : Cell} (hr : ¬ U r) (h : UL U (setC t r c)) : UL U t := by
  intro u hu
  have hne : u ≠ r := by intro e; subst e; exact hr hu
  have := h u hu
  rwa [cellAt_setC_ne _ _ _ _ hne] at this

theorem memo_ext {m : M Out} (hm : Good U m) (r : Ref) (s : St) (hl : lazyCell (cellAt s r) = true) :
    Ext s (exec (memo r m) s).2 := by
  rw [exec_memo]
  have h0 : Ext s (setC s r .pending) := (Ext.refl s).setC_lazy r _ hl
  have h1 := (Good.bind hm Good.expectVal).ext (U := U) (setC s r .pending)
  cases h : exec (m >>= expectVal) (setC s r .pending) with
  | mk res s2 =>
    rw [h] at h1
    have h2 := h0.trans h1
    cases res with
    | ok v => exact h2.setC_lazy r _ hl
    | error st =>
      cases st with
      | err er => exact h2.setC_lazy r _ hl
      | undecided w => exact h2

/-- after `force` of an unevaluated cell has run, the cell is no longer unevaluated -/
theorem memo_touched {m : M Out} (hm : Good U m) (r : Ref) (s : St) (hl : lazyCell (cellAt s r) = true) :
    lazyCell (cellAt (exec (memo r m) s).2 r) = false := by
  rw [exec_memo]
  have hlt := lazy_lt hl
  have hp : cellAt (setC s r .pending) r = .pending := cellAt_setC_eq _ _ _ hlt
  have h1 := (Good.bind hm Good.expectVal).ext (U := U) (setC s r .pending)
  cases h : exec (m >>= expectVal) (setC s r .pending) with
  | mk res s2 =>
    rw [h] at h1
    have hlt2 : r < s2.cells.size := Nat.lt_of_lt_of_le (by rw [setC_size]; exact hlt) h1.size
    have hk := h1.keep r (by rw [setC_size]; exact hlt) (by rw [hp]; rfl)
    cases res with
    | ok v => simp only [memoRes]; rw [cellAt_setC_eq _ _ _ hlt2]; rfl
    | error st =>
      cases st with
      | err er => simp only [memoRes]; rw [cellAt_setC_eq _ _ _ hlt2]; rfl
      | undecided w => simp only [memoRes]; rw [hk, hp]; rfl

theorem memo_sim {m : M Out} (hm : Good U m) (r : Ref) (s s' : St) (hr : ¬ U r) (hs : Sim U s s')
    (hu : UL U (exec (memo r m) s).2) :
    (exec (memo r m) s').1 = (exec (memo r m) s).1 ∧ Sim U (exec (memo r m) s).2 (exec (memo r m) s').2 := by
  rw [exec_memo] at hu ⊢
  rw [exec_memo]
  have hs1 : Sim U (setC s r .pending) (setC s' r .pending) := hs.setC r _ hr
  have h1 := (Good.bind hm Good.expectVal).sim (U := U) _ _ hs1
  cases h : exec (m >>= expectVal) (setC s r .pending) with
  | mk res s2 =>
    rw [h] at h1 hu
    have hu2 : UL U s2 := by
      cases res with
      | ok v => exact UL.of_setC hr hu
      | error st =>
        cases st with
        | err er => exact UL.of_setC hr hu
        | undecided w => exact hu
    obtain ⟨e1, e2⟩ := h1 hu2
    cases h' : exec (m >>= expectVal) (setC s' r .pending) with
    | mk res' s2' =>
      rw [h'] at e1 e2
      simp only at e1 e2; subst e1
      cases res' with
      | ok v => exact ⟨rfl, e2.setC r _ hr⟩
      | error st =>
        cases st with
        | err er => exact ⟨rfl, e2.setC r _ hr⟩
        | undecided w => exact ⟨rfl, e2⟩

theorem good_force {n : Nat} (ih : ∀ task, Good U (run n task)) (r : Ref) :
    Good U (run (n+1) (.force r)) := by
  rw [force_eq]
  constructor
  · intro s
    rw [exec_bind, exec_get]
    simp only []
    have hc : s.cells.getD r .pending = cellAt s r := rfl
    rw [hc]
    cases h : cellAt s r with
    | done v => exact Ext.refl s
    | failed e => exact Ext.refl s
    | pending => exact Ext.refl s
    | waiting c e => exact memo_ext (ih _) r s (by rw [h]; rfl)
    | app f args => exact memo_ext (ih _) r s (by rw [h]; rfl)
  · intro s s' hs hu
    rw [exec_bind, exec_get] at hu ⊢
    rw [exec_bind, exec_get]
    simp only [] at hu ⊢
    have hc : s.cells.getD r .pending = cellAt s r := rfl
    have hc' : s'.cells.getD r .pending = cellAt s' r := rfl
    rw [hc] at hu ⊢
    rw [hc']
    have hnU : lazyCell (cellAt s r) = false ∨ ¬ U r := by
      cases hl : lazyCell (cellAt s r) with
      | false => exact Or.inl rfl
      | true =>
        right; intro hU
        have ht : lazyCell (cellAt (exec (match cellAt s r with
          | .done v => (pure (.val v) : M Out)
          | .failed e => throw (.err e)
          | .pending => fail "infrec" "infinite recursion detected"
          | .waiting c e => memo r (run n (.eval c e))
          | .app f args => memo r (run n (.call f args []))) s).2 r) = false := by
          cases h : cellAt s r with
          | done v => rw [h] at hl; cases hl
          | failed e => rw [h] at hl; cases hl
          | pending => rw [h] at hl; cases hl
          | waiting c e => exact memo_touched (ih _) r s (by rw [h]; rfl)
          | app f args => exact memo_touched (ih _) r s (by rw [h]; rfl)
        rw [hu r hU] at ht; cases ht
    have hnU' : ¬ U r := by
      rcases hnU with hl | h
      · intro hU
        -- the final store of a read of an evaluated cell is `s` itself
        have : lazyCell (cellAt s r) = true := by
          cases h : cellAt s r with
          | done v => rw [h] at hu; exact absurd (hu r hU) (by rw [show (exec (pure (Out.val v) : M Out) s).2 = s from rfl, h]; simp [lazyCell])
          | failed e => rw [h] at hu; exact absurd (hu r hU) (by rw [show (exec (throw (Stop.err e) : M Out) s).2 = s from rfl, h]; simp [lazyCell])
          | pending => rw [h] at hu; exact absurd (hu r hU) (by rw [show (exec (fail "infrec" "infinite recursion detected" : M Out) s).2 = s from rfl, h]; simp [lazyCell])
          | waiting c e => rw [h] at hl; cases hl
          | app f args => rw [h] at hl; cases hl
        rw [this] at hl; cases hl
      · exact h
    rw [hs.same r hnU']
    cases h : cellAt s r with
    | done v => exact ⟨rfl, hs⟩
    | failed e => exact ⟨rfl, hs⟩
    | pending => exact ⟨rfl, hs⟩
    | waiting c e => rw [h] at hu; exact memo_sim (ih _) r s s' hnU' hs hu
    | app f args => rw [h] at hu; exact memo_sim (ih _) r s s' hnU' hs hu



theorem good_asserts {n : Nat} (ih : ∀ task, Good U (run n task)) (o : ObjId) :
    Good U (run (n+1) (.asserts o)) := by
  unfold run
  simp only []
  repeat' (good_step ih)

theorem good_field {n : Nat} (ih : ∀ task, Good U (run n task)) (o : ObjId) (nm : String) (i : Nat) :
    Good U (run (n+1) (.field o nm i)) := by
  unfold run
  simp only []
  repeat' (good_step ih)

theorem good_equals {n : Nat} (ih : ∀ task, Good U (run n task)) (a b : Val) :
    Good U (run (n+1) (.equals a b)) := by
  unfold run
  simp only []
  repeat' (good_step ih)

theorem good_compare {n : Nat} (ih : ∀ task, Good U (run n task)) (a b : Val) :
    Good U (run (n+1) (.compare a b)) := by
  unfold run
  simp only []
  repeat' (good_step ih)

theorem good_comp {n : Nat} (ih : ∀ task, Good U (run n task)) (c : Ctx) (specs : List CompSpec) :
    Good U (run (n+1) (.comp c specs)) := by
  unfold run
  simp only []
  repeat' (good_step ih)

theorem good_manifest {n : Nat} (ih : ∀ task, Good U (run n task)) (v : Val) :
    Good U (run (n+1) (.manifest v)) := by
  unfold run
  simp only []
  repeat' (good_step ih)



theorem good_call {n : Nat} (ih : ∀ task, Good U (run n task)) (f : Val) (pos : List Ref) (named : List (String × Ref)) :
    Good U (run (n+1) (.call f pos named)) := by
  unfold run
  simp only []
  repeat' (good_step ih)

theorem good_eval {n : Nat} (ih : ∀ task, Good U (run n task)) (c : Ctx) (e : Expr) :
    Good U (run (n+1) (.eval c e)) := by
  unfold run
  simp only []
  repeat' (good_step ih)

theorem good_toStr {n : Nat} (ih : ∀ task, Good U (run n task)) (v : Val) :
    Good U (run (n+1) (.toStr v)) := by
  unfold run
  simp only []
  repeat' (first | with_reducible exact Good.render _ _ | good_step ih)


/-- every interpreter task only moves the store forward and cannot observe the contents of
    thunk cells that are still unevaluated when it finishes -/
theorem run_good (U : Ref → Prop) : ∀ (n : Nat) (task : Eval.Task), Good U (run n task) := by
  intro n
  induction n with
  | zero => intro task; unfold run; exact Good.undecided _
  | succ n ih =>
    intro task
    cases task with
    | eval c e => exact good_eval ih c e
    | force r => exact good_force ih r
    | field o nm i => exact good_field ih o nm i
    | call f pos named => exact good_call ih f pos named
    | manifest v => exact good_manifest ih v
    | equals a b => exact good_equals ih a b
    | compare a b => exact good_compare ih a b
    | toStr v => exact good_toStr ih v
    | comp c specs => exact good_comp ih c specs
    | asserts o => exact good_asserts ih o

end JrsVerif.EvalNeed
