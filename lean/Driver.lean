/- `jrsmodel` : JSON-lines in, JSON-lines out.  {"op": "...", ...} -> answer of the Lean model
   (and of the reference spec) for that operation.  Imports only Model/Spec/Drv files. -/
import JrsVerif.Drv.C08

open Lean

def handlers : List (String → Json → Option Json) := [
  JrsVerif.Drv.C08.handle
]

def dispatch (line : String) : Json :=
  match Json.parse line with
  | .error e => JrsVerif.J.bad s!"json: {e}"
  | .ok j =>
    match JrsVerif.J.str? j "op" with
    | none => JrsVerif.J.bad "no op"
    | some op =>
      match handlers.findSome? (fun h => h op j) with
      | some r => r
      | none => JrsVerif.J.bad s!"unknown op {op}"

partial def loop (hin : IO.FS.Stream) (hout : IO.FS.Stream) : IO Unit := do
  let line ← hin.getLine
  if line.isEmpty then return ()
  let l := line.trimAscii.toString
  if !l.isEmpty then
    hout.putStrLn (dispatch l).compress
  loop hin hout

def main : IO Unit := do
  let hin ← IO.getStdin
  let hout ← IO.getStdout
  loop hin hout
  hout.flush
