/- `jrsmodel` : JSON-lines in, JSON-lines out.  {"op": "...", ...} -> answer of the Lean model
   (and of the reference spec) for that operation.  Imports only Model/Spec/Drv files. -/
import JrsVerif.Drv.C01
import JrsVerif.Drv.C02
import JrsVerif.Drv.C03
import JrsVerif.Drv.C04
import JrsVerif.Drv.C05
import JrsVerif.Drv.C06
import JrsVerif.Drv.C07
import JrsVerif.Drv.C08
import JrsVerif.Drv.C09
import JrsVerif.Drv.C10
import JrsVerif.Drv.C11
import JrsVerif.Drv.C12
import JrsVerif.Drv.C13
import JrsVerif.Drv.C14
import JrsVerif.Drv.C15
import JrsVerif.Drv.C16
import JrsVerif.Drv.C17
import JrsVerif.Drv.C18
import JrsVerif.Drv.C19
import JrsVerif.Drv.C20

open Lean

def handlers : List (String → Json → Option Json) := [
  JrsVerif.Drv.C01.handle,
  JrsVerif.Drv.C02.handle,
  JrsVerif.Drv.C03.handle,
  JrsVerif.Drv.C04.handle,
  JrsVerif.Drv.C05.handle,
  JrsVerif.Drv.C06.handle,
  JrsVerif.Drv.C07.handle,
  JrsVerif.Drv.C08.handle,
  JrsVerif.Drv.C09.handle,
  JrsVerif.Drv.C10.handle,
  JrsVerif.Drv.C11.handle,
  JrsVerif.Drv.C12.handle,
  JrsVerif.Drv.C13.handle,
  JrsVerif.Drv.C14.handle,
  JrsVerif.Drv.C15.handle,
  JrsVerif.Drv.C16.handle,
  JrsVerif.Drv.C17.handle,
  JrsVerif.Drv.C18.handle,
  JrsVerif.Drv.C19.handle,
  JrsVerif.Drv.C20.handle
]

def dispatch (line : String) : Json :=
  match Json.parse line with
  | .error e => JrsVerif.J.bad s!"json: {e}"
  | .ok j =>
    match JrsVerif.J.str? j "op" with
    | none => JrsVerif.J.bad "no op"
    | some op =>
      -- several property drivers may know an op of the same name: the first one that can parse
      -- the operation answers
      let answers := handlers.filterMap (fun h => h op j)
      match answers.find? (fun r => (r.getObjVal? "bad").toOption.isNone) with
      | some r => r
      | none => match answers.head? with
        | some r => r
        | none => JrsVerif.J.bad s!"unknown op {op}"

partial def loop (hin : IO.FS.Stream) (hout : IO.FS.Stream) : IO Unit := do
  let line ← hin.getLine
  if line.isEmpty then return ()
  let l := line.trimAscii.toString
  if !l.isEmpty then
    hout.putStrLn (dispatch l).compress
  loop hin hout

def main : IO Unit := do
  let hin ← IO.getStdin
  let hout ← IO.getStdout
  loop hin hout
  hout.flush
