//! C17 — the `|||` text-block scanner against its Lean model (`blk.scan`).
//!
//! For a generated body `b` (the text after `|||`): the first token of the real lexer on `"|||" + b`
//! (kind → result class, range → bytes bumped), `collect_lexed_str_block(b)` (truncate flag, lines)
//! and, when the block is well-formed, the string value the evaluator gives to `"|||" + consumed`.
use std::collections::BTreeMap;

use jrsonnet_evaluator::State;
use jrsonnet_lexer::{collect_lexed_str_block, Lexer, SyntaxKind};
use serde_json::{json, Value};

use super::cps;
use crate::common::{guarded, CaseWriter, Rng};

const INDENTS: &[&str] = &[" ", "  ", "\t", " \t", "\t ", "    ", "\t\t"];
const TEXTS: &[&str] = &[
	"a", "text", "é", "中 x", "😀", "\u{a0}x", "x|||y", "||", "|||", " lead", "\ttab", "trail  ", "x\r", "\r", "-", "é\u{301}",
	"\u{2028}", "a b c", "\"q\"", "%(x)s",
];
const TRAILERS: &[&str] = &["", ";", " + 1", "\n", "\n|||", "|", "|||", " // é", "\r\n", "é"];

fn gen_block(rng: &mut Rng, hist: &mut BTreeMap<String, usize>) -> String {
	let mut b = String::new();
	let mut tag = |k: &str| *hist.entry(format!("blk.{k}")).or_default() += 1;
	if rng.chance(1, 4) {
		b.push('-');
		tag("dash");
	}
	for _ in 0..rng.below(3) {
		b.push_str(*rng.pick(&[" ", "\t", "\r", "  "]));
	}
	match rng.below(12) {
		0 => {
			tag("header-eof");
			return b;
		}
		1 => {
			tag("header-garbage");
			b.push_str(*rng.pick(&["x", "é", "|||", "-", "😀"]));
		}
		_ => {}
	}
	b.push('\n');
	for _ in 0..rng.below(3) {
		if rng.chance(1, 2) {
			b.push('\n');
			tag("leading-blank");
		}
	}
	let w = if rng.chance(1, 12) {
		tag("no-indent");
		""
	} else {
		*rng.pick(INDENTS)
	};
	let nlines = 1 + rng.below(5);
	for i in 0..nlines {
		match rng.below(14) {
			0 if i > 0 => {
				b.push('\n');
				tag("blank-line");
			}
			1 if i > 0 => {
				b.push_str("\r\n");
				tag("crlf-blank-line");
			}
			2 if i > 0 => {
				// shorter / different indent: ends the block (or is a missing terminator)
				let w2 = *rng.pick(INDENTS);
				b.push_str(w2);
				b.push_str(*rng.pick(TEXTS));
				b.push('\n');
				tag("other-indent-line");
			}
			3 => {
				b.push_str(w);
				b.push_str(*rng.pick(INDENTS));
				b.push_str(*rng.pick(TEXTS));
				b.push('\n');
				tag("deeper-line");
			}
			4 => {
				b.push_str(w);
				b.push_str(*rng.pick(TEXTS));
				b.push_str("\r\n");
				tag("crlf-line");
			}
			5 => {
				b.push_str(w);
				b.push('\n');
				tag("indent-only-line");
			}
			_ => {
				b.push_str(w);
				b.push_str(*rng.pick(TEXTS));
				b.push('\n');
				tag("line");
			}
		}
	}
	match rng.below(10) {
		0 => tag("no-terminator"),
		1 => {
			// unterminated last line
			b.push_str(w);
			b.push_str(*rng.pick(TEXTS));
			tag("unterminated-line");
		}
		2 => {
			// terminator indented like the content: it IS content
			b.push_str(w);
			b.push_str("|||");
			tag("terminator-at-indent");
		}
		3 => {
			b.push_str(*rng.pick(&[" ", "\t"]));
			b.push_str(*rng.pick(&["x", "é", "||", "|"]));
			tag("garbage-terminator");
		}
		_ => {
			if !w.is_empty() && rng.chance(1, 2) {
				// strictly shorter whitespace that is not the indent
				let t = &w[..w.len() - 1];
				b.push_str(t);
			}
			b.push_str("|||");
			tag("terminator");
		}
	}
	b.push_str(*rng.pick(TRAILERS));
	if rng.chance(1, 6) {
		// one character-level mutation
		let cs: Vec<char> = b.chars().collect();
		if !cs.is_empty() {
			let i = rng.below(cs.len());
			let mut out = cs.clone();
			match rng.below(3) {
				0 => {
					out.remove(i);
				}
				1 => out.insert(i, *rng.pick(&['é', '|', '\n', ' ', '\t', '\r', '😀', '-'])),
				_ => out.truncate(i),
			}
			b = out.into_iter().collect();
			tag("mutated");
		}
	}
	b
}

fn kind_class(k: SyntaxKind) -> &'static str {
	match k {
		SyntaxKind::STRING_BLOCK => "ok",
		SyntaxKind::ERROR_STRING_BLOCK_UNEXPECTED_END => "UnexpectedEnd",
		SyntaxKind::ERROR_STRING_BLOCK_MISSING_NEW_LINE => "MissingNewLine",
		SyntaxKind::ERROR_STRING_BLOCK_MISSING_TERMINATION => "MissingTermination",
		SyntaxKind::ERROR_STRING_BLOCK_MISSING_INDENT => "MissingIndent",
		_ => "other-token",
	}
}

pub fn block_case(w: &mut CaseWriter, s: &State, body: &str, hist: &mut BTreeMap<String, usize>) {
	let input = format!("|||{body}");
	let lexed = guarded(|| {
		let first = Lexer::new(&input).next().expect("a token");
		(kind_class(first.kind), first.range.0, first.range.1)
	});
	let collected = guarded(|| match collect_lexed_str_block(body) {
		Ok(c) => Ok((c.truncate, c.lines.iter().map(|l| cps(l)).collect::<Vec<_>>())),
		Err(e) => Err(format!("{e:?}")),
	});
	let op = json!({"op":"blk.scan","text":cps(body),"size":body.chars().count(),"_src":body});
	let ans = match (lexed, collected) {
		(Ok((class, a, b)), Ok(c)) => {
			*hist.entry(format!("blk.result.{class}")).or_default() += 1;
			let bump = (b - a) as usize - 3;
			let (truncate, lines, cerr) = match c {
				Ok((t, l)) => (json!(t), json!(l), json!("ok")),
				Err(e) => (Value::Null, Value::Null, json!(e)),
			};
			// the value of the block through lexer, parser and evaluator
			let value = if class == "ok" && input.is_char_boundary(3 + bump) {
				let r = guarded(|| {
					s.evaluate_snippet("V".to_owned(), input[..3 + bump].to_owned())
						.and_then(|v| v.manifest(jrsonnet_evaluator::manifest::JsonFormat::minify()))
				});
				match r {
					Ok(Ok(j)) => match serde_json::from_str::<Value>(&j) {
						Ok(Value::String(v)) => json!(cps(&v)),
						_ => json!("not-a-string"),
					},
					Ok(Err(e)) => json!(format!("error: {}", e.error())),
					Err(p) => json!({"panic": p}),
				}
			} else {
				Value::Null
			};
			json!({"res": class, "collect": cerr, "start": a, "bump": bump, "truncate": truncate, "lines": lines, "value": value})
		}
		(Err(p), _) | (_, Err(p)) => json!({"panic": p}),
	};
	w.case(op, ans);
}

pub fn run_blocks(w: &mut CaseWriter, rng: &mut Rng, thorough: bool, hist: &mut BTreeMap<String, usize>) {
	let s = crate::common::new_state();
	let _g = s.enter();
	let fixed: &[&str] = &[
		"", "-", "\n", "\n|||", "\n  a\n|||", "-\n  a\n|||", "\n\n  a\n\n  b\n|||", "\n\ta\n\t|||", "\n  é\n   more 😀\n|||",
		" x\n  a\n|||", "\r\n  crlf\r\n|||", "\n  a\n b\n|||", "\n é\n é|||", "\n  a\n  |||", "\n  a\n \t|||;", "\n  a", "\n  a\n",
		"\n  a\n ", "\n  a\n x|||", "\n\u{a0}a\n|||", "\n  a\n\r\n  b\n|||", "-\n  a\n\n|||", "\n  \n|||", "é\n a\n|||", "\n a\n|||é",
	];
	for b in fixed {
		block_case(w, &s, b, hist);
	}
	let n = if thorough { 30000 } else { 4000 };
	for _ in 0..n {
		let b = gen_block(rng, hist);
		block_case(w, &s, &b, hist);
	}
}
