//! C09 — numbers are IEEE-754 doubles with checked range and coherent comparison.
//! Runs every numeric operator and std math function of the REAL evaluator (functions compiled
//! once from source text, called with raw doubles) on all pairs of a boundary-dense set of
//! doubles, plus sort/uniq/set/setMember on arrays and clamp on triples drawn from it.  Numbers
//! travel as 16-hex-digit bit patterns; errors as a small class enum.
use std::collections::BTreeMap;

use jrsonnet_evaluator::{
	error::ErrorKind, function::NativeFn, typed::FromUntyped, Val,
};
use serde_json::{json, Map, Value};

use crate::common::{guarded, new_state, CaseWriter, Opts, Rng};

type F1 = NativeFn!((f64) -> Val);
type F2 = NativeFn!((f64, f64) -> Val);
type F3 = NativeFn!((f64, f64, f64) -> Val);
type FA = NativeFn!((Vec<f64>) -> Val);
type FAM = NativeFn!((f64, Vec<f64>) -> Val);

fn hex(x: f64) -> String {
	format!("{:016x}", x.to_bits())
}

fn err_cls(e: &jrsonnet_evaluator::Error) -> String {
	let cls = match e.error() {
		ErrorKind::DivisionByZero => "div0",
		ErrorKind::ConvertNumValue(_) => "nonfinite",
		ErrorKind::RuntimeError(m) => {
			let m: &str = m;
			if m.contains("outside of safe integer range") {
				"range"
			} else if m.contains("shift by negative exponent") {
				"negshift"
			} else if m.contains("left shift would overflow") {
				"overflow"
			} else {
				"runtime"
			}
		}
		ErrorKind::TypeError(_) | ErrorKind::TypeMismatch(..) => "type",
		_ => "other",
	};
	format!("err:{cls}")
}

/// canonical answer of one call; `zero_canon`: the sign of a zero result is not compared
fn show(r: Result<jrsonnet_evaluator::Result<Val>, String>, zero_canon: bool, as_int: bool) -> String {
	match r {
		Ok(Ok(Val::Num(n))) => {
			let v = n.get();
			if !v.is_finite() {
				return format!("NONFINITE-VALUE:{v}");
			}
			if as_int {
				return format!("{}", v as i64);
			}
			if zero_canon && v == 0.0 {
				hex(0.0)
			} else {
				hex(v)
			}
		}
		Ok(Ok(Val::Bool(b))) => if b { "true".into() } else { "false".into() },
		Ok(Ok(_)) => "other-type".into(),
		Ok(Err(e)) => err_cls(&e),
		Err(p) => format!("panic:{}", p.chars().take(60).collect::<String>()),
	}
}

fn show_arr(r: Result<jrsonnet_evaluator::Result<Val>, String>) -> Value {
	match r {
		Ok(Ok(Val::Arr(a))) => {
			let mut out = Vec::new();
			for v in a.iter() {
				out.push(Value::String(show(Ok(v), true, false)));
			}
			Value::Array(out)
		}
		Ok(Ok(_)) => json!(["other-type"]),
		Ok(Err(e)) => json!([err_cls(&e)]),
		Err(p) => json!([format!("panic:{p}")]),
	}
}

/// boundary-dense doubles; `small` = the quick-tier subset
fn boundary(full: bool) -> Vec<f64> {
	let fb = f64::from_bits;
	let mut v: Vec<f64> = Vec::new();
	let p = |e: i32| 2f64.powi(e);
	// zeros, subnormals, smallest normals
	v.extend([0.0, -0.0, fb(1), fb(2), fb(0x000f_ffff_ffff_ffff), f64::MIN_POSITIVE, fb(0x0010_0000_0000_0001)]);
	// one ulp apart around 1 and around a fraction
	v.extend([1.0, fb(0x3ff0_0000_0000_0001), fb(0x3fef_ffff_ffff_ffff), 0.1, fb(0x3fb9_9999_9999_999b), 0.2, 0.3]);
	// epsilon-sized magnitudes (numeric equality must be exact)
	v.extend([f64::EPSILON, f64::EPSILON / 2.0, 1e-17, 1e-16, 3e-16, 1.0 + f64::EPSILON]);
	// safe-integer boundary and neighbours
	v.extend([p(53) - 1.0, p(53), p(53) + 2.0, p(53) - 2.0, p(52), p(52) + 0.5, p(53) - 1.5]);
	// i64 / u64 / shift boundaries
	v.extend([p(63), p(63) - 1024.0, p(64), p(62), p(31), p(32), p(31) - 1.0, p(32) - 1.0]);
	// max, huge, tiny
	v.extend([f64::MAX, fb(0x7fef_ffff_ffff_fffe), 1e308, 1e300, 1e200, 1.5e154, 1e-300, 1e-200, 1e-308, 4.9e-324]);
	// small integers (shift counts around 0, 1, 10, 11, 52, 53, 62, 63, 64, 65, 127, 128)
	v.extend([2.0, 3.0, 4.0, 5.0, 7.0, 8.0, 10.0, 11.0, 12.0, 16.0, 52.0, 53.0, 62.0, 63.0, 64.0, 65.0, 127.0, 128.0, 255.0, 256.0, 1023.0, 1024.0, 4095.0, 4096.0]);
	// fractions
	v.extend([0.5, 1.5, 2.5, 3.5, 0.25, 0.75, 0.49999999999999994, 1e-1 + 2e-1, 2.0 / 3.0, 63.5, 64.5, 1.0e15 + 0.5]);
	// angles / math constants
	v.extend([std::f64::consts::PI, std::f64::consts::E, std::f64::consts::FRAC_PI_2, 180.0, 90.0, 709.0, 710.0, 745.0]);
	// integers with patterns for bitwise ops
	v.extend([0x5555_5555_5555u64 as f64, 0xAAAA_AAAA_AAAAu64 as f64, 0x1F_FFFF_FFFF_FFFFu64 as f64, 0xFFFF_FFFFu64 as f64, 0x1_0000_0001u64 as f64, 4503599627370497.0]);
	if full {
		for e in [-1074, -1073, -1023, -1022, -1021, -537, -100, -53, -52, -27, -1, 1, 26, 27, 51, 54, 55, 100, 511, 512, 1022, 1023] {
			v.push(p(e));
		}
		for k in [1u64, 2, 3] {
			v.push(fb(1.0f64.to_bits() + k + 1));
			v.push(fb(p(53).to_bits() - k - 1));
			v.push(fb(p(53).to_bits() + k));
			v.push(fb(f64::MAX.to_bits() - k - 1));
			v.push(fb(0x0010_0000_0000_0000 - k));
		}
		v.extend([6.0, 9.0, 13.0, 15.0, 17.0, 31.0, 32.0, 33.0, 100.0, 1000.0, 65535.0, 65536.0, 1e6, 1e9, 1e15, 1e16, 123456789.0, 0.001, 0.125, 1.0 / 3.0, 7.25, 99.99]);
	}
	// negatives of everything
	let neg: Vec<f64> = v.iter().map(|x| -*x).collect();
	v.extend(neg);
	// dedup by bits, keep order
	let mut seen = std::collections::HashSet::new();
	v.retain(|x| x.is_finite() && seen.insert(x.to_bits()));
	v
}

fn random_double(rng: &mut Rng) -> f64 {
	loop {
		let b = match rng.below(4) {
			0 => rng.next(),
			1 => {
				// integers in and around the safe range
				let m = rng.next() % (1u64 << 55);
				let x = m as f64;
				(if rng.chance(1, 2) { -x } else { x }).to_bits()
			}
			2 => {
				// moderate magnitudes with a fraction
				let x = (rng.next() % 2_000_000) as f64 / 1024.0 - 900.0;
				x.to_bits()
			}
			_ => {
				let e = rng.next() % 2047;
				(rng.next() & 0x800f_ffff_ffff_ffff) | (e << 52)
			}
		};
		let x = f64::from_bits(b);
		if x.is_finite() {
			return x;
		}
	}
}

struct Fns {
	cmp: Vec<(&'static str, F2)>,
	arith: Vec<(&'static str, F2, bool)>,
	bits: Vec<(&'static str, F2)>,
	un: Vec<(&'static str, F1, bool)>,
	hypot: F2,
	clamp: F3,
	sort: FA,
	uniq: FA,
	set: FA,
	member: FAM,
}

fn magnitude(x: f64) -> usize {
	let b = x.to_bits() & 0x7fff_ffff_ffff_ffff;
	(64 - b.leading_zeros()) as usize
}

pub fn run(opts: &Opts) {
	let s = new_state();
	let _g = s.enter();
	let fv = |code: &str| s.evaluate_snippet("<c09>".to_owned(), code.to_owned()).expect("fn");
	let f1 = |code: &str| -> F1 { FromUntyped::from_untyped(fv(code)).expect("f1") };
	let f2 = |code: &str| -> F2 { FromUntyped::from_untyped(fv(code)).expect("f2") };
	let fns = Fns {
		cmp: vec![
			("lt", f2("function(a,b) a<b")),
			("le", f2("function(a,b) a<=b")),
			("gt", f2("function(a,b) a>b")),
			("ge", f2("function(a,b) a>=b")),
			("eq", f2("function(a,b) a==b")),
			("ne", f2("function(a,b) a!=b")),
			("peq", f2("function(a,b) std.primitiveEquals(a,b)")),
			("seq", f2("function(a,b) std.equals([a],[b])")),
		],
		arith: vec![
			("add", f2("function(a,b) a+b"), false),
			("sub", f2("function(a,b) a-b"), false),
			("mul", f2("function(a,b) a*b"), false),
			("div", f2("function(a,b) a/b"), false),
			("mod", f2("function(a,b) a%b"), false),
			("modulo", f2("function(a,b) std.modulo(a,b)"), false),
			("max", f2("function(a,b) std.max(a,b)"), true),
			("min", f2("function(a,b) std.min(a,b)"), true),
			("pow", f2("function(a,b) std.pow(a,b)"), false),
			("atan2", f2("function(a,b) std.atan2(a,b)"), false),
		],
		bits: vec![
			("and", f2("function(a,b) a&b")),
			("or", f2("function(a,b) a|b")),
			("xor", f2("function(a,b) a^b")),
			("shl", f2("function(a,b) a<<b")),
			("shr", f2("function(a,b) a>>b")),
		],
		un: vec![
			("neg", f1("function(a) -a"), false),
			("bitnot", f1("function(a) ~a"), false),
			("abs", f1("function(a) std.abs(a)"), false),
			("sign", f1("function(a) std.sign(a)"), false),
			("floor", f1("function(a) std.floor(a)"), false),
			("ceil", f1("function(a) std.ceil(a)"), false),
			("round", f1("function(a) std.round(a)"), false),
			("isInteger", f1("function(a) std.isInteger(a)"), false),
			("isDecimal", f1("function(a) std.isDecimal(a)"), false),
			("deg2rad", f1("function(a) std.deg2rad(a)"), false),
			("rad2deg", f1("function(a) std.rad2deg(a)"), false),
			("sqrt", f1("function(a) std.sqrt(a)"), false),
			("log", f1("function(a) std.log(a)"), false),
			("log2", f1("function(a) std.log2(a)"), false),
			("log10", f1("function(a) std.log10(a)"), false),
			("exp", f1("function(a) std.exp(a)"), false),
			("sin", f1("function(a) std.sin(a)"), false),
			("cos", f1("function(a) std.cos(a)"), false),
			("tan", f1("function(a) std.tan(a)"), false),
			("asin", f1("function(a) std.asin(a)"), false),
			("acos", f1("function(a) std.acos(a)"), false),
			("atan", f1("function(a) std.atan(a)"), false),
			("mantissa", f1("function(a) std.mantissa(a)"), false),
			("exponent", f1("function(a) std.exponent(a)"), true),
		],
		hypot: f2("function(a,b) std.hypot(a,b)"),
		clamp: FromUntyped::from_untyped(fv("function(x,lo,hi) std.clamp(x,lo,hi)")).expect("f3"),
		sort: FromUntyped::from_untyped(fv("function(a) std.sort(a)")).expect("fa"),
		uniq: FromUntyped::from_untyped(fv("function(a) std.uniq(a)")).expect("fa"),
		set: FromUntyped::from_untyped(fv("function(a) std.set(a)")).expect("fa"),
		member: FromUntyped::from_untyped(fv("function(x,a) std.setMember(x, std.set(a))")).expect("fam"),
	};

	let mut w = CaseWriter::new(&opts.out);
	let mut rng = Rng::new(opts.seed);
	let set = boundary(opts.thorough());
	let n_set = set.len();
	let mut hist: BTreeMap<&'static str, usize> = BTreeMap::new();

	// replayed / fixed witnesses first (the defects repaired by fix: commits)
	let mut pairs: Vec<(f64, f64)> = vec![
		(0.0, 1e-17),
		(-9007199254740991.0, 12.0),
		(1.0, 1e300),
		(1.0, 64.0),
		(1.0, 63.0),
		(-1.0, 63.0),
		(-2.0, 63.0),
		(3.0, 62.0),
	];
	let n_wit = pairs.len();
	for a in &set {
		for b in &set {
			pairs.push((*a, *b));
		}
	}
	let n_rand = if opts.thorough() { 60000 } else { 6000 };
	for i in 0..n_rand {
		let a = random_double(&mut rng);
		let b = match i % 4 {
			0 => *rng.pick(&set),
			1 => f64::from_bits(a.to_bits().wrapping_add(rng.below(3) as u64)), // neighbour
			_ => random_double(&mut rng),
		};
		if b.is_finite() {
			pairs.push((a, b));
		}
	}

	// unary
	let mut un_in: Vec<f64> = set.clone();
	for _ in 0..(if opts.thorough() { 20000 } else { 3000 }) {
		un_in.push(random_double(&mut rng));
	}
	for a in &un_in {
		let mut m = Map::new();
		for (name, f, as_int) in &fns.un {
			m.insert((*name).into(), Value::String(show(guarded(|| f.call(*a)), false, *as_int)));
		}
		w.case(json!({"op":"num.un","a":hex(*a),"size":magnitude(*a),"_a":format!("{a:e}")}), Value::Object(m));
		*hist.entry("num.un").or_default() += 1;
	}

	let mut nonfinite_hypot = 0usize;
	for (i, (a, b)) in pairs.iter().enumerate() {
		let size = magnitude(*a) + magnitude(*b);
		let trivial = i >= n_wit && false;
		let info = format!("{a:e} , {b:e}");
		let mut m = Map::new();
		for (name, f) in &fns.cmp {
			m.insert((*name).into(), Value::String(show(guarded(|| f.call(*a, *b)), false, false)));
		}
		w.case(json!({"op":"num.cmp","a":hex(*a),"b":hex(*b),"size":size,"_ab":info,"trivial":trivial}), Value::Object(m));
		let mut m = Map::new();
		for (name, f, zc) in &fns.arith {
			m.insert((*name).into(), Value::String(show(guarded(|| f.call(*a, *b)), *zc, false)));
		}
		w.case(json!({"op":"num.arith","a":hex(*a),"b":hex(*b),"size":size,"_ab":info}), Value::Object(m));
		let mut m = Map::new();
		for (name, f) in &fns.bits {
			m.insert((*name).into(), Value::String(show(guarded(|| f.call(*a, *b)), false, false)));
		}
		w.case(json!({"op":"num.bits","a":hex(*a),"b":hex(*b),"size":size,"_ab":info}), Value::Object(m));
		// hypot has no reference on the model side: only "finite or error" is observed
		let h = show(guarded(|| fns.hypot.call(*a, *b)), false, false);
		if h.starts_with("NONFINITE") || h.starts_with("panic") {
			nonfinite_hypot += 1;
		}
		*hist.entry("num.pair").or_default() += 1;
	}

	// clamp on triples (lo <= hi; lo > hi is a panic site that belongs to C04)
	let tri: Vec<f64> = {
		let mut t: Vec<f64> = vec![0.0, -0.0, 1.0, -1.0, 0.5, 2.0, 1e-17, f64::EPSILON, f64::MAX, -f64::MAX, 9007199254740991.0, 9007199254740992.0, f64::from_bits(1), f64::from_bits(0x3ff0_0000_0000_0001), 3.0, -2.5, 1e300, -1e-300];
		if opts.thorough() {
			t.extend([0.1, 0.3, 7.0, -7.0, 64.0, 1e15, -1e15, 4.9e-324]);
		}
		t
	};
	let mut n_tri = 0usize;
	for x in &tri {
		for lo in &tri {
			for hi in &tri {
				if lo > hi {
					continue;
				}
				let r = show(guarded(|| fns.clamp.call(*x, *lo, *hi)), true, false);
				w.case(
					json!({"op":"num.clamp","x":hex(*x),"lo":hex(*lo),"hi":hex(*hi),"size":magnitude(*x)+magnitude(*lo)+magnitude(*hi)}),
					json!({"clamp": r}),
				);
				n_tri += 1;
			}
		}
	}
	hist.insert("num.clamp", n_tri);

	// sort / uniq / set / setMember on arrays (no array mixes -0 and +0 observably: zeros are
	// compared by value)
	let n_arr = if opts.thorough() { 20000 } else { 3000 };
	let near: Vec<f64> = vec![0.0, 1e-17, -1e-17, f64::EPSILON, f64::EPSILON / 2.0, 1.0, 1.0 + f64::EPSILON, f64::from_bits(0x3fef_ffff_ffff_ffff), 1e-16, 2e-16, 3e-16, 0.1 + 0.2, 0.3, -0.0, 2.0, -1.0];
	for i in 0..n_arr {
		let len = rng.below(9);
		let mut xs: Vec<f64> = Vec::new();
		for _ in 0..len {
			let x = match (i + rng.below(3)) % 3 {
				0 => *rng.pick(&near),
				1 => *rng.pick(&set),
				_ => {
					if !xs.is_empty() && rng.chance(1, 2) {
						let y = *rng.pick(&xs);
						let z = f64::from_bits(y.to_bits().wrapping_add(rng.below(2) as u64));
						if z.is_finite() { z } else { y }
					} else {
						(rng.range(-4, 4)) as f64 * 0.5
					}
				}
			};
			xs.push(x);
		}
		let mut probes: Vec<f64> = xs.clone();
		probes.push(*rng.pick(&near));
		probes.push(*rng.pick(&set));
		if let Some(y) = xs.first() {
			probes.push(f64::from_bits(y.to_bits() ^ 1));
		}
		probes.retain(|p| p.is_finite());
		let member: Vec<Value> = probes
			.iter()
			.map(|p| Value::String(show(guarded(|| fns.member.call(*p, xs.clone())), false, false)))
			.collect();
		w.case(
			json!({"op":"num.sort","xs":xs.iter().map(|x| hex(*x)).collect::<Vec<_>>(),
				"probes":probes.iter().map(|x| hex(*x)).collect::<Vec<_>>(),"size":xs.len()*64,
				"_xs":format!("{xs:?}")}),
			json!({"sort": show_arr(guarded(|| fns.sort.call(xs.clone()))),
				"uniq": show_arr(guarded(|| fns.uniq.call(xs.clone()))),
				"set": show_arr(guarded(|| fns.set.call(xs.clone()))),
				"member": member}),
		);
	}
	hist.insert("num.sort", n_arr);

	// source-level probes: literals, non-finite literals, manifestation never prints NaN/inf
	let probes = [
		("1e308*10", "err"),
		("1e400", "err"),
		("-1e308*10", "err"),
		("0/0", "err"),
		("1/0", "err"),
		("1%0", "err"),
		("std.log(0)", "err"),
		("std.sqrt(-1)", "err"),
		("std.pow(-8, 1/3)", "err"),
		("std.exp(710)", "err"),
		("std.acos(2)", "err"),
		("[0 < 1e-17, 0 == 1e-17, 0 > 1e-17]", "ok"),
		("std.set([1e-17, 0, 1e-17])", "ok"),
		("std.setMember(1e-17, [0, 1])", "ok"),
		("std.uniq([0, 1e-17, 2e-17])", "ok"),
		("(-9007199254740991) << 12", "err"),
		("1 >> 1e300", "err"),
		("1 << 64", "ok"),
		("9007199254740992 & 1", "err"),
		("1 << -1", "err"),
	];
	let mut src_fail: Vec<String> = Vec::new();
	let expect: BTreeMap<&str, &str> = [
		("[0 < 1e-17, 0 == 1e-17, 0 > 1e-17]", "[true,false,false]"),
		("std.set([1e-17, 0, 1e-17])", "[0,1e-17]"),
		("std.setMember(1e-17, [0, 1])", "false"),
		("std.uniq([0, 1e-17, 2e-17])", "[0,1e-17,2e-17]"),
		("1 << 64", "1"),
	]
	.into_iter()
	.collect();
	for (code, want) in probes {
		let got = crate::common::eval_json(&s, code);
		let ok = match want {
			"err" => got.get("err").is_some(),
			_ => got.get("ok").map(|v| v.to_string()) == expect.get(code).map(|s| (*s).to_string()),
		};
		if !ok {
			src_fail.push(format!("{code} => {got}"));
		}
	}

	let meta = json!({
		"engine":"c09","cases":w.n,"boundary_set":n_set,"pairs":pairs.len(),"random_pairs":n_rand,
		"unary_inputs":un_in.len(),"op_hist":hist,
		"hypot_nonfinite_or_panic": nonfinite_hypot,
		"source_probe_failures": src_fail,
		"rule":"every numeric operator (+ - * / % < <= > >= == != & | ^ << >> unary - ~) and std math function, evaluated by the real evaluator, on all pairs of a boundary-dense set of doubles (zeros, subnormals, 1-ulp neighbours, epsilon-sized, +-2^53 and neighbours, i64 bounds, +-max, tiny/huge, small integers, fractions) + seeded random bit patterns/neighbours; clamp on triples; sort/uniq/set/setMember on arrays of near-equal values"
	});
	// pure observations (no model counterpart): hypot is finite-or-error; fixed source probes
	w.case(
		json!({"op":"num.observe","what":"std.hypot never yields a non-finite value or a panic","holds":nonfinite_hypot == 0,"count":nonfinite_hypot,"size":1,"trivial":true}),
		json!({}),
	);
	w.case(
		json!({"op":"num.observe","what":"source-level probes (non-finite literals/results are errors; exact equality; shift guards)","holds":src_fail.is_empty(),"failures":src_fail,"size":1,"trivial":true}),
		json!({}),
	);
	w.finish(meta, &opts.out);
}
