//! C18 collector half — every kind of object core / array representation / thunk / function value
//! the evaluator can create is put into a reference cycle WITH ITS OWNER and must be reclaimed.
//!
//! The edge that closes the cycle runs THROUGH the kind under test: the instance is owned only by
//! cyclic garbage (cached in a field of the owner, captured by a closure of the owner, stored by a
//! native) and holds a reference back into it.  A kind whose `Trace` does not report that reference
//! (wrong derive, `#[trace(skip)]`, hand-written `trace` that forgets a field) makes the owner look
//! externally rooted, and the whole component (with the std object: ~180 objects) stays tracked.
//!
//! `kinds_in_source` re-reads the evaluator source and lists every `impl ObjectCore / ArrayLike /
//! ThunkValue / Unbound / ObjectAssertion / Builtin for T`; a kind no template claims is reported
//! (`gc.coverage`), so a new representation cannot be added without a program that cycles through it.
use std::{
	cell::RefCell,
	collections::{BTreeMap, BTreeSet, HashMap},
	path::{Path, PathBuf},
};

use jrsonnet_evaluator::{
	apply_tla,
	function::builtin::{NativeCallback, NativeCallbackHandler},
	manifest::JsonFormat,
	tla::TlaArg,
	trace::PathResolver,
	val::ArrValue,
	Error, FileImportResolver, ObjValue, State, Thunk, Val,
};
use jrsonnet_gcmodule::Trace;
use jrsonnet_interner::IStr;

use crate::common::{err_class, guarded};

/// (tag, kinds it cycles through, expected class of the evaluation, program)
/// `{K}` = small number, `{S}` = string literal.  class: "ok", "user", "assert", … (`err_class`) or
/// "*" where the parameters decide.
pub const KIND_TEMPLATES: &[(&str, &[&str], &str, &str)] = &[
	// ---- object cores ------------------------------------------------------------------------
	("super-standalone-cached", &["ObjectCore:StandaloneSuperCore", "ObjectCore:OopObject"], "ok", "({ a: {K} } + { b: super }).b.a"),
	("super-standalone-self", &["ObjectCore:StandaloneSuperCore"], "ok", "local o = { a: {K} } + { b: super, c: self.b.a }; o.c + o.b.a"),
	("super-standalone-deep", &["ObjectCore:StandaloneSuperCore"], "ok", "({ a: {K} } + { b: super } + { c: super, d: self.c.b.a }).d"),
	("super-standalone-local", &["ObjectCore:StandaloneSuperCore", "Unbound:UnboundLocals"], "ok", "({ a: {K} } + { local s = super, b: s.a, c: s, d: self.c.a }).d"),
	("super-standalone-in-array", &["ObjectCore:StandaloneSuperCore", "ArrayLike:ExprArray"], "ok", "local o = { a: {K}, me: self } + { b: [super, self], c: self.b[0].me.b[1].a }; o.c"),
	("super-standalone-method", &["ObjectCore:StandaloneSuperCore", "Unbound:UnboundMethod"], "ok", "local o = { a: {K} } + { f(x): [super, x], r: self.f(1)[0].a }; o.r"),
	("super-standalone-extended", &["ObjectCore:StandaloneSuperCore"], "ok", "local o = { a: {K} } + { b: super + { z: 1, up: self }, c: self.b.z + self.b.up.a }; o.c"),
	("super-standalone-views", &["ObjectCore:StandaloneSuperCore", "ArrayLike:PickObjectValues"], "ok", "local o = { a: {K}, h:: 1 } + { b: super, n: std.length(std.objectFieldsAll(self.b)) + std.length(std.objectValues(self.b)) }; o.n"),
	("super-standalone-err", &["ObjectCore:StandaloneSuperCore"], "user", "local o = { a: error {S} } + { b: super, c: self.b.a }; o.c"),
	("remove-key", &["ObjectCore:OmitFieldsCore"], "ok", "local o = { a: {K}, me: self, r: std.objectRemoveKey(self, 'a') }; [std.objectFields(o.r), std.objectFields(o.r.me), o.a]"),
	("remove-key-extended", &["ObjectCore:OmitFieldsCore"], "ok", "local o = { a: {K}, b: 2, me: self }; local r = std.objectRemoveKey(o, 'a') + { a: 7, back: o, rr: std.objectRemoveKey(self, 'b') }; [r.a, r.rr.back.a, std.objectFields(r.rr.me)]"),
	("map-with-key", &["ObjectCore:OopObject", "ThunkValue:MemoizedClosureThunk", "ThunkValue:ObjFieldThunk"], "ok", "local o = { a: {K}, m: std.mapWithKey(function(k, v) [k, v, o], self) }; o.m.a[2].a + o.m.a[1]"),
	("prune", &["ObjectCore:OopObject"], "ok", "local o = { me: self, p: std.prune({ a: null, b: [1, null, { c: {} }], d: {K}, e: { f: [] } }), n: std.length(std.objectFields(self.p)) }; o.me.n"),
	("merge-patch-cyc", &["ObjectCore:OopObject"], "ok", "local o = { base: { a: { b: {K}, keep: o } }, r: std.mergePatch(self.base, { a: { b: null, n: 1 } }), z: self.r.a.keep.base.a.b }; o.z"),
	("obj-comprehension", &["ObjectCore:OopObject"], "ok", "local o = { [k]: { up: o, v: k } for k in ['a', 'b', {S} + 'c'] } + { z: self.a.up.b.v }; o.z"),
	("obj-comprehension-self", &["ObjectCore:OopObject"], "ok", "std.length({ [k]: [self, k] for k in ['x', 'y'] }.x[0].y[0].x)"),
	("plus-colon-chain", &["ObjectCore:OopObject", "Unbound:UnboundValue"], "ok", "local o = { a+: { x: {K} } } + { a+: { y: self.x, top: o } } + { a+: { z: super.y } }; o.a.top.a.z"),
	("object-values-views", &["ArrayLike:PickObjectValues"], "ok", "local o = { a: {K}, me: self, vs: std.objectValues(self), va: std.objectValuesAll(self) }; std.length(o.vs) + std.length(o.va) + o.vs[0] + o.vs[1].a + o.va[2][0]"),
	("object-keyvalues-views", &["ArrayLike:PickObjectKeyValues"], "ok", "local o = { a: {K}, me: self, kv: std.objectKeysValues(self), ka: std.objectKeysValuesAll(self) }; std.length(o.kv) + std.length(o.ka) + o.kv[0].value + o.kv[3].value.a + o.ka[1].value[0].value"),
	("assert-objects", &["ObjectAssertion:ObjectAssert"], "ok", "local o = { assert self.v > 0 : 'm', v: 1 + {K}, me: self } + { assert super.v >= 1, w: self.me }; o.w.w.v"),
	("object-locals", &["Unbound:UnboundLocals", "Unbound:CachedUnbound", "ThunkValue:Pending"], "ok", "local o = { local a = self, local b = [a, $], local f(x) = [x, b], v: {K}, r: f(1), s: b[1].r[1][0].v }; o.s"),
	// ---- array representations ---------------------------------------------------------------
	("arr-slice", &["ArrayLike:SliceArray", "ArrayLike:ExprArray"], "ok", "local o = { arr: [o, {K}, 2, 3], s: self.arr[0:3], t: self.s[::2], u: std.slice(self.arr, 1, 4, 2) }; std.length(o.t) + o.s[0].u[0] + std.length(o.t[0].s)"),
	("arr-reverse", &["ArrayLike:ReverseArray"], "ok", "local o = { arr: [o, {K}], r: std.reverse(self.arr), rr: std.reverse(self.r) }; o.r[1].arr[1] + o.rr[0].r[0]"),
	("arr-map", &["ArrayLike:MappedArray", "ThunkValue:ExprArrThunk"], "ok", "local o = { arr: [{K}, 1 + 1], m: std.map(function(x) [x, o], self.arr), mi: std.mapWithIndex(function(i, x) [i, x, self], self.arr) }; o.m[0][1].arr[0] + o.m[1][0] + o.mi[1][2].mi[0][1]"),
	("arr-map-of-map", &["ArrayLike:MappedArray", "ThunkValue:MappedArrayThunk"], "ok", "local o = { arr: [o, 1 + {K}], m: std.map(function(x) x, self.arr), mm: std.map(function(y) [y], self.m) }; std.length(o.mm[0][0].mm) + o.mm[1][0]"),
	("arr-repeat", &["ArrayLike:RepeatedArray"], "ok", "local o = { arr: [o, {K}], r: std.repeat(self.arr, 3) }; std.length(o.r) + o.r[4].r[5]"),
	("arr-range", &["ArrayLike:RangeArray"], "ok", "local o = { me: self, r: std.range(1, {K} + 1), n: std.length(self.r) + self.r[0] }; o.me.n"),
	// `a + b` is a view only above ARR_EXTEND_THRESHOLD (1000) elements, a copied lazy/eager array below
	("arr-extended-big", &["ArrayLike:ExtendedArray", "ArrayLike:RangeArray"], "ok", "local o = { big: std.range(1, 1000 + {K}), a: [o] + self.big, b: self.big + [self, 1], c: self.a + self.b, d: std.lines(std.map(function(i) 'l', self.big)) }; std.length(o.c) + std.length(o.a[0].b) + std.length(o.b[1000 + {K}].c) + std.length(o.d)"),
	("str-tree", &["StrValue::Tree"], "ok", "local o = { me: self, s: std.repeat('abcdefghij', 11) + {S}, t: self.s + self.s + 'x', n: std.length(self.t) + std.length(self.me.s) }; o.n"),
	("arr-extended", &["ArrayLike:LazyArray", "ArrayLike:EagerArray"], "ok", "local o = { a: [o], b: self.a + [1, self], c: self.b + self.b, d: [[o]] + [[self.c]] }; std.length(o.c) + std.length(o.b[2].c) + std.length(o.d[1][0][0].d)"),
	("arr-lazy-eager", &["ArrayLike:LazyArray", "ArrayLike:EagerArray", "ThunkValue:MemoizedClosureThunk"], "ok", "local o = { c: [[x, o] for x in [1, 2]], s: std.sort([3, 1, {K}]), u: std.setUnion(self.s, [7]), k: std.sort(self.c, function(p) -p[0]) }; o.k[0][1].c[1][0] + o.u[0]"),
	// values stored as values: flattenDeepArray, filter over a cheap array, `+` of two cheap arrays
	("arr-eager-objs", &["ArrayLike:EagerArray"], "ok", "local o = { fd: std.flattenDeepArray([[o], [[self, {K}]]]), ff: std.filter(function(x) std.isObject(x), self.fd), ee: self.fd + self.ff }; std.length(o.fd[0].fd) + std.length(o.ff[1].ff) + std.length(o.ee[3].ee)"),
	("arr-chars-bytes", &["ArrayLike:CharArray", "ArrayLike:BytesArray"], "ok", "local o = { me: self, ch: std.stringChars({S} + 'x'), by: std.encodeUTF8({S}), n: std.length(self.ch) + std.length(self.by) }; o.me.n"),
	("arr-filter-flatmap-join", &["ArrayLike:LazyArray", "ArrayLike:ExtendedArray", "ArrayLike:SliceArray"], "ok", "local o = { arr: [o, 1, [2]], f: std.filter(function(x) std.isObject(x), self.arr), fm: std.flatMap(function(x) [x, o], [1, 2]), j: std.join([o], [[1], [2]]), fl: std.flattenArrays([[o], [self.f]]), ra: std.removeAt(self.arr, 1) }; std.length(o.f[0].f) + std.length(o.fm[1].fm) + std.length(o.j[1].j) + std.length(o.fl[0].fl) + std.length(o.ra[0].ra)"),
	("arr-make-array", &["ArrayLike:MappedArray", "ArrayLike:RangeArray"], "ok", "local o = { t: std.makeArray({K} + 2, function(i) if i == 0 then o else self.t[i - 1]) }; std.length(o.t[{K} + 1].t)"),
	("arr-of-arrs-owner", &["ArrayLike:SliceArray", "ArrayLike:ReverseArray", "ArrayLike:RepeatedArray", "ArrayLike:ExtendedArray"], "ok", "local o = { a: [[self], [[o]]], b: self.a[1:] + std.reverse(self.a), c: std.repeat(self.b, 2) }; std.length(o.c[0][0][0].c)"),
	// ---- function values and thunks ----------------------------------------------------------
	("closure-owner", &["FuncVal::Normal", "Unbound:UnboundMethod", "ThunkValue:EvaluatedThunk"], "ok", "local o = { f: function(x) [x, o, self], g(y): self.f(y)[1], r: self.g(1).f }; o.r(2)[0]"),
	("closure-default-param", &["FuncVal::Normal", "ThunkValue:MemoizedClosureThunk"], "ok", "local o = { f(a, b=self, c=[a, b]): c, r: self.f(1) }; std.length(o.r[1].r[1].r)"),
	("func-id-static", &["FuncVal::Id", "FuncVal::StaticBuiltin"], "ok", "local o = { id: std.id, len: std.length, r: self.id(o), s: std.map(std.id, [o]), fns: [self.id, self.len, o] }; std.length(std.objectFields(o.r)) + std.length(o.s[0].s) + o.fns[1](o.fns[2].fns)"),
	("builtin-values", &["FuncVal::Builtin", "Builtin:BuiltinFunc"], "ok", "local o = { ev: std.extVar, nat: std.native, tr: std.trace, fns: [self.ev, self.nat, self.tr, o], n: std.length(self.fns[3].fns) }; o.n + std.length(o.ev('str'))"),
	("native-value", &["Builtin:NativeCallback", "FuncVal::Builtin"], "ok", "local o = { n: std.native('remember'), x: self.n(o), y: self.n([self]), k: std.native('keep')(o) }; std.type(o.x) + std.type(o.y) + o.k.s + std.length(o.k.k[0].k.k)"),
	("ext-code-value", &["TlaArg::InlineCode", "import"], "ok", "local e = std.extVar('code'); local o = { e: e, me: self, r: e.f(o) }; o.r[0].me.e.v + std.extVar('code').v + std.length(std.extVar('str'))"),
	("tla-function", &["TlaArg::InlineCode", "TlaArg::String", "FuncVal::Normal"], "ok", "function(tlaCode, tlaStr) local o = { c: tlaCode, s: tlaStr, me: self, r: tlaCode.f(self) }; std.length(o.r[0].me.s) + o.r[1].v"),
	("lazy-self-dollar-super", &["ObjectCore:OopObject", "ThunkValue:Pending"], "ok", "local o = { l1: { up: $, me: self, l2: { root: $, s: self, v: {K} } } + { sup: super.me, l2+: { w: super.v } }, v: {K} }; o.l1.l2.root.l1.sup.up.v + o.l1.l2.w"),
	("imports", &["import"], "ok", "local lib = import 'cyc.libsonnet'; local o = { l: lib, me: self, r: lib.mk(self) }; o.r.back.l.me.v + o.r.up.v"),
	("import-cycle", &["import"], "ok", "(import 'a.libsonnet').b.a.b.w + (import 'a.libsonnet').v"),
	("importstr-bin", &["import", "ArrayLike:BytesArray"], "ok", "local o = { me: self, t: importstr 'cyc.libsonnet', b: importbin 'cyc.libsonnet', n: std.length(self.t) + std.length(self.b) }; o.me.n"),
	("this-file-std", &["std.thisFile", "import"], "ok", "local o = { s: std, me: self, t: std.thisFile, lib: import 'tf.libsonnet' }; std.length(o.me.s.thisFile) + std.length(o.lib.t) + o.lib.s.length([1]) + std.length(o.lib.me.t)"),
	// ---- error paths: the cycle exists, then the evaluation fails ---------------------------------
	("err-after-cycle-map", &["ArrayLike:MappedArray", "ArrayLike:ReverseArray", "ThunkValue:ErroredThunk"], "user", "local o = { arr: [o, 1], m: std.map(function(x) if x == 1 then error 'e' + {S} else x, self.arr), s: std.reverse(self.m), t: std.map(function(x) x, self.m) }; [std.length(o.s[1].arr), std.length(o.t), std.type(o.s[0])]"),
	("err-cached-field", &["ObjectCore:OopObject", "ArrayLike:ExprArray"], "user", "local o = { me: self, bad: error {S}, t: std.type(self.me), arr: [self.bad, o] }; [o.t, std.length(o.arr), o.me.arr[0]]"),
	("err-type-in-builtin", &["ArrayLike:MappedArray"], "type", "local o = { me: self, arr: [o], r: std.map(function(x) x.arr, self.arr), f: '%d' % [self.me] }; [std.length(o.r[0]), o.f]"),
	("err-native", &["Builtin:NativeCallback"], "user", "local o = { n: std.native('remember'), x: self.n(o), y: error 'after ' + std.type(self.x) }; o.y"),
	("err-import-missing", &["import"], "*", "local o = { me: self, i: import 'nope.libsonnet' }; [std.type(o.me), o.i]"),
	("err-ext-missing", &["FuncVal::Builtin"], "*", "local o = { me: self, e: std.extVar('nope') }; [std.type(o.me), o.me.e]"),
	("err-assert-after-cache", &["ObjectAssertion:ObjectAssert", "ArrayLike:ReverseArray"], "assert", "local o = { a: self, b: [o, 1], c: std.reverse(self.b) } + { assert std.length(super.c) == 3 : 'len' + {S} }; o.c[0]"),
	("err-super-standalone-nofield", &["ObjectCore:StandaloneSuperCore"], "nofield", "local o = { a: {K} } + { b: super, c: self.b.nope }; [o.b.a, o.c]"),
	("stack-in-views", &["ArrayLike:ReverseArray"], "*", "local o = { arr: [o], r: std.reverse(self.arr), x: self.r[0].x }; o.x"),
	("stack-super-standalone", &["ObjectCore:StandaloneSuperCore"], "*", "local o = { a: 1 } + { b: super, c: self.b.me, me: self.c }; o.c"),
];

/// kinds of the source that are not values a program can put into a cycle (with the reason)
pub const NOT_CYCLED: &[(&str, &str)] = &[
	("ArrayLike:ArrValue", "the handle itself: delegates to the representation it wraps"),
	("Unbound:DirectUnbound", "private to evaluate_object's assertion path; reached by every object assertion (assert-objects)"),
];

const LIB_FILES: &[(&str, &str)] = &[
	("cyc.libsonnet", "{ me: self, v: 3, mk(x): { back: x, up: $ } }"),
	("a.libsonnet", "{ b: import 'b.libsonnet', v: 1 }"),
	("b.libsonnet", "{ a: import 'a.libsonnet', w: 2 }"),
	("tf.libsonnet", "{ t: std.thisFile, s: std, me: self }"),
];
const EXT_CODE: &str = "{ me: self, v: 2, f(x): [x, self] }";

pub fn write_lib(dir: &Path) {
	let _ = std::fs::create_dir_all(dir);
	for (n, t) in LIB_FILES {
		let _ = std::fs::write(dir.join(n), t);
	}
}

/// a native with memory: returns what it was given the last time
#[derive(Trace)]
struct Remember(RefCell<Option<Val>>);
impl NativeCallbackHandler for Remember {
	fn call(&self, args: &[Val]) -> Result<Val, Error> {
		let prev = self.0.borrow_mut().replace(args[0].clone());
		Ok(prev.unwrap_or(Val::Null))
	}
}
/// a native that builds a structure around its argument
#[derive(Trace)]
struct Keep;
impl NativeCallbackHandler for Keep {
	fn call(&self, args: &[Val]) -> Result<Val, Error> {
		let arr = Val::Arr(ArrValue::lazy(vec![Thunk::evaluated(args[0].clone())]));
		let mut obj = ObjValue::empty();
		obj.extend_field("k".into()).value(arr);
		obj.extend_field("s".into()).value(Val::string("v"));
		Ok(Val::Obj(obj))
	}
}

#[allow(deprecated)]
pub fn env_state(lib: &Path) -> State {
	let ci = jrsonnet_stdlib::ContextInitializer::new(PathResolver::new_cwd_fallback());
	ci.add_ext_str("str".into(), "ext é".into());
	let _ = ci.add_ext_code("code", EXT_CODE);
	ci.add_native("remember", NativeCallback::new(vec!["a".into()], Remember(RefCell::new(None))));
	ci.add_native("keep", NativeCallback::new(vec!["a".into()], Keep));
	let mut b = State::builder();
	b.context_initializer(ci).import_resolver(FileImportResolver::new(vec![PathBuf::from(lib)]));
	b.build()
}

/// one evaluation in the environment (ext vars, natives, library path, TLA arguments for a
/// top-level function); everything is dropped before returning
pub fn gc_once_env(code: &str, lib: &Path) -> (String, String) {
	let s = env_state(lib);
	let r = guarded(|| {
		let _g = s.enter();
		let v = s.evaluate_snippet("<gc>".to_owned(), code.to_owned())?;
		let v = if matches!(v, Val::Func(_)) {
			let mut tla: HashMap<IStr, TlaArg> = HashMap::new();
			tla.insert("tlaCode".into(), TlaArg::InlineCode(EXT_CODE.to_owned()));
			tla.insert("tlaStr".into(), TlaArg::String("tla é".into()));
			apply_tla(&tla, v)?
		} else {
			v
		};
		v.manifest(JsonFormat::minify())
	});
	let class = match &r {
		Ok(Ok(_)) => "ok".to_string(),
		Ok(Err(e)) => format!("err:{}", err_class(e)),
		Err(_) => "panic".to_string(),
	};
	let result = match &r {
		Ok(Ok(text)) => text.to_string(),
		_ => class.clone(),
	};
	drop(r);
	drop(s);
	(class, result)
}

/// `impl <Trait> for <Type>` of the evaluator source, as "Trait:Type"
pub fn kinds_in_source() -> Result<BTreeSet<String>, String> {
	let repo = std::env::var("VERIF_REPO").unwrap_or_else(|_| "/repo".to_string());
	let root = Path::new(&repo).join("crates/jrsonnet-evaluator/src");
	let mut out = BTreeSet::new();
	let mut stack = vec![root.clone()];
	let mut files = 0;
	while let Some(d) = stack.pop() {
		let rd = std::fs::read_dir(&d).map_err(|e| format!("{}: {e}", d.display()))?;
		for ent in rd.flatten() {
			let p = ent.path();
			if p.is_dir() {
				stack.push(p);
			} else if p.extension().is_some_and(|x| x == "rs") {
				files += 1;
				let text = std::fs::read_to_string(&p).map_err(|e| format!("{}: {e}", p.display()))?;
				for line in text.lines() {
					let t = line.trim_start();
					if !t.starts_with("impl") {
						continue;
					}
					for tr in ["ObjectCore", "ArrayLike", "ThunkValue", "Unbound", "ObjectAssertion", "Builtin"] {
						let pat = format!(" {tr} for ");
						// `impl<..> Trait for Type<..> {`  (the trait may carry no generics here)
						if let Some(i) = t.find(&pat) {
							let before = &t[..i];
							if !(before == "impl" || before.ends_with('>')) {
								continue;
							}
							let ty: String = t[i + pat.len()..].chars().take_while(|c| c.is_alphanumeric() || *c == '_').collect();
							if !ty.is_empty() {
								out.insert(format!("{tr}:{ty}"));
							}
						}
					}
				}
			}
		}
	}
	if files == 0 || out.is_empty() {
		return Err(format!("no impls found under {}", root.display()));
	}
	Ok(out)
}

/// (claimed kind → number of templates), kinds of the source no template claims
pub fn coverage(src: &BTreeSet<String>) -> (BTreeMap<String, usize>, Vec<String>) {
	let mut hist: BTreeMap<String, usize> = BTreeMap::new();
	for (_, kinds, _, _) in KIND_TEMPLATES {
		for k in *kinds {
			*hist.entry((*k).to_string()).or_default() += 1;
		}
	}
	let unreached = src
		.iter()
		.filter(|k| !hist.contains_key(*k) && !NOT_CYCLED.iter().any(|(n, _)| n == k))
		.cloned()
		.collect();
	(hist, unreached)
}
