//! C01 — evaluation agrees with the Jsonnet language semantics (and C03: call-by-need, via traces).
//! A type-directed generator emits programs of the standard language; each is parsed by the real
//! default parser, the AST is serialised for the Lean definitional interpreter (`eval.run`), and the
//! real evaluator's manifest / error class / trace multiset is the implementation answer.
//! Crossed with: legacy parser (AST equality), entry embedding (snippet / imported file / ext code /
//! TLA body), and call style (positional vs named arguments are generated at every call site).
use std::{cell::RefCell, collections::BTreeMap};

use jrsonnet_evaluator::{
	manifest::JsonFormat, trace::PathResolver, FileImportResolver, State, Val,
};
use jrsonnet_gcmodule::Acyclic;
use jrsonnet_ir::Source;
use serde_json::{json, Value};

use crate::{
	astjson,
	common::{err_class, guarded, CaseWriter, Opts, Rng},
};

thread_local! {
	static TRACES: RefCell<Vec<String>> = const { RefCell::new(Vec::new()) };
}

#[derive(Acyclic)]
struct Collector;
impl jrsonnet_stdlib::TracePrinter for Collector {
	fn print_trace(&self, _loc: jrsonnet_evaluator::function::CallLocation, value: jrsonnet_evaluator::IStr) {
		TRACES.with_borrow_mut(|t| t.push(value.to_string()));
	}
}

pub struct Env {
	pub state: State,
	pub init: jrsonnet_stdlib::ContextInitializer,
}

pub fn new_env() -> Env {
	let init = jrsonnet_stdlib::ContextInitializer::new(PathResolver::new_cwd_fallback());
	init.settings_mut().trace_printer = std::rc::Rc::new(Collector);
	let mut s = State::builder();
	s.context_initializer(init.clone())
		.import_resolver(FileImportResolver::default());
	Env { state: s.build(), init }
}

#[derive(Clone, Copy, PartialEq, Eq, Debug)]
enum Ty {
	Num,
	Bool,
	Str,
	Arr,
	Obj,
}

struct Gen<'a> {
	rng: &'a mut Rng,
	vars: Vec<(String, Ty)>,
	funcs: Vec<(String, Vec<(String, bool)>)>, // name, params (name, has default) — all return Num
	next: usize,
	in_obj: bool,
	has_super: bool,
	traces: bool,
	label: usize,
	hist: BTreeMap<&'static str, usize>,
}

impl Gen<'_> {
	fn fresh(&mut self, p: &str) -> String {
		self.next += 1;
		format!("{p}{}", self.next)
	}
	fn note(&mut self, k: &'static str) {
		*self.hist.entry(k).or_default() += 1;
	}
	fn any_ty(&mut self) -> Ty {
		*self.rng.pick(&[Ty::Num, Ty::Num, Ty::Bool, Ty::Str, Ty::Arr, Ty::Obj])
	}
	/// wrap in std.trace with a fresh label (C03): marks a memoised position
	fn traced(&mut self, e: String) -> String {
		if self.traces && self.rng.chance(1, 3) {
			self.label += 1;
			format!("std.trace(\"L{}\", {e})", self.label)
		} else {
			e
		}
	}
	fn var_of(&mut self, ty: Ty) -> Option<String> {
		let c: Vec<&(String, Ty)> = self.vars.iter().filter(|v| v.1 == ty).collect();
		if c.is_empty() {
			None
		} else {
			Some(c[self.rng.below(c.len())].0.clone())
		}
	}
	fn bomb(&mut self) -> String {
		self.note("bomb");
		match self.rng.below(4) {
			0 => "error \"boom\"".into(),
			1 => "(assert false : \"bad\"; 1)".into(),
			2 => "[1][5]".into(),
			_ => "(1/0)".into(),
		}
	}
	/// wrap in std.trace with a fresh label unconditionally (C03): a position that must stay unevaluated
	fn labelled(&mut self, e: String) -> String {
		if self.traces {
			self.label += 1;
			format!("std.trace(\"L{}\", {e})", self.label)
		} else {
			e
		}
	}
	/// std higher-order functions whose callback does not use the element (or the initial
	/// accumulator): the documented definitions hand `arr[i]` (and `init`) to the callback
	/// unevaluated, so a failing or traced element must stay unobservable (C03 / C10)
	fn hof_unused(&mut self, d: usize) -> String {
		self.note("hof-unused");
		let n = 1 + self.rng.below(3);
		let es: Vec<String> = (0..n)
			.map(|_| {
				if self.rng.chance(1, 2) {
					self.bomb()
				} else {
					let e = self.expr(Ty::Num, d.min(1));
					self.labelled(e)
				}
			})
			.collect();
		let lit = format!("[{}]", es.join(", "));
		let arr = match self.rng.below(7) {
			0 => format!("({lit} + [])"),
			1 => format!("std.reverse({lit})"),
			2 => format!("{lit}[0:]"),
			3 => format!("([0] + {lit})[1:]"),
			_ => lit,
		};
		let init = self.expr(Ty::Num, 0);
		match self.rng.below(10) {
			0 => format!("std.foldl(function(acc, x) acc, {arr}, {init})"),
			1 => format!("std.foldl(function(acc, x) acc + 1, {arr}, {init})"),
			2 => format!("std.foldr(function(x, acc) acc, {arr}, {init})"),
			3 => format!("std.foldr(function(x, acc) acc + 1, {arr}, {init})"),
			4 | 5 => {
				// the initial accumulator is an argument of the first call only: a callback that ignores
				// `acc` never evaluates it (it is the result only for the empty collection)
				let unused = if self.rng.chance(2, 3) { self.bomb() } else { let e = self.expr(Ty::Num, 0); self.labelled(e) };
				let coll = match self.rng.below(5) {
					0 => "\"ab\"".to_string(),
					1 => "[]".to_string(),
					_ => self.expr(Ty::Arr, d),
				};
				match self.rng.below(4) {
					0 => format!("std.foldl(function(acc, x) x, {coll}, {unused})"),
					1 => format!("std.foldr(function(x, acc) x, {coll}, {unused})"),
					2 => format!("std.foldl(function(acc, x) 7, {coll}, {unused})"),
					_ => format!("std.foldr(function(x, acc) 7, {coll}, {unused})"),
				}
			}
			6 => format!("std.length(std.filter(function(x) true, {arr}))"),
			7 => format!("std.filter(function(x) true, {arr})[{}]", self.rng.below(n + 1)),
			8 => format!("std.length(std.filter(function(x) false, {arr})) + std.foldl(function(acc, x) acc, {arr}, {init})"),
			_ => {
				// a shared array: the fold must not evaluate what the index expression does not read
				let x = self.fresh("hu");
				let i = self.rng.below(n);
				format!("(local {x} = {arr}; std.foldl(function(acc, x) acc + 1, {x}, 0) + std.foldr(function(x, acc) acc, {x}, {init}) + {x}[{i}])")
			}
		}
	}
	fn expr(&mut self, ty: Ty, depth: usize) -> String {
		// 6 %: deliberately ill-typed or failing sub-term
		if self.rng.chance(3, 100) {
			let t2 = self.any_ty();
			if t2 != ty {
				self.note("illtyped");
				return self.expr(t2, depth.saturating_sub(1));
			}
		}
		if self.rng.chance(2, 100) {
			return self.bomb();
		}
		if depth == 0 {
			return self.leaf(ty);
		}
		let d = depth - 1;
		// type-independent constructs
		match self.rng.below(12) {
			0 => {
				self.note("if");
				let c = self.expr(Ty::Bool, d);
				let a = self.expr(ty, d);
				let b = self.expr(ty, d);
				return format!("(if {c} then {a} else {b})");
			}
			1 => {
				self.note("local");
				let t2 = self.any_ty();
				let x = self.fresh("v");
				let used = self.rng.chance(3, 4);
				let bound = if used { self.expr(t2, d) } else if self.rng.chance(1, 2) { self.bomb() } else { self.expr(t2, d) };
				let bound = self.traced(bound);
				if used {
					self.vars.push((x.clone(), t2));
				}
				let body = self.expr(ty, d);
				if used {
					self.vars.pop();
				}
				return format!("(local {x} = {bound}; {body})");
			}
			2 if ty == Ty::Num => {
				self.note("call");
				return self.call(d);
			}
			3 if ty == Ty::Num => {
				// sharing: the same memoised position is read several times
				self.note("share");
				match self.rng.below(7) {
					4 => {
						// one array literal read through a lazy view AND by index
						let n = 1 + self.rng.below(3);
						let es: Vec<String> = (0..n).map(|_| { let e = self.expr(Ty::Num, d); self.traced(e) }).collect();
						let x = self.fresh("sv");
						let view = match self.rng.below(4) {
							0 => format!("[v for v in {x}]"),
							1 => format!("({x} + [0])"),
							2 => format!("std.map(function(v) v, {x})"),
							_ => format!("{x}[0:]"),
						};
						let first = self.rng.chance(1, 2);
						return if first {
							format!("(local {x} = [{}]; std.foldl(function(acc, v) acc + v, {view}, 0) + {x}[0])", es.join(", "))
						} else {
							format!("(local {x} = [{}]; {x}[0] + std.foldl(function(acc, v) acc + v, {view}, 0))", es.join(", "))
						};
					}
					5 | 6 => {
						// a removed key must not be evaluated, also when it is looked up again
						let o = self.obj_lit(d, false);
						let k = *self.rng.pick(&["a", "b", "h"]);
						let x = self.fresh("sr");
						let use_ = match self.rng.below(3) {
							0 => format!("(if std.objectHasAll({x}, \"{k}\") then 1 else 0) + std.length({x})"),
							1 => format!("(({x}) {{ {k}+: 10 }}).{k}"),
							_ => format!("std.length(std.objectFieldsAll({x} + {{ a+: 1 }}))"),
						};
						return format!("(local {x} = std.objectRemoveKey({o}, \"{k}\"); {use_})");
					}
					0 => {
						let o = self.obj_lit(d, false);
						let x = self.fresh("so");
						return format!("(local {x} = {o}; std.foldl(function(acc, k) acc + {x}[k], std.objectFields({x}) + std.objectFields({x}), 0))");
					}
					1 => {
						let n = 1 + self.rng.below(3);
						let es: Vec<String> = (0..n).map(|_| { let e = self.expr(Ty::Num, d); self.traced(e) }).collect();
						let x = self.fresh("sa");
						return format!("(local {x} = [{}]; {x}[0] + {x}[0] + std.foldl(function(acc, v) acc + v, {x}, 0))", es.join(", "));
					}
					2 => {
						let a = self.expr(Ty::Num, d);
						let a = self.traced(a);
						let x = self.fresh("sp");
						return format!("((function({x}) {x} + {x} * {x})({a}))");
					}
					_ => {
						let base = self.obj_lit(d, false);
						let ext = self.obj_lit(d, true);
						let x = self.fresh("sx");
						return format!("(local {x} = {base} + {ext}; (if std.objectHas({x}, \"a\") then {x}.a + {x}.a else 0) + std.length({x}))");
					}
				}
			}
			_ => {}
		}
		match ty {
			Ty::Num => match self.rng.below(11) {
				8 => {
					self.note("bitwise");
					let a = self.expr(Ty::Num, d);
					if self.rng.chance(1, 2) {
						let op = *self.rng.pick(&["&", "|", "^"]);
						let b = self.expr(Ty::Num, d);
						format!("({a} {op} {b})")
					} else {
						let op = *self.rng.pick(&["<<", ">>"]);
						if self.rng.chance(1, 3) {
							// the overflow guard of `<<` at its boundary: base = ±2^(63-k) and neighbours
							let (b, k) = *self.rng.pick(&[("1", 62), ("2", 62), ("3", 62), ("(-2)", 62), ("(-3)", 62), ("4", 61),
								("3", 61), ("(-4)", 61), ("(-5)", 61), ("0", 63), ("1", 63), ("(-1)", 63), ("(-2)", 63),
								("7", 64), ("7", 127), ("8", 60), ("7", 60), ("(-8)", 60), ("(-9)", 60)]);
							return format!("({b} {op} {k})");
						}
						let k = *self.rng.pick(&["0", "1", "2", "3", "5", "65", "(-1)", "62"]);
						format!("({a} {op} {k})")
					}
				}
				9 => {
					self.note("foldr");
					let a = self.expr(Ty::Arr, d);
					format!("std.foldr(function(x, acc) acc * 2 + x, {a}, 0)")
				}
				0 | 1 => {
					self.note("arith");
					let op = *self.rng.pick(&["+", "-", "*", "+", "%"]);
					let a = self.expr(Ty::Num, d);
					let b = self.expr(Ty::Num, d);
					format!("({a} {op} {b})")
				}
				2 => {
					self.note("length");
					let t = *self.rng.pick(&[Ty::Arr, Ty::Str, Ty::Obj]);
					format!("std.length({})", self.expr(t, d))
				}
				3 => {
					self.note("index");
					let a = self.expr(Ty::Arr, d);
					let i = if self.rng.chance(4, 5) { self.rng.below(3).to_string() } else { self.expr(Ty::Num, 0) };
					format!("({a})[{i}]")
				}
				4 => {
					self.note("field");
					let o = self.expr(Ty::Obj, d);
					let f = *self.rng.pick(&["a", "a", "b", "h", "zz"]);
					format!("({o}).{f}")
				}
				5 => {
					self.note("foldl");
					let a = self.expr(Ty::Arr, d);
					format!("std.foldl(function(acc, x) acc + x, {a}, 0)")
				}
				6 if self.in_obj => {
					self.note("selfref");
					match self.rng.below(3) {
						0 => "self.a".into(),
						1 => "$.a".into(),
						_ if self.has_super => "super.a".into(),
						_ => "self.b".into(),
					}
				}
				7 => {
					self.note("unary");
					format!("(-{})", self.expr(Ty::Num, d))
				}
				10 => self.hof_unused(d),
				_ => self.leaf(ty),
			},
			Ty::Bool => match self.rng.below(8) {
				0 => {
					self.note("cmp");
					let op = *self.rng.pick(&["<", "<=", ">", ">=", "==", "!="]);
					let a = self.expr(Ty::Num, d);
					let b = self.expr(Ty::Num, d);
					format!("({a} {op} {b})")
				}
				1 => {
					self.note("logic");
					let op = *self.rng.pick(&["&&", "||"]);
					let a = self.expr(Ty::Bool, d);
					let b = if self.rng.chance(1, 6) { self.bomb() } else { self.expr(Ty::Bool, d) };
					format!("({a} {op} {b})")
				}
				2 => format!("(!{})", self.expr(Ty::Bool, d)),
				3 => {
					self.note("in");
					let f = *self.rng.pick(&["a", "b", "h", "zz"]);
					if self.in_obj && self.rng.chance(1, 3) {
						format!("(\"{f}\" in super)")
					} else {
						format!("(\"{f}\" in {})", self.expr(Ty::Obj, d))
					}
				}
				4 => {
					self.note("deepeq");
					let t = *self.rng.pick(&[Ty::Arr, Ty::Str, Ty::Obj]);
					let a = self.expr(t, d);
					let b = self.expr(t, d);
					format!("({a} == {b})")
				}
				5 => {
					self.note("strcmp");
					let t = *self.rng.pick(&[Ty::Arr, Ty::Str]);
					let a = self.expr(t, d);
					let b = self.expr(t, d);
					format!("({a} < {b})")
				}
				6 => {
					self.note("objectHas");
					let f = *self.rng.pick(&["a", "b", "h"]);
					let fun = *self.rng.pick(&["objectHas", "objectHasAll"]);
					format!("std.{fun}({}, \"{f}\")", self.expr(Ty::Obj, d))
				}
				_ => self.leaf(ty),
			},
			Ty::Str => match self.rng.below(8) {
				4 => {
					self.note("strrep");
					let a = self.expr(Ty::Str, d);
					let k = if self.rng.chance(4, 5) { self.rng.range(-1, 4).to_string() } else { self.expr(Ty::Num, 0) };
					// the count is parenthesised: `-1 * "ab"` parses as `-(1 * "ab")` with the default parser and as
					// `(-1) * "ab"` with the legacy one (known finding c06_unary_looser_than_mul, C06)
					if self.rng.chance(1, 2) { format!("({a} * ({k}))") } else { format!("(({k}) * {a})") }
				}
				5 => {
					self.note("join");
					let sep = self.expr(Ty::Str, 0);
					let n = self.rng.below(4);
					let es: Vec<String> = (0..n).map(|_| {
						if self.rng.chance(1, 6) { "null".to_string() }
						else if self.rng.chance(1, 12) { self.expr(Ty::Num, 0) }
						else { let e = self.expr(Ty::Str, d); self.traced(e) }
					}).collect();
					format!("std.join({sep}, [{}])", es.join(", "))
				}
				0 => {
					self.note("concat");
					let a = self.expr(Ty::Str, d);
					let t = *self.rng.pick(&[Ty::Str, Ty::Str, Ty::Num, Ty::Arr, Ty::Bool, Ty::Obj]);
					let b = self.expr(t, d);
					if self.rng.chance(1, 2) { format!("({a} + {b})") } else { format!("({b} + {a})") }
				}
				1 => {
					self.note("type");
					let t = self.any_ty();
					format!("std.type({})", self.expr(t, d))
				}
				2 => {
					self.note("strindex");
					format!("({})[{}]", self.expr(Ty::Str, d), self.rng.below(3))
				}
				3 => {
					self.note("strslice");
					format!("({})[{}:{}]", self.expr(Ty::Str, d), self.rng.below(2), 1 + self.rng.below(3))
				}
				6 if self.rng.chance(1, 3) => {
					// `e { … }` is `e + { … }`: a string on the left gives a string, a number/boolean/array an error
					self.note("objext-nonobj");
					let t = *self.rng.pick(&[Ty::Str, Ty::Str, Ty::Str, Ty::Num, Ty::Arr, Ty::Bool]);
					let a = self.expr(t, d);
					let b = self.obj_lit(d, false);
					format!("({a}) {b}")
				}
				_ => self.leaf(ty),
			},
			Ty::Arr => match self.rng.below(12) {
				8 => {
					self.note("reverse");
					format!("std.reverse({})", self.expr(Ty::Arr, d))
				}
				9 => {
					self.note("flattenArrays");
					let n = self.rng.below(3);
					let es: Vec<String> = (0..n).map(|_| {
						if self.rng.chance(1, 10) { self.expr(Ty::Num, 0) } else { let e = self.expr(Ty::Arr, d); self.traced(e) }
					}).collect();
					format!("std.flattenArrays([{}])", es.join(", "))
				}
				10 => {
					self.note("objectValues");
					let fun = *self.rng.pick(&["objectValues", "objectValues", "objectValuesAll"]);
					format!("std.{fun}({})", self.expr(Ty::Obj, d))
				}
				0 => {
					self.note("arrlit");
					let n = self.rng.below(4);
					let es: Vec<String> = (0..n).map(|_| { let e = self.expr(Ty::Num, d); self.traced(e) }).collect();
					format!("[{}]", es.join(", "))
				}
				1 => {
					self.note("arrcat");
					format!("({} + {})", self.expr(Ty::Arr, d), self.expr(Ty::Arr, d))
				}
				2 => {
					self.note("arrcomp");
					let a = self.expr(Ty::Arr, d);
					let x = self.fresh("x");
					self.vars.push((x.clone(), Ty::Num));
					let body = self.expr(Ty::Num, d);
					let cond = if self.rng.chance(1, 2) { format!(" if {}", self.expr(Ty::Bool, d)) } else { String::new() };
					self.vars.pop();
					format!("[{body} for {x} in {a}{cond}]")
				}
				3 => {
					self.note("map");
					let a = self.expr(Ty::Arr, d);
					let x = self.fresh("m");
					self.vars.push((x.clone(), Ty::Num));
					let body = self.expr(Ty::Num, d);
					self.vars.pop();
					format!("std.map(function({x}) {body}, {a})")
				}
				4 => {
					self.note("range");
					format!("std.range({}, {})", self.rng.range(-1, 2), self.rng.range(-1, 4))
				}
				5 => {
					self.note("makeArray");
					let x = self.fresh("i");
					self.vars.push((x.clone(), Ty::Num));
					let body = self.expr(Ty::Num, d);
					self.vars.pop();
					format!("std.makeArray({}, function({x}) {body})", self.rng.below(4))
				}
				6 => {
					self.note("slice");
					let a = self.expr(Ty::Arr, d);
					let o = |r: &mut Rng| if r.chance(1, 3) { String::new() } else { r.range(-2, 4).to_string() };
					let (s, e) = (o(self.rng), o(self.rng));
					let st = if self.rng.chance(1, 3) { format!(":{}", 1 + self.rng.below(2)) } else { String::new() };
					format!("({a})[{s}:{e}{st}]")
				}
				7 => {
					self.note("objectFields");
					// array of strings — still an array; used under length/==/manifest
					let fun = *self.rng.pick(&["objectFields", "objectFieldsAll"]);
					format!("std.{fun}({})", self.expr(Ty::Obj, d))
				}
				_ => self.leaf(ty),
			},
			Ty::Obj => match self.rng.below(6) {
				0 | 1 => self.obj_lit(d, false),
				2 => {
					self.note("objadd");
					let a = self.expr(Ty::Obj, d);
					let b = self.obj_lit(d, true);
					format!("({a} + {b})")
				}
				3 if self.rng.chance(1, 3) => {
					// ONE object value (with its locals, asserts and super references) sitting at two
					// layers of the same chain
					self.note("mixin-twice");
					let a = self.expr(Ty::Obj, d);
					let m = self.fresh("mx");
					let b = if self.rng.chance(1, 2) {
						self.obj_lit(d, true)
					} else {
						// a layer whose fields reach `super` through a context that also holds an object local
						let l = self.fresh("ol");
						let e = self.expr(Ty::Num, 0);
						let e = self.traced(e);
						format!("{{ local {l} = {e}, a: super.a + {l}, b+: {l}, h:: if \"h\" in super then super.h else 0 }}")
					};
					let a = if self.rng.chance(1, 2) { a } else { format!("({{ a: 1, b: 2 }} + {a})") };
					if self.rng.chance(1, 2) { format!("(local {m} = {b}; ({a} + {m} + {m}))") } else { format!("(local {m} = {b}; ({a} + {m} + {{ a+: 1 }} + {m}))") }
				}
				3 => {
					self.note("objext");
					let a = self.expr(Ty::Obj, d);
					let b = self.obj_lit(d, true);
					format!("({a}) {b}")
				}
				4 => {
					self.note("objcomp");
					let a = self.expr(Ty::Arr, d);
					let x = self.fresh("k");
					self.vars.push((x.clone(), Ty::Num));
					let body = self.expr(Ty::Num, d);
					self.vars.pop();
					format!("{{ [\"k\" + {x}]: {body} for {x} in {a} }}")
				}
				_ => self.leaf(ty),
			},
		}
	}
	fn obj_lit(&mut self, d: usize, has_super: bool) -> String {
		self.note("objlit");
		let (old_in, old_sup) = (self.in_obj, self.has_super);
		self.in_obj = true;
		self.has_super = has_super;
		let mut parts: Vec<String> = Vec::new();
		let mut locals: Vec<String> = Vec::new();
		if self.rng.chance(1, 4) {
			let l = self.fresh("ol");
			let e = self.expr(Ty::Num, d);
			// the local's body is traced: it is evaluated once per object however many fields and
			// assertions of that object use it
			let e = self.traced(e);
			parts.push(format!("local {l} = {e}"));
			if self.rng.chance(1, 2) {
				self.note("objlocal-shared-by-assert-and-field");
				parts.push(format!("assert {l} == {l} || true : \"loc\""));
				parts.push(format!("c: {l}"));
			}
			locals.push(l.clone());
			self.vars.push((l, Ty::Num));
		}
		for name in ["a", "b", "h"] {
			if self.rng.chance(3, 5) {
				let plus = has_super && self.rng.chance(1, 4);
				let vis = if name == "h" { *self.rng.pick(&["::", "::", ":::"]) } else { *self.rng.pick(&[":", ":", ":", "::", ":::"]) };
				let e = self.expr(Ty::Num, d);
				let e = self.traced(e);
				parts.push(format!("{name}{}{vis} {e}", if plus { "+" } else { "" }));
			}
		}
		if self.rng.chance(1, 6) {
			let e = self.expr(Ty::Num, d);
			parts.push(format!("[if {} then \"d\" else null]: {e}", self.expr(Ty::Bool, 0)));
		}
		if self.rng.chance(1, 8) {
			parts.push(format!("assert {} : \"inv\"", self.expr(Ty::Bool, d)));
		}
		if self.rng.chance(1, 10) {
			// an assertion that reads a (traced) field of the same object: the field is evaluated once,
			// whether the read that started the assertions was of that field or of another one
			self.note("assert-reads-own-field");
			let f = *self.rng.pick(&["a", "b", "h"]);
			parts.push(format!("assert std.objectHasAll(self, \"{f}\") && std.type(self.{f}) != \"x\" || true : \"own\""));
		}
		if self.rng.chance(1, 8) {
			let x = self.fresh("p");
			self.vars.push((x.clone(), Ty::Num));
			let e = self.expr(Ty::Num, d);
			self.vars.pop();
			parts.push(format!("m({x}):: {e}"));
		}
		for _ in locals {
			self.vars.pop();
		}
		self.in_obj = old_in;
		self.has_super = old_sup;
		format!("{{ {} }}", parts.join(", "))
	}
	/// a call of a fresh local function with positional / named / default arguments in a random
	/// split (every call site is re-emitted in all call styles by `styles`)
	fn call(&mut self, d: usize) -> String {
		let f = self.fresh("f");
		let np = 1 + self.rng.below(3);
		let mut params: Vec<(String, Option<String>)> = Vec::new();
		let mut names: Vec<String> = Vec::new();
		for i in 0..np {
			let p = format!("{f}p{i}");
			names.push(p.clone());
			let has_default = self.rng.chance(1, 2);
			params.push((p, if has_default { Some(String::new()) } else { None }));
		}
		// defaults may refer to any parameter (earlier or later)
		for i in 0..np {
			if params[i].1.is_some() {
				let other = names[self.rng.below(np)].clone();
				let dflt = if other != names[i] && self.rng.chance(1, 2) {
					format!("{other} + 1")
				} else {
					self.expr(Ty::Num, 0)
				};
				params[i].1 = Some(dflt);
			}
		}
		for n in &names {
			self.vars.push((n.clone(), Ty::Num));
		}
		let body = self.expr(Ty::Num, d);
		for _ in &names {
			self.vars.pop();
		}
		let ps: Vec<String> = params
			.iter()
			.map(|(n, dflt)| dflt.as_ref().map_or(n.clone(), |dv| format!("{n} = {dv}")))
			.collect();
		// arguments: a positional prefix, then named in shuffled order, defaults for the rest
		let npos = self.rng.below(np + 1);
		let mut args: Vec<String> = Vec::new();
		for _ in 0..npos {
			let a = if self.rng.chance(1, 8) { self.bomb() } else { self.expr(Ty::Num, d) };
			args.push(self.traced(a));
		}
		let mut named_idx: Vec<usize> = (npos..np).collect();
		for i in (1..named_idx.len()).rev() {
			let j = self.rng.below(i + 1);
			named_idx.swap(i, j);
		}
		for i in named_idx {
			let skip = params[i].1.is_some() && self.rng.chance(1, 2);
			if skip {
				continue;
			}
			if params[i].1.is_none() && self.rng.chance(1, 25) {
				self.note("arity_error");
				continue; // unbound parameter -> arity error
			}
			let a = self.expr(Ty::Num, d);
			let a = self.traced(a);
			args.push(format!("{} = {a}", names[i]));
		}
		if self.rng.chance(1, 30) {
			self.note("arity_error");
			args.push("zz = 1".into());
		}
		let ts = if self.rng.chance(1, 10) { " tailstrict" } else { "" };
		if self.rng.chance(1, 2) {
			format!("(local {f}({}) = {body}; {f}({}){ts})", ps.join(", "), args.join(", "))
		} else {
			format!("(local {f} = function({}) {body}; {f}({}){ts})", ps.join(", "), args.join(", "))
		}
	}
	fn leaf(&mut self, ty: Ty) -> String {
		if self.rng.chance(1, 2) {
			if let Some(v) = self.var_of(ty) {
				self.note("var");
				return v;
			}
		}
		self.note("lit");
		match ty {
			// negative literals are parenthesised: `-3 * "ab"` is `-(3 * "ab")` for the default parser and
			// `(-3) * "ab"` for the legacy one (known finding c06_unary_looser_than_mul, C06) — visible
			// since string repetition is modelled
			Ty::Num => { let v = self.rng.range(-3, 9); if v < 0 { format!("({v})") } else { v.to_string() } }
			Ty::Bool => (*self.rng.pick(&["true", "false"])).to_string(),
			Ty::Str => (*self.rng.pick(&["\"\"", "\"a\"", "\"ab\"", "\"b\"", "\"x y\"", "'q\"'"])).to_string(),
			Ty::Arr => (*self.rng.pick(&["[]", "[1]", "[1, 2]", "[3, 1, 2]"])).to_string(),
			Ty::Obj => (*self.rng.pick(&["{}", "{ a: 1 }", "{ a: 1, b: 2 }", "{ a: 1, h:: 5 }", "{ b: 2, a+: 3 }"])).to_string(),
		}
	}
}

fn canon(v: &Value) -> Value {
	match v {
		Value::Number(n) => json!({"$n": n.as_f64().unwrap_or(0.0).to_bits().to_string()}),
		Value::Array(a) => Value::Array(a.iter().map(canon).collect()),
		Value::Object(o) => Value::Object(o.iter().map(|(k, v)| (k.clone(), canon(v))).collect()),
		v => v.clone(),
	}
}

pub fn run_program(env: &Env, f: impl FnOnce(&State) -> jrsonnet_evaluator::Result<Val>) -> Value {
	TRACES.with_borrow_mut(Vec::clear);
	let r = guarded(|| f(&env.state).and_then(|v| v.manifest(JsonFormat::minify())));
	let mut tr = TRACES.with_borrow(Clone::clone);
	tr.sort();
	match r {
		Ok(Ok(text)) => match serde_json::from_str::<Value>(&text) {
			Ok(v) => json!({"ok": canon(&v), "trace": tr}),
			Err(_) => json!({"badjson": text}),
		},
		Ok(Err(e)) => json!({"err": err_class(&e), "trace": tr, "_msg": format!("{}", e.error())}),
		Err(p) => json!({"panic": p}),
	}
}

pub fn run_engine(opts: &Opts, traces: bool) {
	let env = new_env();
	let mut guard = Some(env.state.enter());
	let mut w = CaseWriter::new(&opts.out);
	let mut rng = Rng::new(opts.seed ^ if traces { 0xC03 } else { 0xC01 });
	let legacy = std::env::var_os("JRSONNET_LEGACY_PARSER").is_some();
	let n = if opts.thorough() { 60000 } else { 6000 } / if legacy { 2 } else { 1 };
	let mut hist: BTreeMap<&'static str, usize> = BTreeMap::new();
	let mut outcomes: BTreeMap<String, usize> = BTreeMap::new();
	let tmp = opts.out.join("files");
	let _ = std::fs::create_dir_all(&tmp);
	let mut embed_diff = 0usize;
	for i in 0..n {
		let depth = 1 + rng.below(if opts.thorough() { 5 } else { 4 });
		let (src, h) = {
			let mut g = Gen {
				rng: &mut rng,
				vars: vec![],
				funcs: vec![],
				next: 0,
				in_obj: false,
				has_super: false,
				traces,
				label: 0,
				hist: BTreeMap::new(),
			};
			let ty = g.any_ty();
			let e = g.expr(ty, depth);
			let _ = &g.funcs;
			(e, g.hist)
		};
		for (k, v) in h {
			*hist.entry(k).or_default() += v;
		}
		let source = Source::new_virtual("<c01>".into(), src.as_str().into());
		let ir = jrsonnet_ir_parser::parse(&src, &jrsonnet_ir_parser::ParserSettings { source: source.clone() });
		let ast = match &ir {
			Ok(e) => astjson::expr(e),
			Err(_) => json!(["unsupported", "syntax error"]),
		};
		let mut ans = run_program(&env, |s| s.evaluate_snippet("<c01>".to_owned(), src.clone()));
		// entry embedding: imported file / ext code / TLA body must give the same outcome
		if i % 8 == 0 && !traces && !legacy {
			let path = tmp.join(format!("p{i}.jsonnet"));
			let _ = std::fs::write(&path, &src);
			let via_import = run_program(&env, |s| s.import(path.as_path()));
			let _ = std::fs::remove_file(&path);
			let env2 = new_env();
			let _ = env2.init.add_ext_code("p", src.as_str());
			drop(guard.take());
			let via_ext = {
				let _g2 = env2.state.enter();
				run_program(&env2, |s| s.evaluate_snippet("<ext>".to_owned(), "std.extVar(\"p\")".to_owned()))
			};
			guard = Some(env.state.enter());
			let via_tla = run_program(&env, |s| {
				let f = s.evaluate_snippet("<tla>".to_owned(), format!("function() ({src})"))?;
				jrsonnet_evaluator::apply_tla(&std::collections::HashMap::<jrsonnet_evaluator::IStr, jrsonnet_evaluator::tla::TlaArg>::new(), f)
			});
			let strip = |v: &Value| {
				let mut v = v.clone();
				if let Some(o) = v.as_object_mut() {
					o.remove("_msg");
				}
				v
			};
			let base = strip(&ans);
			for (name, other) in [("import", via_import), ("extcode", via_ext), ("tla", via_tla)] {
				if strip(&other) != base {
					embed_diff += 1;
					ans[format!("embedding_{name}_differs")] = other;
				}
			}
		}
		let key = ans
			.get("err")
			.and_then(Value::as_str)
			.map_or_else(|| if ans.get("ok").is_some() { "value".to_string() } else { "other".to_string() }, |c| format!("err:{c}"));
		*outcomes.entry(key).or_default() += 1;
		w.case(json!({"op":"eval.run","src":src,"ast":ast,"fuel":400,"size":src.len()}), ans);
	}
	let meta = json!({
		"engine": opts.engine.clone(), "cases": w.n, "construct_hist": hist, "outcome_hist": outcomes,
		"evaluated_with_legacy_parser": legacy, "embedding_differs": embed_diff,
		"rule":"type-directed random programs (depth<=4 quick / 5 thorough) over locals, closures, functions with positional/named/default parameters in random call styles, conditionals, arithmetic/comparison/logic/bitwise operators, string repetition, std.join/reverse/foldr/flattenArrays/objectValues, std.foldl/foldr/filter over arrays with failing or traced elements under callbacks that ignore the element (and failing initial accumulators under callbacks that ignore it), strings, arrays and comprehensions, indexing and slicing, objects with inheritance/visibility/self/super/$/locals/asserts/methods/computed names, error and assert; ~5% ill-typed or failing sub-terms; outcome = manifested JSON (numbers as IEEE bit patterns) or error class, plus the sorted multiset of std.trace labels"
	});
	drop(guard);
	let mut meta = meta;
	if traces {
		meta["lazy_entry"] = lazy_entry_family(opts, &mut w, opts.seed ^ 0xC03, if opts.thorough() { 6000 } else { 600 });
	}
	w.finish(meta, &opts.out);
}

/// `c01b`: argument binding.  Every parameter list of length <= 3 (each with/without default) x
/// every positional count 0..=n+1 x every named-argument list of length <= 3 over the parameter
/// names plus an unknown name (duplicates included), run through a real call expression.
pub fn run_bind(opts: &Opts) {
	use jrsonnet_evaluator::error::ErrorKind;
	let env = new_env();
	let _g = env.state.enter();
	let mut w = CaseWriter::new(&opts.out);
	let pnames = ["a", "b", "c"];
	let mut kinds: BTreeMap<String, usize> = BTreeMap::new();
	for n in 0..=3usize {
		for flags in 0..(1u32 << n) {
			let params: Vec<(String, bool)> =
				(0..n).map(|i| (pnames[i].to_string(), flags & (1 << i) != 0)).collect();
			let mut alphabet: Vec<String> = pnames[..n].iter().map(|s| (*s).to_string()).collect();
			alphabet.push("zz".into());
			// all named lists of length 0..=3 over the alphabet
			let mut lists: Vec<Vec<String>> = vec![vec![]];
			let mut frontier: Vec<Vec<String>> = vec![vec![]];
			for _ in 0..3 {
				let mut next = Vec::new();
				for l in &frontier {
					for a in &alphabet {
						let mut l2 = l.clone();
						l2.push(a.clone());
						next.push(l2);
					}
				}
				lists.extend(next.iter().cloned());
				frontier = next;
			}
			for npos in 0..=n + 1 {
				for named in &lists {
					let ps: Vec<String> = params
						.iter()
						.enumerate()
						.map(|(i, (nm, d))| if *d { format!("{nm} = {}", 300 + i) } else { nm.clone() })
						.collect();
					let mut args: Vec<String> = (0..npos).map(|i| (100 + i).to_string()).collect();
					for (j, nm) in named.iter().enumerate() {
						args.push(format!("{nm} = {}", 200 + j));
					}
					let body: Vec<String> = params.iter().map(|p| p.0.clone()).collect();
					for style in 0..2 {
						let src = if style == 0 {
							format!("local f({}) = [{}]; f({})", ps.join(", "), body.join(", "), args.join(", "))
						} else {
							format!("(function({}) [{}])({})", ps.join(", "), body.join(", "), args.join(", "))
						};
						let r = guarded(|| {
							env.state
								.evaluate_snippet("<bind>".to_owned(), src.clone())
								.and_then(|v| v.manifest(JsonFormat::minify()))
						});
						let ans = match r {
							Ok(Ok(text)) => {
								let v: Value = serde_json::from_str(&text).unwrap_or(Value::Null);
								let srcs: Vec<Value> = v
									.as_array()
									.map(|a| {
										a.iter()
											.map(|x| {
												let k = x.as_f64().unwrap_or(-1.0) as i64;
												match k {
													100..=199 => json!(["pos", k - 100]),
													200..=299 => json!(["named", k - 200]),
													300..=399 => json!(["dflt"]),
													_ => json!(["?", k]),
												}
											})
											.collect()
									})
									.unwrap_or_default();
								json!({"ok": srcs})
							}
							Ok(Err(e)) => {
								let k = match e.error() {
									ErrorKind::TooManyArgsFunctionHas(..) => "tooMany",
									ErrorKind::UnknownFunctionParameter(..) => "unknown",
									ErrorKind::BindingParameterASecondTime(..) => "twice",
									ErrorKind::FunctionParameterNotBoundInCall(..) => "unbound",
									_ => "other",
								};
								json!({"err": k, "_msg": format!("{}", e.error())})
							}
							Err(p) => json!({"panic": p}),
						};
						let key = ans.get("err").and_then(Value::as_str).unwrap_or(if ans.get("ok").is_some() { "ok" } else { "panic" }).to_string();
						*kinds.entry(key).or_default() += 1;
						let ps_json: Vec<Value> = params.iter().map(|(nm, d)| json!([nm, d])).collect();
						w.case(
							json!({"op":"bind.call","params":ps_json,"npos":npos,"named":named,"src":src,"size":n+npos+named.len()}),
							ans,
						);
					}
				}
			}
		}
	}
	let meta = json!({
		"engine":"c01b","cases":w.n,"outcome_hist":kinds,
		"rule":"exhaustive: parameter lists of length 0..3 x default flags x positional count 0..n+1 x all named-argument lists of length 0..3 over the parameter names and one unknown name, each as `local f(..)` and as a function literal; observed: which argument each parameter received, or the ErrorKind variant"
	});
	w.finish(meta, &opts.out);
}


/// `c01t`: the other binders.  The same function is called (a) by a call expression, (b) through
/// `apply_tla` (top-level arguments, all named), (c) through `PreparedFuncVal` (native callers:
/// positional prefix + named rest).  Defaults refer to other parameters and to outer locals of the
/// same names, so a binder that evaluates defaults in the wrong scope is visible.  The reference for
/// all three is the definitional interpreter on the call expression.
pub fn run_prepared(opts: &Opts) {
	use jrsonnet_evaluator::{
		function::{CallLocation, PreparedFuncVal},
		tla::TlaArg,
		IStr, Thunk,
	};
	let env = new_env();
	let _g = env.state.enter();
	let mut w = CaseWriter::new(&opts.out);
	let mut rng = Rng::new(opts.seed ^ 0x7A);
	let n = if opts.thorough() { 20000 } else { 2500 };
	let names = ["a", "b", "c"];
	let mut kinds: BTreeMap<String, usize> = BTreeMap::new();
	for _ in 0..n {
		let np = 1 + rng.below(3);
		// defaults: none / constant / another parameter + k / outer-shadowed name
		let mut ps: Vec<String> = Vec::new();
		let mut has_default: Vec<bool> = Vec::new();
		for i in 0..np {
			let d = match rng.below(5) {
				0 | 1 => None,
				2 => Some(format!("{}", 300 + i)),
				3 => Some(format!("{} + {}", names[rng.below(np)], 1 + rng.below(3))),
				_ => Some(format!("{} * 2 + {}", names[rng.below(3)], names[rng.below(np)])),
			};
			has_default.push(d.is_some());
			ps.push(d.map_or(names[i].to_string(), |d| format!("{} = {d}", names[i])));
		}
		let body: Vec<&str> = names[..np].to_vec();
		let func = format!(
			"local a = 50, b = 60, c = 70; function({}) [{}]",
			ps.join(", "),
			body.join(", ")
		);
		// which parameters are passed, and how many of them positionally (for path c)
		let npos = rng.below(np + 1);
		let mut named_idx: Vec<usize> = (npos..np).filter(|i| !has_default[*i] || rng.chance(1, 2)).collect();
		if rng.chance(1, 12) && !named_idx.is_empty() {
			named_idx.pop(); // sometimes leave a parameter unbound
		}
		for i in (1..named_idx.len()).rev() {
			let j = rng.below(i + 1);
			named_idx.swap(i, j);
		}
		let val = |i: usize| 100 + i as i32;
		let emit = |w: &mut CaseWriter, kinds: &mut BTreeMap<String, usize>, path: &str, call_src: String, ans: Value| {
			let source = Source::new_virtual("<c01t>".into(), call_src.as_str().into());
			let ast = match jrsonnet_ir_parser::parse(&call_src, &jrsonnet_ir_parser::ParserSettings { source }) {
				Ok(e) => astjson::expr(&e),
				Err(_) => json!(["unsupported", "syntax error"]),
			};
			let key = format!("{path}:{}", ans.get("err").and_then(Value::as_str).unwrap_or(if ans.get("ok").is_some() { "ok" } else { "panic" }));
			*kinds.entry(key).or_default() += 1;
			w.case(json!({"op":"eval.run","path":path,"src":call_src,"ast":ast,"fuel":300,"size":call_src.len()}), ans);
		};
		// (a) call expression: positional prefix + named rest
		let mut args: Vec<String> = (0..npos).map(|i| val(i).to_string()).collect();
		for i in &named_idx {
			args.push(format!("{} = {}", names[*i], val(*i)));
		}
		let call_src = format!("({func})({})", args.join(", "));
		let ans = run_program(&env, |s| s.evaluate_snippet("<c01t>".to_owned(), call_src.clone()));
		emit(&mut w, &mut kinds, "expr", call_src.clone(), ans);
		// (c) PreparedFuncVal with the same split
		let ans = run_program(&env, |s| {
			let f = s.evaluate_snippet("<c01t>".to_owned(), func.clone())?;
			let jrsonnet_evaluator::Val::Func(fv) = f else { unreachable!() };
			let nn: Vec<IStr> = named_idx.iter().map(|i| IStr::from(names[*i])).collect();
			let p = PreparedFuncVal::new(fv, npos, &nn)?;
			let pos: Vec<Thunk<jrsonnet_evaluator::Val>> =
				(0..npos).map(|i| Thunk::evaluated(jrsonnet_evaluator::Val::Num(val(i).into()))).collect();
			let nam: Vec<Thunk<jrsonnet_evaluator::Val>> =
				named_idx.iter().map(|i| Thunk::evaluated(jrsonnet_evaluator::Val::Num(val(*i).into()))).collect();
			p.call(CallLocation::native(), &pos, &nam)
		});
		emit(&mut w, &mut kinds, "prepared", call_src, ans);
		// (b) apply_tla: everything by name (positional prefix passed by name too)
		let all_named: Vec<usize> = (0..npos).chain(named_idx.iter().copied()).collect();
		let tla_src = format!(
			"({func})({})",
			all_named.iter().map(|i| format!("{} = {}", names[*i], val(*i))).collect::<Vec<_>>().join(", ")
		);
		let ans = run_program(&env, |s| {
			let f = s.evaluate_snippet("<c01t>".to_owned(), func.clone())?;
			let mut m: std::collections::HashMap<IStr, TlaArg> = std::collections::HashMap::new();
			for i in &all_named {
				m.insert(IStr::from(names[*i]), TlaArg::Val(jrsonnet_evaluator::Val::Num(val(*i).into())));
			}
			jrsonnet_evaluator::apply_tla(&m, f)
		});
		emit(&mut w, &mut kinds, "tla", tla_src, ans);
	}
	let meta = json!({
		"engine":"c01t","cases":w.n,"path_outcome_hist":kinds,
		"rule":"functions of 1-3 parameters whose defaults are constants, other parameters or outer locals shadowed by parameters; called by a call expression, through PreparedFuncVal (positional prefix + shuffled named rest) and through apply_tla (all named); each outcome vs the definitional interpreter on the equivalent call expression"
	});
	drop(_g);
	let mut meta = meta;
	meta["lazy_entry"] = lazy_entry_family(opts, &mut w, opts.seed ^ 0xC01, if opts.thorough() { 6000 } else { 600 });
	w.finish(meta, &opts.out);
}

/// Entry-argument laziness family (C01: a top-level-argument call / an external variable is the same
/// program as the call / the local binding written in the language; C03: what the program does not
/// need is never evaluated, what it needs several times is evaluated once).
///
/// (1) `tla`: a function of 1-3 parameters (+ an optional selector) is called through the real
///     `apply_tla` with arguments of EVERY `TlaArg` kind (String, Val, Lazy, InlineCode, Import =
///     code file, ImportStr = string file); the code of an argument is a value, a traced value, a
///     failing term (user error, type error, division by zero, bounds, assert, missing field), a
///     traced failing term, an argument with internal sharing, or — only where the call never
///     needs the argument — a term that cannot even be analysed (unknown variable, syntax errors).
///     Each parameter is unused / used only in a branch not taken / used once / used twice, may
///     have a failing or traced default that the argument overrides, or a default that is used.
///     Reference: the definitional interpreter on `(function(..) body)(a = .., b = ..)`.
/// (2) `ext`: external variables of every kind with the same payloads, read zero / dead-branch /
///     one / two times through `std.extVar`; reference: `local ev_x = ..; body` with the reads
///     replaced by the local.
/// A fresh State per case: inline code and files are cached per State by their text / path.
pub fn lazy_entry_family(opts: &Opts, w: &mut CaseWriter, seed: u64, n: usize) -> Value {
	use jrsonnet_evaluator::{tla::TlaArg, val::MemoizedClosureThunk, IStr, Thunk};
	use jrsonnet_gcmodule::Trace;

	#[derive(Trace)]
	struct LazyEnv {
		st: State,
		code: String,
	}
	fn lazy_body(e: LazyEnv) -> jrsonnet_evaluator::Result<Val> {
		e.st.evaluate_snippet("<lazy>".to_owned(), e.code)
	}

	#[derive(Clone, Copy, PartialEq, Eq, Debug)]
	enum Need {
		Unused,
		Dead,
		Once,
		Twice,
	}
	struct Payload {
		kind: &'static str,
		/// code (code kinds) or raw text (string kinds) or literal (val)
		text: String,
		/// the same argument written in the language
		reference: String,
		class: &'static str,
	}
	fn str_lit(s: &str) -> String {
		serde_json::to_string(s).unwrap_or_else(|_| "\"\"".into())
	}
	fn payload(rng: &mut Rng, label: &mut usize, case: usize, never_needed: bool) -> Payload {
		let kind = *rng.pick(&["code", "code", "code", "codefile", "codefile", "lazy", "val", "str", "strfile"]);
		match kind {
			"str" | "strfile" => {
				let text = (*rng.pick(&["plain", "error \"boom\"", "std.trace(\"TS\", 1)", "1 +", "", "nope", "x y"])).to_string();
				Payload { kind, reference: str_lit(&text), text, class: "text" }
			}
			"val" => {
				let text = (*rng.pick(&["0", "7", "true", "false", "\"v\""])).to_string();
				Payload { kind, reference: text.clone(), text, class: "value" }
			}
			_ => {
				let value = |rng: &mut Rng| (*rng.pick(&["7", "0", "\"s\"", "[1, 2]", "{ x: 1 }", "true", "null"])).to_string();
				let bomb = |rng: &mut Rng| {
					(*rng.pick(&[
						"error \"boom\"", "error 'boom'", "(1 < \"a\")", "(1 + {})", "(1/0)", "(5 % 0)", "[1][5]",
						"(assert false : \"bad\"; 1)", "{}.zz", "(local f(p) = p; f())",
					]))
					.to_string()
				};
				let lab = |label: &mut usize| {
					*label += 1;
					format!("T{case}_{label}")
				};
				let (text, class, reference): (String, &'static str, Option<String>) = match rng.below(if never_needed { 8 } else { 6 }) {
					0 => (value(rng), "value", None),
					1 => (format!("std.trace(\"{}\", {})", lab(label), value(rng)), "traced", None),
					2 => (bomb(rng), "bomb", None),
					3 => (format!("std.trace(\"{}\", {})", lab(label), bomb(rng)), "traced-bomb", None),
					4 => (format!("local q = std.trace(\"{}\", 2); q + q", lab(label)), "shared", None),
					5 => (format!("[std.trace(\"{}\", 1), {}][0]", lab(label), bomb(rng)), "lazy-inside", None),
					_ => (
						(*rng.pick(&["nope", "nope + 1", "1 +", ")", "local x = ; x", "{ a: }", "function(", "\"unterminated", "std.trace(\"TX\", 1) +"]))
							.to_string(),
						"static",
						Some("error \"static\"".to_string()),
					),
				};
				let reference = reference.unwrap_or_else(|| format!("({text})"));
				Payload { kind, text, reference, class }
			}
		}
	}
	let tmp = opts.out.join("files");
	let _ = std::fs::create_dir_all(&tmp);
	let tmp = std::fs::canonicalize(&tmp).unwrap_or(tmp);
	let mut files: Vec<std::path::PathBuf> = Vec::new();
	let mk_arg = |st: &State, p: &Payload, case: usize, name: &str, files: &mut Vec<std::path::PathBuf>| -> TlaArg {
		match p.kind {
			"str" => TlaArg::String(IStr::from(p.text.as_str())),
			"val" => match p.text.as_str() {
				"true" => TlaArg::Val(Val::Bool(true)),
				"false" => TlaArg::Val(Val::Bool(false)),
				"\"v\"" => TlaArg::Val(Val::string("v")),
				t => TlaArg::Val(Val::Num(t.parse::<i32>().unwrap_or(0).into())),
			},
			"lazy" => TlaArg::Lazy(Thunk::new(MemoizedClosureThunk::new(
				LazyEnv { st: st.clone(), code: p.text.clone() },
				lazy_body,
			))),
			"code" => TlaArg::InlineCode(p.text.clone()),
			k => {
				let path = tmp.join(format!("e{case}_{name}.{}", if k == "codefile" { "jsonnet" } else { "txt" }));
				let _ = std::fs::write(&path, &p.text);
				files.push(path.clone());
				let path = path.to_string_lossy().into_owned();
				if k == "codefile" {
					TlaArg::Import(path)
				} else {
					TlaArg::ImportStr(path)
				}
			}
		}
	};
	let mut rng = Rng::new(seed ^ 0x1A2E);
	let mut hist: BTreeMap<String, usize> = BTreeMap::new();
	let mut outcomes: BTreeMap<String, usize> = BTreeMap::new();
	let pick_need = |rng: &mut Rng| *rng.pick(&[Need::Unused, Need::Unused, Need::Dead, Need::Dead, Need::Once, Need::Twice]);
	for case in 0..n {
		let mut label = 0usize;
		let ext = case % 3 == 2;
		let names: &[&str] = if ext { &["x", "y", "z"] } else { &["a", "b", "c"] };
		let np = 1 + rng.below(3);
		// the selector of dead branches: a literal, or (tla) a parameter `s` whose argument is a boolean
		let sel_val = rng.chance(1, 2);
		let sel_param = !ext && rng.chance(1, 2);
		let mut terms: Vec<String> = Vec::new();
		let mut params: Vec<String> = Vec::new();
		let mut passed: Vec<(String, Payload)> = Vec::new();
		// first pass: what the body does with each parameter / variable, and the defaults
		let mut needs: Vec<Need> = Vec::new();
		let mut dflts: Vec<Option<String>> = Vec::new();
		let mut referenced = [false; 3];
		for name in &names[..np] {
			let need = pick_need(&mut rng);
			let rd = if ext { format!("std.extVar(\"{name}\")") } else { (*name).to_string() };
			match need {
				Need::Unused => {}
				Need::Dead => {
					let sel = if sel_param {
						if sel_val { "s" } else { "!s" }
					} else {
						"true"
					};
					terms.push(match rng.below(4) {
						0 => format!("(if {sel} then 0 else {rd})"),
						1 => format!("(if !({sel}) then {rd} else 1)"),
						2 => format!("(if {sel} || {rd} then 2 else 3)"),
						_ => format!("(if !({sel}) && {rd} then 2 else 3)"),
					});
				}
				Need::Once => terms.push(rd.clone()),
				Need::Twice => {
					if rng.chance(1, 2) {
						terms.push(rd.clone());
						terms.push(rd.clone());
					} else {
						terms.push(format!("[{rd}, {rd}]"));
					}
				}
			}
			*hist.entry(format!("need:{need:?}")).or_default() += 1;
			needs.push(need);
			// default: none / value / another parameter
			dflts.push(if ext {
				None
			} else {
				match rng.below(6) {
					3 => Some("300".into()),
					4 => {
						let j = rng.below(np);
						referenced[j] = true;
						Some(format!("{} + 1", names[j]))
					}
					_ => None,
				}
			});
		}
		// second pass: the arguments
		for (i, name) in names[..np].iter().enumerate() {
			let need = needs[i];
			// `never`: the call cannot need this argument (not even through a default of another parameter)
			let never = matches!(need, Need::Unused | Need::Dead) && !referenced[i];
			if ext {
				let mut p = payload(&mut rng, &mut label, case, never);
				if need == Need::Twice && p.kind == "code" {
					// EXCLUDED (finding, see DESIGN): an inline ext-code variable is re-evaluated by every
					// std.extVar read (SourceFifo paths compare by address, so the file cache never hits)
					p.kind = "codefile";
				}
				*hist.entry(format!("ext:{}:{}", p.kind, p.class)).or_default() += 1;
				passed.push(((*name).to_string(), p));
				continue;
			}
			let dflt = dflts[i].clone();
			let give = dflt.is_none() || rng.chance(1, 2);
			let (dflt, dclass) = if give && rng.chance(1, 3) {
				// a default that the argument overrides is never looked at
				label += 1;
				(
					Some(if rng.chance(1, 2) { "error \"default\"".to_string() } else { format!("std.trace(\"T{case}_{label}\", 1/0)") }),
					"overridden-failing",
				)
			} else if !give && never && rng.chance(1, 2) {
				(Some("error \"default\"".to_string()), "unneeded-failing")
			} else {
				let c = if dflt.is_some() { "plain" } else { "none" };
				(dflt, c)
			};
			*hist.entry(format!("default:{dclass}")).or_default() += 1;
			params.push(dflt.as_ref().map_or((*name).to_string(), |d| format!("{name} = {d}")));
			if give {
				if rng.chance(1, 25) {
					// parameter left unbound
					*hist.entry("arity:unbound".into()).or_default() += 1;
					continue;
				}
				let p = payload(&mut rng, &mut label, case, never);
				*hist.entry(format!("tla:{}:{}", p.kind, p.class)).or_default() += 1;
				passed.push(((*name).to_string(), p));
			}
		}
		if sel_param {
			params.push(if rng.chance(1, 3) { "s = error \"sel\"".to_string() } else { "s".to_string() });
			let text = sel_val.to_string();
			let kind = *rng.pick(&["code", "codefile", "val", "lazy"]);
			passed.push(("s".into(), Payload { kind, reference: text.clone(), text, class: "selector" }));
		}
		if !ext && rng.chance(1, 30) {
			*hist.entry("arity:unknown-name".into()).or_default() += 1;
			let p = payload(&mut rng, &mut label, case, true);
			passed.push(("zz".into(), p));
		}
		// order of the arguments in the reference call is immaterial: shuffle
		for i in (1..passed.len()).rev() {
			let j = rng.below(i + 1);
			passed.swap(i, j);
		}
		let body = if terms.is_empty() { "42".to_string() } else { format!("[{}]", terms.join(", ")) };
		let nonfunc = !ext && rng.chance(1, 25);
		let env = new_env();
		let g = env.state.enter();
		let (path, reference, ans) = if ext {
			let binds: Vec<String> = passed.iter().map(|(n, p)| format!("ev_{n} = {}", p.reference)).collect();
			let mut ref_body = body.clone();
			for n in names {
				ref_body = ref_body.replace(&format!("std.extVar(\"{n}\")"), &format!("ev_{n}"));
			}
			let reference = format!("local {}; {ref_body}", binds.join(", "));
			for (n, p) in &passed {
				let a = mk_arg(&env.state, p, case, n, &mut files);
				env.init.settings_mut().ext_vars.insert(IStr::from(n.as_str()), a);
			}
			let ans = run_program(&env, |s| s.evaluate_snippet("<ext>".to_owned(), body.clone()));
			("ext", reference, ans)
		} else {
			// sometimes the top-level value is not a function: the arguments are then never looked at
			let func = if nonfunc { "[1, 2]".to_string() } else { format!("function({}) {body}", params.join(", ")) };
			let reference = if nonfunc {
				*hist.entry("tla:not-a-function".into()).or_default() += 1;
				func.clone()
			} else {
				format!("({func})({})", passed.iter().map(|(n, p)| format!("{n} = {}", p.reference)).collect::<Vec<_>>().join(", "))
			};
			let mut m: std::collections::HashMap<IStr, TlaArg> = std::collections::HashMap::new();
			for (n, p) in &passed {
				m.insert(IStr::from(n.as_str()), mk_arg(&env.state, p, case, n, &mut files));
			}
			let ans = run_program(&env, |s| {
				let f = s.evaluate_snippet("<tla>".to_owned(), func.clone())?;
				jrsonnet_evaluator::apply_tla(&m, f)
			});
			("tla", reference, ans)
		};
		drop(g);
		for f in files.drain(..) {
			let _ = std::fs::remove_file(f);
		}
		let source = Source::new_virtual("<lazy-entry>".into(), reference.as_str().into());
		let ast = match jrsonnet_ir_parser::parse(&reference, &jrsonnet_ir_parser::ParserSettings { source }) {
			Ok(e) => astjson::expr(&e),
			Err(_) => json!(["unsupported", "syntax error"]),
		};
		let key = format!("{path}:{}", ans.get("err").and_then(Value::as_str).unwrap_or(if ans.get("ok").is_some() { "ok" } else { "panic" }));
		*outcomes.entry(key).or_default() += 1;
		let given: Vec<Value> = passed.iter().map(|(n, p)| json!([n, p.kind, p.text])).collect();
		let entry = if ext {
			body.clone()
		} else if nonfunc {
			"[1, 2]".to_string()
		} else {
			format!("function({}) {body}", params.join(", "))
		};
		w.case(
			json!({"op":"eval.run","path":format!("lazy-{path}"),"src":reference,"ast":ast,"fuel":300,"size":reference.len(),
				"_entry": entry, "_given": given}),
			ans,
		);
	}
	json!({"cases": n, "hist": hist, "outcome_hist": outcomes,
		"rule": "top-level functions called through apply_tla, and std.extVar reads, with arguments of every TlaArg kind (String, Val, Lazy, InlineCode, Import, ImportStr) whose code is a value / traced / failing (user, type, div0, bounds, assert, nofield, arity) / traced failing / internally shared / not analysable (unknown variable, syntax error; only where never needed); each parameter or variable unused / read in a branch not taken / read once / read twice; failing or traced defaults overridden by the argument; unbound parameter, unknown argument name, non-function top-level value; reference = the call expression (resp. local bindings) written in the language, outcome and sorted trace multiset"})
}

pub fn run(opts: &Opts) {
	if opts.engine == "c01b" {
		run_bind(opts);
	} else if opts.engine == "c01t" {
		run_prepared(opts);
	} else {
		run_engine(opts, false);
	}
}
