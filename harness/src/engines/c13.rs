//! C13 — stdlib object / type / equality functions against their documented definitions.
//! Every case is one call `std.<fn>(args…)` evaluated from source text by the real evaluator with
//! the real stdlib.  Arguments are *terms* (see Drv/C13.lean): JSON scalars and arrays,
//! `{"$e":1}` = `error "x"` (only in lazy positions), `{"$fn":n}` = a function of n parameters,
//! `{"$o":[layer,…]}` = an inheritance chain `{…} + {…}` whose fields carry `:`/`::`/`:::` and `+:`.
//! `{"$sup":[layer,…],"k":k}` = the value of `super` bound inside layer k of that chain.
//! The answer is the result dumped *lazily*: every array element / object field (hidden ones too,
//! with their visibility) is evaluated on its own and a failing one is recorded as `{"$e":1}`.
use std::collections::BTreeMap;

use jrsonnet_evaluator::{State, Val};
use serde_json::{json, Value};

use crate::common::{guarded, new_state, CaseWriter, Opts, Rng};

fn fn_text(name: &str) -> &'static str {
	match name {
		"key" => "function(k, v) k",
		"val" => "function(k, v) v",
		"pair" => "function(k, v) [k, v]",
		"fail" => "function(k, v) error 'f'",
		"isnull" => "function(k, v) v == null",
		"wrap" => "function(k, v) {[k]:: v, '~': k}",
		_ => panic!("unknown pool function {name}"),
	}
}
const POOL: [&str; 6] = ["key", "val", "pair", "fail", "isnull", "wrap"];

/// jsonnet source of a term
fn src(t: &Value) -> String {
	match t {
		Value::Array(a) => format!("[{}]", a.iter().map(src).collect::<Vec<_>>().join(", ")),
		Value::Object(m) => {
			if let Some(p) = str_src(t) {
				p
			} else if m.contains_key("$e") {
				"error 'x'".to_string()
			} else if let Some(n) = m.get("$fn") {
				match n.as_u64().expect("$fn") {
					0 => "(function() 0)".to_string(),
					1 => "(function(p0) 0)".to_string(),
					2 => "(function(p0, p1=1) 0)".to_string(),
					_ => "(function(p0, p1=1, p2=2) 0)".to_string(),
				}
			} else if let Some(layers) = m.get("$o") {
				let layers = layers.as_array().expect("$o");
				if layers.is_empty() {
					return "{}".to_string();
				}
				let parts: Vec<String> = layers.iter().map(|l| layer_src(l, false)).collect();
				if parts.len() == 1 {
					parts[0].clone()
				} else {
					format!("({})", parts.join(" + "))
				}
			} else if let Some(layers) = m.get("$sup") {
				// the VALUE of `super` taken inside layer k: `(L0 + … + {local s = super, …Lk…, '$r':: s} + …)['$r']`
				let layers = layers.as_array().expect("$sup");
				let k = m.get("k").and_then(Value::as_u64).expect("k") as usize;
				assert!(k >= 1 && k < layers.len(), "cut inside the chain");
				let parts: Vec<String> = layers.iter().enumerate().map(|(i, l)| layer_src(l, i == k)).collect();
				let base = format!("({})['$r']", parts.join(" + "));
				match m.get("ext").and_then(Value::as_array) {
					Some(ext) if !ext.is_empty() => {
						let es: Vec<String> = ext.iter().map(|l| layer_src(l, false)).collect();
						format!("({base} + {})", es.join(" + "))
					}
					_ => base,
				}
			} else {
				panic!("bad term {t}")
			}
		}
		other => other.to_string(),
	}
}

/// source of one layer; `cut`: the layer binds `local s = super` and exports it as the hidden field `$r`
fn layer_src(l: &Value, cut: bool) -> String {
	let mut fs: Vec<String> = Vec::new();
	if cut {
		fs.push("local s = super".to_string());
	}
	for f in l.as_array().expect("layer") {
		let f = f.as_array().expect("field");
		let vis = match f[1].as_str().expect("vis") {
			"n" => ":",
			"h" => "::",
			_ => ":::",
		};
		// a name that is a string production becomes a computed field name
		let name = if f[0].is_string() { f[0].to_string() } else { format!("[{}]", src(&f[0])) };
		fs.push(format!("{}{}{} {}", name, if f[2].as_bool().expect("plus") { "+" } else { "" }, vis, src(&f[3])));
	}
	if cut {
		fs.push("'$r':: s".to_string());
	}
	format!("{{{}}}", fs.join(", "))
}

/// source text of a string production (see Drv/C13.lean): the same text written so that the
/// evaluator holds it in different internal representations (flat / ropes)
fn str_src(t: &Value) -> Option<String> {
	let m = t.as_object()?;
	if let Some(parts) = m.get("$cat").and_then(Value::as_array) {
		let ps: Vec<String> = parts.iter().map(src).collect();
		let pct = "%s".repeat(ps.len());
		return Some(match m.get("by").and_then(Value::as_str).unwrap_or("plus") {
			"format" => format!("std.format(\"{pct}\", [{}])", ps.join(", ")),
			"pct" => format!("(\"{pct}\" % [{}])", ps.join(", ")),
			"join" => format!("std.join(\"\", [{}])", ps.join(", ")),
			_ => format!("({})", ps.join(" + ")),
		});
	}
	if let Some(a) = m.get("$rep").and_then(Value::as_array) {
		return Some(format!("std.repeat({}, {})", src(&a[0]), a[1]));
	}
	if let Some(n) = m.get("$chr") {
		return Some(format!("std.char({n})"));
	}
	if let Some(a) = m.get("$w").and_then(Value::as_array) {
		let t = src(&a[1]);
		return Some(match a[0].as_str().expect("wrapper kind") {
			"toString" => format!("std.toString({t})"),
			"pct" => format!("(\"%s\" % {t})"),
			"format" => format!("std.format(\"%s\", [{t}])"),
			"substr" => format!("(local s = {t}; std.substr(s + \"##\", 0, std.length(s)))"),
			"slice" => format!("({t})[0:]"),
			"join" => format!("std.join(\"\", [{t}, \"\"])"),
			"id" => format!("(function(x) x)({t})"),
			"local" => format!("(local s = {t}; s)"),
			"field" => format!("{{f: {t}}}.f"),
			"elem" => format!("[{t}][0]"),
			"plusEmpty" => format!("({t} + \"\")"),
			k => panic!("unknown wrapper {k}"),
		});
	}
	None
}

/// text of a string production (used only to BUILD inputs: sorting sets, choosing unequal partners)
fn text_of(t: &Value) -> String {
	if let Some(s) = t.as_str() {
		return s.to_string();
	}
	let m = t.as_object().expect("string production");
	if let Some(parts) = m.get("$cat").and_then(Value::as_array) {
		return parts.iter().map(text_of).collect();
	}
	if let Some(a) = m.get("$rep").and_then(Value::as_array) {
		return text_of(&a[0]).repeat(a[1].as_u64().expect("count") as usize);
	}
	if let Some(n) = m.get("$chr") {
		return char::from_u32(n.as_u64().expect("cp") as u32).expect("char").to_string();
	}
	if let Some(a) = m.get("$w").and_then(Value::as_array) {
		return text_of(&a[1]);
	}
	panic!("not a string production: {t}")
}

/// lazy dump of an implementation value
fn dump(v: &Val) -> Value {
	match v {
		Val::Null => Value::Null,
		Val::Bool(b) => json!(b),
		Val::Num(n) => {
			let f = n.get();
			if f.fract() == 0.0 && f.abs() < 9.0e15 && !(f == 0.0 && f.is_sign_negative()) {
				json!(f as i64)
			} else {
				json!({"$f": format!("{:016x}", f.to_bits())})
			}
		}
		Val::Str(s) => json!(s.to_string()),
		Val::Arr(a) => {
			let mut out = Vec::with_capacity(a.len());
			for i in 0..a.len() {
				out.push(match guarded(|| a.get(i)) {
					Ok(Ok(Some(e))) => dump(&e),
					Ok(Ok(None)) => json!({"$missing": i}),
					Ok(Err(_)) => json!({"$e": 1}),
					Err(p) => json!({"$panic": p}),
				});
			}
			Value::Array(out)
		}
		Val::Obj(o) => {
			let mut out = Vec::new();
			for k in o.fields_ex(
				true,
				#[cfg(feature = "exp-preserve-order")]
				false,
			) {
				let hidden = !o.has_field_ex(k.clone(), false);
				let fv = match guarded(|| o.get(k.clone())) {
					Ok(Ok(Some(e))) => dump(&e),
					Ok(Ok(None)) => json!({"$missing": 1}),
					Ok(Err(_)) => json!({"$e": 1}),
					Err(p) => json!({"$panic": p}),
				};
				out.push(json!([k.to_string(), hidden, fv]));
			}
			json!({ "$o": out })
		}
		Val::Func(f) => json!({"$fn": f.params().len()}),
		#[allow(unreachable_patterns)]
		_ => json!({"$other": 1}),
	}
}

/// source text of the call described by `op`
fn source(op: &Value) -> String {
	let fname = op["fn"].as_str().expect("fn");
	let a: Vec<String> = op["a"].as_array().expect("a").iter().map(src).collect();
	match fname {
		"mapWithKey" => format!(
			"std.mapWithKey({}, {})",
			fn_text(op["f"].as_str().expect("f")),
			a[0]
		),
		"equalsSame" => format!("local a = {}; std.equals(a, a)", a[0]),
		"value" => a[0].clone(),
		"opEq" => format!("({}) == ({})", a[0], a[1]),
		"opNe" => format!("({}) != ({})", a[0], a[1]),
		"opLt" => format!("({}) < ({})", a[0], a[1]),
		"opLe" => format!("({}) <= ({})", a[0], a[1]),
		"opGt" => format!("({}) > ({})", a[0], a[1]),
		"opGe" => format!("({}) >= ({})", a[0], a[1]),
		"opIn" => format!("({}) in ({})", a[0], a[1]),
		"opIndex" => format!("({})[{}]", a[0], a[1]),
		_ => format!("std.{fname}({})", a.join(", ")),
	}
}

fn run_case(s: &State, op: &Value) -> Value {
	let code = source(op);
	match guarded(|| -> Result<Value, String> {
		let v = s
			.evaluate_snippet("<c13>".to_owned(), code.clone())
			.map_err(|e| format!("{}", e.error()))?;
		Ok(dump(&v))
	}) {
		Ok(Ok(v)) => json!({ "ok": v }),
		Ok(Err(msg)) => json!({ "err": 1, "_msg": msg, "_src": code }),
		Err(p) => json!({ "panic": p, "_src": code }),
	}
}

// ---------------------------------------------------------------------------------------------
// term constructors

fn e() -> Value {
	json!({"$e": 1})
}
fn func(n: u64) -> Value {
	json!({ "$fn": n })
}
fn fld(name: &str, vis: &str, plus: bool, v: Value) -> Value {
	json!([name, vis, plus, v])
}
/// one-layer object from (name, vis, value)
fn o1(fs: &[(&str, &str, Value)]) -> Value {
	json!({"$o": [fs.iter().map(|(n, v, t)| fld(n, v, false, t.clone())).collect::<Vec<_>>()]})
}
fn chain(layers: Vec<Vec<Value>>) -> Value {
	json!({ "$o": layers })
}
fn empty() -> Value {
	json!({"$o": []})
}

// "ￜ" (U+FFDC) < "😀" (U+1F600) by code point, the other way round by UTF-16 unit
const NAMES: [&str; 10] = ["a", "b", "c", "B", "", "ab", "é", "z", "😀", "ￜ"];
/// names probed as keys: every generated name, plus ones that never exist
const ABSENT: [&str; 3] = ["zz", "A", "key"];

fn scalar(rng: &mut Rng) -> Value {
	match rng.below(12) {
		0 => Value::Null,
		1 => json!(true),
		2 => json!(false),
		3 => json!(0),
		4 => json!(1),
		5 => json!(-1),
		6 => json!(2),
		7 => json!(""),
		8 => json!("a"),
		9 => json!("é"),
		10 => json!("ab"),
		_ => Value::Null,
	}
}

fn gen_val(rng: &mut Rng, depth: usize, lazy: bool) -> Value {
	let r = rng.below(100);
	if lazy && r < 10 {
		return e();
	}
	if r < 14 {
		return func(rng.below(3) as u64);
	}
	if depth == 0 || r < 50 {
		return scalar(rng);
	}
	if r < 70 {
		let n = rng.below(4);
		return Value::Array((0..n).map(|_| gen_val(rng, depth - 1, true)).collect());
	}
	gen_obj(rng, depth - 1)
}

fn gen_layer(rng: &mut Rng, depth: usize, max_fields: usize) -> Vec<Value> {
	let n = rng.below(max_fields + 1);
	let mut used: Vec<&str> = Vec::new();
	let mut out = Vec::new();
	for _ in 0..n {
		// "p": numbers only (may be `p+:`), "q": arrays only (may be `q+:`)
		let r = rng.below(NAMES.len() + 2);
		let name = if r < NAMES.len() { NAMES[r] } else if r == NAMES.len() { "p" } else { "q" };
		if used.contains(&name) {
			continue;
		}
		used.push(name);
		let vis = match rng.below(20) {
			0..=11 => "n",
			12..=16 => "h",
			_ => "u",
		};
		let (plus, v) = match name {
			"p" => (
				rng.chance(1, 2),
				if rng.chance(1, 8) { e() } else { json!(rng.range(-2, 3)) },
			),
			"q" => (
				rng.chance(1, 2),
				if rng.chance(1, 8) {
					e()
				} else {
					Value::Array((0..rng.below(3)).map(|_| gen_val(rng, 0, true)).collect())
				},
			),
			_ => (false, gen_val(rng, depth, true)),
		};
		out.push(fld(name, vis, plus, v));
	}
	out
}

fn gen_obj(rng: &mut Rng, depth: usize) -> Value {
	let layers = match rng.below(10) {
		0 => 0,
		1..=4 => 1,
		5..=7 => 2,
		_ => 3,
	};
	chain((0..layers).map(|_| gen_layer(rng, depth, 4)).collect())
}

/// a patch aimed at `target`: reuses its names with nulls / nested patches / replacements
fn gen_patch(rng: &mut Rng, target: &Value, depth: usize) -> Value {
	let mut names: Vec<String> = Vec::new();
	if let Some(layers) = target.get("$o").and_then(Value::as_array) {
		for l in layers {
			for f in l.as_array().expect("layer") {
				let n = f[0].as_str().expect("name").to_string();
				if !names.contains(&n) {
					names.push(n);
				}
			}
		}
	}
	let mut layer = Vec::new();
	let mut used: Vec<String> = Vec::new();
	let n = rng.below(4) + usize::from(!names.is_empty());
	for _ in 0..n {
		let name = if !names.is_empty() && rng.chance(3, 4) {
			rng.pick(&names).clone()
		} else {
			(*rng.pick(&NAMES)).to_string()
		};
		// "p"/"q" are reserved for `+:` fields of one value kind (see gen_layer)
		if used.contains(&name) || name == "p" || name == "q" {
			continue;
		}
		used.push(name.clone());
		let vis = match rng.below(10) {
			0..=6 => "n",
			7..=8 => "h",
			_ => "u",
		};
		let v = match rng.below(10) {
			0..=2 => Value::Null,
			3..=5 if depth > 0 => {
				// nested patch against the target's field of that name (if it is an object term)
				let sub = target
					.get("$o")
					.and_then(Value::as_array)
					.and_then(|ls| {
						ls.iter().rev().find_map(|l| {
							l.as_array().unwrap().iter().find(|f| f[0] == json!(name)).map(|f| f[3].clone())
						})
					})
					.unwrap_or(Value::Null);
				gen_patch(rng, &sub, depth - 1)
			}
			_ => gen_val(rng, 1, true),
		};
		layer.push(fld(&name, vis, false, v));
	}
	if rng.chance(1, 6) {
		// a second layer re-declaring one field with another visibility
		let extra = gen_layer(rng, 1, 2);
		chain(vec![layer, extra])
	} else {
		chain(vec![layer])
	}
}

fn term_size(t: &Value) -> usize {
	match t {
		Value::Array(a) => 1 + a.iter().map(term_size).sum::<usize>(),
		Value::Object(m) => 1 + m.values().map(term_size).sum::<usize>(),
		_ => 1,
	}
}

fn has_hidden(t: &Value) -> bool {
	match t {
		Value::Array(a) => a.iter().any(|x| x == &json!("h") || has_hidden(x)),
		Value::Object(m) => m.values().any(has_hidden),
		_ => false,
	}
}
fn layers_of(t: &Value) -> usize {
	t.get("$o").and_then(Value::as_array).map_or(0, Vec::len)
}

struct Gen<'a> {
	s: &'a State,
	w: CaseWriter,
	hist: BTreeMap<String, usize>,
	outcome: BTreeMap<&'static str, usize>,
	layer_hist: BTreeMap<usize, usize>,
	with_hidden: usize,
	with_err_leaf: usize,
}
impl Gen<'_> {
	fn emit(&mut self, fname: &str, a: Vec<Value>, f: Option<&str>) {
		let size: usize = 1 + a.iter().map(term_size).sum::<usize>();
		for t in &a {
			if t.get("$o").is_some() {
				*self.layer_hist.entry(layers_of(t)).or_default() += 1;
			}
		}
		if a.iter().any(has_hidden) {
			self.with_hidden += 1;
		}
		if a.iter().any(|t| t.to_string().contains("$e")) {
			self.with_err_leaf += 1;
		}
		let mut op = json!({"op":"c13.call","fn":fname,"a":a,"size":size});
		if let Some(f) = f {
			op["f"] = json!(f);
		}
		let ans = run_case(self.s, &op);
		*self.hist.entry(fname.to_string()).or_default() += 1;
		*self
			.outcome
			.entry(if ans.get("ok").is_some() {
				"ok"
			} else if ans.get("err").is_some() {
				"err"
			} else {
				"panic"
			})
			.or_default() += 1;
		self.w.case(op, ans);
	}

	/// every object function on one object, with keys that are visible / hidden / absent
	fn object_ops(&mut self, o: &Value, keys: &[String]) {
		for f in [
			"objectFields",
			"objectFieldsAll",
			"objectValues",
			"objectValuesAll",
			"objectKeysValues",
			"objectKeysValuesAll",
			"length",
			"prune",
		] {
			self.emit(f, vec![o.clone()], None);
		}
		for h in [json!(true), json!(false)] {
			self.emit("objectFieldsEx", vec![o.clone(), h], None);
		}
		for k in keys {
			let k = json!(k);
			self.emit("objectHas", vec![o.clone(), k.clone()], None);
			self.emit("objectHasAll", vec![o.clone(), k.clone()], None);
			for h in [json!(true), json!(false)] {
				self.emit("objectHasEx", vec![o.clone(), k.clone(), h.clone()], None);
				self.emit("get", vec![o.clone(), k.clone(), json!(7), h.clone()], None);
				self.emit("get", vec![o.clone(), k.clone(), e(), h], None);
			}
			self.emit("get", vec![o.clone(), k.clone()], None);
			self.emit("get", vec![o.clone(), k.clone(), json!("d")], None);
			self.emit("get", vec![o.clone(), k.clone(), e()], None);
			self.emit("objectRemoveKey", vec![o.clone(), k.clone()], None);
		}
	}
	fn map_ops(&mut self, o: &Value) {
		for f in POOL {
			self.emit("mapWithKey", vec![o.clone()], Some(f));
		}
	}
	fn value_ops(&mut self, v: &Value) {
		for f in [
			"length",
			"type",
			"isString",
			"isNumber",
			"isBoolean",
			"isObject",
			"isArray",
			"isFunction",
			"isNull",
			"prune",
			"equalsSame",
		] {
			self.emit(f, vec![v.clone()], None);
		}
	}
	fn eq_ops(&mut self, a: &Value, b: &Value) {
		for f in ["equals", "primitiveEquals", "assertEqual"] {
			self.emit(f, vec![a.clone(), b.clone()], None);
		}
	}
}

// ---------------------------------------------------------------------------------------------
// (S) strings in every internal representation: the SAME text written as a flat literal, as ropes
// built by `+` with different split points and nesting shapes (a `+` whose result is shorter than
// 100 bytes is flattened at once, longer ones stay ropes), and as results of other producers

fn cat(parts: Vec<Value>) -> Value {
	json!({ "$cat": parts })
}
fn cat_by(by: &str, parts: Vec<Value>) -> Value {
	json!({"$cat": parts, "by": by})
}
fn wrap(kind: &str, t: Value) -> Value {
	json!({"$w": [kind, t]})
}
fn lit_of(cs: &[char]) -> Value {
	json!(cs.iter().collect::<String>())
}
/// a field whose NAME is a term (string production => computed field name)
fn fldk(name: &Value, vis: &str, v: Value) -> Value {
	json!([name, vis, false, v])
}
/// literal leaves of `cs` cut at the given char positions
fn leaves(cs: &[char], cuts: &[usize]) -> Vec<Value> {
	let mut out = vec![];
	let mut prev = 0;
	for c in cuts.iter().copied().chain(std::iter::once(cs.len())) {
		let c = c.min(cs.len());
		if c > prev {
			out.push(lit_of(&cs[prev..c]));
			prev = c;
		}
	}
	out
}
#[derive(Clone, Copy)]
enum Shape {
	Left,
	Right,
	Balanced,
}
fn tree(ls: &[Value], sh: Shape) -> Value {
	if ls.len() == 1 {
		return ls[0].clone();
	}
	let k = match sh {
		Shape::Left => ls.len() - 1,
		Shape::Right => 1,
		Shape::Balanced => ls.len() / 2,
	};
	cat(vec![tree(&ls[..k], sh), tree(&ls[k..], sh)])
}
fn random_tree(rng: &mut Rng, ls: &[Value]) -> Value {
	if ls.len() == 1 {
		let l = ls[0].clone();
		return if rng.chance(1, 10) { wrap(*rng.pick(&["toString", "substr", "id", "local"]), l) } else { l };
	}
	let k = 1 + rng.below(ls.len() - 1);
	let a = random_tree(rng, &ls[..k]);
	let b = random_tree(rng, &ls[k..]);
	match rng.below(12) {
		0 => cat_by("format", vec![a, b]),
		1 => cat_by("join", vec![a, b]),
		2 => cat_by("pct", vec![a, b]),
		_ => cat(vec![a, b]),
	}
}
const WRAPPERS: [&str; 11] = ["toString", "pct", "format", "substr", "slice", "join", "id", "local", "field", "elem", "plusEmpty"];
/// a seeded representation of the text `cs` (at least 2 chars): 0..5 random cuts, random shape
fn rep_random(cs: &[char], rng: &mut Rng) -> Value {
	let n = cs.len();
	let k = rng.below(6);
	let mut cuts: Vec<usize> = (0..k).map(|_| 1 + rng.below(n - 1)).collect();
	cuts.sort_unstable();
	cuts.dedup();
	let ls = leaves(cs, &cuts);
	let t = random_tree(rng, &ls);
	if rng.chance(1, 4) {
		wrap(*rng.pick(&WRAPPERS), t)
	} else {
		t
	}
}
/// the enumerated representations of the text `cs` (at least 30 chars); the first `CORE_REPS`
/// are the flat literal and the pure `+` ropes
const CORE_REPS: usize = 17;
fn reps(cs: &[char], rng: &mut Rng) -> Vec<Value> {
	use Shape::{Balanced, Left, Right};
	let n = cs.len();
	let mut out = vec![lit_of(cs)];
	for p in [1, n / 2 - 10, n / 2, n / 2 + 10, n - 1, 1 + rng.below(n - 1)] {
		out.push(tree(&leaves(cs, &[p]), Left));
	}
	for sh in [Left, Right] {
		out.push(tree(&leaves(cs, &[n / 3, 2 * n / 3]), sh));
		out.push(tree(&leaves(cs, &[n / 4, n / 2]), sh));
	}
	for sh in [Left, Right, Balanced] {
		out.push(tree(&leaves(cs, &[n / 4, n / 2, 3 * n / 4]), sh));
		out.push(tree(&leaves(cs, &[n / 4 + 3, n / 2 - 5, 3 * n / 4 + 7]), sh));
	}
	assert_eq!(out.len(), CORE_REPS);
	// empty pieces (concat returns the other operand)
	out.push(cat(vec![json!(""), lit_of(cs)]));
	out.push(cat(vec![lit_of(&cs[..n / 2]), json!(""), lit_of(&cs[n / 2..])]));
	// other producers of a two-piece text
	for by in ["format", "pct", "join"] {
		out.push(cat_by(by, leaves(cs, &[n / 2])));
	}
	// wrappers around the literal and around a rope
	let rope = tree(&leaves(cs, &[n / 2 + 1]), Left);
	for k in ["toString", "substr", "id"] {
		out.push(wrap(k, lit_of(cs)));
	}
	for k in WRAPPERS {
		out.push(wrap(k, rope.clone()));
	}
	// std.char leaf; rope of wrapped leaves
	out.push(cat(vec![json!({"$chr": cs[0] as u32}), lit_of(&cs[1..])]));
	let l2 = leaves(cs, &[n / 2 - 3]);
	out.push(cat(vec![wrap("toString", l2[0].clone()), wrap("substr", l2[1].clone())]));
	out
}
/// texts close to `cs` but different: one char changed at the start / at and near the middle (where
/// the ropes are cut) / at the end, one char fewer or more at either end, first char moved to the end
fn mutants(cs: &[char]) -> Vec<Vec<char>> {
	let n = cs.len();
	let mut out: Vec<Vec<char>> = vec![];
	for p in [0, n / 2 - 1, n / 2, n / 2 + 10, n - 1] {
		let mut m = cs.to_vec();
		m[p] = if m[p] == '#' { '$' } else { '#' };
		out.push(m);
	}
	out.push(cs[..n - 1].to_vec());
	out.push(cs[1..].to_vec());
	let mut m = cs.to_vec();
	m.push('x');
	out.push(m);
	let mut m = cs[1..].to_vec();
	m.push(cs[0]);
	out.push(m);
	out.retain(|m| m.as_slice() != cs);
	out
}
fn cycle(unit: &str, n_chars: usize) -> Vec<char> {
	unit.chars().cycle().take(n_chars).collect()
}
/// the fixed texts: byte lengths around and above the rope threshold (100), ASCII and not
fn string_contents() -> Vec<(bool, Vec<char>)> {
	let mut out = vec![];
	// (all pairs of ALL representations?, text)
	for n in [98usize, 99, 100, 101, 120, 200, 250] {
		out.push((n == 120, cycle("x", n)));
	}
	for n in [100usize, 120, 250] {
		out.push((false, cycle("abcdefghij", n)));
	}
	for n in [49usize, 50, 51, 60] {
		out.push((false, cycle("é", n))); // 2 bytes per char
	}
	out.push((true, cycle("aé😀b", 60))); // 120 bytes
	out.push((false, cycle("日本語", 34))); // 102 bytes
	out
}
const EQ_OPS: [&str; 9] = ["equals", "opEq", "opLt", "primitiveEquals", "assertEqual", "opNe", "opLe", "opGt", "opGe"];

impl Gen<'_> {
	/// `a` against `b` through the first `always` operators of EQ_OPS and a seeded 1-in-`den` sample of the rest
	fn str_ops(&mut self, rng: &mut Rng, a: &Value, b: &Value, always: usize, den: usize) {
		for (i, f) in EQ_OPS.iter().enumerate() {
			if i < always || rng.chance(1, den) {
				self.emit(f, vec![a.clone(), b.clone()], None);
			}
		}
	}
	/// the same two strings inside arrays / as field values
	fn str_containers(&mut self, a: &Value, b: &Value) {
		let pairs = [
			(json!([a]), json!([b])),
			(json!([1, a, null]), json!([1, b, null])),
			(o1(&[("a", "n", a.clone())]), o1(&[("a", "n", b.clone())])),
			(o1(&[("a", "n", json!([a]))]), o1(&[("a", "n", json!([b]))])),
			(json!([o1(&[("k", "n", a.clone())])]), json!([o1(&[("k", "n", b.clone())])])),
			(o1(&[("a", "n", a.clone()), ("h", "h", b.clone())]), o1(&[("a", "n", b.clone())])),
		];
		for (x, y) in pairs {
			for f in ["equals", "opEq", "opNe", "assertEqual"] {
				self.emit(f, vec![x.clone(), y.clone()], None);
			}
		}
	}
	/// `k1` as a computed field name, probed with `k2`
	fn str_keys(&mut self, k1: &Value, k2: &Value) {
		let o = chain(vec![vec![fldk(k1, "n", json!(1)), fld("b", "h", false, json!(2))]]);
		let o2 = chain(vec![vec![fldk(k2, "n", json!(1)), fld("b", "h", false, json!(2))]]);
		let olit = chain(vec![vec![fldk(&json!(text_of(k2)), "n", json!(1))]]);
		let two = chain(vec![vec![fldk(k1, "n", json!(1))], vec![fldk(k2, "h", json!(2))]]);
		self.emit("objectHas", vec![o.clone(), k2.clone()], None);
		self.emit("objectHasAll", vec![o.clone(), k2.clone()], None);
		self.emit("opIn", vec![k2.clone(), o.clone()], None);
		self.emit("opIndex", vec![o.clone(), k2.clone()], None);
		self.emit("get", vec![o.clone(), k2.clone()], None);
		self.emit("get", vec![o.clone(), k2.clone(), json!(7)], None);
		self.emit("objectFields", vec![o.clone()], None);
		self.emit("objectRemoveKey", vec![o.clone(), k2.clone()], None);
		self.emit("mapWithKey", vec![o.clone()], Some("key"));
		self.emit("equals", vec![o.clone(), o2.clone()], None);
		self.emit("opEq", vec![o.clone(), o2], None);
		self.emit("equals", vec![o.clone(), olit.clone()], None);
		self.emit("objectHas", vec![olit.clone(), k1.clone()], None);
		self.emit("opIndex", vec![olit, k1.clone()], None);
		self.emit("objectFieldsAll", vec![two.clone()], None);
		self.emit("objectFields", vec![two.clone()], None);
		self.emit("objectHas", vec![two.clone(), k1.clone()], None);
		self.emit("get", vec![two, k1.clone(), json!(7), json!(true)], None);
	}

	fn string_families(&mut self, rng: &mut Rng, thorough: bool) -> Value {
		let mut counts: BTreeMap<&'static str, usize> = BTreeMap::new();
		let mut bytes_hist: BTreeMap<usize, usize> = BTreeMap::new();
		let mut mark = |g: &Gen, last: &mut usize, k: &'static str| {
			*counts.entry(k).or_default() += g.w.n - *last;
			*last = g.w.n;
		};
		let mut last = self.w.n;
		for (full, cs) in string_contents() {
			let text: String = cs.iter().collect();
			*bytes_hist.entry(text.len()).or_default() += 1;
			let rs = reps(&cs, rng);
			// (S1) equal text, every pair of representations
			let k = if full { rs.len() } else { CORE_REPS };
			for a in &rs[..k] {
				for b in &rs[..k] {
					self.str_ops(rng, a, b, 2, 8);
				}
			}
			// the remaining representations against a seeded choice of the core ones
			for a in &rs[k..] {
				for _ in 0..3 {
					let b = rng.pick(&rs[..CORE_REPS]).clone();
					self.str_ops(rng, a, &b, 2, 8);
					self.str_ops(rng, &b, a, 2, 8);
				}
			}
			// uniform texts also through std.repeat
			if cs.iter().all(|c| *c == cs[0]) && cs.len() > 70 {
				let unit = json!(cs[0].to_string());
				let r1 = json!({"$rep": [unit, cs.len()]});
				let r2 = cat(vec![json!({"$rep": [unit, 60]}), json!({"$rep": [unit, cs.len() - 60]})]);
				let r3 = cat(vec![json!({"$rep": [unit, cs.len() - 60]}), json!({"$rep": [unit, 60]})]);
				for a in [&r1, &r2, &r3] {
					for b in [&r1, &r2, &r3, &rs[0], &rs[3], &rs[4]] {
						self.str_ops(rng, a, b, 2, 4);
						self.str_ops(rng, b, a, 2, 4);
					}
				}
			}
			mark(self, &mut last, "equal_text_pairs");
			// (S1') texts that differ a little: never equal, ordered by text
			let n = cs.len();
			let ms = mutants(&cs);
			let own = [rs[0].clone(), rs[3].clone(), rs[2].clone(), rs[11].clone()];
			for m in &ms {
				let mn = m.len();
				let theirs = [
					lit_of(m),
					tree(&leaves(m, &[n / 2]), Shape::Left),
					tree(&leaves(m, &[n / 2 + 10]), Shape::Left),
					tree(&leaves(m, &[mn / 4, mn / 2, 3 * mn / 4]), Shape::Balanced),
				];
				for a in &own {
					for b in &theirs {
						self.str_ops(rng, a, b, 3, 6);
						if rng.chance(1, 3) {
							self.str_ops(rng, b, a, 3, 6);
						}
					}
				}
			}
			mark(self, &mut last, "near_text_pairs");
			// (S2) inside arrays / as field values; (S3) as computed field names
			for i in 0..11 {
				let a = rng.pick(&rs).clone();
				let b = if i < 8 {
					rng.pick(&rs).clone()
				} else {
					let m: Vec<char> = rng.pick(&ms[..]).clone();
					rep_random(&m, rng)
				};
				self.str_containers(&a, &b);
				if i % 2 == 0 {
					self.str_keys(&a, &b);
				}
			}
			mark(self, &mut last, "containers_and_keys");
			// (S4) std.setMember / std.member over a set of near texts in seeded representations
			let mut texts: Vec<Vec<char>> = ms.clone();
			texts.push(cs.clone());
			let mut plus = cs.clone();
			plus.push('a');
			texts.push(plus);
			texts.sort_by_key(|t| t.iter().collect::<String>());
			texts.dedup();
			for _ in 0..4 {
				let keep: Vec<&Vec<char>> = texts.iter().filter(|_| rng.chance(2, 3)).collect();
				let set = Value::Array(keep.iter().map(|t| rep_random(t, rng)).collect());
				let mut arr: Vec<Value> = keep.iter().map(|t| rep_random(t, rng)).collect();
				if arr.len() > 1 {
					let i = rng.below(arr.len());
					arr.swap(0, i);
				}
				arr.insert(0, json!(1));
				arr.push(json!([rs[1].clone()]));
				let arr = Value::Array(arr);
				for t in &texts {
					let x = rep_random(t, rng);
					self.emit("setMember", vec![x.clone(), set.clone()], None);
					self.emit("member", vec![arr.clone(), x], None);
				}
				self.emit("member", vec![arr.clone(), json!([rs[2].clone()])], None);
			}
			mark(self, &mut last, "set_member");
			// (S5) type functions
			for _ in 0..4 {
				let a = rng.pick(&rs).clone();
				self.value_ops(&a);
			}
			mark(self, &mut last, "type_functions");
		}
		// (S6) seeded random texts, representations and operators
		let alphabet = ['a', 'b', 'x', 'é', '😀', '日', ' ', '0'];
		let n_rand = if thorough { 15000 } else { 1000 };
		for i in 0..n_rand {
			let unit: String = (0..1 + rng.below(6)).map(|_| *rng.pick(&alphabet)).collect();
			let target = if rng.chance(1, 2) { 94 + rng.below(13) } else { 100 + rng.below(170) };
			let mut cs: Vec<char> = vec![];
			let mut b = 0;
			for c in unit.chars().cycle() {
				if b >= target {
					break;
				}
				b += c.len_utf8();
				cs.push(c);
			}
			*bytes_hist.entry(b / 10 * 10).or_default() += 1;
			let a = rep_random(&cs, rng);
			let other = match rng.below(4) {
				0 | 1 => rep_random(&cs, rng),
				2 => {
					// two pieces swapped (same length, same characters)
					let k = 1 + rng.below(cs.len() - 1);
					let mut m = cs[k..].to_vec();
					m.extend_from_slice(&cs[..k]);
					rep_random(&m, rng)
				}
				_ => {
					let ms = mutants_small(&cs, rng);
					rep_random(&ms, rng)
				}
			};
			match i % 8 {
				0 => self.str_containers(&a, &other),
				1 => self.str_keys(&a, &other),
				_ => self.str_ops(rng, &a, &other, 3, 3),
			}
		}
		mark(self, &mut last, "random");
		json!({"cases": counts, "text_bytes": bytes_hist, "representations_per_fixed_text": reps(&cycle("x", 120), rng).len()})
	}
}
/// one random small change
fn mutants_small(cs: &[char], rng: &mut Rng) -> Vec<char> {
	let mut m = cs.to_vec();
	match rng.below(3) {
		0 => {
			let p = rng.below(m.len());
			m[p] = if m[p] == '#' { '$' } else { '#' };
		}
		1 => {
			m.pop();
		}
		_ => m.push('a'),
	}
	m
}

// ---------------------------------------------------------------------------------------------
// (T) objects that are the VALUE of a standalone `super` (jrsonnet extension `local s = super`):
// seen from layer k of an n-layer chain it is the object made of the layers below k, whatever
// layer k and the layers above it declare (the bodies are closed, so `self` does not matter).

fn sup_of(layers: Vec<Vec<Value>>, k: usize, ext: Vec<Vec<Value>>) -> Value {
	if ext.is_empty() {
		json!({"$sup": layers, "k": k})
	} else {
		json!({"$sup": layers, "k": k, "ext": ext})
	}
}
/// the same object written as a plain chain
fn sup_flat(t: &Value) -> Value {
	let k = t["k"].as_u64().expect("k") as usize;
	let mut ls: Vec<Value> = t["$sup"].as_array().expect("$sup")[..k].to_vec();
	if let Some(e) = t.get("ext").and_then(Value::as_array) {
		ls.extend(e.iter().cloned());
	}
	json!({ "$o": ls })
}
fn sup_keys(t: &Value) -> Vec<String> {
	let mut keys: Vec<String> = Vec::new();
	for part in ["$sup", "ext"] {
		if let Some(layers) = t.get(part).and_then(Value::as_array) {
			for l in layers {
				for f in l.as_array().expect("layer") {
					let n = f[0].as_str().expect("name").to_string();
					if !keys.contains(&n) {
						keys.push(n);
					}
				}
			}
		}
	}
	keys.push("zz".to_string());
	keys
}
/// a layer over a small name pool, so that re-declarations across the cut are the rule
fn gen_layer_dense(rng: &mut Rng) -> Vec<Value> {
	let mut out = Vec::new();
	for name in ["a", "b", "c", "é", "p", "q"] {
		if !rng.chance(1, 2) {
			continue;
		}
		let vis = *rng.pick(&["n", "n", "h", "u"]);
		let (plus, v) = match name {
			"p" => (rng.chance(1, 2), if rng.chance(1, 8) { e() } else { json!(rng.range(-2, 3)) }),
			"q" => (
				rng.chance(1, 2),
				if rng.chance(1, 8) { e() } else { Value::Array((0..rng.below(3)).map(|_| gen_val(rng, 0, true)).collect()) },
			),
			_ => (false, gen_val(rng, 1, true)),
		};
		out.push(fld(name, vis, plus, v));
	}
	out
}

impl Gen<'_> {
	/// every listing and per-name function, the value itself, equality with the plain chain
	fn sup_ops(&mut self, t: &Value, keys: &[String], full: bool) {
		self.emit("value", vec![t.clone()], None);
		self.object_ops(t, keys);
		if full {
			self.map_ops(t);
			self.value_ops(t);
			let flat = sup_flat(t);
			self.eq_ops(t, &flat);
			self.eq_ops(&flat, t);
			self.emit("opEq", vec![t.clone(), flat.clone()], None);
			for k in keys {
				self.emit("opIn", vec![json!(k), t.clone()], None);
				self.emit("opIndex", vec![t.clone(), json!(k)], None);
			}
			let patch = o1(&[("a", "n", json!(9)), ("c", "n", Value::Null), ("p", "n", o1(&[("x", "n", json!(1))]))]);
			self.emit("mergePatch", vec![t.clone(), patch.clone()], None);
			self.emit("mergePatch", vec![patch, t.clone()], None);
			self.emit("mergePatch", vec![flat, t.clone()], None);
		}
	}

	fn super_families(&mut self, rng: &mut Rng, thorough: bool) -> Value {
		let start = self.w.n;
		let choices = ["-", "n", "h", "u"];
		let mut terms = 0usize;
		// (T1) one field `a` below the cut / in the layer that takes `super` / above it, every
		// visibility combination; neighbours only below (b visible, c hidden), only in the cut layer
		// (d), only above (e), and `p` with `+:` on all three levels
		for c0 in choices {
			for c1 in choices {
				for c2 in choices {
					let mut layers: Vec<Vec<Value>> = Vec::new();
					for (i, c) in [c0, c1, c2].iter().enumerate() {
						let mut l = Vec::new();
						if *c != "-" {
							l.push(fld("a", c, false, json!(i as i64 + 1)));
						}
						match i {
							0 => {
								l.push(fld("b", "n", false, json!("x")));
								l.push(fld("c", "h", false, e()));
								l.push(fld("p", "n", false, json!(1)));
							}
							1 => {
								l.push(fld("d", "n", false, json!(4)));
								l.push(fld("p", "h", true, json!(10)));
								l.push(fld("b", "h", false, json!("y")));
							}
							_ => {
								l.push(fld("e", "n", false, json!(5)));
								l.push(fld("p", "u", true, json!(100)));
								l.push(fld("c", "u", false, json!(6)));
							}
						}
						layers.push(l);
					}
					let t = sup_of(layers.clone(), 1, vec![]);
					let keys = sup_keys(&t);
					self.sup_ops(&t, &keys, true);
					terms += 1;
					// the same `super` value extended by a further layer
					let ext = vec![fld("a", "n", false, json!(7)), fld("p", "n", true, json!(1000)), fld("b", "u", false, json!("z"))];
					let t = sup_of(layers, 1, vec![ext]);
					self.sup_ops(&t, &keys, false);
					terms += 1;
				}
			}
		}
		// (T1') two layers below the cut: every history (below, below, cut, above) of `a`, cut at 2
		// and cut at 1 of the same chain
		for c0 in choices {
			for c1 in choices {
				for c2 in choices {
					for c3 in choices {
						let mut layers: Vec<Vec<Value>> = Vec::new();
						for (i, c) in [c0, c1, c2, c3].iter().enumerate() {
							let mut l = Vec::new();
							if *c != "-" {
								l.push(fld("a", c, false, json!(i as i64 + 1)));
							}
							if i == 0 {
								l.push(fld("b", "n", false, json!("x")));
							}
							layers.push(l);
						}
						let keys: Vec<String> = ["a", "b", "zz"].iter().map(|s| (*s).to_string()).collect();
						for k in [2usize, 1, 3] {
							if k == 2 || thorough || rng.chance(1, 4) {
								let t = sup_of(layers.clone(), k, vec![]);
								self.sup_ops(&t, &keys, false);
								terms += 1;
							}
						}
					}
				}
			}
		}
		// (T2) seeded chains of 2..5 layers over a dense name pool, cut anywhere, sometimes extended
		let mut cut_hist: BTreeMap<String, usize> = BTreeMap::new();
		let n_rand = if thorough { 4000 } else { 400 };
		for i in 0..n_rand {
			let n = 2 + rng.below(4);
			let mut layers: Vec<Vec<Value>> = (0..n).map(|_| gen_layer_dense(rng)).collect();
			let k = 1 + rng.below(n - 1);
			// `{} + {local s = super}`: a chain whose layers below the cut are all empty has no `super`
			// at all in jrsonnet ("no super found"); excluded — some layer below declares a field
			if layers[..k].iter().all(Vec::is_empty) {
				layers[0].push(fld("c", "h", false, json!(0)));
			}
			let ext: Vec<Vec<Value>> = if rng.chance(1, 4) { (0..1 + rng.below(2)).map(|_| gen_layer_dense(rng)).collect() } else { vec![] };
			*cut_hist.entry(format!("{k}/{n}+{}", ext.len())).or_default() += 1;
			let t = sup_of(layers, k, ext);
			let keys = sup_keys(&t);
			self.sup_ops(&t, &keys, i % 2 == 0);
			terms += 1;
		}
		json!({"cases": self.w.n - start, "terms": terms, "random_cut/layers+ext": cut_hist})
	}
}

fn keys_for(o: &Value, rng: &mut Rng, all: bool) -> Vec<String> {
	let mut keys: Vec<String> = Vec::new();
	if let Some(layers) = o.get("$o").and_then(Value::as_array) {
		for l in layers {
			for f in l.as_array().expect("layer") {
				let n = f[0].as_str().expect("name").to_string();
				if !keys.contains(&n) {
					keys.push(n);
				}
			}
		}
	}
	if !all && keys.len() > 2 {
		let i = rng.below(keys.len());
		let j = rng.below(keys.len());
		keys = vec![keys[i].clone(), keys[j].clone()];
		keys.dedup();
	}
	keys.push((*rng.pick(&ABSENT)).to_string());
	keys
}

/// the fixed list of values used for the exhaustive pair/unary families
fn value_list() -> Vec<Value> {
	vec![
		Value::Null,
		json!(true),
		json!(false),
		json!(0),
		json!(1),
		json!(-1),
		json!(""),
		json!("a"),
		json!("é"),
		json!("aé😀b"),
		json!("1"),
		json!([]),
		json!([1]),
		json!([1, 2]),
		json!([2, 1]),
		json!([null]),
		json!([[]]),
		json!([1, "a"]),
		json!([e()]),
		json!([1, e()]),
		json!([2, e()]),
		json!([func(1)]),
		json!([[], empty(), null]),
		func(0),
		func(1),
		func(2),
		empty(),
		o1(&[("a", "n", json!(1))]),
		o1(&[("a", "n", json!(2))]),
		o1(&[("a", "h", json!(1))]),
		o1(&[("a", "u", json!(1))]),
		o1(&[("b", "n", json!(1))]),
		o1(&[("a", "n", json!(1)), ("b", "h", json!(2))]),
		o1(&[("a", "n", json!(1)), ("b", "h", e())]),
		o1(&[("b", "n", json!(2)), ("a", "n", json!(1))]),
		o1(&[("a", "n", json!(1)), ("b", "n", json!(2))]),
		o1(&[("a", "n", json!(1)), ("b", "n", json!(3))]),
		o1(&[("a", "n", e())]),
		o1(&[("a", "n", json!(2)), ("b", "n", e())]),
		o1(&[("a", "n", Value::Null)]),
		o1(&[("a", "n", json!([]))]),
		o1(&[("a", "n", empty())]),
		o1(&[("a", "n", o1(&[("b", "h", json!(1))]))]),
		o1(&[("a", "n", o1(&[("b", "n", Value::Null)]))]),
		o1(&[("a", "n", o1(&[("b", "n", json!(1))]))]),
		o1(&[("a", "n", json!([null, [], empty()])), ("c", "n", json!([0, [null], "x"]))]),
		o1(&[("a", "n", func(1))]),
		chain(vec![vec![fld("a", "n", false, json!(1))], vec![fld("a", "h", false, json!(1))]]),
		chain(vec![vec![fld("a", "h", false, json!(1))], vec![fld("a", "n", false, json!(1))]]),
		chain(vec![vec![fld("a", "h", false, json!(5))], vec![fld("a", "u", false, json!(1))]]),
		chain(vec![vec![fld("p", "n", false, json!(1))], vec![fld("p", "n", true, json!(1))]]),
		chain(vec![vec![fld("p", "h", false, json!(1))], vec![fld("p", "n", true, json!(1))]]),
		chain(vec![vec![fld("q", "n", false, json!([1]))], vec![fld("q", "u", true, json!([e()]))]]),
		o1(&[("B", "n", json!(1)), ("a", "n", json!(2)), ("", "n", json!(3)), ("ab", "n", json!(4)), ("é", "n", json!(5))]),
		o1(&[("😀", "n", json!(1)), ("ￜ", "n", json!(2)), ("z", "h", json!(3)), ("é", "u", json!(4))]),
	]
}

fn merge_targets() -> Vec<Value> {
	let ob1 = o1(&[("b", "n", json!(1))]);
	vec![
		Value::Null,
		json!(3),
		json!("s"),
		json!([1]),
		func(1),
		empty(),
		o1(&[("a", "n", json!(1))]),
		o1(&[("a", "h", json!(1))]),
		o1(&[("a", "u", json!(1))]),
		o1(&[("a", "n", ob1.clone())]),
		o1(&[("a", "h", ob1.clone())]),
		o1(&[("a", "n", json!(1)), ("b", "n", json!(2))]),
		o1(&[("a", "n", json!(1)), ("b", "h", json!(2))]),
		o1(&[("a", "n", e()), ("b", "n", json!(1))]),
		o1(&[("a", "h", e()), ("b", "n", json!(1))]),
		o1(&[("a", "n", o1(&[("b", "n", json!(1)), ("c", "h", json!(2))]))]),
		o1(&[("a", "n", o1(&[("b", "n", e()), ("c", "n", json!(2))]))]),
		o1(&[("a", "n", Value::Null)]),
		o1(&[("a", "n", json!([1, e()]))]),
		chain(vec![vec![fld("a", "n", false, json!(1))], vec![fld("a", "h", false, json!(2))]]),
		chain(vec![vec![fld("a", "h", false, json!(1))], vec![fld("a", "u", false, json!(2))]]),
		chain(vec![vec![fld("a", "h", false, ob1.clone())], vec![fld("a", "n", false, ob1)]]),
		o1(&[("z", "n", json!(1)), ("B", "n", json!(2)), ("", "n", json!(3))]),
	]
}

fn merge_patches() -> Vec<Value> {
	let c3 = o1(&[("c", "n", json!(3))]);
	vec![
		Value::Null,
		json!(3),
		json!("s"),
		json!([1]),
		json!([null, e()]),
		func(1),
		empty(),
		o1(&[("a", "n", json!(2))]),
		o1(&[("a", "h", json!(2))]),
		o1(&[("a", "u", json!(2))]),
		o1(&[("a", "n", Value::Null)]),
		o1(&[("a", "h", Value::Null)]),
		o1(&[("a", "n", c3.clone())]),
		o1(&[("a", "h", c3.clone())]),
		o1(&[("a", "n", o1(&[("b", "n", Value::Null)]))]),
		o1(&[("a", "n", o1(&[("b", "h", Value::Null)]))]),
		o1(&[("a", "n", o1(&[("b", "n", Value::Null), ("c", "n", Value::Null)]))]),
		o1(&[("a", "n", o1(&[("b", "n", o1(&[("c", "n", Value::Null)]))]))]),
		o1(&[("b", "n", Value::Null)]),
		o1(&[("b", "h", Value::Null)]),
		o1(&[("z", "n", Value::Null)]),
		o1(&[("a", "n", e())]),
		o1(&[("a", "h", e())]),
		o1(&[("a", "n", o1(&[("b", "n", e())]))]),
		o1(&[("a", "n", json!([null]))]),
		o1(&[("a", "n", empty())]),
		o1(&[("a", "n", func(0))]),
		o1(&[("c", "n", json!(9)), ("A", "n", json!(8)), ("a", "n", Value::Null)]),
		chain(vec![vec![fld("a", "n", false, json!(5))], vec![fld("a", "h", false, json!(6))]]),
		chain(vec![vec![fld("a", "h", false, Value::Null)], vec![fld("a", "u", false, Value::Null)]]),
		chain(vec![vec![fld("a", "h", false, c3)], vec![fld("b", "n", false, Value::Null)]]),
	]
}

pub fn run(opts: &Opts) {
	let s = new_state();
	let _g = s.enter();
	if let Some(path) = &opts.replay {
		let text = std::fs::read_to_string(path).expect("replay file");
		let v: Value = serde_json::from_str(&text).expect("replay json");
		let op = v.get("op").cloned().unwrap_or(v);
		let mut w = CaseWriter::new(&opts.out);
		let ans = run_case(&s, &op);
		println!("source: {}", source(&op));
		println!("implementation: {ans}");
		w.case(op, ans);
		w.finish(json!({"engine":"c13","cases":1,"rule":"replay"}), &opts.out);
		return;
	}
	let thorough = opts.thorough();
	let mut rng = Rng::new(opts.seed);
	let mut g = Gen {
		s: &s,
		w: CaseWriter::new(&opts.out),
		hist: BTreeMap::new(),
		outcome: BTreeMap::new(),
		layer_hist: BTreeMap::new(),
		with_hidden: 0,
		with_err_leaf: 0,
	};

	// ---- (A) every visibility history of one field over up to three layers ---------------------
	// layer choice: absent | `:` | `::` | `:::`  (+ a constant visible neighbour "b", hidden "c")
	let choices = ["-", "n", "h", "u"];
	for c0 in choices {
		for c1 in choices {
			for c2 in choices {
				let mut layers: Vec<Vec<Value>> = Vec::new();
				for (i, c) in [c0, c1, c2].iter().enumerate() {
					let mut l = Vec::new();
					if *c != "-" {
						l.push(fld("a", c, false, json!(i as i64 + 1)));
					}
					if i == 0 {
						l.push(fld("b", "n", false, json!("x")));
						l.push(fld("c", "h", false, e()));
					}
					layers.push(l);
				}
				let o = chain(layers);
				let keys: Vec<String> = ["a", "b", "c", "zz"].iter().map(|s| (*s).to_string()).collect();
				g.object_ops(&o, &keys);
				g.map_ops(&o);
				g.emit("mergePatch", vec![o.clone(), o1(&[("a", "n", json!(9)), ("c", "n", Value::Null)])], None);
				g.emit("mergePatch", vec![o1(&[("a", "n", json!(9)), ("c", "n", json!(1))]), o.clone()], None);
				g.emit("equals", vec![o.clone(), o1(&[("a", "n", json!(3)), ("b", "n", json!("x"))])], None);
			}
		}
	}

	// ---- (B) mergePatch: all pairs of the fixed targets and patches ---------------------------
	let targets = merge_targets();
	let patches = merge_patches();
	for t in &targets {
		for p in &patches {
			g.emit("mergePatch", vec![t.clone(), p.clone()], None);
		}
	}

	// ---- (C,D,E) fixed value list: unary functions, all equality pairs -------------------------
	let vals = value_list();
	for v in &vals {
		g.value_ops(v);
		if v.get("$o").is_some() {
			let keys = keys_for(v, &mut rng, true);
			g.object_ops(v, &keys);
			g.map_ops(v);
		}
	}
	for a in &vals {
		for b in &vals {
			g.eq_ops(a, b);
		}
	}

	// ---- (F) xor / xnor ---------------------------------------------------------------------
	let boolish = [json!(true), json!(false), Value::Null, json!(1), json!("a")];
	for x in &boolish {
		for y in &boolish {
			g.emit("xor", vec![x.clone(), y.clone()], None);
			g.emit("xnor", vec![x.clone(), y.clone()], None);
		}
	}

	// ---- (H) malformed: wrong argument types ------------------------------------------------
	let wrong = [Value::Null, json!(1), json!("a"), json!([1]), func(1), json!(true)];
	let sample = o1(&[("a", "n", json!(1)), ("b", "h", json!(2))]);
	for w in &wrong {
		for f in [
			"objectFields",
			"objectFieldsAll",
			"objectValues",
			"objectValuesAll",
			"objectKeysValues",
			"objectKeysValuesAll",
		] {
			g.emit(f, vec![w.clone()], None);
		}
		g.emit("objectFieldsEx", vec![w.clone(), json!(true)], None);
		g.emit("objectFieldsEx", vec![sample.clone(), w.clone()], None);
		g.emit("objectHas", vec![w.clone(), json!("a")], None);
		g.emit("objectHasAll", vec![w.clone(), json!("a")], None);
		g.emit("objectHasEx", vec![w.clone(), json!("a"), json!(true)], None);
		g.emit("objectHasEx", vec![sample.clone(), json!("a"), w.clone()], None);
		g.emit("get", vec![w.clone(), json!("a")], None);
		g.emit("get", vec![sample.clone(), json!("a"), json!(1), w.clone()], None);
		g.emit("objectRemoveKey", vec![w.clone(), json!("a")], None);
		g.emit("mapWithKey", vec![w.clone()], Some("key"));
		if !w.is_string() {
			g.emit("objectHas", vec![sample.clone(), w.clone()], None);
			g.emit("objectHasAll", vec![sample.clone(), w.clone()], None);
			g.emit("get", vec![sample.clone(), w.clone()], None);
			g.emit("objectRemoveKey", vec![sample.clone(), w.clone()], None);
		}
	}

	// ---- (G) seeded random ----------------------------------------------------------------------
	let n_obj = if thorough { 6000 } else { 700 };
	for i in 0..n_obj {
		let o = gen_obj(&mut rng, 2);
		let keys = keys_for(&o, &mut rng, i % 8 == 0);
		g.object_ops(&o, &keys);
		if i % 2 == 0 {
			g.map_ops(&o);
		}
	}
	let n_merge = if thorough { 40000 } else { 5000 };
	for i in 0..n_merge {
		let t = if i % 10 == 0 { gen_val(&mut rng, 2, false) } else { gen_obj(&mut rng, 2) };
		let p = if i % 7 == 0 { gen_val(&mut rng, 2, false) } else { gen_patch(&mut rng, &t, 2) };
		g.emit("mergePatch", vec![t, p], None);
	}
	let n_val = if thorough { 20000 } else { 2500 };
	for i in 0..n_val {
		let a = gen_val(&mut rng, 3, false);
		g.emit("prune", vec![a.clone()], None);
		if i % 4 == 0 {
			g.value_ops(&a);
		}
		// equality against: itself, an independent value, itself with extra hidden fields
		g.eq_ops(&a, &a);
		let b = gen_val(&mut rng, 3, false);
		g.eq_ops(&a, &b);
		if let Some(layers) = a.get("$o").and_then(Value::as_array) {
			let mut ls: Vec<Vec<Value>> =
				layers.iter().map(|l| l.as_array().unwrap().clone()).collect();
			ls.insert(0, vec![fld("hid", "h", false, e())]);
			let a2 = chain(ls);
			g.eq_ops(&a, &a2);
			g.eq_ops(&a2, &a);
		}
	}

	// ---- (S) strings in every internal representation ------------------------------------------
	let strings_meta = g.string_families(&mut rng, thorough);

	// ---- (T) values of a standalone `super` ---------------------------------------------------
	let super_meta = g.super_families(&mut rng, thorough);

	let cases = g.w.n;
	let meta = json!({
		"engine": "c13",
		"cases": cases,
		"rule": "every visibility history (absent/:/::/:::)^3 of one field x all object functions x keys {visible,hidden,absent}; all pairs of 23 fixed targets x 31 fixed patches for mergePatch; all pairs of 55 fixed values for equals/primitiveEquals/assertEqual; xor/xnor over {true,false,null,1,'a'}^2; wrong-typed arguments; seeded random inheritance chains (<=3 layers, <=4 fields, nested depth 2, `+:` on number/array fields, failing thunks in lazy positions) with patches derived from the target; STRINGS: 16 fixed texts of 98..250 bytes (ASCII, 2/3/4-byte characters) each as ~40 representations (flat literal; `+` ropes cut at 1, middle-10, middle, middle+10, end-1, random; 3- and 4-piece ropes left-deep / right-deep / balanced; empty pieces; std.format / `%` / std.join / std.repeat / std.char / std.toString / std.substr / slice / identity call / local / field / element producers) compared pairwise through equals, ==, !=, <, <=, >, >=, primitiveEquals, assertEqual; against 9 near texts (one char changed at start / middle / end, one char fewer or more, rotated); inside arrays and object fields; as computed field names probed through objectHas/objectHasAll/in/index/get/objectFields/objectRemoveKey/mapWithKey/equals; std.setMember and std.member over sets of near texts; type functions; seeded random texts over {a,b,x,é,😀,日,space,0}, cuts, shapes, producers and operators; STANDALONE SUPER: the value of `super` (`local s = super`) taken inside layer k of a chain must be the object of the layers below k: every visibility combination (absent/:/::/:::) of one field below the cut x in the cut layer x above it (and with two layers below), neighbours only below / only in the cut layer / only above, `+:` on all levels, the value extended by a further layer, seeded chains of 2..5 layers over a 6-name pool cut anywhere; all listing functions, all per-name functions, the value itself through ObjValue, mapWithKey, prune, mergePatch, equality with the plain chain, in / index",
		"functions": g.hist,
		"outcomes": g.outcome,
		"object_args_by_layer_count": g.layer_hist,
		"cases_with_hidden_fields": g.with_hidden,
		"cases_with_failing_thunks": g.with_err_leaf,
		"strings": strings_meta,
		"standalone_super": super_meta,
		"seed": opts.seed,
	});
	g.w.finish(meta, &opts.out);
}
