//! C15 — command line, Rust API, C API and dependency lister agree.
//!
//! Sub-engines (selected by the engine name):
//! * `c15`      option plumbing: the REAL clap structs of `jrsonnet-cli` (`StdOpts`, `TlaOpts`,
//!              `MiscOpts`, `ManifestOpts`) parse generated command lines in-process; the resulting
//!              ext-var table, TLA map, resolver search order (probed through `resolve_from`),
//!              manifest format (identified by behaviour against directly constructed formats) and
//!              stack limit (probed through `check_depth`) are written next to `cli.plumb`.
//! * `c15run`   the `jrsonnet` executable vs the library API driven directly (no `jrsonnet-cli`)
//!              for generated programs x option combinations; the executable's stdout / exit /
//!              stderr / written files are written next to `cli.render`, whose input is the
//!              library's outcome.
//! * `c15capi`  `libjsonnet.so` driven by `c15_capi.c` (compiled with gcc against
//!              bindings/c/libjsonnet.h) vs the library API; the raw bytes a C consumer reads are
//!              written next to `capi.frame`.
//! * `c15deps`  `jrsonnet-deps` on generated import graphs vs `deps.run` (DFS model + closure
//!              spec); the files an in-process evaluation loads are recorded and must be listed.
use std::{
	cell::RefCell,
	collections::{BTreeMap, HashMap},
	fs,
	path::{Path, PathBuf},
	process::Command,
};

use clap::Parser;
use jrsonnet_cli::{ManifestOpts, MiscOpts, StdOpts, TlaOpts};
use jrsonnet_evaluator::{
	apply_tla,
	error::{Error, ErrorKind},
	function::builtin::{NativeCallback, NativeCallbackHandler},
	manifest::{JsonFormat, ManifestFormat, StringFormat, ToStringFormat, YamlStreamFormat},
	rustc_hash::FxHashMap,
	stack::{check_depth, limit_stack_depth},
	tla::TlaArg,
	trace::PathResolver,
	val::ArrValue,
	AsPathLike, FileImportResolver, IStr, ImportResolver, ObjValue, Result as JrResult, State, Thunk, Val,
};
use jrsonnet_gcmodule::{Acyclic, Trace};
use jrsonnet_ir::{SourceDirectory, SourcePath};
use jrsonnet_stdlib::{ContextInitializer, IniFormat, TomlFormat, XmlJsonmlFormat, YamlFormat};
use serde_json::{json, Value};

use crate::common::{guarded, CaseWriter, Opts, Rng};

const FLAVOURS: [&str; 4] = ["str", "str-file", "code", "code-file"];

#[derive(Clone, Debug)]
struct VarOpt {
	fl: &'static str,
	name: String,
	payload: String,
	/// given as `--ext-str NAME` (value from the environment variable NAME)
	from_env: bool,
}
impl VarOpt {
	fn json(&self) -> Value {
		json!({"f": self.fl, "n": self.name, "p": self.payload})
	}
	fn args(&self, prefix: &str) -> Vec<String> {
		vec![
			format!("--{prefix}-{}", self.fl),
			if self.from_env { self.name.clone() } else { format!("{}={}", self.name, self.payload) },
		]
	}
}

#[derive(Clone, Debug, Default)]
struct Fmt {
	f: Option<&'static str>,
	s: bool,
	y: bool,
	pad: Option<usize>,
}
impl Fmt {
	fn json(&self) -> Value {
		json!({"f": self.f, "S": self.s, "y": self.y, "pad": self.pad})
	}
	fn args(&self) -> Vec<String> {
		let mut a = vec![];
		if let Some(f) = self.f {
			a.push("-f".to_owned());
			a.push(f.to_owned());
		}
		if self.s {
			a.push("-S".to_owned());
		}
		if self.y {
			a.push("-y".to_owned());
		}
		if let Some(p) = self.pad {
			a.push("--line-padding".to_owned());
			a.push(p.to_string());
		}
		a
	}
	fn accepted(&self) -> bool {
		!(self.s && self.f.is_some()) && !(self.y && self.s)
	}
}

fn gen_fmt(rng: &mut Rng) -> Fmt {
	const NAMES: [&str; 6] = ["string", "json", "yaml", "toml", "xml-jsonml", "ini"];
	Fmt {
		f: if rng.chance(1, 2) { Some(*rng.pick(&NAMES)) } else { None },
		s: rng.chance(1, 5),
		y: rng.chance(1, 4),
		pad: if rng.chance(1, 3) { Some(*rng.pick(&[0usize, 1, 2, 3, 4, 7])) } else { None },
	}
}

/// the format a descriptor names, constructed directly (reference side; no jrsonnet-cli)
fn format_of(desc: &str) -> Box<dyn ManifestFormat> {
	if let Some(inner) = desc.strip_prefix("stream(").and_then(|d| d.strip_suffix(')')) {
		return Box::new(YamlStreamFormat::cli(format_of(inner)));
	}
	let (name, pad) = match desc.split_once(':') {
		Some((n, p)) => (n, p.parse::<usize>().expect("pad")),
		None => (desc, 0),
	};
	match name {
		"string" => Box::new(StringFormat),
		"tostring" => Box::new(ToStringFormat),
		"json" => Box::new(JsonFormat::cli(pad)),
		"yaml" => Box::new(YamlFormat::cli(pad)),
		"toml" => Box::new(TomlFormat::cli(pad)),
		"xml" => Box::new(XmlJsonmlFormat::cli()),
		"ini" => Box::new(IniFormat::cli()),
		_ => panic!("descriptor {desc}"),
	}
}

/// reference reading of the output-mode flags (what each flag is documented to select)
fn ref_format_desc(f: &Fmt) -> String {
	let base = if f.s {
		"string".to_owned()
	} else {
		match f.f.unwrap_or(if f.y { "yaml" } else { "json" }) {
			"string" => "tostring".to_owned(),
			"json" => format!("json:{}", f.pad.unwrap_or(3)),
			"yaml" => format!("yaml:{}", f.pad.unwrap_or(2)),
			"toml" => format!("toml:{}", f.pad.unwrap_or(2)),
			"xml-jsonml" => "xml".to_owned(),
			"ini" => "ini".to_owned(),
			o => panic!("format {o}"),
		}
	};
	if f.y {
		format!("stream({base})")
	} else {
		base
	}
}

fn candidates() -> Vec<String> {
	let mut base = vec!["string".to_owned(), "tostring".to_owned(), "xml".to_owned(), "ini".to_owned()];
	for k in ["json", "yaml", "toml"] {
		for p in 0..=8 {
			base.push(format!("{k}:{p}"));
		}
	}
	let mut all = base.clone();
	all.extend(base.iter().map(|b| format!("stream({b})")));
	all
}

const PROBES: [&str; 10] = [
	r#"[{t: {u: [{v: [1, 2]}, {v: {w: [[1], [2]]}}]}, z: [[1, 2], [3]]}]"#,
	r#"["s1", "s2"]"#,
	r#"[["a", {x: "1"}, "t"], ["b"]]"#,
	r#"{a: [1, {b: "x", c: [2, [3]]}], d: {e: null, f: {g: true}}}"#,
	r#""str""#,
	r#"[{a: {b: [1, {c: 2}]}}, [2, [3]], "s"]"#,
	r#"{main: {a: "1"}, sections: {s: {k: "v"}}}"#,
	r#"["a", {x: "1"}, "t", ["b", "u"]]"#,
	r#"{t: {u: [{v: [1, 2]}, {v: {w: [[1], [2]]}}]}, z: [[1, 2], [3]]}"#,
	r#"[[{a: [{b: 1}]}]]"#,
];

fn signature(s: &State, f: &dyn ManifestFormat) -> Vec<String> {
	let mut out = vec![format!("nl={}", f.file_trailing_newline())];
	for p in PROBES {
		let r = guarded(|| -> JrResult<String> {
			let v = s.evaluate_snippet("<probe>".to_owned(), p.to_owned())?;
			f.manifest(v)
		});
		out.push(match r {
			Ok(Ok(t)) => format!("ok:{t}"),
			Ok(Err(_)) => "err".to_owned(),
			Err(_) => "panic".to_owned(),
		});
	}
	out
}

fn plain_state() -> State {
	let mut s = State::builder();
	s.context_initializer(ContextInitializer::new(PathResolver::new_cwd_fallback()));
	s.build()
}

fn argv(args: &[String]) -> Vec<String> {
	let mut v = vec!["prog".to_owned()];
	v.extend(args.iter().cloned());
	v
}

fn show_arg(a: Option<&TlaArg>, name: &str) -> Value {
	match a {
		None => json!([name, "unset", ""]),
		Some(TlaArg::String(s)) => json!([name, "String", s.to_string()]),
		Some(TlaArg::ImportStr(p)) => json!([name, "ImportStr", p]),
		Some(TlaArg::InlineCode(p)) => json!([name, "InlineCode", p]),
		Some(TlaArg::Import(p)) => json!([name, "Import", p]),
		Some(_) => json!([name, "other", ""]),
	}
}

fn gen_name(rng: &mut Rng) -> String {
	(*rng.pick(&["a", "b", "c", "VAR_X", "n", "p1", "p2", "long_name_1"])).to_owned()
}
fn gen_payload(rng: &mut Rng) -> String {
	(*rng.pick(&[
		"", "v", "1", "a=b", "=", "{x: 1}", "/tmp/f.txt", "rel/p.jsonnet", "é ü", "x y", "name", "a", "\"q\"", "1 + 2",
	]))
	.to_owned()
}

fn gen_vars(rng: &mut Rng, max: usize, allow_env: bool) -> Vec<VarOpt> {
	let n = rng.below(max + 1);
	(0..n)
		.map(|_| {
			let fl = *rng.pick(&FLAVOURS);
			let from_env = allow_env && (fl == "str" || fl == "code") && rng.chance(1, 8);
			let name = gen_name(rng);
			// one environment variable per name: its value cannot differ between two options
			let payload = if from_env { format!("from env {name}=1") } else { gen_payload(rng) };
			VarOpt { fl, name, payload, from_env }
		})
		.collect()
}

fn set_envs(vars: &[VarOpt]) {
	for v in vars {
		if v.from_env {
			std::env::set_var(&v.name, &v.payload);
		}
	}
}
fn clear_envs(vars: &[VarOpt]) {
	for v in vars {
		if v.from_env {
			std::env::remove_var(&v.name);
		}
	}
}

/// order in which a resolver searches the probe directories
fn probe_order(r: &dyn ImportResolver, root: &Path, ndirs: usize) -> Vec<String> {
	let from = SourcePath::new(SourceDirectory::new(root.join("empty")));
	let mut order = vec![];
	let mut removed = vec![];
	for _ in 0..=ndirs {
		match r.resolve_from(&from, &"probe") {
			Ok(p) => {
				let path = PathBuf::from(format!("{p}"));
				let dir = path.parent().and_then(|d| d.file_name()).map(|d| d.to_string_lossy().to_string());
				order.push(dir.unwrap_or_default());
				fs::remove_file(&path).expect("rm probe");
				removed.push(path);
			}
			Err(_) => break,
		}
	}
	for p in removed {
		fs::write(p, "x").expect("restore probe");
	}
	order
}

fn stack_limit_now() -> usize {
	let mut guards = Vec::new();
	while let Ok(g) = check_depth() {
		guards.push(g);
		if guards.len() > 2_000_000 {
			break;
		}
	}
	guards.len()
}

fn run_plumb(opts: &Opts) {
	let mut w = CaseWriter::new(&opts.out);
	let mut rng = Rng::new(opts.seed ^ 0x15);
	let root = opts.out.join("fs");
	let _ = fs::remove_dir_all(&root);
	const NDIRS: usize = 5;
	fs::create_dir_all(root.join("empty")).expect("mkdir");
	for i in 0..NDIRS {
		fs::create_dir_all(root.join(format!("d{i}"))).expect("mkdir");
		fs::write(root.join(format!("d{i}/probe")), "x").expect("probe");
	}
	let st = plain_state();
	// candidate formats, by behaviour
	let cands = candidates();
	let mut by_sig: HashMap<Vec<String>, String> = HashMap::new();
	for c in &cands {
		let sig = signature(&st, &*format_of(c));
		if let Some(prev) = by_sig.insert(sig, c.clone()) {
			panic!("format probes cannot tell {prev} from {c}");
		}
	}
	let mut hist = BTreeMap::<String, usize>::new();
	let n = if opts.thorough() { 20000 } else { 2500 };
	for i in 0..n {
		let ext = gen_vars(&mut rng, if i % 7 == 0 { 8 } else { 4 }, true);
		let tla = gen_vars(&mut rng, if i % 5 == 0 { 8 } else { 3 }, true);
		let njp = rng.below(4);
		let jpath: Vec<usize> = (0..njp).map(|_| rng.below(NDIRS)).collect();
		let env: Option<Vec<usize>> = if rng.chance(1, 3) { Some((0..rng.below(3)).map(|_| rng.below(NDIRS)).collect()) } else { None };
		let fmt = gen_fmt(&mut rng);
		let stack: Option<usize> = if rng.chance(1, 2) { Some(*rng.pick(&[0usize, 1, 2, 5, 199, 200, 201, 512, 1000, 65536])) } else { None };
		let mut names: Vec<String> = ext.iter().chain(tla.iter()).map(|v| v.name.clone()).collect();
		names.push("absent".to_owned());
		names.sort();
		names.dedup();

		// ---- the real option structs ----
		set_envs(&ext);
		let ext_args: Vec<String> = ext.iter().flat_map(|v| v.args("ext")).collect();
		let ext_ans = match StdOpts::try_parse_from(argv(&ext_args)) {
			Ok(o) => match o.context_initializer() {
				Ok(Some(ctx)) => {
					let s = ctx.settings();
					Value::Array(names.iter().map(|n| show_arg(s.ext_vars.get(&IStr::from(n.as_str())), n)).collect())
				}
				_ => json!("no-initializer"),
			},
			Err(_) => json!("reject"),
		};
		clear_envs(&ext);
		set_envs(&tla);
		let tla_args: Vec<String> = tla.iter().flat_map(|v| v.args("tla")).collect();
		let tla_ans = match TlaOpts::try_parse_from(argv(&tla_args)) {
			Ok(o) => match o.tla_opts() {
				Ok(m) => Value::Array(names.iter().map(|n| show_arg(m.get(&IStr::from(n.as_str())), n)).collect()),
				Err(_) => json!("error"),
			},
			Err(_) => json!("reject"),
		};
		clear_envs(&tla);

		let dirname = |i: &usize| format!("d{i}");
		let mut misc_args = vec![];
		for j in &jpath {
			misc_args.push("-J".to_owned());
			misc_args.push(root.join(dirname(j)).to_string_lossy().to_string());
		}
		if let Some(s) = stack {
			misc_args.push(if rng.chance(1, 2) { "-s".to_owned() } else { "--max-stack".to_owned() });
			misc_args.push(s.to_string());
		}
		match &env {
			Some(e) => std::env::set_var(
				"JSONNET_PATH",
				std::env::join_paths(e.iter().map(|i| root.join(dirname(i)))).expect("join"),
			),
			None => std::env::remove_var("JSONNET_PATH"),
		}
		let (paths_ans, stack_ans) = match MiscOpts::try_parse_from(argv(&misc_args)) {
			Ok(m) => {
				let r = m.import_resolver();
				let order = probe_order(&r, &root, NDIRS);
				let before = stack_limit_now();
				let lim = {
					let _g = m.stack_size_override();
					stack_limit_now()
				};
				assert_eq!(before, stack_limit_now(), "stack override guard restores the limit");
				(json!(order), json!(lim))
			}
			Err(_) => (json!("reject"), json!("reject")),
		};
		std::env::remove_var("JSONNET_PATH");
		// C API flavour of the same -J list: FileImportResolver::add_jpath once per path
		let capi_paths = {
			let mut r = FileImportResolver::default();
			for j in &jpath {
				r.add_jpath(root.join(dirname(j)));
			}
			probe_order(&r, &root, NDIRS)
		};
		let fmt_ans = match ManifestOpts::try_parse_from(argv(&fmt.args())) {
			Ok(m) => {
				let f = m.manifest_format();
				match by_sig.get(&signature(&st, &*f)) {
					Some(d) => json!(d),
					None => json!("unknown-format"),
				}
			}
			Err(_) => json!("reject"),
		};
		*hist.entry(format!("ext{}", ext.len().min(5))).or_default() += 1;
		*hist.entry(format!("tla{}", tla.len().min(5))).or_default() += 1;
		*hist.entry(format!("jpath{njp}")).or_default() += 1;
		*hist.entry(format!("fmt.{}", if fmt.accepted() { ref_format_desc(&fmt) } else { "reject".into() })).or_default() += 1;
		if ext.iter().chain(tla.iter()).any(|v| v.from_env) {
			*hist.entry("from-env".into()).or_default() += 1;
		}
		let size = ext.len() + tla.len() + jpath.len() + 1;
		w.case(
			json!({"op":"cli.plumb",
				"ext": ext.iter().map(VarOpt::json).collect::<Vec<_>>(),
				"tla": tla.iter().map(VarOpt::json).collect::<Vec<_>>(),
				"names": names,
				"jpath": jpath.iter().map(dirname).collect::<Vec<_>>(),
				"env": env.clone().unwrap_or_default().iter().map(dirname).collect::<Vec<_>>(),
				"fmt": fmt.json(), "stack": stack, "size": size,
				"_args": [ext_args, tla_args, fmt.args()]}),
			json!({"ext": ext_ans, "tla": tla_ans, "paths": paths_ans, "capi_paths": capi_paths,
				"fmt": fmt_ans, "stack": stack_ans}),
		);
	}
	w.finish(
		json!({"engine":"c15","cases":n,"hist":hist,
			"rule":"random option lists (0-8 ext, 0-8 tla, all four flavours, repeated names, value from environment, `=` inside values), 0-3 -J out of 5 dirs with repeats, JSONNET_PATH unset/0-2 entries, every -f/-S/-y/--line-padding combination incl. conflicting ones, boundary --max-stack values; parsed by the real clap structs"}),
		&opts.out,
	);
}

// ------------------------------------------------------------------------------------------------
// programs + configurations shared by the executable and the C API runs

#[derive(Clone, Debug)]
struct Scenario {
	ext: Vec<VarOpt>,
	tla: Vec<VarOpt>,
	jpath: Vec<String>,
	env: Option<Vec<String>>,
	stack: Option<usize>,
	code: String,
	as_file: bool,
	natives: bool,
}

fn write_tree(dir: &Path) {
	let _ = fs::remove_dir_all(dir);
	for (p, c) in [
		("libA/shared.libsonnet", "{ from: 'libA' }"),
		("libB/shared.libsonnet", "{ from: 'libB' }"),
		("libC/shared.libsonnet", "{ from: 'libC', nested: import 'onlyA.libsonnet' }"),
		("libA/onlyA.libsonnet", "{ only: 'A', data: importstr 'data.txt' }"),
		("libA/data.txt", "data from libA\n"),
		("data.txt", "data next to main\n"),
		("str.txt", "text \"with\" quotes\nand é\n"),
		("code.jsonnet", "{ k: 1 + 2, s: importstr 'data.txt' }"),
		("fn.jsonnet", "function(x=1) { x: x }"),
		("inc/nested.libsonnet", "{ up: importstr '../data.txt', lib: import 'shared.libsonnet' }"),
		("bad.jsonnet", "{ a: "),
		("out/.keep", ""),
	] {
		let f = dir.join(p);
		fs::create_dir_all(f.parent().expect("parent")).expect("mkdir");
		fs::write(f, c).expect("write");
	}
}

/// mostly a working payload, sometimes a failing one
fn pick_w(rng: &mut Rng, good: &[&'static str], bad: &[&'static str]) -> String {
	if rng.chance(1, 12) {
		(*rng.pick(bad)).to_owned()
	} else {
		(*rng.pick(good)).to_owned()
	}
}

fn gen_scenario(rng: &mut Rng, capi: bool) -> Scenario {
	let names = ["a", "b", "VAR_X"];
	let mut ext = vec![];
	for n in names {
		if rng.chance(1, 2) {
			let fl = if capi { *rng.pick(&["str", "code"]) } else { *rng.pick(&FLAVOURS) };
			let payload = match fl {
				"str" => (*rng.pick(&["v", "", "é=ü", "multi\nline"])).to_owned(),
				"code" => pick_w(rng, &["1 + 2", "{ x: [1, 2] }", "import 'libA/shared.libsonnet'", "importstr 'data.txt'", "'s'"], &["error 'ext boom'", "{ a: ", "import 'shared.libsonnet'"]),
				"str-file" => pick_w(rng, &["str.txt", "data.txt", "libA/data.txt", "./inc/../str.txt"], &["missing.txt"]),
				_ => pick_w(rng, &["code.jsonnet", "fn.jsonnet", "libA/shared.libsonnet", "./code.jsonnet"], &["missing.jsonnet", "bad.jsonnet", "inc/nested.libsonnet"]),
			};
			let from_env = !capi && (fl == "str" || fl == "code") && n == "VAR_X" && !payload.is_empty() && rng.chance(1, 3);
			ext.push(VarOpt { fl, name: n.to_owned(), payload, from_env });
		}
	}
	if rng.chance(1, 6) && !ext.is_empty() {
		// the same name under a second flavour
		let mut o = ext[rng.below(ext.len())].clone();
		o.fl = if capi { "str" } else { *rng.pick(&FLAVOURS) };
		o.payload = if o.fl == "str" || o.fl == "code" { "'dup'".to_owned() } else { "str.txt".to_owned() };
		o.from_env = false;
		ext.push(o);
	}
	// program
	let mut fields: Vec<String> = vec![];
	for n in names {
		if ext.iter().any(|e| e.name == n) || rng.chance(1, 40) {
			fields.push(format!("e_{n}: std.extVar('{n}')"));
		}
	}
	let njp = rng.below(4);
	let mut jpath: Vec<String> = (0..njp).map(|_| (*rng.pick(&["libA", "libB", "libC", "libA", "libB", "libC", "nowhere"])).to_owned()).collect();
	let env: Option<Vec<String>> = if !capi && rng.chance(1, 4) {
		Some((0..rng.below(3)).map(|_| (*rng.pick(&["libA", "libB", "libC"])).to_owned()).collect())
	} else {
		None
	};
	if rng.chance(1, 4) {
		jpath = jpath.into_iter().map(|p| format!("./{p}/")).collect();
	}
	let has_lib = jpath.iter().any(|p| p.contains("lib")) || env.as_ref().is_some_and(|e| !e.is_empty());
	if has_lib || rng.chance(1, 16) {
		fields.push("imp: import 'shared.libsonnet'".to_owned());
	}
	if (has_lib && rng.chance(1, 2)) || rng.chance(1, 20) {
		fields.push("nested: import 'inc/nested.libsonnet'".to_owned());
	}
	if rng.chance(1, 4) {
		fields.push("str: importstr 'data.txt'".to_owned());
	}
	if rng.chance(1, 6) {
		fields.push("bin: importbin 'data.txt'".to_owned());
	}
	let mut stack = None;
	if rng.chance(1, 4) {
		let depth = *rng.pick(&[3usize, 10, 40, 120]);
		fields.push(format!("rec: (local f(n) = if n == 0 then 0 else 1 + f(n - 1); f({depth}))"));
		if rng.chance(2, 3) {
			// around the depth the program needs: a few frames below .. comfortably above
			stack = Some(depth + *rng.pick(&[0usize, 2, 3, 4, 5, 6, 8, 12, 30, 100]));
		}
	} else if rng.chance(1, 6) {
		stack = Some(*rng.pick(&[1usize, 2, 50, 512]));
	}
	if rng.chance(1, 30) {
		fields.push("boom: error 'boom'".to_owned());
	}
	if rng.chance(1, 5) {
		fields.push("num: [0.1, 1e100, -0, 3]".to_owned());
	}
	if rng.chance(1, 5) {
		fields.push("txt: 'é \"q\" \\n tab\\t'".to_owned());
	}
	if capi && rng.chance(2, 3) {
		for f in [
			"n_add: std.native('nativeAdd')(2, 3.5)",
			"n_cat: std.native('nativeCat')('x', 'é')",
			"n_mk: std.native('nativeMk')(4)",
			"n_mk2: std.native('nativeMk')(null)",
			"n_missing: std.native('nope')",
		] {
			if rng.chance(1, 2) {
				fields.push(f.to_owned());
			}
		}
		if rng.chance(1, 20) {
			fields.push("n_fail: std.native('nativeFail')(1)".to_owned());
		}
		if rng.chance(1, 20) {
			fields.push("n_bad: std.native('nativeAdd')('x', 1)".to_owned());
		}
	}
	// top level arguments: only names the function has (extra arguments are C04's business)
	let mut tla = vec![];
	let mut params = vec![];
	if rng.chance(1, 2) {
		let p1_default = rng.chance(1, 2);
		params.push(if p1_default { "p1='d1'".to_owned() } else { "p1".to_owned() });
		if rng.chance(1, 2) {
			params.push("p2={ d: 2 }".to_owned());
		}
		fields.push("t1: p1".to_owned());
		if params.len() > 1 {
			fields.push("t2: p2".to_owned());
		}
		for (i, p) in ["p1", "p2"].iter().enumerate() {
			if i < params.len() && (rng.chance(2, 3) || (i == 0 && !p1_default && rng.chance(15, 16))) {
				let fl = if capi { *rng.pick(&["str", "code"]) } else { *rng.pick(&FLAVOURS) };
				let payload = match fl {
					"str" => (*rng.pick(&["tv", "", "x=y"])).to_owned(),
					"code" => pick_w(rng, &["[1, 2]", "import 'libB/shared.libsonnet'", "{ t: 1 }", "'s' + 't'"], &["error 'tla boom'", "std.extVar('nope')", "import 'shared.libsonnet'"]),
					"str-file" => pick_w(rng, &["str.txt", "data.txt", "libA/data.txt"], &["missing.txt"]),
					_ => pick_w(rng, &["code.jsonnet", "fn.jsonnet", "libC/../libB/shared.libsonnet"], &["missing.jsonnet", "bad.jsonnet"]),
				};
				tla.push(VarOpt { fl, name: (*p).to_owned(), payload, from_env: false });
			}
		}
	} else if rng.chance(1, 6) {
		// TLA given although the program is not a function: ignored
		tla.push(VarOpt { fl: "str", name: "p1".to_owned(), payload: "unused".to_owned(), from_env: false });
	}
	let obj = format!("{{ {} }}", fields.join(", "));
	let code = if params.is_empty() { obj } else { format!("function({}) {obj}", params.join(", ")) };
	Scenario { ext, tla, jpath, env, stack, code, as_file: rng.chance(1, 2), natives: capi && rng.chance(5, 6) }
}

/// wrap the program's object according to the shape an output mode wants
fn shape(rng: &mut Rng, code: &str, want: &str) -> String {
	let (head, body) = match code.find(") {") {
		Some(i) if code.starts_with("function(") => (&code[..=i], &code[i + 2..]),
		_ => ("", code),
	};
	let b = match want {
		"string" => match rng.below(4) {
			0 => format!("std.manifestJsonMinified({body})"),
			1 => "'plain text\\n'".to_owned(),
			2 => "''".to_owned(),
			_ => format!("std.toString({body})"),
		},
		"array" => match rng.below(3) {
			0 => format!("[{body}, 1, 's']"),
			1 => "[]".to_owned(),
			_ => format!("[{body}]"),
		},
		"files" => match rng.below(4) {
			0 => format!("{{ 'a.json': {body}, 'b.txt': 'text' }}"),
			1 => "{}".to_owned(),
			2 => format!("{{ 'z.json': {body}, 'm.json': [1], 'e.json': error 'field boom', 'a.json': 1 }}"),
			_ => format!("{{ 'one.json': {body} }}"),
		},
		"strfiles" => match rng.below(3) {
			0 => format!("{{ 'a.txt': std.toString({body}), 'b.txt': '' }}"),
			1 => format!("{{ 'a.txt': 'x', 'b.txt': {body} }}"),
			_ => "{ 'only.txt': 'é\\n' }".to_owned(),
		},
		"arrfiles" => format!("{{ 'a.yaml': [{body}, 2], 'b.yaml': [] }}"),
		"wrong" => "42".to_owned(),
		_ => body.to_owned(),
	};
	format!("{head} {b}")
}

#[derive(Trace)]
struct RsNative(u8);
impl NativeCallbackHandler for RsNative {
	fn call(&self, args: &[Val]) -> Result<Val, Error> {
		let fail = |m: &str| -> Result<Val, Error> { Err(ErrorKind::RuntimeError(m.into()).into()) };
		match self.0 {
			0 => match (&args[0], &args[1]) {
				(Val::Num(a), Val::Num(b)) => Ok(Val::Num(jrsonnet_evaluator::val::NumValue::new(a.get() + b.get()).expect("finite"))),
				_ => fail("nativeAdd: not a number"),
			},
			1 => match (args[0].as_str(), args[1].as_str()) {
				(Some(a), Some(b)) => Ok(Val::string(format!("{a}{b}"))),
				_ => fail("nativeCat: not a string"),
			},
			2 => fail("native failure"),
			_ => {
				let a = &args[0];
				let e1 = match a {
					Val::Num(n) => Val::Num(jrsonnet_evaluator::val::NumValue::new(n.get() * 2.0).expect("finite")),
					_ => Val::Null,
				};
				let e2 = Val::Bool(!matches!(a, Val::Bool(_)));
				let e3 = Val::Bool(matches!(a, Val::Null));
				let arr = Val::Arr(ArrValue::lazy(vec![Thunk::evaluated(e1), Thunk::evaluated(e2), Thunk::evaluated(e3)]));
				let mut obj = ObjValue::empty();
				obj.extend_field("k".into()).value(arr);
				obj.extend_field("s".into()).value(Val::string("v"));
				Ok(Val::Obj(obj))
			}
		}
	}
}

enum LibOut {
	Err,
	ManErr,
	Panic(String),
	Text(String),
	Fields(Vec<(String, &'static str, String)>),
	Kvs(Vec<(String, String)>),
	Vs(Vec<String>),
}

/// the reference side: the library API used directly for the configuration
#[allow(deprecated)]
fn lib_run(sc: &Scenario, paths: Vec<PathBuf>, main: &str, format: &dyn ManifestFormat, mode: &str, stack: usize) -> LibOut {
	let r = guarded(|| -> JrResult<LibOut> {
		let ctx = ContextInitializer::new(PathResolver::new_cwd_fallback());
		// strongest flavour last, like every jsonnet command line: file flavours override inline ones
		for fl in FLAVOURS {
			for e in sc.ext.iter().filter(|e| e.fl == fl) {
				let v = match fl {
					"str" => TlaArg::String(e.payload.as_str().into()),
					"str-file" => TlaArg::ImportStr(e.payload.clone()),
					"code" => TlaArg::InlineCode(e.payload.clone()),
					_ => TlaArg::Import(e.payload.clone()),
				};
				ctx.settings_mut().ext_vars.insert(e.name.as_str().into(), v);
			}
		}
		if sc.natives {
			ctx.add_native("nativeAdd", NativeCallback::new(vec!["a".into(), "b".into()], RsNative(0)));
			ctx.add_native("nativeCat", NativeCallback::new(vec!["a".into(), "b".into()], RsNative(1)));
			ctx.add_native("nativeFail", NativeCallback::new(vec!["a".into()], RsNative(2)));
			ctx.add_native("nativeMk", NativeCallback::new(vec!["a".into()], RsNative(3)));
		}
		let mut sb = State::builder();
		sb.import_resolver(FileImportResolver::new(paths)).context_initializer(ctx);
		let s = sb.build();
		let _entered = s.enter();
		let _limit = limit_stack_depth(stack);
		let val = if sc.as_file { s.import(main)? } else { s.evaluate_snippet(main.to_owned(), sc.code.clone())? };
		let mut tla: FxHashMap<IStr, TlaArg> = FxHashMap::default();
		for fl in FLAVOURS {
			for e in sc.tla.iter().filter(|e| e.fl == fl) {
				let v = match fl {
					"str" => TlaArg::String(e.payload.as_str().into()),
					"str-file" => TlaArg::ImportStr(e.payload.clone()),
					"code" => TlaArg::InlineCode(e.payload.clone()),
					_ => TlaArg::Import(e.payload.clone()),
				};
				tla.insert(e.name.as_str().into(), v);
			}
		}
		let val = apply_tla(&tla, val)?;
		Ok(match mode {
			"cli-multi" => {
				let Val::Obj(o) = val else { return Ok(LibOut::Err) };
				let mut fs = vec![];
				for (k, v) in o.iter() {
					match v {
						Err(_) => {
							fs.push((k.to_string(), "evalErr", String::new()));
							break;
						}
						Ok(v) => match format.manifest(v) {
							Ok(t) => fs.push((k.to_string(), "ok", t)),
							Err(_) => {
								fs.push((k.to_string(), "manErr", String::new()));
								break;
							}
						},
					}
				}
				LibOut::Fields(fs)
			}
			"multi" => {
				let Val::Obj(o) = val else { return Ok(LibOut::Err) };
				let mut kvs = vec![];
				for (k, v) in o.iter() {
					kvs.push((k.to_string(), format.manifest(v?)?));
				}
				LibOut::Kvs(kvs)
			}
			"stream" => {
				let Val::Arr(a) = val else { return Ok(LibOut::Err) };
				let mut vs = vec![];
				for v in a.iter() {
					vs.push(format.manifest(v?)?);
				}
				LibOut::Vs(vs)
			}
			_ => match format.manifest(val) {
				Ok(t) => LibOut::Text(t),
				Err(_) => LibOut::ManErr,
			},
		})
	});
	match r {
		Ok(Ok(o)) => o,
		Ok(Err(_)) => LibOut::Err,
		Err(p) => LibOut::Panic(p),
	}
}

fn bin(name: &str) -> PathBuf {
	PathBuf::from(std::env::var("VERIF_BIN_DIR").unwrap_or_default()).join(name)
}

fn ref_paths(dir: &Path, jpath: &[String], env: &Option<Vec<String>>) -> Vec<PathBuf> {
	// right-most -J first, then JSONNET_PATH left to right
	let mut v: Vec<PathBuf> = jpath.iter().rev().map(|p| dir.join(p)).collect();
	if let Some(e) = env {
		v.extend(e.iter().map(|p| dir.join(p)));
	}
	v
}

fn run_cli(opts: &Opts) {
	let mut w = CaseWriter::new(&opts.out);
	let mut rng = Rng::new(opts.seed ^ 0x1515);
	let exe = bin("jrsonnet");
	let dir = opts.out.join("fs");
	write_tree(&dir);
	let dir = dir.canonicalize().expect("canon");
	std::env::set_current_dir(&dir).expect("chdir");
	let mut hist = BTreeMap::<String, usize>::new();
	let n = if opts.thorough() { 2500 } else { 240 };
	for i in 0..n {
		let mut sc = gen_scenario(&mut rng, false);
		// output mode
		let mut fmt = gen_fmt(&mut rng);
		if rng.chance(5, 6) {
			// mostly accepted combinations
			if fmt.s {
				fmt.f = None;
				fmt.y = false;
			}
		}
		if fmt.f == Some("ini") || fmt.f == Some("xml-jsonml") {
			if rng.chance(2, 3) {
				fmt.f = Some(*rng.pick(&["json", "yaml", "toml", "string"]));
			}
		}
		let out_kind = match rng.below(10) {
			0..=5 => "stdout",
			6 | 7 => "multi",
			_ => "file",
		};
		let want = if rng.chance(1, 25) {
			"wrong"
		} else if out_kind == "multi" {
			if fmt.y { "arrfiles" } else if fmt.s { "strfiles" } else { "files" }
		} else if fmt.y {
			"array"
		} else if fmt.s {
			"string"
		} else {
			"object"
		};
		sc.code = shape(&mut rng, &sc.code, want);
		if fmt.f == Some("xml-jsonml") && rng.chance(1, 2) {
			sc.code = "['a', {x: '1'}, 't', ['b']]".to_owned();
			sc.tla.clear();
		}
		if fmt.f == Some("ini") && rng.chance(1, 2) {
			sc.code = "{main: {a: '1'}, sections: {s: {k: 'v'}}}".to_owned();
			sc.tla.clear();
		}
		let mut out_kind = out_kind;
		if i < 2 {
			// fixed witnesses: 0 = known finding (`-f ini` on a non-object panics in the library),
			// 1 = repaired defect (`--tla-str-file n=path` read a file called `n`)
			sc.ext.clear();
			sc.tla.clear();
			sc.jpath.clear();
			sc.env = None;
			sc.stack = None;
			sc.as_file = false;
			out_kind = "stdout";
			if i == 0 {
				fmt = Fmt { f: Some("ini"), s: false, y: false, pad: None };
				sc.code = "1".to_owned();
			} else {
				fmt = Fmt::default();
				sc.code = "function(n) n".to_owned();
				sc.tla.push(VarOpt { fl: "str-file", name: "n".to_owned(), payload: "str.txt".to_owned(), from_env: false });
			}
		}
		let main = if sc.as_file { "main.jsonnet".to_owned() } else { "<cmdline>".to_owned() };
		if sc.as_file {
			fs::write(dir.join("main.jsonnet"), &sc.code).expect("write main");
		}
		let out_dir = dir.join("out");
		let _ = fs::remove_dir_all(&out_dir);
		fs::create_dir_all(&out_dir).expect("mkdir out");
		let (mode_json, mode_args): (Value, Vec<String>) = match out_kind {
			"multi" => (json!({"k":"multi","p":"out"}), vec!["-m".into(), "out".into()]),
			"file" => (json!({"k":"file","p":"out/result.txt"}), vec!["-o".into(), "out/result.txt".into()]),
			_ => (json!({"k":"stdout"}), vec![]),
		};
		// ---- the executable ----
		let mut args: Vec<String> = vec![];
		args.extend(sc.ext.iter().flat_map(|v| v.args("ext")));
		args.extend(sc.tla.iter().flat_map(|v| v.args("tla")));
		for j in &sc.jpath {
			args.push("-J".into());
			args.push(j.clone());
		}
		if let Some(s) = sc.stack {
			args.push("-s".into());
			args.push(s.to_string());
		}
		args.extend(fmt.args());
		args.extend(mode_args);
		if rng.chance(1, 5) {
			args.push("-c".into());
		}
		if sc.as_file {
			args.push("main.jsonnet".into());
		} else {
			args.push("-e".into());
			args.push(sc.code.clone());
		}
		let mut cmd = Command::new(&exe);
		cmd.args(&args).current_dir(&dir).env_remove("JSONNET_PATH");
		if let Some(e) = &sc.env {
			cmd.env("JSONNET_PATH", std::env::join_paths(e.iter()).expect("join"));
		}
		for v in sc.ext.iter().filter(|v| v.from_env) {
			cmd.env(&v.name, &v.payload);
		}
		let o = cmd.output().expect("run jrsonnet");
		let mut files: Vec<(String, String)> = vec![];
		if let Ok(rd) = fs::read_dir(&out_dir) {
			for e in rd.flatten() {
				let name = e.file_name().to_string_lossy().to_string();
				let content = fs::read(e.path()).map(|b| String::from_utf8_lossy(&b).to_string()).unwrap_or_default();
				files.push((format!("out/{name}"), content));
			}
		}
		files.sort();
		let code = o.status.code();
		let impl_ans = if code == Some(2) && !fmt.accepted() {
			json!({"reject": true})
		} else {
			json!({
				"stdout": String::from_utf8_lossy(&o.stdout),
				"stderr": !o.stderr.is_empty(),
				"exit": code.unwrap_or(-1),
				"files": files.iter().map(|(p, c)| json!([p, c])).collect::<Vec<_>>(),
				"_stderr": String::from_utf8_lossy(&o.stderr).chars().take(300).collect::<String>(),
			})
		};
		// ---- the library ----
		let out = if fmt.accepted() {
			let format = format_of(&ref_format_desc(&fmt));
			let paths = ref_paths(&dir, &sc.jpath, &sc.env);
			let lib = lib_run(&sc, paths, &main, &*format, if out_kind == "multi" { "cli-multi" } else { "plain" }, sc.stack.unwrap_or(512));
			match lib {
				LibOut::Err => json!({"k":"err"}),
				LibOut::ManErr => json!({"k":"manErr"}),
				LibOut::Panic(p) => json!({"k":"err","_lib_panic":p}),
				LibOut::Text(t) => json!({"k":"text","t":t}),
				LibOut::Fields(fs) => json!({"k":"fields","fs":fs.iter().map(|(a, b, c)| json!([a, b, c])).collect::<Vec<_>>()}),
				_ => unreachable!(),
			}
		} else {
			json!({"k":"err"})
		};
		*hist.entry(format!("out.{out_kind}")).or_default() += 1;
		*hist.entry(format!("fmt.{}", if fmt.accepted() { ref_format_desc(&fmt) } else { "reject".into() })).or_default() += 1;
		*hist.entry(format!("lib.{}", out["k"].as_str().unwrap_or("?"))).or_default() += 1;
		*hist.entry(format!("jpath{}", sc.jpath.len())).or_default() += 1;
		for v in sc.ext.iter() {
			*hist.entry(format!("ext-{}", v.fl)).or_default() += 1;
		}
		for v in sc.tla.iter() {
			*hist.entry(format!("tla-{}", v.fl)).or_default() += 1;
		}
		if sc.env.is_some() {
			*hist.entry("JSONNET_PATH".into()).or_default() += 1;
		}
		w.case(
			json!({"op":"cli.render","mode":mode_json,"fmt":fmt.json(),"out":out,
				"size": args.len() + sc.code.len() / 40, "_args": args, "_i": i}),
			impl_ans,
		);
	}
	w.finish(
		json!({"engine":"c15run","cases":n,"hist":hist,
			"rule":"generated programs reading ext vars / TLAs (all flavours, from files, from environment, duplicates), importing through 0-3 -J paths and JSONNET_PATH, recursion against --max-stack, output through stdout/-o/-m with -S/-y/-f/--line-padding; real executable vs library API used directly"}),
		&opts.out,
	);
}

fn hex(s: &str) -> String {
	if s.is_empty() {
		return "-".to_owned();
	}
	s.bytes().map(|b| format!("{b:02x}")).collect()
}
fn unhex(s: &str) -> Vec<u8> {
	if s == "-" {
		return vec![];
	}
	(0..s.len() / 2).map(|i| u8::from_str_radix(&s[2 * i..2 * i + 2], 16).unwrap_or(0)).collect()
}

fn build_c_driver(out: &Path) -> Result<PathBuf, String> {
	let src = out.join("c15_capi.c");
	fs::write(&src, include_str!("c15_capi.c")).map_err(|e| e.to_string())?;
	let exe = out.join("c15_capi");
	let libdir = PathBuf::from(std::env::var("VERIF_BIN_DIR").unwrap_or_default());
	if !libdir.join("libjsonnet.so").exists() {
		return Err(format!("{} missing", libdir.join("libjsonnet.so").display()));
	}
	let repo = std::env::var("VERIF_REPO").unwrap_or_else(|_| "/repo".to_owned());
	let o = Command::new("gcc")
		.arg("-O0")
		.arg("-o")
		.arg(&exe)
		.arg(&src)
		.arg(format!("-I{repo}/bindings/c"))
		.arg(format!("-L{}", libdir.display()))
		.arg("-ljsonnet")
		.arg(format!("-Wl,-rpath,{}", libdir.display()))
		.output()
		.map_err(|e| e.to_string())?;
	if !o.status.success() {
		return Err(String::from_utf8_lossy(&o.stderr).to_string());
	}
	Ok(exe)
}

fn run_capi(opts: &Opts) {
	let mut w = CaseWriter::new(&opts.out);
	let mut rng = Rng::new(opts.seed ^ 0x15c);
	let driver = match build_c_driver(&opts.out) {
		Ok(d) => d,
		Err(e) => {
			eprintln!("cannot build the C driver: {e}");
			std::process::exit(3);
		}
	};
	let dir = opts.out.join("fs");
	write_tree(&dir);
	let dir = dir.canonicalize().expect("canon");
	std::env::set_current_dir(&dir).expect("chdir");
	let mut hist = BTreeMap::<String, usize>::new();
	let n = if opts.thorough() { 2000 } else { 200 };
	for i in 0..n {
		let mut sc = gen_scenario(&mut rng, true);
		let mode = *rng.pick(&["plain", "plain", "multi", "stream"]);
		let string_out = rng.chance(1, 4);
		let want = if rng.chance(1, 25) {
			"wrong"
		} else {
			match (mode, string_out) {
				("multi", false) => "files",
				("multi", true) => "strfiles",
				("stream", _) => "array",
				(_, true) => "string",
				_ => "object",
			}
		};
		sc.code = shape(&mut rng, &sc.code, want);
		let main = if sc.as_file { dir.join("main.jsonnet").to_string_lossy().to_string() } else { "snip".to_owned() };
		if sc.as_file {
			fs::write(dir.join("main.jsonnet"), &sc.code).expect("write main");
		}
		// call order of the settings is the order of the lists
		let mut script = String::new();
		if sc.natives {
			script.push_str("native\n");
		}
		for e in &sc.ext {
			script.push_str(&format!("{} {} {}\n", if e.fl == "str" { "extvar" } else { "extcode" }, hex(&e.name), hex(&e.payload)));
		}
		for e in &sc.tla {
			script.push_str(&format!("{} {} {}\n", if e.fl == "str" { "tlavar" } else { "tlacode" }, hex(&e.name), hex(&e.payload)));
		}
		for j in &sc.jpath {
			script.push_str(&format!("jpath {}\n", hex(&dir.join(j).to_string_lossy())));
		}
		if let Some(s) = sc.stack {
			script.push_str(&format!("maxstack {s}\n"));
		}
		if string_out || rng.chance(1, 10) {
			script.push_str(&format!("stringout {}\n", u8::from(string_out)));
		}
		if sc.as_file {
			script.push_str(&format!("file {} {mode}\n", hex(&main)));
		} else {
			script.push_str(&format!("snippet {} {} {mode}\n", hex(&main), hex(&sc.code)));
		}
		let sfile = opts.out.join("script.txt");
		fs::write(&sfile, &script).expect("script");
		let o = Command::new(&driver).arg(&sfile).current_dir(&dir).env("RUST_BACKTRACE", "0").output().expect("run driver");
		let stdout = String::from_utf8_lossy(&o.stdout).to_string();
		let impl_ans = match stdout.lines().find(|l| l.starts_with("R ")) {
			Some(l) if o.status.success() => {
				let mut it = l.split(' ');
				it.next();
				let err: i64 = it.next().and_then(|e| e.parse().ok()).unwrap_or(-1);
				let raw = unhex(it.next().unwrap_or("-"));
				if err == 0 {
					json!({"err": 0, "raw": raw})
				} else {
					json!({"err": err, "_msg": String::from_utf8_lossy(&raw).chars().take(200).collect::<String>()})
				}
			}
			_ => json!({"panic": format!("driver status {:?}: {}", o.status.code(), String::from_utf8_lossy(&o.stderr).chars().take(300).collect::<String>())}),
		};
		// ---- the library: later calls for a name replace earlier ones; most recent jpath first ----
		let mut lsc = sc.clone();
		// the C calls are applied in list order whatever the flavour: emulate with one insertion order
		let paths: Vec<PathBuf> = sc.jpath.iter().rev().map(|p| dir.join(p)).collect();
		lsc.ext = dedup_last(&sc.ext);
		lsc.tla = dedup_last(&sc.tla);
		let format: Box<dyn ManifestFormat> = if string_out { Box::new(ToStringFormat) } else { Box::new(JsonFormat::default()) };
		let lib = lib_run(&lsc, paths, &main, &*format, mode, sc.stack.unwrap_or(200));
		let b = |s: &String| -> Vec<u8> { s.as_bytes().to_vec() };
		let out = match lib {
			LibOut::Err | LibOut::ManErr => json!({"err": true}),
			LibOut::Panic(p) => json!({"err": true, "_lib_panic": p}),
			LibOut::Text(t) => json!({"text": b(&t)}),
			LibOut::Kvs(kvs) => json!({"kvs": kvs.iter().map(|(k, v)| json!([b(k), b(v)])).collect::<Vec<_>>()}),
			LibOut::Vs(vs) => json!({"vs": vs.iter().map(b).collect::<Vec<_>>()}),
			LibOut::Fields(_) => unreachable!(),
		};
		*hist.entry(format!("mode.{mode}")).or_default() += 1;
		*hist.entry(format!("lib.{}", if out.get("err").is_some() { "err" } else { "ok" })).or_default() += 1;
		*hist.entry(format!("jpath{}", sc.jpath.len())).or_default() += 1;
		if sc.natives {
			*hist.entry("natives".into()).or_default() += 1;
		}
		if string_out {
			*hist.entry("string_output".into()).or_default() += 1;
		}
		for v in sc.ext.iter() {
			*hist.entry(format!("ext-{}", v.fl)).or_default() += 1;
		}
		for v in sc.tla.iter() {
			*hist.entry(format!("tla-{}", v.fl)).or_default() += 1;
		}
		w.case(
			json!({"op":"capi.frame","mode":mode,"out":out,"size": script.len() / 20, "_script": script, "_code": sc.code, "_i": i}),
			impl_ans,
		);
	}
	w.finish(
		json!({"engine":"c15capi","cases":n,"hist":hist,
			"rule":"generated programs with ext_var/ext_code/tla_var/tla_code, 0-3 jpath_add, max_stack, string_output, native callbacks (numbers, strings, failure, built object/array), evaluate_file/snippet x plain/multi/stream through the real libjsonnet.so and a C driver"}),
		&opts.out,
	);
}

/// for the C API the last call for a name wins whatever the kind: keep the last option per name and
/// present it so that the flavour-ordered insertion of `lib_run` reproduces that
fn dedup_last(v: &[VarOpt]) -> Vec<VarOpt> {
	let mut out: Vec<VarOpt> = vec![];
	for o in v.iter().rev() {
		if !out.iter().any(|x| x.name == o.name) {
			out.push(o.clone());
		}
	}
	out.reverse();
	out
}

// ------------------------------------------------------------------------------------------------
// dependency lister

thread_local! {
	static LOADED: RefCell<Vec<PathBuf>> = const { RefCell::new(Vec::new()) };
}
#[derive(Acyclic)]
struct RecordingTl {
	inner: FileImportResolver,
}
impl ImportResolver for RecordingTl {
	fn resolve_from(&self, from: &SourcePath, path: &dyn AsPathLike) -> JrResult<SourcePath> {
		self.inner.resolve_from(from, path)
	}
	fn resolve_from_default(&self, path: &dyn AsPathLike) -> JrResult<SourcePath> {
		self.inner.resolve_from_default(path)
	}
	fn load_file_contents(&self, resolved: &SourcePath) -> JrResult<Vec<u8>> {
		LOADED.with_borrow_mut(|l| l.push(PathBuf::from(format!("{resolved}"))));
		self.inner.load_file_contents(resolved)
	}
}

const POSITIONS: [&str; 46] = [
	"if false then null else %",
	"if true then null else %",
	"if std.isArray(%) then 1 else 2",
	"{assert std.isArray(%) || true, b: 1}.b",
	"{[std.toString(std.length(%))]: 1}",
	"{f(a=%): a}.f()",
	"{local l = %, [k]: l for k in ['a']}.a",
	"{[k]: 1 for k in [std.toString(std.length(%))]}",
	"({b: %} + {a: 1}).b",
	"assert std.isArray(%) || true; null",
	"assert true; %",
	"local x = 1; %",
	"local f(a, b=%) = b; f(1)",
	"local f(a) = %; f(1)",
	"if false then error std.toString(%) else null",
	"(if true then function() 1 else %)()",
	"([%, 1])[0:1][0]",
	"[1, 2, 3][0:(local z = %; 1):(local w = %; 1)]",
	"(%)",
	"[x for x in [1] if std.isArray(%) || true]",
	"{a: 1} {b: %}",
	"!(std.isArray(%) && false)",
	"%",
	"local x = %; x",
	"[%][0]",
	"{a: %}.a",
	"(function(p = %) p)()",
	"if true then % else null",
	"if false then % else null",
	"[% for i in [1]][0]",
	"[i for i in [%]][0]",
	"{[k]: % for k in ['a']}.a",
	"assert true : %; null",
	"{assert true : %, local y = %, b: y}.b",
	"std.length([%])",
	"({a: 1} + {b: %}).b",
	"({a: 1} {b: %}).b",
	"-(if false then % else 1)",
	"[1, 2][if false then % else 0]",
	"function(a) %",
	"std.type(%)",
	"std.type(x=%)",
	"[1, 2, 3][(local z = %; 0):1:1]",
	"{local f(a, b = %) = b, c: f(1)}.c",
	"{a: 1, b+: {c: %}}.b.c",
	"[if i == 1 then % for i in [1] if std.isArray(%) || true][0]",
];

/// directories of a dependency case (below the case directory); `-J ../L0 -J ../L1` from `m`
const DDIRS: [&str; 6] = ["m", "m/sub", "m/sub2", "m/sub/deep", "L1", "L0"];
/// file names that exist in several directories at once: which file an import string means
/// depends on the directory of the importing file
const SHARED_NAMES: [&str; 3] = ["util.libsonnet", "common.libsonnet", "lib/helper.libsonnet"];

struct DFile {
	dir: &'static str,
	name: String,
	/// (kind 0 code / 1 str / 2 bin, import string as written, target index by reference resolution)
	edges: Vec<(u8, String, Option<usize>)>,
	broken: bool,
}

impl DFile {
	/// the directory the file really lives in (the name may carry a directory part)
	fn real_dir(&self) -> String {
		let full = format!("{}/{}", self.dir, self.name);
		full.rsplit_once('/').map(|(d, _)| d.to_owned()).unwrap_or_default()
	}
}

fn comps(p: &str) -> Vec<&str> {
	p.split('/').filter(|c| !c.is_empty() && *c != ".").collect()
}

/// `dir` joined with the relative path `rel`, `..` folded (None: leaves the case directory)
fn join_norm(dir: &str, rel: &str) -> Option<String> {
	let mut v = comps(dir);
	for c in comps(rel) {
		if c == ".." {
			v.pop()?;
		} else {
			v.push(c);
		}
	}
	Some(v.join("/"))
}

/// reference resolution of an import string written in a file of directory `from_dir`:
/// beside the importer first, then the right-most `-J` (L1), then L0
fn ref_resolve(files: &[DFile], from_dir: &str, s: &str) -> Option<usize> {
	let find = |full: Option<String>| -> Option<usize> {
		let full = full?;
		files.iter().position(|f| format!("{}/{}", f.dir, f.name) == full)
	};
	find(join_norm(from_dir, s)).or_else(|| find(join_norm("L1", s))).or_else(|| find(join_norm("L0", s)))
}

/// a relative path from directory `from` to the file `to_dir/name` (always a direct hit)
fn rel_path(from: &str, to_dir: &str, name: &str) -> String {
	let a = comps(from);
	let b = comps(to_dir);
	let mut i = 0;
	while i < a.len() && i < b.len() && a[i] == b[i] {
		i += 1;
	}
	let mut v: Vec<&str> = vec![".."; a.len() - i];
	v.extend(&b[i..]);
	v.extend(comps(name));
	v.join("/")
}

fn run_deps(opts: &Opts) {
	let mut w = CaseWriter::new(&opts.out);
	let mut rng = Rng::new(opts.seed ^ 0x15d);
	let exe = bin("jrsonnet-deps");
	let base = opts.out.join("fs");
	let mut hist = BTreeMap::<String, usize>::new();
	let n = if opts.thorough() { 2000 } else { 240 };
	for i in 0..n {
		let cdir = base.clone();
		let _ = fs::remove_dir_all(&cdir);
		for d in DDIRS {
			fs::create_dir_all(cdir.join(d)).expect("mkdir");
		}
		let mut files: Vec<DFile> = vec![DFile { dir: "m", name: "f0.libsonnet".into(), edges: vec![], broken: rng.chance(1, 40) }];
		let mk = |dir: &'static str, name: &str, broken: bool| DFile { dir, name: name.to_owned(), edges: vec![], broken };
		match i {
			0 => {
				// the repaired defect: listed by importstr first, imported as code afterwards
				files[0].broken = false;
				files.push(mk("m", "f1.libsonnet", false));
				files.push(mk("m/sub", "f2.libsonnet", false));
				files[0].edges = vec![(1, "f1.libsonnet".into(), None), (0, "f1.libsonnet".into(), None)];
				files[1].edges = vec![(0, "sub/f2.libsonnet".into(), None)];
			}
			1 => {
				// the same import string in two directories means two files (a private util beside
				// each importer), each with its own imports
				files[0].broken = false;
				files.push(mk("m", "util.libsonnet", false));
				files.push(mk("m/sub", "f2.libsonnet", false));
				files.push(mk("m/sub", "util.libsonnet", false));
				files.push(mk("m/sub", "f4.libsonnet", false));
				files[0].edges = vec![(0, "util.libsonnet".into(), None), (0, "sub/f2.libsonnet".into(), None)];
				files[2].edges = vec![(0, "util.libsonnet".into(), None)];
				files[3].edges = vec![(1, "f4.libsonnet".into(), None)];
			}
			2 => {
				// a -J library file with a same-named sibling next to one importer
				files[0].broken = false;
				files.push(mk("L1", "util.libsonnet", false));
				files.push(mk("m/sub", "f2.libsonnet", false));
				files.push(mk("m/sub", "util.libsonnet", false));
				files.push(mk("L0", "util.libsonnet", false));
				files[0].edges = vec![(1, "util.libsonnet".into(), None), (0, "sub/f2.libsonnet".into(), None)];
				files[2].edges = vec![(2, "util.libsonnet".into(), None), (0, "util.libsonnet".into(), None)];
			}
			_ => {
				let nf = 1 + rng.below(8);
				for k in 1..nf {
					let dir = *rng.pick(&["m", "m", "m/sub", "m/sub", "m/sub2", "m/sub/deep", "L1", "L1", "L0"]);
					let mut name = format!("f{k}.libsonnet");
					if rng.chance(3, 5) {
						let shared = *rng.pick(&SHARED_NAMES);
						if !files.iter().any(|f| f.dir == dir && f.name == shared) {
							name = shared.to_owned();
						}
					}
					files.push(mk(dir, &name, rng.chance(1, 24)));
				}
				let nf = files.len();
				for k in 0..nf {
					let ne = if rng.chance(1, 6) { 0 } else { 1 + rng.below(4) };
					for _ in 0..ne {
						let kind = *rng.pick(&[0u8, 0, 0, 1, 1, 2]);
						let t = rng.below(nf);
						let s = match rng.below(16) {
							0 => format!("missing_{}.libsonnet", rng.below(3)),
							// the bare name of some file: beside the importer, else through -J, else missing
							1..=8 => files[t].name.clone(),
							// a shared name whatever exists
							9 | 10 => (*rng.pick(&SHARED_NAMES)).to_owned(),
							// an explicit relative path to one particular file
							_ => rel_path(&files[k].real_dir(), files[t].dir, &files[t].name),
						};
						// keep most graphs free of unresolvable imports (one is enough to fail the lister)
						let s = if ref_resolve(&files, &files[k].real_dir(), &s).is_none() && rng.chance(5, 6) {
							rel_path(&files[k].real_dir(), files[t].dir, &files[t].name)
						} else {
							s
						};
						files[k].edges.push((kind, s, None));
					}
				}
			}
		}
		let nf = files.len();
		for k in 0..nf {
			for e in 0..files[k].edges.len() {
				let t = ref_resolve(&files, &files[k].real_dir(), &files[k].edges[e].1);
				files[k].edges[e].2 = t;
			}
		}
		// how much of the case depends on the importer's directory: the same string written in two
		// files and resolved to two different files
		let mut by_string: HashMap<&str, Vec<Option<usize>>> = HashMap::new();
		for f in &files {
			for (_, s, t) in &f.edges {
				let v = by_string.entry(s.as_str()).or_default();
				if !v.contains(t) {
					v.push(*t);
				}
			}
		}
		let ambiguous = by_string.values().filter(|v| v.len() > 1).count();
		*hist.entry(format!("same-string-different-file{}", ambiguous.min(3))).or_default() += 1;
		// write the files
		let mut path_id: HashMap<PathBuf, usize> = HashMap::new();
		for k in 0..nf {
			let f = &files[k];
			let mut items = vec![];
			for (kind, target, _) in &f.edges {
				let kw = ["import", "importstr", "importbin"][*kind as usize];
				let imp = format!("{kw} '{target}'");
				let pos = if rng.chance(1, 3) { "%" } else { *rng.pick(&POSITIONS) };
				items.push(pos.replace('%', &imp));
			}
			let mut text = format!("[{}]", items.join(",\n "));
			if f.broken {
				text.push_str(" {{ (");
			}
			let p = cdir.join(f.dir).join(&f.name);
			fs::create_dir_all(p.parent().expect("parent")).expect("mkdir");
			fs::write(&p, text).expect("write file");
			path_id.insert(p.canonicalize().expect("canon"), k);
		}
		// (a position that contains the placeholder twice repeats the same edge: same graph)
		let graph: Vec<Value> = files
			.iter()
			.map(|f| {
				if f.broken {
					Value::Null
				} else {
					Value::Array(f.edges.iter().map(|(k, _, t)| json!([*k == 0, t])).collect())
				}
			})
			.collect();
		let mdir = cdir.join("m").canonicalize().expect("canon");
		// ---- the executable ----
		let o = Command::new(&exe)
			.args(["f0.libsonnet", "-J", "../L0", "-J", "../L1"])
			.current_dir(&mdir)
			.env_remove("JSONNET_PATH")
			.output()
			.expect("run jrsonnet-deps");
		let stdout = String::from_utf8_lossy(&o.stdout).to_string();
		let lines: Vec<&str> = stdout.lines().collect();
		let impl_deps: Option<Vec<usize>> = if o.status.code() == Some(0) {
			let mut ids: Vec<usize> = lines.iter().map(|l| path_id.get(Path::new(l)).copied().unwrap_or(999)).collect();
			let mut sorted = lines.clone();
			sorted.sort_unstable();
			sorted.dedup();
			if sorted != lines {
				ids.push(998); // not sorted / duplicated output
			}
			ids.sort_unstable();
			Some(ids)
		} else {
			None
		};
		// ---- evaluation through the library, recording every load ----
		std::env::set_current_dir(&mdir).expect("chdir");
		LOADED.with_borrow_mut(Vec::clear);
		let _ = guarded(|| {
			let mut sb = State::builder();
			sb.import_resolver(RecordingTl { inner: FileImportResolver::new(vec![mdir.join("../L1"), mdir.join("../L0")]) })
				.context_initializer(ContextInitializer::new(PathResolver::new_cwd_fallback()));
			let s = sb.build();
			let _e = s.enter();
			let _l = limit_stack_depth(60);
			let v = s.import("f0.libsonnet")?;
			v.manifest(JsonFormat::minify())
		});
		let mut loaded: Vec<usize> = LOADED.with_borrow(|l| {
			l.iter().map(|p| p.canonicalize().ok().and_then(|p| path_id.get(&p).copied()).unwrap_or(997)).collect()
		});
		loaded.sort_unstable();
		loaded.dedup();
		let impl_ans = match &impl_deps {
			Some(d) => {
				let ok = loaded.iter().all(|l| *l == 0 || d.contains(l));
				json!({"res":"ok","deps":d,"loaded_ok":ok})
			}
			None => json!({"res":"err","_stderr":String::from_utf8_lossy(&o.stderr).chars().take(200).collect::<String>(),
				"_stderr_nonempty": !o.stderr.is_empty(), "_code": o.status.code()}),
		};
		if impl_deps.is_none() && (o.status.code() != Some(1) || o.stderr.is_empty()) {
			// an error must be exit 1 with a message
			w.case(
				json!({"op":"deps.run","g":graph,"root":0,"size":nf,"_note":"abnormal exit"}),
				json!({"res":"crash","_code":o.status.code()}),
			);
			continue;
		}
		*hist.entry(format!("files{nf}")).or_default() += 1;
		*hist.entry(format!("res.{}", impl_ans["res"].as_str().unwrap_or("?"))).or_default() += 1;
		*hist.entry(format!("loaded{}", loaded.len().min(6))).or_default() += 1;
		w.case(
			json!({"op":"deps.run","g":graph,"root":0,"loaded":loaded,"size":nf + files.iter().map(|f| f.edges.len()).sum::<usize>(), "_i": i}),
			impl_ans,
		);
	}
	w.finish(
		json!({"engine":"c15deps","cases":n,"hist":hist,
			"rule":"random import graphs of 1-8 files over the main directory, three sub directories and two -J directories; file names shared between directories (also names with a directory part) so that the same import string written in files of different directories means different files (beside the importer / right-most -J / other -J / missing); import/importstr/importbin edges by bare name, shared name or explicit relative path, placed in 46 syntactic positions; missing targets, unparsable files, cycles; jrsonnet-deps output vs DFS model and closure spec; every file an in-process evaluation loads must be listed"}),
		&opts.out,
	);
}

// ------------------------------------------------------------------------------------------------
// histories: sequences of evaluations and settings changes on ONE long-lived VM / State
//
// A fresh `jrsonnet` process (or a fresh State) is the meaning of "the result for the current
// settings".  A long-lived State keeps the value of every file whose evaluation SUCCEEDED (with the
// memoized results of its lazy members - C16's known finding), so the generated files follow a
// discipline that makes a fresh evaluation and a re-evaluation agree on the unchanged code:
//   * files on disk never change inside a history;
//   * everything in a file that depends on settings (ext vars, search-path imports, deep recursion,
//     natives, other generated files) is FORCED by the file's top-level evaluation, so a file either
//     fails as a whole (nothing is kept) or its value no longer depends on settings; function bodies
//     and snippets (never cached) read settings lazily as well;
//   * settings are only extended (new ext var, further search path with file names that exist in one
//     directory only, higher stack limit with a margin of 20/30 frames around every recursion depth,
//     natives registered); a variable is re-bound only when it is private to one file whose top-level
//     evaluation fails while the variable has its first value; top-level arguments change freely.

#[derive(Clone, Debug)]
enum Req {
	/// `std.extVar(name)` forced by the top-level evaluation
	Ext { name: String },
	/// variable private to the file: the top-level `assert` wants 'ok'
	Guard { name: String },
	/// variable private to the file: 'fail' makes the top-level evaluation reach `error`
	Mode { name: String },
	/// library file found through a search path only
	Lib { dir: &'static str, file: &'static str },
	/// recursion of this depth forced by the top-level evaluation
	Deep { n: usize },
	/// a native callback called by the top-level evaluation (C API only)
	Native,
	/// another generated file imported and forced by the top-level evaluation
	File { idx: usize },
}

#[derive(Clone, Debug)]
struct HFile {
	name: String,
	reqs: Vec<Req>,
	is_fn: bool,
	/// ext var read lazily (inside the function body / a field of a function result)
	late: Option<String>,
}

const HLIBS: [(&str, &str); 3] = [("libA", "onlyA.libsonnet"), ("libB", "onlyB.libsonnet"), ("libC", "onlyC.libsonnet")];
const STACKS: [usize; 4] = [130, 180, 260, 400];

fn hfile_text(f: &HFile, files: &[HFile]) -> String {
	let mut s = String::new();
	let mut fields = vec![format!("name: '{}'", f.name)];
	for (k, r) in f.reqs.iter().enumerate() {
		let def = match r {
			Req::Ext { name } => format!("std.extVar('{name}')"),
			Req::Guard { name } => {
				s.push_str(&format!("assert std.extVar('{name}') == 'ok' : 'guard {name}';\n"));
				continue;
			}
			Req::Mode { name } => format!("if std.extVar('{name}') == 'fail' then error 'mode {name}' else 'ran'"),
			Req::Lib { file, .. } => format!("import '{file}'"),
			Req::Deep { n } => format!("(local f(n) = if n == 0 then 0 else 1 + f(n - 1); f({n}))"),
			Req::Native => "std.native('nativeAdd')(2, 3.5)".to_owned(),
			Req::File { idx } => format!("import '{}'", files[*idx].name),
		};
		s.push_str(&format!("local r{k} = {def};\nassert std.isString(std.type(r{k})) : 'forced';\n"));
		fields.push(format!("r{k}: r{k}"));
	}
	if f.is_fn {
		fields.push("p1: p1".to_owned());
		fields.push("p2: p2".to_owned());
		if let Some(l) = &f.late {
			fields.push(format!("late: std.extVar('{l}')"));
		}
		s.push_str(&format!("function(p1, p2='d2') {{ {} }}\n", fields.join(", ")));
	} else {
		s.push_str(&format!("{{ {} }}\n", fields.join(", ")));
	}
	s
}

fn write_hist_tree(dir: &Path, files: &[HFile]) {
	let _ = fs::remove_dir_all(dir);
	let mut all: Vec<(String, String)> = vec![
		("libA/onlyA.libsonnet".into(), "{ only: 'A' }".into()),
		("libB/onlyB.libsonnet".into(), "{ only: 'B', data: importstr 'dataB.txt' }".into()),
		("libB/dataB.txt".into(), "data from libB\n".into()),
		// a library file with a requirement of its own
		("libC/onlyC.libsonnet".into(), "local e = std.extVar('envC');\nassert std.isString(std.type(e)) : 'forced';\n{ only: 'C', env: e }".into()),
		("data.txt".into(), "data next to main\n".into()),
		("bad.jsonnet".into(), "{ a: ".into()),
		("cycA.libsonnet".into(), "local b = import 'cycB.libsonnet';\nassert std.isString(std.type(b)) : 'forced';\n{ a: 1, b: b }".into()),
		("cycB.libsonnet".into(), "local a = import 'cycA.libsonnet';\nassert std.isString(std.type(a)) : 'forced';\n{ b: 2, a: a }".into()),
		("boom.libsonnet".into(), "local x = 1;\nif x == 1 then error 'always boom' else {}".into()),
	];
	for f in files {
		all.push((f.name.clone(), hfile_text(f, files)));
	}
	for (p, c) in all {
		let f = dir.join(p);
		fs::create_dir_all(f.parent().expect("parent")).expect("mkdir");
		fs::write(f, c).expect("write");
	}
}

#[derive(Clone, Debug)]
enum Step {
	Ext { name: String, code: bool, payload: String },
	Tla { name: String, code: bool, payload: String },
	Jpath(String),
	Stack(usize),
	Natives,
	StringOut(bool),
	/// the VM is destroyed and a new one made (same process, same thread)
	NewVm,
	/// `file`: evaluate that file, otherwise the snippet `code`
	Eval { file: Option<String>, code: String, mode: &'static str },
}

#[derive(Clone, Debug, Default)]
struct HSettings {
	ext: Vec<VarOpt>,
	tla: Vec<VarOpt>,
	jpath: Vec<String>,
	stack: Option<usize>,
	natives: bool,
	string_out: bool,
}
impl HSettings {
	fn ext_get(&self, n: &str) -> Option<&VarOpt> {
		self.ext.iter().find(|e| e.name == n)
	}
	fn apply(&mut self, st: &Step) {
		let set = |v: &mut Vec<VarOpt>, name: &str, code: bool, payload: &str| {
			v.retain(|e| e.name != name);
			v.push(VarOpt { fl: if code { "code" } else { "str" }, name: name.to_owned(), payload: payload.to_owned(), from_env: false });
		};
		match st {
			Step::Ext { name, code, payload } => set(&mut self.ext, name, *code, payload),
			Step::Tla { name, code, payload } => set(&mut self.tla, name, *code, payload),
			Step::Jpath(d) => self.jpath.push(d.clone()),
			Step::Stack(n) => self.stack = Some(*n),
			Step::Natives => self.natives = true,
			Step::StringOut(b) => self.string_out = *b,
			// everything is a property of the VM, except the stack limit (a thread-local of the
			// evaluator): a `max_stack` always follows
			Step::NewVm => *self = Self { stack: self.stack, ..Self::default() },
			Step::Eval { .. } => {}
		}
	}
}

#[derive(Clone, Debug)]
enum Entry {
	File(usize),
	/// snippet text, generated files it reaches, ext vars it reads itself
	Snip { code: String, roots: Vec<usize>, ext: Vec<String> },
	/// evaluations that fail the same way whatever the settings (syntax error, import cycle, missing file, `error`)
	Static { file: Option<String>, code: String },
}

fn good_ext_payload(rng: &mut Rng) -> (bool, String) {
	if rng.chance(1, 2) {
		(false, (*rng.pick(&["prod", "v", "", "é=ü", "x y"])).to_owned())
	} else {
		(true, (*rng.pick(&["1 + 2", "{ x: [1, 2] }", "import 'libA/onlyA.libsonnet'", "importstr 'data.txt'", "'s'"])).to_owned())
	}
}

/// the setting changes that would satisfy what `file` (transitively) still lacks
fn unmet_file(files: &[HFile], i: usize, st: &HSettings, rng: &mut Rng, out: &mut Vec<Step>) {
	let need_ext = |name: &str, rng: &mut Rng, out: &mut Vec<Step>| {
		if st.ext_get(name).is_none() && !out.iter().any(|s| matches!(s, Step::Ext { name: n, .. } if n == name)) {
			let (code, payload) = good_ext_payload(rng);
			out.push(Step::Ext { name: name.to_owned(), code, payload });
		}
	};
	for r in &files[i].reqs {
		match r {
			Req::Ext { name } => need_ext(name, rng, out),
			Req::Guard { name } => {
				if st.ext_get(name).is_none_or(|e| e.fl != "str" || e.payload != "ok") {
					out.push(Step::Ext { name: name.clone(), code: false, payload: "ok".into() });
				}
			}
			Req::Mode { name } => {
				if st.ext_get(name).is_none_or(|e| e.payload == "fail") {
					out.push(Step::Ext { name: name.clone(), code: false, payload: "run".into() });
				}
			}
			Req::Lib { dir, file } => {
				if !st.jpath.iter().any(|j| j == dir) && !out.iter().any(|s| matches!(s, Step::Jpath(d) if d == dir)) {
					out.push(Step::Jpath((*dir).to_owned()));
				}
				if *file == "onlyC.libsonnet" {
					need_ext("envC", rng, out);
				}
			}
			Req::Deep { n } => {
				let want = *STACKS.iter().find(|s| **s >= n + 30).expect("stack table");
				let have = st.stack.unwrap_or(200);
				if have < n + 30 {
					out.retain(|s| !matches!(s, Step::Stack(o) if *o < want));
					if !out.iter().any(|s| matches!(s, Step::Stack(_))) {
						out.push(Step::Stack(want));
					}
				}
			}
			Req::Native => {
				if !st.natives && !out.iter().any(|s| matches!(s, Step::Natives)) {
					out.push(Step::Natives);
				}
			}
			Req::File { idx } => unmet_file(files, *idx, st, rng, out),
		}
	}
}

fn unmet(files: &[HFile], e: &Entry, st: &HSettings, rng: &mut Rng) -> Vec<Step> {
	let mut out = vec![];
	match e {
		Entry::File(i) => {
			unmet_file(files, *i, st, rng, &mut out);
			if files[*i].is_fn {
				if !st.tla.iter().any(|t| t.name == "p1" && t.payload != "error 'tla boom'") {
					let (code, payload) = if rng.chance(1, 2) { (false, "tv".to_owned()) } else { (true, "[1, 2]".to_owned()) };
					out.push(Step::Tla { name: "p1".into(), code, payload });
				}
				if let Some(l) = &files[*i].late {
					if st.ext_get(l).is_none() {
						let (code, payload) = good_ext_payload(rng);
						out.push(Step::Ext { name: l.clone(), code, payload });
					}
				}
			}
		}
		Entry::Snip { roots, ext, .. } => {
			for r in roots {
				unmet_file(files, *r, st, rng, &mut out);
			}
			for n in ext {
				if st.ext_get(n).is_none() && !out.iter().any(|s| matches!(s, Step::Ext { name, .. } if name == n)) {
					let (code, payload) = good_ext_payload(rng);
					out.push(Step::Ext { name: n.clone(), code, payload });
				}
			}
		}
		Entry::Static { .. } => {}
	}
	out
}

struct History {
	files: Vec<HFile>,
	steps: Vec<Step>,
}

fn gen_history(rng: &mut Rng, capi: bool) -> History {
	const SHARED: [&str; 3] = ["env", "region", "tier"];
	let nf = 2 + rng.below(4);
	let mut files: Vec<HFile> = vec![];
	let nfn = rng.below(2);
	for i in 0..nf {
		// function files come last: they are entries only (a field holding a function does not manifest)
		let is_fn = i >= nf - nfn;
		let mut reqs = vec![];
		for _ in 0..rng.below(4) {
			let r = match rng.below(if capi { 14 } else { 13 }) {
				0..=3 => Req::Ext { name: (*rng.pick(&SHARED)).to_owned() },
				4 | 5 => Req::Guard { name: format!("g_{i}") },
				6 => Req::Mode { name: format!("m_{i}") },
				7..=9 => {
					let (dir, file) = *rng.pick(&HLIBS);
					Req::Lib { dir, file }
				}
				10 | 11 => Req::Deep { n: *rng.pick(&[60usize, 100, 150, 230]) },
				12 => Req::Ext { name: format!("own_{i}") },
				_ => Req::Native,
			};
			let dup = reqs.iter().any(|o| match (o, &r) {
				(Req::Guard { .. }, Req::Guard { .. }) | (Req::Mode { .. }, Req::Mode { .. }) | (Req::Native, Req::Native) => true,
				(Req::Ext { name: a }, Req::Ext { name: b }) => a == b,
				(Req::Lib { file: a, .. }, Req::Lib { file: b, .. }) => a == b,
				_ => false,
			});
			if !dup {
				reqs.push(r);
			}
		}
		files.push(HFile { name: format!("f{i}.jsonnet"), reqs, is_fn, late: if is_fn && rng.chance(1, 2) { Some((*rng.pick(&["late", "env"])).to_owned()) } else { None } });
	}
	// imports between generated files: towards higher indices only (no cycles), never a function file
	for i in 0..nf {
		for j in i + 1..nf {
			if !files[j].is_fn && rng.chance(2, 5) {
				let at = rng.below(files[i].reqs.len() + 1);
				files[i].reqs.insert(at, Req::File { idx: j });
			}
		}
	}
	let mut st = HSettings::default();
	let mut steps: Vec<Step> = vec![];
	let push = |steps: &mut Vec<Step>, st: &mut HSettings, s: Step| {
		st.apply(&s);
		steps.push(s);
	};
	// ---- initial settings: some requirements met in advance, private variables start with their failing value
	if rng.chance(2, 3) {
		push(&mut steps, &mut st, Step::Stack(*rng.pick(&[40usize, 40, 130, 180])));
	}
	for n in SHARED {
		if rng.chance(1, 4) {
			let (code, payload) = good_ext_payload(rng);
			push(&mut steps, &mut st, Step::Ext { name: n.to_owned(), code, payload });
		}
	}
	for (d, _) in HLIBS {
		if rng.chance(1, 5) {
			push(&mut steps, &mut st, Step::Jpath(d.to_owned()));
		}
	}
	if capi && rng.chance(1, 4) {
		push(&mut steps, &mut st, Step::Natives);
	}
	for f in &files {
		for r in &f.reqs {
			match r {
				Req::Guard { name } => match rng.below(6) {
					0 | 1 => {}
					2 | 3 => push(&mut steps, &mut st, Step::Ext { name: name.clone(), code: false, payload: "bad".into() }),
					4 => push(&mut steps, &mut st, Step::Ext { name: name.clone(), code: true, payload: "error 'ext boom'".into() }),
					_ => push(&mut steps, &mut st, Step::Ext { name: name.clone(), code: false, payload: "ok".into() }),
				},
				Req::Mode { name } => match rng.below(4) {
					0 | 1 => push(&mut steps, &mut st, Step::Ext { name: name.clone(), code: false, payload: "fail".into() }),
					2 => {}
					_ => push(&mut steps, &mut st, Step::Ext { name: name.clone(), code: false, payload: "run".into() }),
				},
				_ => {}
			}
		}
	}
	if rng.chance(1, 5) {
		push(&mut steps, &mut st, Step::Tla { name: "p1".into(), code: true, payload: "error 'tla boom'".into() });
	}
	// ---- episodes
	let mut done: Vec<Entry> = vec![];
	let mut evals = 0usize;
	let modes = |rng: &mut Rng| -> &'static str {
		if !capi {
			return "plain";
		}
		match rng.below(10) {
			0..=6 => "plain",
			7 | 8 => "multi",
			_ => "stream",
		}
	};
	let eval_step = |e: &Entry, files: &[HFile], mode: &'static str| -> Step {
		match e {
			Entry::File(i) => Step::Eval { file: Some(files[*i].name.clone()), code: String::new(), mode },
			Entry::Snip { code, .. } => Step::Eval { file: None, code: code.clone(), mode },
			Entry::Static { file, code } => Step::Eval { file: file.clone(), code: code.clone(), mode },
		}
	};
	let nep = 2 + rng.below(3);
	for _ in 0..nep {
		if evals >= 14 {
			break;
		}
		let entry = match rng.below(10) {
			0 => {
				let (file, code) = match rng.below(5) {
					0 => (Some("bad.jsonnet".to_owned()), String::new()),
					1 => (Some("cycA.libsonnet".to_owned()), String::new()),
					2 => (None, "import 'missing.jsonnet'".to_owned()),
					3 => (None, "{ a: import 'cycB.libsonnet' }".to_owned()),
					_ => (Some("boom.libsonnet".to_owned()), String::new()),
				};
				Entry::Static { file, code }
			}
			1..=3 => {
				let i = rng.below(nf);
				let n = &files[i].name;
				let x = (*rng.pick(&SHARED)).to_owned();
				if files[i].is_fn {
					Entry::Snip { code: format!("{{ called: (import '{n}')('arg'), x: std.extVar('{x}') }}"), roots: vec![i], ext: { let mut v = vec![x.clone()]; v.extend(files[i].late.clone()); v } }
				} else {
					match rng.below(4) {
						0 => Entry::Snip { code: format!("import '{n}'"), roots: vec![i], ext: vec![] },
						1 => Entry::Snip { code: format!("{{ a: import '{n}', s: std.length(importstr '{n}') }}"), roots: vec![i], ext: vec![] },
						2 => Entry::Snip { code: format!("{{ v: std.extVar('{x}'), i: (import '{n}').name }}"), roots: vec![i], ext: vec![x] },
						_ => {
							let j = rng.below(nf);
							if files[j].is_fn {
								Entry::Snip { code: format!("local a = import '{n}'; {{ a: a }}"), roots: vec![i], ext: vec![] }
							} else {
								Entry::Snip { code: format!("{{ a: import '{n}', b: import '{}' }}", files[j].name), roots: vec![i, j], ext: vec![] }
							}
						}
					}
				}
			}
			_ => Entry::File(rng.below(nf)),
		};
		let mut rounds = 0;
		loop {
			push(&mut steps, &mut st, eval_step(&entry, &files, modes(rng)));
			evals += 1;
			let mut fixes = unmet(&files, &entry, &st, rng);
			if fixes.is_empty() || rounds >= 6 || evals >= 16 {
				break;
			}
			rounds += 1;
			// mostly one change at a time, sometimes several, sometimes everything that is missing
			let k = match rng.below(6) {
				0 => fixes.len(),
				1 => 1 + rng.below(fixes.len()),
				_ => 1,
			};
			for _ in 0..k {
				let f = fixes.remove(rng.below(fixes.len()));
				push(&mut steps, &mut st, f);
			}
		}
		if capi && rng.chance(1, 6) {
			let b = !st.string_out;
			push(&mut steps, &mut st, Step::StringOut(b));
		}
		if rng.chance(1, 3) {
			// the same evaluation again, nothing changed
			push(&mut steps, &mut st, eval_step(&entry, &files, modes(rng)));
			evals += 1;
		}
		if rng.chance(1, 4) {
			// top-level arguments are applied per call: they may change at any time
			let (code, payload) = if rng.chance(1, 2) { (false, "tv2".to_owned()) } else { (true, "{ t: 1 }".to_owned()) };
			push(&mut steps, &mut st, Step::Tla { name: (*rng.pick(&["p1", "p2"])).to_owned(), code, payload });
		}
		if !done.is_empty() && rng.chance(1, 3) {
			let e = done[rng.below(done.len())].clone();
			push(&mut steps, &mut st, eval_step(&e, &files, modes(rng)));
			evals += 1;
		}
		done.push(entry);
		if capi && rng.chance(1, 7) {
			// a new VM in the same process: nothing of the old one may be left (any stack limit is fine,
			// nothing is cached yet)
			push(&mut steps, &mut st, Step::NewVm);
			push(&mut steps, &mut st, Step::Stack(*rng.pick(&[40usize, 130, 180, 260])));
		}
	}
	History { files, steps }
}

fn step_show(s: &Step) -> String {
	match s {
		Step::Ext { name, code, payload } => format!("ext_{} {name}={payload}", if *code { "code" } else { "var" }),
		Step::Tla { name, code, payload } => format!("tla_{} {name}={payload}", if *code { "code" } else { "var" }),
		Step::Jpath(d) => format!("jpath_add {d}"),
		Step::Stack(n) => format!("max_stack {n}"),
		Step::Natives => "native_callback x4".to_owned(),
		Step::StringOut(b) => format!("string_output {}", u8::from(*b)),
		Step::NewVm => "destroy; make".to_owned(),
		Step::Eval { file: Some(f), mode, .. } => format!("evaluate_file[{mode}] {f}"),
		Step::Eval { file: None, code, mode } => format!("evaluate_snippet[{mode}] {code}"),
	}
}

fn hist_files_json(dir: &Path, files: &[HFile]) -> Value {
	let mut m = serde_json::Map::new();
	for f in files {
		m.insert(f.name.clone(), json!(fs::read_to_string(dir.join(&f.name)).unwrap_or_default()));
	}
	Value::Object(m)
}

/// search paths grow while the State lives
#[derive(Acyclic)]
struct GrowingResolver {
	inner: RefCell<FileImportResolver>,
}
impl ImportResolver for GrowingResolver {
	fn resolve_from(&self, from: &SourcePath, path: &dyn AsPathLike) -> JrResult<SourcePath> {
		self.inner.borrow().resolve_from(from, path)
	}
	fn resolve_from_default(&self, path: &dyn AsPathLike) -> JrResult<SourcePath> {
		self.inner.borrow().resolve_from_default(path)
	}
	fn load_file_contents(&self, resolved: &SourcePath) -> JrResult<Vec<u8>> {
		self.inner.borrow().load_file_contents(resolved)
	}
}

fn tla_arg(v: &VarOpt) -> TlaArg {
	match v.fl {
		"str" => TlaArg::String(v.payload.as_str().into()),
		"str-file" => TlaArg::ImportStr(v.payload.clone()),
		"code" => TlaArg::InlineCode(v.payload.clone()),
		_ => TlaArg::Import(v.payload.clone()),
	}
}

fn cli_args_at(st: &HSettings, file: &Option<String>, code: &str) -> Vec<String> {
	let mut args: Vec<String> = vec![];
	args.extend(st.ext.iter().flat_map(|v| v.args("ext")));
	args.extend(st.tla.iter().flat_map(|v| v.args("tla")));
	for j in &st.jpath {
		args.push("-J".into());
		args.push(j.clone());
	}
	args.push("-s".into());
	args.push(st.stack.unwrap_or(200).to_string());
	match file {
		Some(f) => args.push(f.clone()),
		None => {
			args.push("-e".into());
			args.push(code.to_owned());
		}
	}
	args
}

fn run_hist(opts: &Opts) {
	let mut w = CaseWriter::new(&opts.out);
	let mut rng = Rng::new(opts.seed ^ 0x15_4157);
	let driver = match build_c_driver(&opts.out) {
		Ok(d) => d,
		Err(e) => {
			eprintln!("cannot build the C driver: {e}");
			std::process::exit(3);
		}
	};
	let exe = bin("jrsonnet");
	let root = opts.out.join("fs");
	let _ = fs::remove_dir_all(&root);
	fs::create_dir_all(&root).expect("mkdir");
	let root = root.canonicalize().expect("canon");
	let mut hist = BTreeMap::<String, usize>::new();
	let t_all = std::time::Instant::now();
	let n_capi = if opts.thorough() { 500 } else { 70 };
	let n_rust = if opts.thorough() { 160 } else { 22 };
	// ---- phase 1: histories, their file trees, the process jobs ----
	let mut hs: Vec<(bool, PathBuf, History)> = vec![];
	// (program, arguments, directory)
	let mut jobs: Vec<(PathBuf, Vec<String>, PathBuf)> = vec![];
	// job index of history `hi`'s driver run / of each evaluation step of a Rust-API history
	let mut job_of: Vec<Vec<usize>> = vec![];
	for hi in 0..n_capi + n_rust {
		let capi = hi < n_capi;
		let h = gen_history(&mut rng, capi);
		let dir = root.join(format!("{}{hi}", if capi { "c" } else { "r" }));
		write_hist_tree(&dir, &h.files);
		let mut mine = vec![];
		if capi {
			let mut script = String::new();
			for s in &h.steps {
				let line = match s {
					Step::Ext { name, code, payload } => format!("{} {} {}\n", if *code { "extcode" } else { "extvar" }, hex(name), hex(payload)),
					Step::Tla { name, code, payload } => format!("{} {} {}\n", if *code { "tlacode" } else { "tlavar" }, hex(name), hex(payload)),
					Step::Jpath(d) => format!("jpath {}\n", hex(&dir.join(d).to_string_lossy())),
					Step::Stack(n) => format!("maxstack {n}\n"),
					Step::Natives => "native\n".to_owned(),
					Step::StringOut(b) => format!("stringout {}\n", u8::from(*b)),
					Step::NewVm => "newvm\n".to_owned(),
					Step::Eval { file: Some(f), mode, .. } => format!("file {} {mode}\n", hex(&dir.join(f).to_string_lossy())),
					Step::Eval { file: None, code, mode } => format!("snippet {} {} {mode}\n", hex("snip"), hex(code)),
				};
				script.push_str(&line);
			}
			let sfile = dir.join("script.txt");
			fs::write(&sfile, &script).expect("script");
			mine.push(jobs.len());
			jobs.push((driver.clone(), vec![sfile.to_string_lossy().to_string()], dir.clone()));
		} else {
			let mut st = HSettings::default();
			for s in &h.steps {
				st.apply(s);
				if let Step::Eval { file, code, .. } = s {
					mine.push(jobs.len());
					jobs.push((exe.clone(), cli_args_at(&st, file, code), dir.clone()));
				}
			}
		}
		job_of.push(mine);
		hs.push((capi, dir, h));
	}
	// ---- phase 2: the processes (one VM per C API history; one fresh process per Rust-API step) ----
	let t0 = std::time::Instant::now();
	let outputs: Vec<std::process::Output> = std::thread::scope(|sc| {
		let nthreads = 8;
		let handles: Vec<_> = (0..nthreads)
			.map(|t| {
				let jobs = &jobs;
				sc.spawn(move || {
					(0..jobs.len())
						.filter(|i| i % nthreads == t)
						.map(|i| {
							let (prog, args, dir) = &jobs[i];
							let o = Command::new(prog).args(args).current_dir(dir).env_remove("JSONNET_PATH").env("RUST_BACKTRACE", "0").output().expect("run");
							(i, o)
						})
						.collect::<Vec<_>>()
				})
			})
			.collect();
		let mut all: Vec<(usize, std::process::Output)> = handles.into_iter().flat_map(|h| h.join().expect("join")).collect();
		all.sort_by_key(|x| x.0);
		all.into_iter().map(|x| x.1).collect()
	});
	let t_procs = t0.elapsed().as_secs_f64();
	// ---- phase 3: references / the long-lived State, in this process ----
	for (hi, (capi, dir, h)) in hs.iter().enumerate() {
		std::env::set_current_dir(dir).expect("chdir");
		let files_json = hist_files_json(dir, &h.files);
		let mut st = HSettings::default();
		let mut shown: Vec<String> = vec![];
		let mut nev = 0usize;
		let mut failed_before = false;
		if *capi {
			// C API: the VM lived through the whole script; reference = a fresh State per step
			let o = &outputs[job_of[hi][0]];
			let stdout = String::from_utf8_lossy(&o.stdout).to_string();
			let mut rlines = stdout.lines().filter(|l| l.starts_with("R "));
			for s in &h.steps {
				st.apply(s);
				shown.push(step_show(s));
				let Step::Eval { file, code, mode } = s else { continue };
				nev += 1;
				let impl_ans = match rlines.next() {
					Some(l) => {
						let mut it = l.split(' ');
						it.next();
						let err: i64 = it.next().and_then(|e| e.parse().ok()).unwrap_or(-1);
						let raw = unhex(it.next().unwrap_or("-"));
						if err == 0 {
							json!({"err": 0, "raw": raw})
						} else {
							json!({"err": err, "_msg": String::from_utf8_lossy(&raw).chars().take(200).collect::<String>()})
						}
					}
					None => json!({"panic": format!("driver status {:?}: {}", o.status.code(), String::from_utf8_lossy(&o.stderr).chars().take(300).collect::<String>())}),
				};
				let sc = Scenario {
					ext: st.ext.clone(),
					tla: st.tla.clone(),
					jpath: st.jpath.clone(),
					env: None,
					stack: st.stack,
					code: code.clone(),
					as_file: file.is_some(),
					natives: st.natives,
				};
				let main = match file {
					Some(f) => dir.join(f).to_string_lossy().to_string(),
					None => "snip".to_owned(),
				};
				let paths: Vec<PathBuf> = st.jpath.iter().rev().map(|p| dir.join(p)).collect();
				let format: Box<dyn ManifestFormat> = if st.string_out { Box::new(ToStringFormat) } else { Box::new(JsonFormat::default()) };
				let lib = lib_run(&sc, paths, &main, &*format, mode, st.stack.unwrap_or(200));
				let b = |s: &String| -> Vec<u8> { s.as_bytes().to_vec() };
				let out = match lib {
					LibOut::Err | LibOut::ManErr => json!({"err": true}),
					LibOut::Panic(p) => json!({"err": true, "_lib_panic": p}),
					LibOut::Text(t) => json!({"text": b(&t)}),
					LibOut::Kvs(kvs) => json!({"kvs": kvs.iter().map(|(k, v)| json!([b(k), b(v)])).collect::<Vec<_>>()}),
					LibOut::Vs(vs) => json!({"vs": vs.iter().map(b).collect::<Vec<_>>()}),
					LibOut::Fields(_) => unreachable!(),
				};
				let ok = out.get("err").is_none();
				*hist.entry(format!("capi.step.{}", if ok { "ok" } else { "err" })).or_default() += 1;
				if ok && failed_before {
					*hist.entry("capi.ok-after-failure".into()).or_default() += 1;
				}
				failed_before |= !ok;
				*hist.entry(format!("capi.mode.{mode}")).or_default() += 1;
				w.case(
					json!({"op":"capi.frame","mode":mode,"out":out,"size": shown.len() + shown.iter().map(String::len).sum::<usize>() / 40,
						"_history": shown.clone(), "_files": files_json, "_step": nev, "_h": hi}),
					impl_ans,
				);
			}
			*hist.entry(format!("capi.evals.{:02}", nev.min(16))).or_default() += 1;
			continue;
		}
		// Rust API: ONE State for the whole history, used the way the executable uses a State;
		// reference = the fresh process of phase 2
		let ctx = ContextInitializer::new(PathResolver::new_cwd_fallback());
		let mut sb = State::builder();
		sb.import_resolver(GrowingResolver { inner: RefCell::new(FileImportResolver::default()) }).context_initializer(ctx.clone());
		let s = sb.build();
		let format = format_of("json:3");
		for step in &h.steps {
			st.apply(step);
			shown.push(step_show(step));
			match step {
				Step::Ext { name, code, payload } => {
					if *code {
						ctx.add_ext_code(name, payload).expect("ext code");
					} else {
						ctx.add_ext_str(name.as_str().into(), payload.as_str().into());
					}
				}
				Step::Jpath(d) => {
					let r = s.import_resolver() as &dyn std::any::Any;
					r.downcast_ref::<GrowingResolver>().expect("resolver").inner.borrow_mut().add_jpath(dir.join(d));
				}
				_ => {}
			}
			let Step::Eval { file, code, .. } = step else { continue };
			let stack = st.stack.unwrap_or(200);
			let r = guarded(|| -> JrResult<Result<String, ()>> {
				let _entered = s.enter();
				let _limit = limit_stack_depth(stack);
				let val = match file {
					Some(f) => s.import(f.as_str())?,
					None => s.evaluate_snippet("<cmdline>".to_owned(), code.clone())?,
				};
				let mut tla: FxHashMap<IStr, TlaArg> = FxHashMap::default();
				for t in &st.tla {
					tla.insert(t.name.as_str().into(), tla_arg(t));
				}
				let val = apply_tla(&tla, val)?;
				Ok(format.manifest(val).map_err(|_| ()))
			});
			let out = match r {
				Ok(Ok(Ok(t))) => json!({"k":"text","t":t}),
				Ok(Ok(Err(()))) => json!({"k":"manErr"}),
				Ok(Err(e)) => json!({"k":"err","_msg":format!("{}", e.error()).chars().take(200).collect::<String>()}),
				Err(p) => json!({"k":"err","_lib_panic":p}),
			};
			let o = &outputs[job_of[hi][nev]];
			nev += 1;
			let impl_ans = json!({
				"stdout": String::from_utf8_lossy(&o.stdout),
				"stderr": !o.stderr.is_empty(),
				"exit": o.status.code().unwrap_or(-1),
				"files": [],
				"_stderr": String::from_utf8_lossy(&o.stderr).chars().take(300).collect::<String>(),
			});
			let ok = out["k"] == "text";
			*hist.entry(format!("rust.step.{}", if ok { "ok" } else { "err" })).or_default() += 1;
			if ok && failed_before {
				*hist.entry("rust.ok-after-failure".into()).or_default() += 1;
			}
			failed_before |= !ok;
			w.case(
				json!({"op":"cli.render","mode":{"k":"stdout"},"fmt":Fmt::default().json(),"out":out,
					"size": shown.len() + shown.iter().map(String::len).sum::<usize>() / 40,
					"_history": shown.clone(), "_files": files_json, "_args": cli_args_at(&st, file, code), "_step": nev, "_h": hi}),
				impl_ans,
			);
		}
		*hist.entry(format!("rust.evals.{:02}", nev.min(16))).or_default() += 1;
	}
	let n = w.n;
	w.finish(
		json!({"engine":"c15hist","cases":n,"histories_capi":n_capi,"histories_rust":n_rust,"processes":jobs.len(),"hist":hist,
			"_seconds":{"processes_8_threads":t_procs,"total":t_all.elapsed().as_secs_f64()},
			"rule":"histories on ONE libjsonnet VM (C driver, one process per history) and on ONE Rust State: 2-5 generated files whose top-level evaluation forces ext vars (shared and private), search-path imports, recursion against the stack limit, natives and each other; evaluations of files / snippets / imported files / function files that fail at run time (unbound ext var or TLA, failing top-level assert, error, stack limit, unresolvable import, missing native, failing TLA code) followed by one or several settings changes (ext_var/ext_code, tla_var/tla_code, jpath_add, max_stack raised, natives, string_output) and the same evaluation again, plus unchanged repeats, earlier entries again, syntax errors, import cycles, missing files; after every evaluation the VM's bytes equal the framing of a FRESH State's result for the settings in force (capi.frame) and the State's result equals a FRESH jrsonnet process's stdout/exit/stderr (cli.render)"}),
		&opts.out,
	);
}

pub fn run(opts: &Opts) {
	match opts.engine.as_str() {
		"c15run" => run_cli(opts),
		"c15capi" => run_capi(opts),
		"c15deps" => run_deps(opts),
		"c15hist" => run_hist(opts),
		_ => run_plumb(opts),
	}
}
