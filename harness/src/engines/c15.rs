//! C15 — command line, Rust API, C API and dependency lister agree.
//!
//! Sub-engines (selected by the engine name):
//! * `c15`      option plumbing: the REAL clap structs of `jrsonnet-cli` (`StdOpts`, `TlaOpts`,
//!              `MiscOpts`, `ManifestOpts`) parse generated command lines in-process; the resulting
//!              ext-var table, TLA map, resolver search order (probed through `resolve_from`),
//!              manifest format (identified by behaviour against directly constructed formats) and
//!              stack limit (probed through `check_depth`) are written next to `cli.plumb`.
//! * `c15run`   the `jrsonnet` executable vs the library API driven directly (no `jrsonnet-cli`)
//!              for generated programs x option combinations; the executable's stdout / exit /
//!              stderr / written files are written next to `cli.render`, whose input is the
//!              library's outcome.
//! * `c15capi`  `libjsonnet.so` driven by `c15_capi.c` (compiled with gcc against
//!              bindings/c/libjsonnet.h) vs the library API; the raw bytes a C consumer reads are
//!              written next to `capi.frame`.
//! * `c15deps`  `jrsonnet-deps` on generated import graphs vs `deps.run` (DFS model + closure
//!              spec); the files an in-process evaluation loads are recorded and must be listed.
use std::{
	cell::RefCell,
	collections::{BTreeMap, HashMap},
	fs,
	path::{Path, PathBuf},
	process::Command,
};

use clap::Parser;
use jrsonnet_cli::{ManifestOpts, MiscOpts, StdOpts, TlaOpts};
use jrsonnet_evaluator::{
	apply_tla,
	error::{Error, ErrorKind},
	function::builtin::{NativeCallback, NativeCallbackHandler},
	manifest::{JsonFormat, ManifestFormat, StringFormat, ToStringFormat, YamlStreamFormat},
	rustc_hash::FxHashMap,
	stack::{check_depth, limit_stack_depth},
	tla::TlaArg,
	trace::PathResolver,
	val::ArrValue,
	AsPathLike, FileImportResolver, IStr, ImportResolver, ObjValue, Result as JrResult, State, Thunk, Val,
};
use jrsonnet_gcmodule::{Acyclic, Trace};
use jrsonnet_ir::{SourceDirectory, SourcePath};
use jrsonnet_stdlib::{ContextInitializer, IniFormat, TomlFormat, XmlJsonmlFormat, YamlFormat};
use serde_json::{json, Value};

use crate::common::{guarded, CaseWriter, Opts, Rng};

const FLAVOURS: [&str; 4] = ["str", "str-file", "code", "code-file"];

#[derive(Clone, Debug)]
struct VarOpt {
	fl: &'static str,
	name: String,
	payload: String,
	/// given as `--ext-str NAME` (value from the environment variable NAME)
	from_env: bool,
}
impl VarOpt {
	fn json(&self) -> Value {
		json!({"f": self.fl, "n": self.name, "p": self.payload})
	}
	fn args(&self, prefix: &str) -> Vec<String> {
		vec![
			format!("--{prefix}-{}", self.fl),
			if self.from_env { self.name.clone() } else { format!("{}={}", self.name, self.payload) },
		]
	}
}

#[derive(Clone, Debug, Default)]
struct Fmt {
	f: Option<&'static str>,
	s: bool,
	y: bool,
	pad: Option<usize>,
}
impl Fmt {
	fn json(&self) -> Value {
		json!({"f": self.f, "S": self.s, "y": self.y, "pad": self.pad})
	}
	fn args(&self) -> Vec<String> {
		let mut a = vec![];
		if let Some(f) = self.f {
			a.push("-f".to_owned());
			a.push(f.to_owned());
		}
		if self.s {
			a.push("-S".to_owned());
		}
		if self.y {
			a.push("-y".to_owned());
		}
		if let Some(p) = self.pad {
			a.push("--line-padding".to_owned());
			a.push(p.to_string());
		}
		a
	}
	fn accepted(&self) -> bool {
		!(self.s && self.f.is_some()) && !(self.y && self.s)
	}
}

fn gen_fmt(rng: &mut Rng) -> Fmt {
	const NAMES: [&str; 6] = ["string", "json", "yaml", "toml", "xml-jsonml", "ini"];
	Fmt {
		f: if rng.chance(1, 2) { Some(*rng.pick(&NAMES)) } else { None },
		s: rng.chance(1, 5),
		y: rng.chance(1, 4),
		pad: if rng.chance(1, 3) { Some(*rng.pick(&[0usize, 1, 2, 3, 4, 7])) } else { None },
	}
}

/// the format a descriptor names, constructed directly (reference side; no jrsonnet-cli)
fn format_of(desc: &str) -> Box<dyn ManifestFormat> {
	if let Some(inner) = desc.strip_prefix("stream(").and_then(|d| d.strip_suffix(')')) {
		return Box::new(YamlStreamFormat::cli(format_of(inner)));
	}
	let (name, pad) = match desc.split_once(':') {
		Some((n, p)) => (n, p.parse::<usize>().expect("pad")),
		None => (desc, 0),
	};
	match name {
		"string" => Box::new(StringFormat),
		"tostring" => Box::new(ToStringFormat),
		"json" => Box::new(JsonFormat::cli(pad)),
		"yaml" => Box::new(YamlFormat::cli(pad)),
		"toml" => Box::new(TomlFormat::cli(pad)),
		"xml" => Box::new(XmlJsonmlFormat::cli()),
		"ini" => Box::new(IniFormat::cli()),
		_ => panic!("descriptor {desc}"),
	}
}

/// reference reading of the output-mode flags (what each flag is documented to select)
fn ref_format_desc(f: &Fmt) -> String {
	let base = if f.s {
		"string".to_owned()
	} else {
		match f.f.unwrap_or(if f.y { "yaml" } else { "json" }) {
			"string" => "tostring".to_owned(),
			"json" => format!("json:{}", f.pad.unwrap_or(3)),
			"yaml" => format!("yaml:{}", f.pad.unwrap_or(2)),
			"toml" => format!("toml:{}", f.pad.unwrap_or(2)),
			"xml-jsonml" => "xml".to_owned(),
			"ini" => "ini".to_owned(),
			o => panic!("format {o}"),
		}
	};
	if f.y {
		format!("stream({base})")
	} else {
		base
	}
}

fn candidates() -> Vec<String> {
	let mut base = vec!["string".to_owned(), "tostring".to_owned(), "xml".to_owned(), "ini".to_owned()];
	for k in ["json", "yaml", "toml"] {
		for p in 0..=8 {
			base.push(format!("{k}:{p}"));
		}
	}
	let mut all = base.clone();
	all.extend(base.iter().map(|b| format!("stream({b})")));
	all
}

const PROBES: [&str; 10] = [
	r#"[{t: {u: [{v: [1, 2]}, {v: {w: [[1], [2]]}}]}, z: [[1, 2], [3]]}]"#,
	r#"["s1", "s2"]"#,
	r#"[["a", {x: "1"}, "t"], ["b"]]"#,
	r#"{a: [1, {b: "x", c: [2, [3]]}], d: {e: null, f: {g: true}}}"#,
	r#""str""#,
	r#"[{a: {b: [1, {c: 2}]}}, [2, [3]], "s"]"#,
	r#"{main: {a: "1"}, sections: {s: {k: "v"}}}"#,
	r#"["a", {x: "1"}, "t", ["b", "u"]]"#,
	r#"{t: {u: [{v: [1, 2]}, {v: {w: [[1], [2]]}}]}, z: [[1, 2], [3]]}"#,
	r#"[[{a: [{b: 1}]}]]"#,
];

fn signature(s: &State, f: &dyn ManifestFormat) -> Vec<String> {
	let mut out = vec![format!("nl={}", f.file_trailing_newline())];
	for p in PROBES {
		let r = guarded(|| -> JrResult<String> {
			let v = s.evaluate_snippet("<probe>".to_owned(), p.to_owned())?;
			f.manifest(v)
		});
		out.push(match r {
			Ok(Ok(t)) => format!("ok:{t}"),
			Ok(Err(_)) => "err".to_owned(),
			Err(_) => "panic".to_owned(),
		});
	}
	out
}

fn plain_state() -> State {
	let mut s = State::builder();
	s.context_initializer(ContextInitializer::new(PathResolver::new_cwd_fallback()));
	s.build()
}

fn argv(args: &[String]) -> Vec<String> {
	let mut v = vec!["prog".to_owned()];
	v.extend(args.iter().cloned());
	v
}

fn show_arg(a: Option<&TlaArg>, name: &str) -> Value {
	match a {
		None => json!([name, "unset", ""]),
		Some(TlaArg::String(s)) => json!([name, "String", s.to_string()]),
		Some(TlaArg::ImportStr(p)) => json!([name, "ImportStr", p]),
		Some(TlaArg::InlineCode(p)) => json!([name, "InlineCode", p]),
		Some(TlaArg::Import(p)) => json!([name, "Import", p]),
		Some(_) => json!([name, "other", ""]),
	}
}

fn gen_name(rng: &mut Rng) -> String {
	(*rng.pick(&["a", "b", "c", "VAR_X", "n", "p1", "p2", "long_name_1"])).to_owned()
}
fn gen_payload(rng: &mut Rng) -> String {
	(*rng.pick(&[
		"", "v", "1", "a=b", "=", "{x: 1}", "/tmp/f.txt", "rel/p.jsonnet", "é ü", "x y", "name", "a", "\"q\"", "1 + 2",
	]))
	.to_owned()
}

fn gen_vars(rng: &mut Rng, max: usize, allow_env: bool) -> Vec<VarOpt> {
	let n = rng.below(max + 1);
	(0..n)
		.map(|_| {
			let fl = *rng.pick(&FLAVOURS);
			let from_env = allow_env && (fl == "str" || fl == "code") && rng.chance(1, 8);
			let name = gen_name(rng);
			// one environment variable per name: its value cannot differ between two options
			let payload = if from_env { format!("from env {name}=1") } else { gen_payload(rng) };
			VarOpt { fl, name, payload, from_env }
		})
		.collect()
}

fn set_envs(vars: &[VarOpt]) {
	for v in vars {
		if v.from_env {
			std::env::set_var(&v.name, &v.payload);
		}
	}
}
fn clear_envs(vars: &[VarOpt]) {
	for v in vars {
		if v.from_env {
			std::env::remove_var(&v.name);
		}
	}
}

/// order in which a resolver searches the probe directories
fn probe_order(r: &dyn ImportResolver, root: &Path, ndirs: usize) -> Vec<String> {
	let from = SourcePath::new(SourceDirectory::new(root.join("empty")));
	let mut order = vec![];
	let mut removed = vec![];
	for _ in 0..=ndirs {
		match r.resolve_from(&from, &"probe") {
			Ok(p) => {
				let path = PathBuf::from(format!("{p}"));
				let dir = path.parent().and_then(|d| d.file_name()).map(|d| d.to_string_lossy().to_string());
				order.push(dir.unwrap_or_default());
				fs::remove_file(&path).expect("rm probe");
				removed.push(path);
			}
			Err(_) => break,
		}
	}
	for p in removed {
		fs::write(p, "x").expect("restore probe");
	}
	order
}

fn stack_limit_now() -> usize {
	let mut guards = Vec::new();
	while let Ok(g) = check_depth() {
		guards.push(g);
		if guards.len() > 2_000_000 {
			break;
		}
	}
	guards.len()
}

fn run_plumb(opts: &Opts) {
	let mut w = CaseWriter::new(&opts.out);
	let mut rng = Rng::new(opts.seed ^ 0x15);
	let root = opts.out.join("fs");
	let _ = fs::remove_dir_all(&root);
	const NDIRS: usize = 5;
	fs::create_dir_all(root.join("empty")).expect("mkdir");
	for i in 0..NDIRS {
		fs::create_dir_all(root.join(format!("d{i}"))).expect("mkdir");
		fs::write(root.join(format!("d{i}/probe")), "x").expect("probe");
	}
	let st = plain_state();
	// candidate formats, by behaviour
	let cands = candidates();
	let mut by_sig: HashMap<Vec<String>, String> = HashMap::new();
	for c in &cands {
		let sig = signature(&st, &*format_of(c));
		if let Some(prev) = by_sig.insert(sig, c.clone()) {
			panic!("format probes cannot tell {prev} from {c}");
		}
	}
	let mut hist = BTreeMap::<String, usize>::new();
	let n = if opts.thorough() { 20000 } else { 2500 };
	for i in 0..n {
		let ext = gen_vars(&mut rng, if i % 7 == 0 { 8 } else { 4 }, true);
		let tla = gen_vars(&mut rng, if i % 5 == 0 { 8 } else { 3 }, true);
		let njp = rng.below(4);
		let jpath: Vec<usize> = (0..njp).map(|_| rng.below(NDIRS)).collect();
		let env: Option<Vec<usize>> = if rng.chance(1, 3) { Some((0..rng.below(3)).map(|_| rng.below(NDIRS)).collect()) } else { None };
		let fmt = gen_fmt(&mut rng);
		let stack: Option<usize> = if rng.chance(1, 2) { Some(*rng.pick(&[0usize, 1, 2, 5, 199, 200, 201, 512, 1000, 65536])) } else { None };
		let mut names: Vec<String> = ext.iter().chain(tla.iter()).map(|v| v.name.clone()).collect();
		names.push("absent".to_owned());
		names.sort();
		names.dedup();

		// ---- the real option structs ----
		set_envs(&ext);
		let ext_args: Vec<String> = ext.iter().flat_map(|v| v.args("ext")).collect();
		let ext_ans = match StdOpts::try_parse_from(argv(&ext_args)) {
			Ok(o) => match o.context_initializer() {
				Ok(Some(ctx)) => {
					let s = ctx.settings();
					Value::Array(names.iter().map(|n| show_arg(s.ext_vars.get(&IStr::from(n.as_str())), n)).collect())
				}
				_ => json!("no-initializer"),
			},
			Err(_) => json!("reject"),
		};
		clear_envs(&ext);
		set_envs(&tla);
		let tla_args: Vec<String> = tla.iter().flat_map(|v| v.args("tla")).collect();
		let tla_ans = match TlaOpts::try_parse_from(argv(&tla_args)) {
			Ok(o) => match o.tla_opts() {
				Ok(m) => Value::Array(names.iter().map(|n| show_arg(m.get(&IStr::from(n.as_str())), n)).collect()),
				Err(_) => json!("error"),
			},
			Err(_) => json!("reject"),
		};
		clear_envs(&tla);

		let dirname = |i: &usize| format!("d{i}");
		let mut misc_args = vec![];
		for j in &jpath {
			misc_args.push("-J".to_owned());
			misc_args.push(root.join(dirname(j)).to_string_lossy().to_string());
		}
		if let Some(s) = stack {
			misc_args.push(if rng.chance(1, 2) { "-s".to_owned() } else { "--max-stack".to_owned() });
			misc_args.push(s.to_string());
		}
		match &env {
			Some(e) => std::env::set_var(
				"JSONNET_PATH",
				std::env::join_paths(e.iter().map(|i| root.join(dirname(i)))).expect("join"),
			),
			None => std::env::remove_var("JSONNET_PATH"),
		}
		let (paths_ans, stack_ans) = match MiscOpts::try_parse_from(argv(&misc_args)) {
			Ok(m) => {
				let r = m.import_resolver();
				let order = probe_order(&r, &root, NDIRS);
				let before = stack_limit_now();
				let lim = {
					let _g = m.stack_size_override();
					stack_limit_now()
				};
				assert_eq!(before, stack_limit_now(), "stack override guard restores the limit");
				(json!(order), json!(lim))
			}
			Err(_) => (json!("reject"), json!("reject")),
		};
		std::env::remove_var("JSONNET_PATH");
		// C API flavour of the same -J list: FileImportResolver::add_jpath once per path
		let capi_paths = {
			let mut r = FileImportResolver::default();
			for j in &jpath {
				r.add_jpath(root.join(dirname(j)));
			}
			probe_order(&r, &root, NDIRS)
		};
		let fmt_ans = match ManifestOpts::try_parse_from(argv(&fmt.args())) {
			Ok(m) => {
				let f = m.manifest_format();
				match by_sig.get(&signature(&st, &*f)) {
					Some(d) => json!(d),
					None => json!("unknown-format"),
				}
			}
			Err(_) => json!("reject"),
		};
		*hist.entry(format!("ext{}", ext.len().min(5))).or_default() += 1;
		*hist.entry(format!("tla{}", tla.len().min(5))).or_default() += 1;
		*hist.entry(format!("jpath{njp}")).or_default() += 1;
		*hist.entry(format!("fmt.{}", if fmt.accepted() { ref_format_desc(&fmt) } else { "reject".into() })).or_default() += 1;
		if ext.iter().chain(tla.iter()).any(|v| v.from_env) {
			*hist.entry("from-env".into()).or_default() += 1;
		}
		let size = ext.len() + tla.len() + jpath.len() + 1;
		w.case(
			json!({"op":"cli.plumb",
				"ext": ext.iter().map(VarOpt::json).collect::<Vec<_>>(),
				"tla": tla.iter().map(VarOpt::json).collect::<Vec<_>>(),
				"names": names,
				"jpath": jpath.iter().map(dirname).collect::<Vec<_>>(),
				"env": env.clone().unwrap_or_default().iter().map(dirname).collect::<Vec<_>>(),
				"fmt": fmt.json(), "stack": stack, "size": size,
				"_args": [ext_args, tla_args, fmt.args()]}),
			json!({"ext": ext_ans, "tla": tla_ans, "paths": paths_ans, "capi_paths": capi_paths,
				"fmt": fmt_ans, "stack": stack_ans}),
		);
	}
	w.finish(
		json!({"engine":"c15","cases":n,"hist":hist,
			"rule":"random option lists (0-8 ext, 0-8 tla, all four flavours, repeated names, value from environment, `=` inside values), 0-3 -J out of 5 dirs with repeats, JSONNET_PATH unset/0-2 entries, every -f/-S/-y/--line-padding combination incl. conflicting ones, boundary --max-stack values; parsed by the real clap structs"}),
		&opts.out,
	);
}

// ------------------------------------------------------------------------------------------------
// programs + configurations shared by the executable and the C API runs

#[derive(Clone, Debug)]
struct Scenario {
	ext: Vec<VarOpt>,
	tla: Vec<VarOpt>,
	jpath: Vec<String>,
	env: Option<Vec<String>>,
	stack: Option<usize>,
	code: String,
	as_file: bool,
	natives: bool,
}

fn write_tree(dir: &Path) {
	let _ = fs::remove_dir_all(dir);
	for (p, c) in [
		("libA/shared.libsonnet", "{ from: 'libA' }"),
		("libB/shared.libsonnet", "{ from: 'libB' }"),
		("libC/shared.libsonnet", "{ from: 'libC', nested: import 'onlyA.libsonnet' }"),
		("libA/onlyA.libsonnet", "{ only: 'A', data: importstr 'data.txt' }"),
		("libA/data.txt", "data from libA\n"),
		("data.txt", "data next to main\n"),
		("str.txt", "text \"with\" quotes\nand é\n"),
		("code.jsonnet", "{ k: 1 + 2, s: importstr 'data.txt' }"),
		("fn.jsonnet", "function(x=1) { x: x }"),
		("inc/nested.libsonnet", "{ up: importstr '../data.txt', lib: import 'shared.libsonnet' }"),
		("bad.jsonnet", "{ a: "),
		("out/.keep", ""),
	] {
		let f = dir.join(p);
		fs::create_dir_all(f.parent().expect("parent")).expect("mkdir");
		fs::write(f, c).expect("write");
	}
}

/// mostly a working payload, sometimes a failing one
fn pick_w(rng: &mut Rng, good: &[&'static str], bad: &[&'static str]) -> String {
	if rng.chance(1, 12) {
		(*rng.pick(bad)).to_owned()
	} else {
		(*rng.pick(good)).to_owned()
	}
}

fn gen_scenario(rng: &mut Rng, capi: bool) -> Scenario {
	let names = ["a", "b", "VAR_X"];
	let mut ext = vec![];
	for n in names {
		if rng.chance(1, 2) {
			let fl = if capi { *rng.pick(&["str", "code"]) } else { *rng.pick(&FLAVOURS) };
			let payload = match fl {
				"str" => (*rng.pick(&["v", "", "é=ü", "multi\nline"])).to_owned(),
				"code" => pick_w(rng, &["1 + 2", "{ x: [1, 2] }", "import 'libA/shared.libsonnet'", "importstr 'data.txt'", "'s'"], &["error 'ext boom'", "{ a: ", "import 'shared.libsonnet'"]),
				"str-file" => pick_w(rng, &["str.txt", "data.txt", "libA/data.txt", "./inc/../str.txt"], &["missing.txt"]),
				_ => pick_w(rng, &["code.jsonnet", "fn.jsonnet", "libA/shared.libsonnet", "./code.jsonnet"], &["missing.jsonnet", "bad.jsonnet", "inc/nested.libsonnet"]),
			};
			let from_env = !capi && (fl == "str" || fl == "code") && n == "VAR_X" && !payload.is_empty() && rng.chance(1, 3);
			ext.push(VarOpt { fl, name: n.to_owned(), payload, from_env });
		}
	}
	if rng.chance(1, 6) && !ext.is_empty() {
		// the same name under a second flavour
		let mut o = ext[rng.below(ext.len())].clone();
		o.fl = if capi { "str" } else { *rng.pick(&FLAVOURS) };
		o.payload = if o.fl == "str" || o.fl == "code" { "'dup'".to_owned() } else { "str.txt".to_owned() };
		o.from_env = false;
		ext.push(o);
	}
	// program
	let mut fields: Vec<String> = vec![];
	for n in names {
		if ext.iter().any(|e| e.name == n) || rng.chance(1, 40) {
			fields.push(format!("e_{n}: std.extVar('{n}')"));
		}
	}
	let njp = rng.below(4);
	let mut jpath: Vec<String> = (0..njp).map(|_| (*rng.pick(&["libA", "libB", "libC", "libA", "libB", "libC", "nowhere"])).to_owned()).collect();
	let env: Option<Vec<String>> = if !capi && rng.chance(1, 4) {
		Some((0..rng.below(3)).map(|_| (*rng.pick(&["libA", "libB", "libC"])).to_owned()).collect())
	} else {
		None
	};
	if rng.chance(1, 4) {
		jpath = jpath.into_iter().map(|p| format!("./{p}/")).collect();
	}
	let has_lib = jpath.iter().any(|p| p.contains("lib")) || env.as_ref().is_some_and(|e| !e.is_empty());
	if has_lib || rng.chance(1, 16) {
		fields.push("imp: import 'shared.libsonnet'".to_owned());
	}
	if (has_lib && rng.chance(1, 2)) || rng.chance(1, 20) {
		fields.push("nested: import 'inc/nested.libsonnet'".to_owned());
	}
	if rng.chance(1, 4) {
		fields.push("str: importstr 'data.txt'".to_owned());
	}
	if rng.chance(1, 6) {
		fields.push("bin: importbin 'data.txt'".to_owned());
	}
	let mut stack = None;
	if rng.chance(1, 4) {
		let depth = *rng.pick(&[3usize, 10, 40, 120]);
		fields.push(format!("rec: (local f(n) = if n == 0 then 0 else 1 + f(n - 1); f({depth}))"));
		if rng.chance(2, 3) {
			// around the depth the program needs: a few frames below .. comfortably above
			stack = Some(depth + *rng.pick(&[0usize, 2, 3, 4, 5, 6, 8, 12, 30, 100]));
		}
	} else if rng.chance(1, 6) {
		stack = Some(*rng.pick(&[1usize, 2, 50, 512]));
	}
	if rng.chance(1, 30) {
		fields.push("boom: error 'boom'".to_owned());
	}
	if rng.chance(1, 5) {
		fields.push("num: [0.1, 1e100, -0, 3]".to_owned());
	}
	if rng.chance(1, 5) {
		fields.push("txt: 'é \"q\" \\n tab\\t'".to_owned());
	}
	if capi && rng.chance(2, 3) {
		for f in [
			"n_add: std.native('nativeAdd')(2, 3.5)",
			"n_cat: std.native('nativeCat')('x', 'é')",
			"n_mk: std.native('nativeMk')(4)",
			"n_mk2: std.native('nativeMk')(null)",
			"n_missing: std.native('nope')",
		] {
			if rng.chance(1, 2) {
				fields.push(f.to_owned());
			}
		}
		if rng.chance(1, 20) {
			fields.push("n_fail: std.native('nativeFail')(1)".to_owned());
		}
		if rng.chance(1, 20) {
			fields.push("n_bad: std.native('nativeAdd')('x', 1)".to_owned());
		}
	}
	// top level arguments: only names the function has (extra arguments are C04's business)
	let mut tla = vec![];
	let mut params = vec![];
	if rng.chance(1, 2) {
		let p1_default = rng.chance(1, 2);
		params.push(if p1_default { "p1='d1'".to_owned() } else { "p1".to_owned() });
		if rng.chance(1, 2) {
			params.push("p2={ d: 2 }".to_owned());
		}
		fields.push("t1: p1".to_owned());
		if params.len() > 1 {
			fields.push("t2: p2".to_owned());
		}
		for (i, p) in ["p1", "p2"].iter().enumerate() {
			if i < params.len() && (rng.chance(2, 3) || (i == 0 && !p1_default && rng.chance(15, 16))) {
				let fl = if capi { *rng.pick(&["str", "code"]) } else { *rng.pick(&FLAVOURS) };
				let payload = match fl {
					"str" => (*rng.pick(&["tv", "", "x=y"])).to_owned(),
					"code" => pick_w(rng, &["[1, 2]", "import 'libB/shared.libsonnet'", "{ t: 1 }", "'s' + 't'"], &["error 'tla boom'", "std.extVar('nope')", "import 'shared.libsonnet'"]),
					"str-file" => pick_w(rng, &["str.txt", "data.txt", "libA/data.txt"], &["missing.txt"]),
					_ => pick_w(rng, &["code.jsonnet", "fn.jsonnet", "libC/../libB/shared.libsonnet"], &["missing.jsonnet", "bad.jsonnet"]),
				};
				tla.push(VarOpt { fl, name: (*p).to_owned(), payload, from_env: false });
			}
		}
	} else if rng.chance(1, 6) {
		// TLA given although the program is not a function: ignored
		tla.push(VarOpt { fl: "str", name: "p1".to_owned(), payload: "unused".to_owned(), from_env: false });
	}
	let obj = format!("{{ {} }}", fields.join(", "));
	let code = if params.is_empty() { obj } else { format!("function({}) {obj}", params.join(", ")) };
	Scenario { ext, tla, jpath, env, stack, code, as_file: rng.chance(1, 2), natives: capi && rng.chance(5, 6) }
}

/// wrap the program's object according to the shape an output mode wants
fn shape(rng: &mut Rng, code: &str, want: &str) -> String {
	let (head, body) = match code.find(") {") {
		Some(i) if code.starts_with("function(") => (&code[..=i], &code[i + 2..]),
		_ => ("", code),
	};
	let b = match want {
		"string" => match rng.below(4) {
			0 => format!("std.manifestJsonMinified({body})"),
			1 => "'plain text\\n'".to_owned(),
			2 => "''".to_owned(),
			_ => format!("std.toString({body})"),
		},
		"array" => match rng.below(3) {
			0 => format!("[{body}, 1, 's']"),
			1 => "[]".to_owned(),
			_ => format!("[{body}]"),
		},
		"files" => match rng.below(4) {
			0 => format!("{{ 'a.json': {body}, 'b.txt': 'text' }}"),
			1 => "{}".to_owned(),
			2 => format!("{{ 'z.json': {body}, 'm.json': [1], 'e.json': error 'field boom', 'a.json': 1 }}"),
			_ => format!("{{ 'one.json': {body} }}"),
		},
		"strfiles" => match rng.below(3) {
			0 => format!("{{ 'a.txt': std.toString({body}), 'b.txt': '' }}"),
			1 => format!("{{ 'a.txt': 'x', 'b.txt': {body} }}"),
			_ => "{ 'only.txt': 'é\\n' }".to_owned(),
		},
		"arrfiles" => format!("{{ 'a.yaml': [{body}, 2], 'b.yaml': [] }}"),
		"wrong" => "42".to_owned(),
		_ => body.to_owned(),
	};
	format!("{head} {b}")
}

#[derive(Trace)]
struct RsNative(u8);
impl NativeCallbackHandler for RsNative {
	fn call(&self, args: &[Val]) -> Result<Val, Error> {
		let fail = |m: &str| -> Result<Val, Error> { Err(ErrorKind::RuntimeError(m.into()).into()) };
		match self.0 {
			0 => match (&args[0], &args[1]) {
				(Val::Num(a), Val::Num(b)) => Ok(Val::Num(jrsonnet_evaluator::val::NumValue::new(a.get() + b.get()).expect("finite"))),
				_ => fail("nativeAdd: not a number"),
			},
			1 => match (args[0].as_str(), args[1].as_str()) {
				(Some(a), Some(b)) => Ok(Val::string(format!("{a}{b}"))),
				_ => fail("nativeCat: not a string"),
			},
			2 => fail("native failure"),
			_ => {
				let a = &args[0];
				let e1 = match a {
					Val::Num(n) => Val::Num(jrsonnet_evaluator::val::NumValue::new(n.get() * 2.0).expect("finite")),
					_ => Val::Null,
				};
				let e2 = Val::Bool(!matches!(a, Val::Bool(_)));
				let e3 = Val::Bool(matches!(a, Val::Null));
				let arr = Val::Arr(ArrValue::lazy(vec![Thunk::evaluated(e1), Thunk::evaluated(e2), Thunk::evaluated(e3)]));
				let mut obj = ObjValue::empty();
				obj.extend_field("k".into()).value(arr);
				obj.extend_field("s".into()).value(Val::string("v"));
				Ok(Val::Obj(obj))
			}
		}
	}
}

enum LibOut {
	Err,
	ManErr,
	Panic(String),
	Text(String),
	Fields(Vec<(String, &'static str, String)>),
	Kvs(Vec<(String, String)>),
	Vs(Vec<String>),
}

/// the reference side: the library API used directly for the configuration
#[allow(deprecated)]
fn lib_run(sc: &Scenario, paths: Vec<PathBuf>, main: &str, format: &dyn ManifestFormat, mode: &str, stack: usize) -> LibOut {
	let r = guarded(|| -> JrResult<LibOut> {
		let ctx = ContextInitializer::new(PathResolver::new_cwd_fallback());
		// strongest flavour last, like every jsonnet command line: file flavours override inline ones
		for fl in FLAVOURS {
			for e in sc.ext.iter().filter(|e| e.fl == fl) {
				let v = match fl {
					"str" => TlaArg::String(e.payload.as_str().into()),
					"str-file" => TlaArg::ImportStr(e.payload.clone()),
					"code" => TlaArg::InlineCode(e.payload.clone()),
					_ => TlaArg::Import(e.payload.clone()),
				};
				ctx.settings_mut().ext_vars.insert(e.name.as_str().into(), v);
			}
		}
		if sc.natives {
			ctx.add_native("nativeAdd", NativeCallback::new(vec!["a".into(), "b".into()], RsNative(0)));
			ctx.add_native("nativeCat", NativeCallback::new(vec!["a".into(), "b".into()], RsNative(1)));
			ctx.add_native("nativeFail", NativeCallback::new(vec!["a".into()], RsNative(2)));
			ctx.add_native("nativeMk", NativeCallback::new(vec!["a".into()], RsNative(3)));
		}
		let mut sb = State::builder();
		sb.import_resolver(FileImportResolver::new(paths)).context_initializer(ctx);
		let s = sb.build();
		let _entered = s.enter();
		let _limit = limit_stack_depth(stack);
		let val = if sc.as_file { s.import(main)? } else { s.evaluate_snippet(main.to_owned(), sc.code.clone())? };
		let mut tla: FxHashMap<IStr, TlaArg> = FxHashMap::default();
		for fl in FLAVOURS {
			for e in sc.tla.iter().filter(|e| e.fl == fl) {
				let v = match fl {
					"str" => TlaArg::String(e.payload.as_str().into()),
					"str-file" => TlaArg::ImportStr(e.payload.clone()),
					"code" => TlaArg::InlineCode(e.payload.clone()),
					_ => TlaArg::Import(e.payload.clone()),
				};
				tla.insert(e.name.as_str().into(), v);
			}
		}
		let val = apply_tla(&tla, val)?;
		Ok(match mode {
			"cli-multi" => {
				let Val::Obj(o) = val else { return Ok(LibOut::Err) };
				let mut fs = vec![];
				for (k, v) in o.iter() {
					match v {
						Err(_) => {
							fs.push((k.to_string(), "evalErr", String::new()));
							break;
						}
						Ok(v) => match format.manifest(v) {
							Ok(t) => fs.push((k.to_string(), "ok", t)),
							Err(_) => {
								fs.push((k.to_string(), "manErr", String::new()));
								break;
							}
						},
					}
				}
				LibOut::Fields(fs)
			}
			"multi" => {
				let Val::Obj(o) = val else { return Ok(LibOut::Err) };
				let mut kvs = vec![];
				for (k, v) in o.iter() {
					kvs.push((k.to_string(), format.manifest(v?)?));
				}
				LibOut::Kvs(kvs)
			}
			"stream" => {
				let Val::Arr(a) = val else { return Ok(LibOut::Err) };
				let mut vs = vec![];
				for v in a.iter() {
					vs.push(format.manifest(v?)?);
				}
				LibOut::Vs(vs)
			}
			_ => match format.manifest(val) {
				Ok(t) => LibOut::Text(t),
				Err(_) => LibOut::ManErr,
			},
		})
	});
	match r {
		Ok(Ok(o)) => o,
		Ok(Err(_)) => LibOut::Err,
		Err(p) => LibOut::Panic(p),
	}
}

fn bin(name: &str) -> PathBuf {
	PathBuf::from(std::env::var("VERIF_BIN_DIR").unwrap_or_default()).join(name)
}

fn ref_paths(dir: &Path, jpath: &[String], env: &Option<Vec<String>>) -> Vec<PathBuf> {
	// right-most -J first, then JSONNET_PATH left to right
	let mut v: Vec<PathBuf> = jpath.iter().rev().map(|p| dir.join(p)).collect();
	if let Some(e) = env {
		v.extend(e.iter().map(|p| dir.join(p)));
	}
	v
}

fn run_cli(opts: &Opts) {
	let mut w = CaseWriter::new(&opts.out);
	let mut rng = Rng::new(opts.seed ^ 0x1515);
	let exe = bin("jrsonnet");
	let dir = opts.out.join("fs");
	write_tree(&dir);
	let dir = dir.canonicalize().expect("canon");
	std::env::set_current_dir(&dir).expect("chdir");
	let mut hist = BTreeMap::<String, usize>::new();
	let n = if opts.thorough() { 2500 } else { 240 };
	for i in 0..n {
		let mut sc = gen_scenario(&mut rng, false);
		// output mode
		let mut fmt = gen_fmt(&mut rng);
		if rng.chance(5, 6) {
			// mostly accepted combinations
			if fmt.s {
				fmt.f = None;
				fmt.y = false;
			}
		}
		if fmt.f == Some("ini") || fmt.f == Some("xml-jsonml") {
			if rng.chance(2, 3) {
				fmt.f = Some(*rng.pick(&["json", "yaml", "toml", "string"]));
			}
		}
		let out_kind = match rng.below(10) {
			0..=5 => "stdout",
			6 | 7 => "multi",
			_ => "file",
		};
		let want = if rng.chance(1, 25) {
			"wrong"
		} else if out_kind == "multi" {
			if fmt.y { "arrfiles" } else if fmt.s { "strfiles" } else { "files" }
		} else if fmt.y {
			"array"
		} else if fmt.s {
			"string"
		} else {
			"object"
		};
		sc.code = shape(&mut rng, &sc.code, want);
		if fmt.f == Some("xml-jsonml") && rng.chance(1, 2) {
			sc.code = "['a', {x: '1'}, 't', ['b']]".to_owned();
			sc.tla.clear();
		}
		if fmt.f == Some("ini") && rng.chance(1, 2) {
			sc.code = "{main: {a: '1'}, sections: {s: {k: 'v'}}}".to_owned();
			sc.tla.clear();
		}
		let mut out_kind = out_kind;
		if i < 2 {
			// fixed witnesses: 0 = known finding (`-f ini` on a non-object panics in the library),
			// 1 = repaired defect (`--tla-str-file n=path` read a file called `n`)
			sc.ext.clear();
			sc.tla.clear();
			sc.jpath.clear();
			sc.env = None;
			sc.stack = None;
			sc.as_file = false;
			out_kind = "stdout";
			if i == 0 {
				fmt = Fmt { f: Some("ini"), s: false, y: false, pad: None };
				sc.code = "1".to_owned();
			} else {
				fmt = Fmt::default();
				sc.code = "function(n) n".to_owned();
				sc.tla.push(VarOpt { fl: "str-file", name: "n".to_owned(), payload: "str.txt".to_owned(), from_env: false });
			}
		}
		let main = if sc.as_file { "main.jsonnet".to_owned() } else { "<cmdline>".to_owned() };
		if sc.as_file {
			fs::write(dir.join("main.jsonnet"), &sc.code).expect("write main");
		}
		let out_dir = dir.join("out");
		let _ = fs::remove_dir_all(&out_dir);
		fs::create_dir_all(&out_dir).expect("mkdir out");
		let (mode_json, mode_args): (Value, Vec<String>) = match out_kind {
			"multi" => (json!({"k":"multi","p":"out"}), vec!["-m".into(), "out".into()]),
			"file" => (json!({"k":"file","p":"out/result.txt"}), vec!["-o".into(), "out/result.txt".into()]),
			_ => (json!({"k":"stdout"}), vec![]),
		};
		// ---- the executable ----
		let mut args: Vec<String> = vec![];
		args.extend(sc.ext.iter().flat_map(|v| v.args("ext")));
		args.extend(sc.tla.iter().flat_map(|v| v.args("tla")));
		for j in &sc.jpath {
			args.push("-J".into());
			args.push(j.clone());
		}
		if let Some(s) = sc.stack {
			args.push("-s".into());
			args.push(s.to_string());
		}
		args.extend(fmt.args());
		args.extend(mode_args);
		if rng.chance(1, 5) {
			args.push("-c".into());
		}
		if sc.as_file {
			args.push("main.jsonnet".into());
		} else {
			args.push("-e".into());
			args.push(sc.code.clone());
		}
		let mut cmd = Command::new(&exe);
		cmd.args(&args).current_dir(&dir).env_remove("JSONNET_PATH");
		if let Some(e) = &sc.env {
			cmd.env("JSONNET_PATH", std::env::join_paths(e.iter()).expect("join"));
		}
		for v in sc.ext.iter().filter(|v| v.from_env) {
			cmd.env(&v.name, &v.payload);
		}
		let o = cmd.output().expect("run jrsonnet");
		let mut files: Vec<(String, String)> = vec![];
		if let Ok(rd) = fs::read_dir(&out_dir) {
			for e in rd.flatten() {
				let name = e.file_name().to_string_lossy().to_string();
				let content = fs::read(e.path()).map(|b| String::from_utf8_lossy(&b).to_string()).unwrap_or_default();
				files.push((format!("out/{name}"), content));
			}
		}
		files.sort();
		let code = o.status.code();
		let impl_ans = if code == Some(2) && !fmt.accepted() {
			json!({"reject": true})
		} else {
			json!({
				"stdout": String::from_utf8_lossy(&o.stdout),
				"stderr": !o.stderr.is_empty(),
				"exit": code.unwrap_or(-1),
				"files": files.iter().map(|(p, c)| json!([p, c])).collect::<Vec<_>>(),
				"_stderr": String::from_utf8_lossy(&o.stderr).chars().take(300).collect::<String>(),
			})
		};
		// ---- the library ----
		let out = if fmt.accepted() {
			let format = format_of(&ref_format_desc(&fmt));
			let paths = ref_paths(&dir, &sc.jpath, &sc.env);
			let lib = lib_run(&sc, paths, &main, &*format, if out_kind == "multi" { "cli-multi" } else { "plain" }, sc.stack.unwrap_or(512));
			match lib {
				LibOut::Err => json!({"k":"err"}),
				LibOut::ManErr => json!({"k":"manErr"}),
				LibOut::Panic(p) => json!({"k":"err","_lib_panic":p}),
				LibOut::Text(t) => json!({"k":"text","t":t}),
				LibOut::Fields(fs) => json!({"k":"fields","fs":fs.iter().map(|(a, b, c)| json!([a, b, c])).collect::<Vec<_>>()}),
				_ => unreachable!(),
			}
		} else {
			json!({"k":"err"})
		};
		*hist.entry(format!("out.{out_kind}")).or_default() += 1;
		*hist.entry(format!("fmt.{}", if fmt.accepted() { ref_format_desc(&fmt) } else { "reject".into() })).or_default() += 1;
		*hist.entry(format!("lib.{}", out["k"].as_str().unwrap_or("?"))).or_default() += 1;
		*hist.entry(format!("jpath{}", sc.jpath.len())).or_default() += 1;
		for v in sc.ext.iter() {
			*hist.entry(format!("ext-{}", v.fl)).or_default() += 1;
		}
		for v in sc.tla.iter() {
			*hist.entry(format!("tla-{}", v.fl)).or_default() += 1;
		}
		if sc.env.is_some() {
			*hist.entry("JSONNET_PATH".into()).or_default() += 1;
		}
		w.case(
			json!({"op":"cli.render","mode":mode_json,"fmt":fmt.json(),"out":out,
				"size": args.len() + sc.code.len() / 40, "_args": args, "_i": i}),
			impl_ans,
		);
	}
	w.finish(
		json!({"engine":"c15run","cases":n,"hist":hist,
			"rule":"generated programs reading ext vars / TLAs (all flavours, from files, from environment, duplicates), importing through 0-3 -J paths and JSONNET_PATH, recursion against --max-stack, output through stdout/-o/-m with -S/-y/-f/--line-padding; real executable vs library API used directly"}),
		&opts.out,
	);
}

fn hex(s: &str) -> String {
	if s.is_empty() {
		return "-".to_owned();
	}
	s.bytes().map(|b| format!("{b:02x}")).collect()
}
fn unhex(s: &str) -> Vec<u8> {
	if s == "-" {
		return vec![];
	}
	(0..s.len() / 2).map(|i| u8::from_str_radix(&s[2 * i..2 * i + 2], 16).unwrap_or(0)).collect()
}

fn build_c_driver(out: &Path) -> Result<PathBuf, String> {
	let src = out.join("c15_capi.c");
	fs::write(&src, include_str!("c15_capi.c")).map_err(|e| e.to_string())?;
	let exe = out.join("c15_capi");
	let libdir = PathBuf::from(std::env::var("VERIF_BIN_DIR").unwrap_or_default());
	if !libdir.join("libjsonnet.so").exists() {
		return Err(format!("{} missing", libdir.join("libjsonnet.so").display()));
	}
	let repo = std::env::var("VERIF_REPO").unwrap_or_else(|_| "/repo".to_owned());
	let o = Command::new("gcc")
		.arg("-O0")
		.arg("-o")
		.arg(&exe)
		.arg(&src)
		.arg(format!("-I{repo}/bindings/c"))
		.arg(format!("-L{}", libdir.display()))
		.arg("-ljsonnet")
		.arg(format!("-Wl,-rpath,{}", libdir.display()))
		.output()
		.map_err(|e| e.to_string())?;
	if !o.status.success() {
		return Err(String::from_utf8_lossy(&o.stderr).to_string());
	}
	Ok(exe)
}

fn run_capi(opts: &Opts) {
	let mut w = CaseWriter::new(&opts.out);
	let mut rng = Rng::new(opts.seed ^ 0x15c);
	let driver = match build_c_driver(&opts.out) {
		Ok(d) => d,
		Err(e) => {
			eprintln!("cannot build the C driver: {e}");
			std::process::exit(3);
		}
	};
	let dir = opts.out.join("fs");
	write_tree(&dir);
	let dir = dir.canonicalize().expect("canon");
	std::env::set_current_dir(&dir).expect("chdir");
	let mut hist = BTreeMap::<String, usize>::new();
	let n = if opts.thorough() { 2000 } else { 200 };
	for i in 0..n {
		let mut sc = gen_scenario(&mut rng, true);
		let mode = *rng.pick(&["plain", "plain", "multi", "stream"]);
		let string_out = rng.chance(1, 4);
		let want = if rng.chance(1, 25) {
			"wrong"
		} else {
			match (mode, string_out) {
				("multi", false) => "files",
				("multi", true) => "strfiles",
				("stream", _) => "array",
				(_, true) => "string",
				_ => "object",
			}
		};
		sc.code = shape(&mut rng, &sc.code, want);
		let main = if sc.as_file { dir.join("main.jsonnet").to_string_lossy().to_string() } else { "snip".to_owned() };
		if sc.as_file {
			fs::write(dir.join("main.jsonnet"), &sc.code).expect("write main");
		}
		// call order of the settings is the order of the lists
		let mut script = String::new();
		if sc.natives {
			script.push_str("native\n");
		}
		for e in &sc.ext {
			script.push_str(&format!("{} {} {}\n", if e.fl == "str" { "extvar" } else { "extcode" }, hex(&e.name), hex(&e.payload)));
		}
		for e in &sc.tla {
			script.push_str(&format!("{} {} {}\n", if e.fl == "str" { "tlavar" } else { "tlacode" }, hex(&e.name), hex(&e.payload)));
		}
		for j in &sc.jpath {
			script.push_str(&format!("jpath {}\n", hex(&dir.join(j).to_string_lossy())));
		}
		if let Some(s) = sc.stack {
			script.push_str(&format!("maxstack {s}\n"));
		}
		if string_out || rng.chance(1, 10) {
			script.push_str(&format!("stringout {}\n", u8::from(string_out)));
		}
		if sc.as_file {
			script.push_str(&format!("file {} {mode}\n", hex(&main)));
		} else {
			script.push_str(&format!("snippet {} {} {mode}\n", hex(&main), hex(&sc.code)));
		}
		let sfile = opts.out.join("script.txt");
		fs::write(&sfile, &script).expect("script");
		let o = Command::new(&driver).arg(&sfile).current_dir(&dir).env("RUST_BACKTRACE", "0").output().expect("run driver");
		let stdout = String::from_utf8_lossy(&o.stdout).to_string();
		let impl_ans = match stdout.lines().find(|l| l.starts_with("R ")) {
			Some(l) if o.status.success() => {
				let mut it = l.split(' ');
				it.next();
				let err: i64 = it.next().and_then(|e| e.parse().ok()).unwrap_or(-1);
				let raw = unhex(it.next().unwrap_or("-"));
				if err == 0 {
					json!({"err": 0, "raw": raw})
				} else {
					json!({"err": err, "_msg": String::from_utf8_lossy(&raw).chars().take(200).collect::<String>()})
				}
			}
			_ => json!({"panic": format!("driver status {:?}: {}", o.status.code(), String::from_utf8_lossy(&o.stderr).chars().take(300).collect::<String>())}),
		};
		// ---- the library: later calls for a name replace earlier ones; most recent jpath first ----
		let mut lsc = sc.clone();
		// the C calls are applied in list order whatever the flavour: emulate with one insertion order
		let paths: Vec<PathBuf> = sc.jpath.iter().rev().map(|p| dir.join(p)).collect();
		lsc.ext = dedup_last(&sc.ext);
		lsc.tla = dedup_last(&sc.tla);
		let format: Box<dyn ManifestFormat> = if string_out { Box::new(ToStringFormat) } else { Box::new(JsonFormat::default()) };
		let lib = lib_run(&lsc, paths, &main, &*format, mode, sc.stack.unwrap_or(200));
		let b = |s: &String| -> Vec<u8> { s.as_bytes().to_vec() };
		let out = match lib {
			LibOut::Err | LibOut::ManErr => json!({"err": true}),
			LibOut::Panic(p) => json!({"err": true, "_lib_panic": p}),
			LibOut::Text(t) => json!({"text": b(&t)}),
			LibOut::Kvs(kvs) => json!({"kvs": kvs.iter().map(|(k, v)| json!([b(k), b(v)])).collect::<Vec<_>>()}),
			LibOut::Vs(vs) => json!({"vs": vs.iter().map(b).collect::<Vec<_>>()}),
			LibOut::Fields(_) => unreachable!(),
		};
		*hist.entry(format!("mode.{mode}")).or_default() += 1;
		*hist.entry(format!("lib.{}", if out.get("err").is_some() { "err" } else { "ok" })).or_default() += 1;
		*hist.entry(format!("jpath{}", sc.jpath.len())).or_default() += 1;
		if sc.natives {
			*hist.entry("natives".into()).or_default() += 1;
		}
		if string_out {
			*hist.entry("string_output".into()).or_default() += 1;
		}
		for v in sc.ext.iter() {
			*hist.entry(format!("ext-{}", v.fl)).or_default() += 1;
		}
		for v in sc.tla.iter() {
			*hist.entry(format!("tla-{}", v.fl)).or_default() += 1;
		}
		w.case(
			json!({"op":"capi.frame","mode":mode,"out":out,"size": script.len() / 20, "_script": script, "_code": sc.code, "_i": i}),
			impl_ans,
		);
	}
	w.finish(
		json!({"engine":"c15capi","cases":n,"hist":hist,
			"rule":"generated programs with ext_var/ext_code/tla_var/tla_code, 0-3 jpath_add, max_stack, string_output, native callbacks (numbers, strings, failure, built object/array), evaluate_file/snippet x plain/multi/stream through the real libjsonnet.so and a C driver"}),
		&opts.out,
	);
}

/// for the C API the last call for a name wins whatever the kind: keep the last option per name and
/// present it so that the flavour-ordered insertion of `lib_run` reproduces that
fn dedup_last(v: &[VarOpt]) -> Vec<VarOpt> {
	let mut out: Vec<VarOpt> = vec![];
	for o in v.iter().rev() {
		if !out.iter().any(|x| x.name == o.name) {
			out.push(o.clone());
		}
	}
	out.reverse();
	out
}

// ------------------------------------------------------------------------------------------------
// dependency lister

thread_local! {
	static LOADED: RefCell<Vec<PathBuf>> = const { RefCell::new(Vec::new()) };
}
#[derive(Acyclic)]
struct RecordingTl {
	inner: FileImportResolver,
}
impl ImportResolver for RecordingTl {
	fn resolve_from(&self, from: &SourcePath, path: &dyn AsPathLike) -> JrResult<SourcePath> {
		self.inner.resolve_from(from, path)
	}
	fn resolve_from_default(&self, path: &dyn AsPathLike) -> JrResult<SourcePath> {
		self.inner.resolve_from_default(path)
	}
	fn load_file_contents(&self, resolved: &SourcePath) -> JrResult<Vec<u8>> {
		LOADED.with_borrow_mut(|l| l.push(PathBuf::from(format!("{resolved}"))));
		self.inner.load_file_contents(resolved)
	}
}

const POSITIONS: [&str; 46] = [
	"if false then null else %",
	"if true then null else %",
	"if std.isArray(%) then 1 else 2",
	"{assert std.isArray(%) || true, b: 1}.b",
	"{[std.toString(std.length(%))]: 1}",
	"{f(a=%): a}.f()",
	"{local l = %, [k]: l for k in ['a']}.a",
	"{[k]: 1 for k in [std.toString(std.length(%))]}",
	"({b: %} + {a: 1}).b",
	"assert std.isArray(%) || true; null",
	"assert true; %",
	"local x = 1; %",
	"local f(a, b=%) = b; f(1)",
	"local f(a) = %; f(1)",
	"if false then error std.toString(%) else null",
	"(if true then function() 1 else %)()",
	"([%, 1])[0:1][0]",
	"[1, 2, 3][0:(local z = %; 1):(local w = %; 1)]",
	"(%)",
	"[x for x in [1] if std.isArray(%) || true]",
	"{a: 1} {b: %}",
	"!(std.isArray(%) && false)",
	"%",
	"local x = %; x",
	"[%][0]",
	"{a: %}.a",
	"(function(p = %) p)()",
	"if true then % else null",
	"if false then % else null",
	"[% for i in [1]][0]",
	"[i for i in [%]][0]",
	"{[k]: % for k in ['a']}.a",
	"assert true : %; null",
	"{assert true : %, local y = %, b: y}.b",
	"std.length([%])",
	"({a: 1} + {b: %}).b",
	"({a: 1} {b: %}).b",
	"-(if false then % else 1)",
	"[1, 2][if false then % else 0]",
	"function(a) %",
	"std.type(%)",
	"std.type(x=%)",
	"[1, 2, 3][(local z = %; 0):1:1]",
	"{local f(a, b = %) = b, c: f(1)}.c",
	"{a: 1, b+: {c: %}}.b.c",
	"[if i == 1 then % for i in [1] if std.isArray(%) || true][0]",
];

/// directories of a dependency case (below the case directory); `-J ../L0 -J ../L1` from `m`
const DDIRS: [&str; 6] = ["m", "m/sub", "m/sub2", "m/sub/deep", "L1", "L0"];
/// file names that exist in several directories at once: which file an import string means
/// depends on the directory of the importing file
const SHARED_NAMES: [&str; 3] = ["util.libsonnet", "common.libsonnet", "lib/helper.libsonnet"];

struct DFile {
	dir: &'static str,
	name: String,
	/// (kind 0 code / 1 str / 2 bin, import string as written, target index by reference resolution)
	edges: Vec<(u8, String, Option<usize>)>,
	broken: bool,
}

impl DFile {
	/// the directory the file really lives in (the name may carry a directory part)
	fn real_dir(&self) -> String {
		let full = format!("{}/{}", self.dir, self.name);
		full.rsplit_once('/').map(|(d, _)| d.to_owned()).unwrap_or_default()
	}
}

fn comps(p: &str) -> Vec<&str> {
	p.split('/').filter(|c| !c.is_empty() && *c != ".").collect()
}

/// `dir` joined with the relative path `rel`, `..` folded (None: leaves the case directory)
fn join_norm(dir: &str, rel: &str) -> Option<String> {
	let mut v = comps(dir);
	for c in comps(rel) {
		if c == ".." {
			v.pop()?;
		} else {
			v.push(c);
		}
	}
	Some(v.join("/"))
}

/// reference resolution of an import string written in a file of directory `from_dir`:
/// beside the importer first, then the right-most `-J` (L1), then L0
fn ref_resolve(files: &[DFile], from_dir: &str, s: &str) -> Option<usize> {
	let find = |full: Option<String>| -> Option<usize> {
		let full = full?;
		files.iter().position(|f| format!("{}/{}", f.dir, f.name) == full)
	};
	find(join_norm(from_dir, s)).or_else(|| find(join_norm("L1", s))).or_else(|| find(join_norm("L0", s)))
}

/// a relative path from directory `from` to the file `to_dir/name` (always a direct hit)
fn rel_path(from: &str, to_dir: &str, name: &str) -> String {
	let a = comps(from);
	let b = comps(to_dir);
	let mut i = 0;
	while i < a.len() && i < b.len() && a[i] == b[i] {
		i += 1;
	}
	let mut v: Vec<&str> = vec![".."; a.len() - i];
	v.extend(&b[i..]);
	v.extend(comps(name));
	v.join("/")
}

fn run_deps(opts: &Opts) {
	let mut w = CaseWriter::new(&opts.out);
	let mut rng = Rng::new(opts.seed ^ 0x15d);
	let exe = bin("jrsonnet-deps");
	let base = opts.out.join("fs");
	let mut hist = BTreeMap::<String, usize>::new();
	let n = if opts.thorough() { 2000 } else { 240 };
	for i in 0..n {
		let cdir = base.clone();
		let _ = fs::remove_dir_all(&cdir);
		for d in DDIRS {
			fs::create_dir_all(cdir.join(d)).expect("mkdir");
		}
		let mut files: Vec<DFile> = vec![DFile { dir: "m", name: "f0.libsonnet".into(), edges: vec![], broken: rng.chance(1, 40) }];
		let mk = |dir: &'static str, name: &str, broken: bool| DFile { dir, name: name.to_owned(), edges: vec![], broken };
		match i {
			0 => {
				// the repaired defect: listed by importstr first, imported as code afterwards
				files[0].broken = false;
				files.push(mk("m", "f1.libsonnet", false));
				files.push(mk("m/sub", "f2.libsonnet", false));
				files[0].edges = vec![(1, "f1.libsonnet".into(), None), (0, "f1.libsonnet".into(), None)];
				files[1].edges = vec![(0, "sub/f2.libsonnet".into(), None)];
			}
			1 => {
				// the same import string in two directories means two files (a private util beside
				// each importer), each with its own imports
				files[0].broken = false;
				files.push(mk("m", "util.libsonnet", false));
				files.push(mk("m/sub", "f2.libsonnet", false));
				files.push(mk("m/sub", "util.libsonnet", false));
				files.push(mk("m/sub", "f4.libsonnet", false));
				files[0].edges = vec![(0, "util.libsonnet".into(), None), (0, "sub/f2.libsonnet".into(), None)];
				files[2].edges = vec![(0, "util.libsonnet".into(), None)];
				files[3].edges = vec![(1, "f4.libsonnet".into(), None)];
			}
			2 => {
				// a -J library file with a same-named sibling next to one importer
				files[0].broken = false;
				files.push(mk("L1", "util.libsonnet", false));
				files.push(mk("m/sub", "f2.libsonnet", false));
				files.push(mk("m/sub", "util.libsonnet", false));
				files.push(mk("L0", "util.libsonnet", false));
				files[0].edges = vec![(1, "util.libsonnet".into(), None), (0, "sub/f2.libsonnet".into(), None)];
				files[2].edges = vec![(2, "util.libsonnet".into(), None), (0, "util.libsonnet".into(), None)];
			}
			_ => {
				let nf = 1 + rng.below(8);
				for k in 1..nf {
					let dir = *rng.pick(&["m", "m", "m/sub", "m/sub", "m/sub2", "m/sub/deep", "L1", "L1", "L0"]);
					let mut name = format!("f{k}.libsonnet");
					if rng.chance(3, 5) {
						let shared = *rng.pick(&SHARED_NAMES);
						if !files.iter().any(|f| f.dir == dir && f.name == shared) {
							name = shared.to_owned();
						}
					}
					files.push(mk(dir, &name, rng.chance(1, 24)));
				}
				let nf = files.len();
				for k in 0..nf {
					let ne = if rng.chance(1, 6) { 0 } else { 1 + rng.below(4) };
					for _ in 0..ne {
						let kind = *rng.pick(&[0u8, 0, 0, 1, 1, 2]);
						let t = rng.below(nf);
						let s = match rng.below(16) {
							0 => format!("missing_{}.libsonnet", rng.below(3)),
							// the bare name of some file: beside the importer, else through -J, else missing
							1..=8 => files[t].name.clone(),
							// a shared name whatever exists
							9 | 10 => (*rng.pick(&SHARED_NAMES)).to_owned(),
							// an explicit relative path to one particular file
							_ => rel_path(&files[k].real_dir(), files[t].dir, &files[t].name),
						};
						// keep most graphs free of unresolvable imports (one is enough to fail the lister)
						let s = if ref_resolve(&files, &files[k].real_dir(), &s).is_none() && rng.chance(5, 6) {
							rel_path(&files[k].real_dir(), files[t].dir, &files[t].name)
						} else {
							s
						};
						files[k].edges.push((kind, s, None));
					}
				}
			}
		}
		let nf = files.len();
		for k in 0..nf {
			for e in 0..files[k].edges.len() {
				let t = ref_resolve(&files, &files[k].real_dir(), &files[k].edges[e].1);
				files[k].edges[e].2 = t;
			}
		}
		// how much of the case depends on the importer's directory: the same string written in two
		// files and resolved to two different files
		let mut by_string: HashMap<&str, Vec<Option<usize>>> = HashMap::new();
		for f in &files {
			for (_, s, t) in &f.edges {
				let v = by_string.entry(s.as_str()).or_default();
				if !v.contains(t) {
					v.push(*t);
				}
			}
		}
		let ambiguous = by_string.values().filter(|v| v.len() > 1).count();
		*hist.entry(format!("same-string-different-file{}", ambiguous.min(3))).or_default() += 1;
		// write the files
		let mut path_id: HashMap<PathBuf, usize> = HashMap::new();
		for k in 0..nf {
			let f = &files[k];
			let mut items = vec![];
			for (kind, target, _) in &f.edges {
				let kw = ["import", "importstr", "importbin"][*kind as usize];
				let imp = format!("{kw} '{target}'");
				let pos = if rng.chance(1, 3) { "%" } else { *rng.pick(&POSITIONS) };
				items.push(pos.replace('%', &imp));
			}
			let mut text = format!("[{}]", items.join(",\n "));
			if f.broken {
				text.push_str(" {{ (");
			}
			let p = cdir.join(f.dir).join(&f.name);
			fs::create_dir_all(p.parent().expect("parent")).expect("mkdir");
			fs::write(&p, text).expect("write file");
			path_id.insert(p.canonicalize().expect("canon"), k);
		}
		// (a position that contains the placeholder twice repeats the same edge: same graph)
		let graph: Vec<Value> = files
			.iter()
			.map(|f| {
				if f.broken {
					Value::Null
				} else {
					Value::Array(f.edges.iter().map(|(k, _, t)| json!([*k == 0, t])).collect())
				}
			})
			.collect();
		let mdir = cdir.join("m").canonicalize().expect("canon");
		// ---- the executable ----
		let o = Command::new(&exe)
			.args(["f0.libsonnet", "-J", "../L0", "-J", "../L1"])
			.current_dir(&mdir)
			.env_remove("JSONNET_PATH")
			.output()
			.expect("run jrsonnet-deps");
		let stdout = String::from_utf8_lossy(&o.stdout).to_string();
		let lines: Vec<&str> = stdout.lines().collect();
		let impl_deps: Option<Vec<usize>> = if o.status.code() == Some(0) {
			let mut ids: Vec<usize> = lines.iter().map(|l| path_id.get(Path::new(l)).copied().unwrap_or(999)).collect();
			let mut sorted = lines.clone();
			sorted.sort_unstable();
			sorted.dedup();
			if sorted != lines {
				ids.push(998); // not sorted / duplicated output
			}
			ids.sort_unstable();
			Some(ids)
		} else {
			None
		};
		// ---- evaluation through the library, recording every load ----
		std::env::set_current_dir(&mdir).expect("chdir");
		LOADED.with_borrow_mut(Vec::clear);
		let _ = guarded(|| {
			let mut sb = State::builder();
			sb.import_resolver(RecordingTl { inner: FileImportResolver::new(vec![mdir.join("../L1"), mdir.join("../L0")]) })
				.context_initializer(ContextInitializer::new(PathResolver::new_cwd_fallback()));
			let s = sb.build();
			let _e = s.enter();
			let _l = limit_stack_depth(60);
			let v = s.import("f0.libsonnet")?;
			v.manifest(JsonFormat::minify())
		});
		let mut loaded: Vec<usize> = LOADED.with_borrow(|l| {
			l.iter().map(|p| p.canonicalize().ok().and_then(|p| path_id.get(&p).copied()).unwrap_or(997)).collect()
		});
		loaded.sort_unstable();
		loaded.dedup();
		let impl_ans = match &impl_deps {
			Some(d) => {
				let ok = loaded.iter().all(|l| *l == 0 || d.contains(l));
				json!({"res":"ok","deps":d,"loaded_ok":ok})
			}
			None => json!({"res":"err","_stderr":String::from_utf8_lossy(&o.stderr).chars().take(200).collect::<String>(),
				"_stderr_nonempty": !o.stderr.is_empty(), "_code": o.status.code()}),
		};
		if impl_deps.is_none() && (o.status.code() != Some(1) || o.stderr.is_empty()) {
			// an error must be exit 1 with a message
			w.case(
				json!({"op":"deps.run","g":graph,"root":0,"size":nf,"_note":"abnormal exit"}),
				json!({"res":"crash","_code":o.status.code()}),
			);
			continue;
		}
		*hist.entry(format!("files{nf}")).or_default() += 1;
		*hist.entry(format!("res.{}", impl_ans["res"].as_str().unwrap_or("?"))).or_default() += 1;
		*hist.entry(format!("loaded{}", loaded.len().min(6))).or_default() += 1;
		w.case(
			json!({"op":"deps.run","g":graph,"root":0,"loaded":loaded,"size":nf + files.iter().map(|f| f.edges.len()).sum::<usize>(), "_i": i}),
			impl_ans,
		);
	}
	w.finish(
		json!({"engine":"c15deps","cases":n,"hist":hist,
			"rule":"random import graphs of 1-8 files over the main directory, three sub directories and two -J directories; file names shared between directories (also names with a directory part) so that the same import string written in files of different directories means different files (beside the importer / right-most -J / other -J / missing); import/importstr/importbin edges by bare name, shared name or explicit relative path, placed in 46 syntactic positions; missing targets, unparsable files, cycles; jrsonnet-deps output vs DFS model and closure spec; every file an in-process evaluation loads must be listed"}),
		&opts.out,
	);
}

pub fn run(opts: &Opts) {
	match opts.engine.as_str() {
		"c15run" => run_cli(opts),
		"c15capi" => run_capi(opts),
		"c15deps" => run_deps(opts),
		_ => run_plumb(opts),
	}
}
