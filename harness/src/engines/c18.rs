//! C18 — interned strings stay canonical (engine `c18`), garbage cycles are reclaimed (engine `c18gc`).
//!
//! `c18`: operation histories over the REAL `jrsonnet_interner` (`IStr::from`, `IBytes::from`,
//! `clone`, `drop`, `cast_str`, `cast_bytes`, `interop::{exit_thread,reenter_thread}` across real OS
//! threads).  After every operation the pool size, and for every live value its contents, its
//! reference count (`verif_refcnt`), its `==` class and whether the pool entry for its contents is
//! this very allocation are written next to the `intern.replay` model operation.  Every history
//! starts on an empty thread-local pool (worker threads; leftovers of a failed history are detached).
//!
//! `c18gc`: programs with cyclic structures (self reference, recursive closures, mutual locals,
//! cached object-local contexts), succeeding, failing and cut off by the stack limit, are evaluated
//! twice on a fresh thread; result and `State` are dropped, `collect_thread_cycles()` runs, and
//! `count_thread_tracked()` / `verif_pool_len()` after the second run are compared with the values
//! after the first (which absorbs lazily created thread-local singletons).
use std::{
	collections::BTreeMap,
	sync::{
		mpsc::{channel, Sender},
		Arc,
	},
};

use jrsonnet_evaluator::manifest::JsonFormat;
use jrsonnet_interner::{
	interop::{exit_thread, reenter_thread, PoolState},
	verif::{verif_addr, verif_addr_bytes, verif_pool_addr, verif_pool_len, verif_refcnt, verif_refcnt_bytes},
	IBytes, IStr,
};
use serde_json::{json, Value};

use crate::common::{err_class, guarded, new_state, CaseWriter, Opts, Rng};

#[path = "c18_kinds.rs"]
mod c18_kinds;

pub fn run(opts: &Opts) {
	if opts.engine == "c18gc" {
		run_gc(opts);
	} else {
		run_intern(opts);
	}
}

// ---------------------------------------------------------------------------------------------
// interner
// ---------------------------------------------------------------------------------------------

#[derive(Clone, Debug, PartialEq)]
enum Op {
	IS(Vec<u8>),
	IB(Vec<u8>),
	Cl(usize),
	Dr(usize),
	Cs(usize),
	Cb(usize),
	Ho,
}
impl Op {
	fn json(&self) -> Value {
		match self {
			Op::IS(b) => json!(["is", b]),
			Op::IB(b) => json!(["ib", b]),
			Op::Cl(i) => json!(["cl", i]),
			Op::Dr(i) => json!(["dr", i]),
			Op::Cs(i) => json!(["cs", i]),
			Op::Cb(i) => json!(["cb", i]),
			Op::Ho => json!(["ho"]),
		}
	}
	fn tag(&self) -> &'static str {
		match self {
			Op::IS(_) => "is",
			Op::IB(_) => "ib",
			Op::Cl(_) => "cl",
			Op::Dr(_) => "dr",
			Op::Cs(_) => "cs",
			Op::Cb(_) => "cb",
			Op::Ho => "ho",
		}
	}
	fn from_json(v: &Value) -> Option<Self> {
		let a = v.as_array()?;
		let bytes = |v: &Value| -> Option<Vec<u8>> {
			v.as_array()?.iter().map(|x| x.as_u64().map(|x| x as u8)).collect()
		};
		Some(match a.first()?.as_str()? {
			"is" => Op::IS(bytes(a.get(1)?)?),
			"ib" => Op::IB(bytes(a.get(1)?)?),
			"cl" => Op::Cl(a.get(1)?.as_u64()? as usize),
			"dr" => Op::Dr(a.get(1)?.as_u64()? as usize),
			"cs" => Op::Cs(a.get(1)?.as_u64()? as usize),
			"cb" => Op::Cb(a.get(1)?.as_u64()? as usize),
			"ho" => Op::Ho,
			_ => return None,
		})
	}
}

enum H {
	S(IStr),
	B(IBytes),
}
impl H {
	fn data(&self) -> Vec<u8> {
		match self {
			H::S(s) => s.as_str().as_bytes().to_vec(),
			H::B(b) => b.as_slice().to_vec(),
		}
	}
	fn addr(&self) -> usize {
		match self {
			H::S(s) => verif_addr(s),
			H::B(b) => verif_addr_bytes(b),
		}
	}
	fn rc(&self) -> u32 {
		match self {
			H::S(s) => verif_refcnt(s),
			H::B(b) => verif_refcnt_bytes(b),
		}
	}
	/// the library's own `==` where the types allow it, address identity across the two types
	fn same(&self, o: &H) -> bool {
		match (self, o) {
			(H::S(a), H::S(b)) => a == b,
			(H::B(a), H::B(b)) => a == b,
			(a, b) => a.addr() == b.addr(),
		}
	}
}

fn observe(hs: &[H]) -> Value {
	let mut out = Vec::with_capacity(hs.len());
	for (i, h) in hs.iter().enumerate() {
		let data = h.data();
		let cls = (0..=i).find(|&j| hs[j].same(h)).unwrap_or(i);
		let pooled = verif_pool_addr(&data) == Some(h.addr());
		out.push(json!([data, matches!(h, H::S(_)), h.rc(), cls, pooled]));
	}
	json!({"pool": verif_pool_len(), "hs": out})
}

/// one non-handover operation on the real interner
fn apply(hs: &mut Vec<H>, op: &Op) {
	match op {
		Op::IS(b) => {
			let s = std::str::from_utf8(b).expect("generator only interns UTF-8 as str");
			hs.push(H::S(IStr::from(s)));
		}
		Op::IB(b) => hs.push(H::B(IBytes::from(b.as_slice()))),
		Op::Cl(i) => {
			let c = match &hs[*i] {
				H::S(s) => H::S(s.clone()),
				H::B(b) => H::B(b.clone()),
			};
			hs.push(c);
		}
		Op::Dr(i) => {
			let h = hs.remove(*i);
			drop(h);
		}
		Op::Cs(i) => {
			let h = hs.remove(*i);
			match h {
				H::B(b) => {
					if let Some(s) = b.cast_str() {
						hs.insert(*i, H::S(s));
					}
				}
				H::S(_) => unreachable!("generator: cast_str on a str"),
			}
		}
		Op::Cb(i) => {
			let h = hs.remove(*i);
			match h {
				H::S(s) => hs.insert(*i, H::B(s.cast_bytes())),
				H::B(_) => unreachable!("generator: cast_bytes on bytes"),
			}
		}
		Op::Ho => unreachable!(),
	}
}

struct Carry(Vec<H>, Vec<Value>, usize);
// SAFETY: this is the documented hand-over protocol of `interop`: the whole interner state of the
// old thread (pool + every live value) moves together and the old thread does not touch it again.
unsafe impl Send for Carry {}
impl Carry {
	fn take(self) -> (Vec<H>, Vec<Value>, usize) {
		(self.0, self.1, self.2)
	}
}

type Outcome = (Vec<Value>, Value);

/// A history (or the rest of one, after a hand-over) to run on a worker thread.
struct Job {
	ops: Arc<Vec<Op>>,
	from: usize,
	carry: Option<Carry>,
	reply: Sender<Outcome>,
}

/// Worker threads form a chain: worker i hands over to worker i+1 (created on demand) and waits
/// for the outcome.  A worker's thread-local pool is empty whenever it is idle, as long as every
/// history so far ended healthy (otherwise `scrub_pool` detaches the leftovers).
fn spawn_worker() -> Sender<Job> {
	let (tx, rx) = channel::<Job>();
	std::thread::spawn(move || {
		let mut next: Option<Sender<Job>> = None;
		for job in rx {
			let (hs, steps) = match job.carry {
				Some(c) => {
					let (hs, mut steps, st) = c.take();
					scrub_pool();
					// SAFETY: `st` comes from `exit_thread`, used once
					unsafe { reenter_thread(st as *mut PoolState) };
					steps.push(observe(&hs));
					(hs, steps)
				}
				None => (Vec::new(), Vec::new()),
			};
			let out = exec(&job.ops, job.from, hs, steps, &mut next);
			let _ = job.reply.send(out);
		}
	});
	tx
}

/// Runs `ops[from..]`; returns (observations, pool size after dropping every value).
fn exec(ops: &Arc<Vec<Op>>, from: usize, mut hs: Vec<H>, mut steps: Vec<Value>, next: &mut Option<Sender<Job>>) -> Outcome {
	for i in from..ops.len() {
		if ops[i] == Op::Ho {
			let st = exit_thread() as usize;
			let (rtx, rrx) = channel();
			let job = Job { ops: ops.clone(), from: i + 1, carry: Some(Carry(hs, steps, st)), reply: rtx };
			let tx = next.get_or_insert_with(spawn_worker);
			if tx.send(job).is_err() {
				return (vec![json!("panic")], json!("panic"));
			}
			return rrx.recv().unwrap_or_else(|_| (vec![json!("panic")], json!("panic")));
		}
		match guarded(|| {
			apply(&mut hs, &ops[i]);
			observe(&hs)
		}) {
			Ok(o) => steps.push(o),
			Err(_) => {
				steps.push(json!("panic"));
				std::mem::forget(hs);
				scrub_pool();
				return (steps, json!("panic"));
			}
		}
	}
	// values are dropped one at a time: a second panic while a first one unwinds through the
	// remaining elements of the Vec would abort the whole process
	let mut end = json!(null);
	while let Some(h) = hs.pop() {
		if guarded(move || drop(h)).is_err() {
			std::mem::forget(std::mem::take(&mut hs));
			end = json!("panic");
		}
	}
	if end.is_null() {
		end = guarded(verif_pool_len).map_or(json!("panic"), |n| json!(n));
	}
	scrub_pool();
	(steps, end)
}

/// A history that ended unhealthy may leave entries in this thread's pool; they are leaked (the
/// pool is detached with `exit_thread` and never reinstalled) so that the next history starts on
/// an empty pool again.
fn scrub_pool() {
	if guarded(verif_pool_len).map_or(true, |n| n != 0) {
		let _ = guarded(exit_thread);
	}
}

thread_local! {
	static CHAIN: std::cell::RefCell<Option<Sender<Job>>> = const { std::cell::RefCell::new(None) };
}

fn run_history(ops: &[Op]) -> Outcome {
	let ops = Arc::new(ops.to_vec());
	CHAIN.with_borrow_mut(|chain| {
		let (rtx, rrx) = channel();
		let tx = chain.get_or_insert_with(spawn_worker);
		let sent = tx.send(Job { ops, from: 0, carry: None, reply: rtx }).is_ok();
		let out = if sent { rrx.recv().ok() } else { None };
		if out.is_none() {
			// a worker died: the next history starts on fresh threads
			*chain = None;
		}
		out.unwrap_or_else(|| (vec![json!("panic")], json!("panic")))
	})
}

/// generator-side bookkeeping: (contents, is_str) of the values the history holds
type Shadow = Vec<(Vec<u8>, bool)>;

fn shadow_apply(sh: &mut Shadow, op: &Op) {
	match op {
		Op::IS(b) => sh.push((b.clone(), true)),
		Op::IB(b) => sh.push((b.clone(), false)),
		Op::Cl(i) => {
			let h = sh[*i].clone();
			sh.push(h);
		}
		Op::Dr(i) => {
			sh.remove(*i);
		}
		Op::Cs(i) => {
			if std::str::from_utf8(&sh[*i].0).is_ok() {
				sh[*i].1 = true;
			} else {
				sh.remove(*i);
			}
		}
		Op::Cb(i) => sh[*i].1 = false,
		Op::Ho => {}
	}
}

fn allowed(sh: &Shadow, interns: &[Op], handover: bool) -> Vec<Op> {
	let mut v: Vec<Op> = interns.to_vec();
	for (i, (_, is_str)) in sh.iter().enumerate() {
		v.push(Op::Cl(i));
		v.push(Op::Dr(i));
		if *is_str {
			v.push(Op::Cb(i));
		} else {
			v.push(Op::Cs(i));
		}
	}
	if handover {
		v.push(Op::Ho);
	}
	v
}

struct Stats {
	ops: BTreeMap<&'static str, usize>,
	lens: BTreeMap<usize, usize>,
	max_live: usize,
	histories: usize,
}

fn emit(w: &mut CaseWriter, st: &mut Stats, ops: &[Op], every: bool, kind: &str) {
	let (steps, end) = run_history(ops);
	let steps = if every {
		steps
	} else {
		steps.last().cloned().into_iter().collect()
	};
	for o in ops {
		*st.ops.entry(o.tag()).or_default() += 1;
	}
	*st.lens.entry(ops.len()).or_default() += 1;
	st.histories += 1;
	let opj: Vec<Value> = ops.iter().map(Op::json).collect();
	w.case(
		json!({"op":"intern.replay","ops":opj,"every":every,"size":ops.len(),"_kind":kind}),
		json!({"steps": steps, "end": end}),
	);
}

/// every valid history of exactly `len` ops over the given intern operations
fn enumerate(
	w: &mut CaseWriter,
	st: &mut Stats,
	prefix: &mut Vec<Op>,
	sh: &Shadow,
	interns: &[Op],
	handover: bool,
	len: usize,
) {
	if prefix.len() == len {
		st.max_live = st.max_live.max(sh.len());
		emit(w, st, prefix, len <= 2, "exhaustive");
		return;
	}
	for op in allowed(sh, interns, handover) {
		// a hand-over directly after a hand-over or as first op adds nothing
		if op == Op::Ho && prefix.last().map_or(true, |p| *p == Op::Ho) {
			continue;
		}
		let mut sh2 = sh.clone();
		shadow_apply(&mut sh2, &op);
		prefix.push(op);
		enumerate(w, st, prefix, &sh2, interns, handover, len);
		prefix.pop();
	}
}

const E_ACUTE: &[u8] = &[0xC3, 0xA9];

/// `n` bytes: `fill` repeated, last byte `last` (contents that agree on everything but the last byte)
fn long_content(n: usize, fill: u8, last: u8) -> Vec<u8> {
	let mut v = vec![fill; n];
	if let Some(l) = v.last_mut() {
		*l = last;
	}
	v
}

/// one random well-typed history over the given contents; keeps about `target` values alive
fn gen_random(rng: &mut Rng, alphabet: &[Vec<u8>], len: usize, target: usize, st: &mut Stats) -> Vec<Op> {
	let mut sh: Shadow = Vec::new();
	let mut ops = Vec::with_capacity(len);
	let mut handovers = 0;
	for _ in 0..len {
		let grow = sh.len() < target;
		let r = rng.below(100);
		let op = if sh.is_empty() || (grow && r < 45) || (!grow && r < 10) {
			let b = alphabet[rng.below(alphabet.len())].clone();
			if std::str::from_utf8(&b).is_ok() && rng.chance(1, 2) {
				Op::IS(b)
			} else {
				Op::IB(b)
			}
		} else if r < 3 + 10 && handovers < 3 && rng.chance(1, 6) {
			handovers += 1;
			Op::Ho
		} else {
			let i = rng.below(sh.len());
			let k = rng.below(if grow { 10 } else { 14 });
			match k {
				0..=2 => Op::Cl(i),
				3..=5 => {
					if sh[i].1 {
						Op::Cb(i)
					} else {
						Op::Cs(i)
					}
				}
				_ => Op::Dr(i),
			}
		};
		shadow_apply(&mut sh, &op);
		st.max_live = st.max_live.max(sh.len());
		ops.push(op);
	}
	ops
}

fn run_intern(opts: &Opts) {
	let mut w = CaseWriter::new(&opts.out);
	let mut st = Stats { ops: BTreeMap::new(), lens: BTreeMap::new(), max_live: 0, histories: 0 };

	if let Some(rp) = &opts.replay {
		// replay file: {"op": {"op":"intern.replay","ops":[..]}} as written by ./check
		let v: Value = serde_json::from_str(&std::fs::read_to_string(rp).expect("replay")).expect("json");
		let opv = v.get("op").cloned().unwrap_or(v);
		if opv.get("op").and_then(Value::as_str) == Some("intern.replay") {
			let ops: Vec<Op> = opv["ops"].as_array().expect("ops").iter().filter_map(Op::from_json).collect();
			emit(&mut w, &mut st, &ops, true, "replay");
		} else if opv.get("op").and_then(Value::as_str) == Some("intern.utf8") {
			let bs: Vec<Vec<u8>> = serde_json::from_value(opv["bs"].clone()).expect("bs");
			utf8_case(&mut w, &bs);
		}
		w.finish(json!({"engine":"c18","rule":"replay","cases":st.histories}), &opts.out);
		return;
	}

	// the witness histories named in Props/C18.lean (non-vacuity examples) run on the real code
	let witness: Vec<Op> = vec![
		Op::IS(b"a".to_vec()),
		Op::IB(b"a".to_vec()),
		Op::IB(vec![0xFF]),
		Op::Cl(0),
		Op::Cs(2),
		Op::Cs(1),
		Op::Dr(0),
		Op::Ho,
		Op::Dr(0),
		Op::Dr(0),
	];
	emit(&mut w, &mut st, &witness, true, "witness");

	// 1. exhaustive histories
	let full: Vec<Op> = vec![
		Op::IS(b"a".to_vec()),
		Op::IS(E_ACUTE.to_vec()),
		Op::IS(Vec::new()),
		Op::IB(b"a".to_vec()),
		Op::IB(E_ACUTE.to_vec()),
		Op::IB(vec![0xFF]),
		Op::IB(vec![0xC3]),
	];
	let small: Vec<Op> = vec![Op::IS(b"a".to_vec()), Op::IB(b"a".to_vec()), Op::IB(vec![0xFF]), Op::IS(b"b".to_vec())];
	let tiny: Vec<Op> = vec![Op::IS(b"a".to_vec()), Op::IB(b"a".to_vec()), Op::IB(vec![0xFF])];
	let (full_d, small_d, tiny_d) = if opts.thorough() { (5, 6, 7) } else { (4, 5, 5) };
	for len in 1..=full_d {
		enumerate(&mut w, &mut st, &mut Vec::new(), &Vec::new(), &full, true, len);
	}
	for len in (full_d + 1)..=small_d {
		enumerate(&mut w, &mut st, &mut Vec::new(), &Vec::new(), &small, true, len);
	}
	for len in (small_d + 1)..=tiny_d {
		enumerate(&mut w, &mut st, &mut Vec::new(), &Vec::new(), &tiny, false, len);
	}
	let exhaustive = st.histories;

	// 2. long random histories over a larger alphabet (valid and invalid UTF-8)
	let alphabet: Vec<Vec<u8>> = vec![
		vec![],
		b"a".to_vec(),
		b"b".to_vec(),
		b"ab".to_vec(),
		vec![0],
		E_ACUTE.to_vec(),
		"\u{20ac}".as_bytes().to_vec(),
		"\u{1F600}".as_bytes().to_vec(),
		"a\u{e9}\u{20ac}".as_bytes().to_vec(),
		vec![0xFF],
		vec![0xC3],
		vec![0xE2, 0x82],
		vec![0xED, 0xA0, 0x80],
		vec![0xC0, 0x80],
		vec![0xF4, 0x90, 0x80, 0x80],
		vec![0x61, 0xFF],
		"x".repeat(300).into_bytes(),
	];
	let mut rng = Rng::new(opts.seed);
	let n_random = if opts.thorough() { 2000 } else { 200 };
	for _ in 0..n_random {
		let len = 20 + rng.below(181);
		let target = 1 + rng.below(12);
		let few = 1 + rng.below(alphabet.len());
		let ops = gen_random(&mut rng, &alphabet[..few], len, target, &mut st);
		emit(&mut w, &mut st, &ops, true, "random");
	}

	// 2b. contents around and beyond 512 bytes (hashing / lookup of long keys): the same long
	// contents interned again while a first copy is alive, as str and as bytes, with casts,
	// clones, hand-over in between; pairs that share their first 512 bytes.
	let long_lens: &[usize] = &[511, 512, 513, 600, 4096];
	let mut long_histories = 0usize;
	for &n in long_lens {
		let x = long_content(n, b'x', b'1');
		let y = long_content(n, b'x', b'2'); // same length, same first n-1 bytes
		let z = long_content(n, b'x', 0xFF); // not UTF-8: cast_str fails
		// hand-written family, every step compared
		let i1: [fn(Vec<u8>) -> Op; 2] = [Op::IS, Op::IB];
		for a in i1 {
			for b in i1 {
				let fam: Vec<Vec<Op>> = vec![
					vec![a(x.clone()), b(x.clone()), Op::Dr(0), Op::Dr(0)],
					vec![a(x.clone()), b(x.clone()), Op::Dr(1), Op::Dr(0)],
					vec![a(x.clone()), b(x.clone()), Op::Cl(1), Op::Dr(0), b(x.clone()), Op::Dr(0), Op::Dr(0), Op::Dr(0)],
					vec![a(x.clone()), Op::Cl(0), Op::Dr(0), b(x.clone()), a(x.clone()), Op::Dr(1), Op::Dr(0), Op::Dr(0)],
					vec![a(x.clone()), Op::Ho, b(x.clone()), Op::Dr(0), b(x.clone()), Op::Dr(0), Op::Dr(0)],
					vec![a(x.clone()), b(y.clone()), a(x.clone()), b(y.clone()), Op::Dr(0), a(y.clone()), Op::Dr(0), Op::Dr(0), Op::Dr(0), Op::Dr(0)],
					vec![a(x.clone()), Op::IB(z.clone()), b(x.clone()), Op::IB(z.clone()), Op::Cs(1), Op::IB(z.clone()), Op::Dr(0), Op::Dr(0), Op::Dr(0), Op::Dr(0)],
				];
				for (fi, ops) in fam.iter().enumerate() {
					// the 4 KiB contents run the short members only (quick tier): output size
					if n > 1024 && !opts.thorough() && !matches!(fi, 0 | 1 | 4) {
						continue;
					}
					emit(&mut w, &mut st, ops, true, "long-family");
					long_histories += 1;
				}
			}
		}
		// cast in between: str -> bytes -> intern again as str, and the reverse
		let casts: Vec<Vec<Op>> = vec![
			vec![Op::IS(x.clone()), Op::Cb(0), Op::IS(x.clone()), Op::Cs(0), Op::IB(x.clone()), Op::Dr(0), Op::Dr(0), Op::Dr(0)],
			vec![Op::IB(x.clone()), Op::Cs(0), Op::IB(x.clone()), Op::Cs(1), Op::IS(x.clone()), Op::Dr(2), Op::Dr(0), Op::Dr(0)],
		];
		for ops in &casts {
			emit(&mut w, &mut st, ops, true, "long-family");
			long_histories += 1;
		}
		// every valid history of length <= 3 over {str x, bytes x, bytes y} + hand-over
		if n <= 600 || opts.thorough() {
			let interns = vec![Op::IS(x.clone()), Op::IB(x.clone()), Op::IB(y.clone())];
			let before = st.histories;
			for len in 1..=3 {
				enumerate(&mut w, &mut st, &mut Vec::new(), &Vec::new(), &interns, true, len);
			}
			long_histories += st.histories - before;
		}
	}
	// random histories over long contents only / long mixed with short
	let long_alphabet: Vec<Vec<u8>> = vec![
		long_content(513, b'x', b'1'),
		long_content(513, b'x', b'2'),
		long_content(600, b'y', b'1'),
		long_content(600, b'y', 0xFF),
		long_content(512, b'x', b'1'),
		long_content(511, b'x', b'1'),
		long_content(1025, b'z', b'1'),
		b"a".to_vec(),
		"x".repeat(300).into_bytes(),
	];
	let n_long_random = if opts.thorough() { 300 } else { 30 };
	for _ in 0..n_long_random {
		let len = 10 + rng.below(31);
		let target = 1 + rng.below(5);
		let few = 2 + rng.below(long_alphabet.len() - 1);
		let ops = gen_random(&mut rng, &long_alphabet[..few], len, target, &mut st);
		emit(&mut w, &mut st, &ops, true, "long-random");
		long_histories += 1;
	}

	// 3. UTF-8 validity of the model against `cast_str` (i.e. `str::from_utf8`) on boundary bytes
	let bset: Vec<u8> = vec![
		0x00, 0x41, 0x7F, 0x80, 0x8F, 0x90, 0x9F, 0xA0, 0xBF, 0xC0, 0xC1, 0xC2, 0xDF, 0xE0, 0xE1, 0xEC, 0xED, 0xEE,
		0xEF, 0xF0, 0xF1, 0xF3, 0xF4, 0xF5, 0xFF,
	];
	let mut all: Vec<Vec<u8>> = vec![vec![]];
	for a in 0..=255u8 {
		all.push(vec![a]);
	}
	for &a in &bset {
		for &b in &bset {
			all.push(vec![a, b]);
			if a >= 0xC0 {
				for &c in &bset {
					all.push(vec![a, b, c]);
				}
			}
		}
	}
	let n4 = if opts.thorough() { 200_000 } else { 20_000 };
	for _ in 0..n4 {
		let l = 3 + rng.below(4);
		let mut v = Vec::new();
		if rng.chance(1, 2) {
			v.push(*rng.pick(&[0xF0u8, 0xF1, 0xF3, 0xF4, 0xE0, 0xED, 0xEF]));
		}
		while v.len() < l {
			v.push(*rng.pick(&bset));
		}
		all.push(v);
	}
	let utf8_total = all.len();
	for chunk in all.chunks(256) {
		utf8_case(&mut w, chunk);
	}

	let mut len_hist: BTreeMap<String, usize> = BTreeMap::new();
	for (k, v) in &st.lens {
		let b = match *k {
			0..=7 => format!("{k}"),
			8..=50 => "08-50".to_string(),
			51..=100 => "51-100".to_string(),
			_ => "101-200".to_string(),
		};
		*len_hist.entry(b).or_default() += v;
	}
	w.finish(
		json!({
			"engine": "c18",
			"rule": format!("interner histories: exhaustive valid op sequences (7 intern ops x clone/drop/cast on every live value x hand-over) to length {full_d}, 4 intern ops to {small_d}, 3 to {tiny_d}; {n_random} random histories of 20..200 ops over {} contents; {long_histories} histories over contents of 511/512/513/600/1025/4096 bytes (same long contents interned again while alive, pairs differing only in the last byte, str/bytes, casts, hand-over; enumerated to length 3 + families + random); {utf8_total} byte strings through cast_str", alphabet.len()),
			"histories": st.histories,
			"exhaustive_histories": exhaustive,
			"random_histories": n_random,
			"long_content_histories": long_histories,
			"long_content_lengths": long_lens,
			"op_histogram": st.ops,
			"length_histogram": len_hist,
			"max_live_values": st.max_live,
			"utf8_strings": utf8_total,
		}),
		&opts.out,
	);
}

fn utf8_case(w: &mut CaseWriter, chunk: &[Vec<u8>]) {
	let valid: Vec<bool> = std::thread::scope(|sc| {
		sc.spawn(|| chunk.iter().map(|b| IBytes::from(b.as_slice()).cast_str().is_some()).collect())
			.join()
			.unwrap_or_default()
	});
	w.case(
		json!({"op":"intern.utf8","bs":chunk,"size":chunk.len(),"trivial":false}),
		json!({"valid": valid}),
	);
}

// ---------------------------------------------------------------------------------------------
// collector
// ---------------------------------------------------------------------------------------------

/// (tag, template); `{K}` is replaced by a small number, `{S}` by a string literal
const TEMPLATES: &[(&str, &str)] = &[
	("self-ref", "{a: self, b: {K}}.a.a.b"),
	("self-ref-local", "local o = {x: o, y: {K}}; o.x.x.y"),
	("dollar", "{f: $.g, g: {K}, h: {i: $.f}}"),
	("rec-closure", "local f(n) = if n == 0 then 0 else 1 + f(n - 1); f({K})"),
	("rec-closure-kept", "local f(n) = if n == 0 then [] else [f] + f(n - 1); std.length(f({K}))"),
	("mutual-locals", "local a = {b: b, v: {K}}, b = {a: a}; a.b.a.v"),
	("mutual-fns", "local even(n) = if n == 0 then true else odd(n - 1), odd(n) = if n == 0 then false else even(n - 1); even({K})"),
	("obj-local-ctx", "{local x = self.y, local z = x + 1, y: {K}, w: z, v: {local q = $.w, r: q}}"),
	("obj-local-fn", "{local f(a) = a + self.y, y: {K}, z: f(1), zz: f(2)}"),
	("super-chain", "({a: {K}, b: self.a} + {a: super.a + 1, c: super.b} + {a+: 1}).c"),
	("inherit-self", "local base = {n: 'x', greet: 'hi ' + self.n}; (base {n: {S}}).greet"),
	("arr-thunks", "local arr = [function() arr[1], {K}, arr]; arr[0]() + std.length(arr[2])"),
	("comprehension", "{[k]: {me: $, v: k} for k in ['a', 'b', {S}]}"),
	("arr-comp-closure", "local fs = [function(y) x + y + std.length(fs) for x in std.range(0, {K})]; fs[0](1)"),
	("std-map", "std.map(function(x) {v: x, o: self}, std.range(1, {K}))"),
	("std-foldl", "std.foldl(function(a, b) a + {[std.toString(b)]: a}, std.range(1, 4), {})"),
	("make-array", "local t = std.makeArray({K} + 1, function(i) if i == 0 then 0 else t[i - 1] + 1); t[{K}]"),
	("merge-patch", "std.mergePatch({a: {b: {K}, c: {S}}}, {a: {b: null, d: {e: 1}}})"),
	("object-fields", "local o = {a: 1, b:: self, c::: o}; std.objectFieldsAll(o)"),
	("string-bytes", "std.decodeUTF8(std.encodeUTF8({S} + 'é')) + std.base64(std.base64DecodeBytes(std.base64({S})))"),
	("format", "'%s-%d' % [{S}, {K}] + std.format('%(a)s', {a: {S}})"),
	("tailstrict", "local f(n, acc) = if n == 0 then acc else f(n - 1, acc + 1) tailstrict; f({K}, 0)"),
	("lazy-unused-cycle", "local o = {x: o, boom: error 'never'}; {K}"),
	("cached-field", "local o = {big: std.range(0, {K}), n: std.length(self.big), m: self.n + self.n}; o.m + o.m"),
	// failing
	("err-in-cycle", "local o = {x: o, y: error {S}}; o.x.x.y"),
	("err-field", "{a: self.b, b: error 'boom' + {S}}.a"),
	("err-assert", "{assert self.x > {K} : 'small', x: 1, me: self}.me.x"),
	("err-late-manifest", "{a: {K}, b: {c: self, d: error 'late'}}"),
	("err-type", "local o = {x: o}; o.x + {K}"),
	("err-nofield", "local o = {x: o}; o.x.x.nope"),
	("err-in-map", "std.map(function(x) if x == 2 then error 'two' else {s: self}, std.range(0, {K}))"),
	("err-arity", "local f(a) = f; f(1, 2)"),
	// cut off by the stack limit
	("stack-fn", "local f(x) = f(x + 1) + 1; f({K})"),
	("stack-self", "{a: self.a}.a"),
	("stack-local-obj", "local o = {x: o.x, k: {K}}; o.x"),
	("stack-mutual", "local a = {v: b.v}, b = {v: a.v}; a.v"),
	("stack-objs", "local f(n) = {n: n, next: f(n + 1), me: self}; std.length(std.toString(f({K})))"),
	("stack-arr", "local f(n) = [n, f(n + 1)]; f(0)"),
	("stack-deep-super", "std.foldl(function(a, b) a + {v: super.v + b, s: self}, std.range(1, 400), {v: 0}).v"),
];

/// Programs whose field names / strings are longer than 512 bytes and are built twice
/// independently (std.repeat, concatenation, join); the second copy is used for a computed field
/// lookup, `std.objectHas`, `==` and inheritance.  (tag, program with `{N}` = length, expected JSON)
const LONG_PROGRAMS: &[(&str, &str, &str)] = &[
	(
		"long-field-lookup",
		"local k1 = std.repeat('a', {N}), k2 = std.repeat('a', {N} - 1) + 'a'; local o = {[k1]: 7, me: self}; [o[k2], k1 == k2, std.objectHas(o, k2), std.length(std.objectFields(o.me))]",
		"[7,true,true,2]",
	),
	(
		"long-field-inherit",
		"local mk(n) = std.join('', std.makeArray(n, function(i) 'q')); local a = mk({N}), b = mk({N} - 1) + 'q'; [{[a]: 1} + {[b]+: 2} == {[b]: 3}, std.length(std.objectFields({[a]: 1} + {[b]: 2}))]",
		"[true,1]",
	),
	(
		"long-field-concat",
		"local s = std.repeat('k', {N}); local o = {[s + 'x']: 'v'}; o[std.repeat('k', {N}) + 'x'] + std.toString(std.repeat('k', {N}) + 'x' == s + 'x')",
		"\"vtrue\"",
	),
	(
		"long-field-cycle",
		"local n1 = std.repeat('n', {N}), n2 = std.join('', [std.repeat('n', {N} - 1), 'n']); local o = {[n1]: o, z: 1}; o[n2][n2].z",
		"1",
	),
	(
		"long-string-set",
		"local a = std.repeat('a', {N}), b = std.repeat('a', {N} - 1) + 'a'; [std.length(std.set([a, b])), a == b, std.decodeUTF8(std.encodeUTF8(a)) == b, {[a]: 1}[std.decodeUTF8(std.encodeUTF8(b))]]",
		"[1,true,true,1]",
	),
	(
		"long-field-format",
		"local a = std.repeat('f', {N}), b = '%s%s' % [std.repeat('f', {N} - 2), 'ff']; local o = {[a]: {v: 5, up: o}}; o[b].up[b].v",
		"5",
	),
];

fn gc_once(code: &str) -> (String, String) {
	let s = new_state();
	let r = guarded(|| {
		let v = s.evaluate_snippet("<gc>".to_owned(), code.to_owned())?;
		v.manifest(JsonFormat::minify())
	});
	let class = match &r {
		Ok(Ok(_)) => "ok".to_string(),
		Ok(Err(e)) => format!("err:{}", err_class(e)),
		Err(_) => "panic".to_string(),
	};
	let result = match &r {
		Ok(Ok(text)) => text.to_string(),
		_ => class.clone(),
	};
	drop(r);
	drop(s);
	(class, result)
}

fn gc_measure(code: &str) -> Value {
	gc_measure_in(code, None)
}

/// `env`: evaluate in the environment of `c18_kinds` (ext vars, natives, library path = `env`)
fn gc_measure_in(code: &str, env: Option<std::path::PathBuf>) -> Value {
	gc_measure_opt(code, env, true)
}

/// `prewarm`: materialise the evaluator's per-thread empty-object singleton (`{}` — it stays tracked
/// for the life of the thread by design, see the finding c18_empty_object_singleton_stays_tracked)
/// before the first count, so that `retained_after_first` is the ABSOLUTE statement of the property:
/// after the first evaluation, the drop of result and state and a collection, nothing the program
/// created is tracked (a differential baseline would absorb a one-off retention such as a thread-local
/// state object created on the way)
fn gc_measure_opt(code: &str, env: Option<std::path::PathBuf>, prewarm: bool) -> Value {
	let code = code.to_owned();
	std::thread::Builder::new()
		.stack_size(256 << 20)
		.spawn(move || {
			let gc_once = |code: &str| match &env {
				Some(lib) => c18_kinds::gc_once_env(code, lib),
				None => gc_once(code),
			};
			if prewarm {
				let _ = gc_once("{}");
				jrsonnet_gcmodule::collect_thread_cycles();
			}
			let fresh_tracked = jrsonnet_gcmodule::count_thread_tracked();
			let (c1, _) = gc_once(&code);
			jrsonnet_gcmodule::collect_thread_cycles();
			let base_tracked = jrsonnet_gcmodule::count_thread_tracked() as i64;
			let base_pool = verif_pool_len() as i64;
			let (c2, result) = gc_once(&code);
			let uncollected = jrsonnet_gcmodule::count_thread_tracked() as i64 - base_tracked;
			jrsonnet_gcmodule::collect_thread_cycles();
			let tracked = jrsonnet_gcmodule::count_thread_tracked() as i64;
			let pool = verif_pool_len() as i64;
			// The thread is about to end: thread-local caches that hold interned strings are
			// dropped by TLS destructors, where a failing pool assertion cannot unwind and would
			// abort the whole harness.  Detach (leak) the pool first; measurements are done.
			let _ = guarded(exit_thread);
			json!({
				"tracked_leaked": tracked - base_tracked,
				"retained_after_first": base_tracked - fresh_tracked as i64,
				"pool_leaked": pool - base_pool,
				"panic": c1 == "panic" || c2 == "panic",
				"_class": c2,
				"_result": result,
				"_class_first": c1,
				"_baseline_tracked": base_tracked,
				"_fresh_tracked": fresh_tracked,
				"_cyclic_garbage_before_collect": uncollected,
				"_baseline_pool": base_pool,
			})
		})
		.expect("spawn")
		.join()
		.unwrap_or_else(|_| json!({"tracked_leaked": -1, "retained_after_first": -1, "pool_leaked": -1, "panic": true, "_class": "thread-panic"}))
}

fn instantiate(t: &str, rng: &mut Rng) -> String {
	let k = *rng.pick(&[0usize, 1, 2, 3, 7, 20]);
	let s = *rng.pick(&["'s'", "''", "'é€'", "'a b'", "\"q\\n\""]);
	t.replace("{K}", &k.to_string()).replace("{S}", s)
}

/// Measure one program in a child process (`jvh c18gc --replay`); a child that dies is a panic.
fn gc_measure_child(op: &Value, out: &std::path::Path) -> Value {
	let dir = out.join("child");
	let _ = std::fs::create_dir_all(&dir);
	let rp = dir.join("replay.json");
	let died = |why: String| json!({"tracked_leaked": -1, "retained_after_first": -1, "pool_leaked": -1, "panic": true, "_class": why});
	if std::fs::write(&rp, json!({ "op": op }).to_string()).is_err() {
		return died("child-io".into());
	}
	let _ = std::fs::remove_file(dir.join("impl.jsonl"));
	let exe = match std::env::current_exe() {
		Ok(e) => e,
		Err(_) => return died("child-exe".into()),
	};
	let status = std::process::Command::new(exe)
		.arg("c18gc")
		.args(["--tier", "quick", "--seed", "1", "--out"])
		.arg(&dir)
		.arg("--replay")
		.arg(&rp)
		.stderr(std::process::Stdio::null())
		.status();
	let line = std::fs::read_to_string(dir.join("impl.jsonl")).unwrap_or_default();
	match (status, serde_json::from_str::<Value>(line.lines().next().unwrap_or(""))) {
		(Ok(st), Ok(mut v)) if st.success() => {
			// the child already copied `_result` into `result`; drop it, the caller does that
			if let Some(o) = v.as_object_mut() {
				o.remove("result");
			}
			v
		}
		(Ok(st), _) => died(format!("child-died:{st}")),
		(Err(e), _) => died(format!("child-spawn:{e}")),
	}
}

/// keep the case files current so that, should the process die, the last line names the program
fn flush(w: &mut CaseWriter) {
	use std::io::Write;
	let _ = w.inp.flush();
	let _ = w.imp.flush();
}

fn run_gc(opts: &Opts) {
	let mut w = CaseWriter::new(&opts.out);
	let mut classes: BTreeMap<String, usize> = BTreeMap::new();
	let mut tags: BTreeMap<String, usize> = BTreeMap::new();
	let mut garbage = 0usize;
	let mut push = |w: &mut CaseWriter, tag: &str, code: String| {
		let m = gc_measure(&code);
		*classes.entry(m["_class"].as_str().unwrap_or("?").to_string()).or_default() += 1;
		*tags.entry(tag.to_string()).or_default() += 1;
		if m["_cyclic_garbage_before_collect"].as_i64().unwrap_or(0) > 0 {
			garbage += 1;
		}
		w.case(json!({"op":"gc.observe","prog":code,"tag":tag,"size":code.len()}), m);
		flush(w);
	};
	// same measurement, and the manifested result must be the expected JSON.  `isolated`: the
	// program runs in a child process (this binary in replay mode), because a failing pool
	// assertion inside a destructor that runs during unwinding aborts the process it happens in.
	let out_dir = opts.out.clone();
	let push_expect = move |w: &mut CaseWriter, tag: &str, code: String, expect: &str, isolated: bool| {
		let op = json!({"op":"gc.observe","prog":code,"tag":tag,"expect":expect,"size":code.len()});
		let mut m = if isolated {
			gc_measure_child(&op, &out_dir)
		} else {
			gc_measure(&code)
		};
		let result = m.get("_result").cloned().unwrap_or(Value::Null);
		m["result"] = result;
		w.case(op, m);
		flush(w);
	};
	// programs of `c18_kinds`: evaluated in its environment; `class` (where given) is demanded too
	let lib_dir = opts.out.join("gclib");
	c18_kinds::write_lib(&lib_dir);
	let push_kind = {
		let lib_dir = lib_dir.clone();
		move |w: &mut CaseWriter, tag: &str, code: String, class: Option<&str>| -> Value {
			let mut op = json!({"op":"gc.observe","prog":code,"tag":tag,"env":true,"size":code.len()});
			let mut m = gc_measure_in(&code, Some(lib_dir.clone()));
			if let Some(c) = class {
				op["class"] = json!(c);
				let got = m["_class"].as_str().unwrap_or("?");
				m["class"] = json!(got.strip_prefix("err:").unwrap_or(got));
			}
			w.case(op, m.clone());
			flush(w);
			m
		}
	};
	if let Some(rp) = &opts.replay {
		let v: Value = serde_json::from_str(&std::fs::read_to_string(rp).expect("replay")).expect("json");
		let opv = v.get("op").cloned().unwrap_or(v);
		if let Some(code) = opv.get("prog").and_then(Value::as_str) {
			if opv.get("env").and_then(Value::as_bool) == Some(true) {
				push_kind(&mut w, "replay", code.to_string(), opv.get("class").and_then(Value::as_str));
			} else if let Some(e) = opv.get("expect").and_then(Value::as_str) {
				push_expect(&mut w, "replay", code.to_string(), e, false);
			} else {
				push(&mut w, "replay", code.to_string());
			}
		}
		w.finish(json!({"engine":"c18gc","rule":"replay"}), &opts.out);
		return;
	}
	// the empty-object singleton itself, measured WITHOUT pre-warming (known finding)
	for code in ["{}", "{ a: {} }.a", "({} + { x: 1 }) + { x: 1 }"] {
		let m = gc_measure_opt(code, None, false);
		w.case(json!({"op":"gc.observe","prog":code,"tag":"empty-object-singleton","absolute":true,"size":code.len()}), m);
	}
	let mut rng = Rng::new(opts.seed ^ 0xC18);
	// every template with two parameter choices
	for (tag, t) in TEMPLATES {
		for _ in 0..(if opts.thorough() { 8 } else { 3 }) {
			let code = instantiate(t, &mut rng);
			push(&mut w, tag, code);
		}
	}
	// long (> 512 bytes) names and strings built twice independently
	let mut long_programs = 0usize;
	for (tag, t, expect) in LONG_PROGRAMS {
		for n in [511usize, 512, 513, 600, 4096] {
			push_expect(&mut w, tag, t.replace("{N}", &n.to_string()), expect, true);
			long_programs += 1;
		}
	}
	// combinations: several cyclic structures alive at once, some failing
	let n_combo = if opts.thorough() { 3000 } else { 300 };
	for _ in 0..n_combo {
		let n = 2 + rng.below(3);
		let parts: Vec<String> = (0..n)
			.map(|_| {
				let (_, t) = rng.pick(TEMPLATES);
				format!("({})", instantiate(t, &mut rng))
			})
			.collect();
		let code = match rng.below(3) {
			0 => format!("[{}]", parts.join(", ")),
			1 => format!(
				"{{{}}}",
				parts.iter().enumerate().map(|(i, p)| format!("f{i}: {p}")).collect::<Vec<_>>().join(", ")
			),
			_ => format!(
				"local keep = [{}]; local me = {{k: keep, m: me}}; std.length(me.m.k)",
				parts.join(", ")
			),
		};
		push(&mut w, "combo", code);
	}
	// every kind of object core / array representation / thunk / function value in a cycle with
	// its owner
	let mut kind_garbage: BTreeMap<String, usize> = BTreeMap::new();
	let mut kind_classes: BTreeMap<String, usize> = BTreeMap::new();
	let mut kind_programs = 0usize;
	for (tag, kinds, class, t) in c18_kinds::KIND_TEMPLATES {
		for _ in 0..(if opts.thorough() { 6 } else { 2 }) {
			let code = instantiate(t, &mut rng);
			let m = push_kind(&mut w, tag, code, if *class == "*" { None } else { Some(class) });
			kind_programs += 1;
			*kind_classes.entry(m["_class"].as_str().unwrap_or("?").to_string()).or_default() += 1;
			if m["_cyclic_garbage_before_collect"].as_i64().unwrap_or(0) > 0 {
				for k in *kinds {
					*kind_garbage.entry((*k).to_string()).or_default() += 1;
				}
			}
		}
	}
	// several of them alive at once, sharing one owner
	let n_kcombo = if opts.thorough() { 1000 } else { 100 };
	for _ in 0..n_kcombo {
		let n = 2 + rng.below(3);
		let parts: Vec<String> = (0..n)
			.map(|_| loop {
				let (_, _, _, t) = rng.pick(c18_kinds::KIND_TEMPLATES);
				if !t.starts_with("function") {
					break format!("({})", instantiate(t, &mut rng));
				}
			})
			.collect();
		let code = match rng.below(3) {
			0 => format!("[{}]", parts.join(", ")),
			1 => format!("local me = {{ k: [{}], m: me, s: self }}; std.length(me.m.s.k)", parts.join(", ")),
			_ => format!("local me = {{ k: [{}], m: me, s: self }}; me.m.s.k", parts.join(", ")),
		};
		push_kind(&mut w, "kind-combo", code, None);
		kind_programs += 1;
	}
	// the kinds the evaluator source declares vs the kinds the templates cycle through
	let (kinds_src, kind_hist, unreached) = match c18_kinds::kinds_in_source() {
		Ok(src) => {
			let (h, u) = c18_kinds::coverage(&src);
			(src.into_iter().collect::<Vec<_>>(), h, u)
		}
		Err(e) => (Vec::new(), BTreeMap::new(), vec![format!("<evaluator source not readable: {e}>")]),
	};
	w.case(
		json!({"op":"gc.coverage","kinds_in_source":kinds_src,"size":0,"trivial":true}),
		json!({"unreached": unreached}),
	);
	let cases = w.n;
	w.finish(
		json!({
			"engine": "c18gc",
			"kind_rule": format!("{} templates that put every kind of object core (plain, standalone super, omitted fields; built by std.objectRemoveKey / mergePatch / mapWithKey / prune / comprehensions / +: chains / natives), array representation (literal, lazy, eager, slice, reversed, mapped, repeated, range, extended, chars, bytes, object value / key-value views, arrays of arrays containing their owner), thunk (object field, array element, mapped element, memoized closure, evaluated, errored, pending context) and function value (closure, method, default parameters, std.id, static builtin, builtin with state, native callback with memory) into a reference cycle WITH ITS OWNER (cached in a field of the owner / captured by its closure / stored by a native), plus imports, import cycles, importstr/importbin, std.thisFile, ext-code values, TLA arguments, lazily evaluated self / $ / super, and error paths (cycle built, then error / failed assertion / type error / missing import / stack limit); x parameters + {n_kcombo} combinations under one owner; evaluated twice on a fresh thread, tracked objects and pool size after run 2 == after run 1, evaluation class as declared; `gc.coverage`: every `impl ObjectCore/ArrayLike/ThunkValue/Unbound/ObjectAssertion/Builtin for T` of the evaluator source must be claimed by a template", c18_kinds::KIND_TEMPLATES.len()),
			"kind_programs": kind_programs,
			"kinds_in_evaluator_source": kinds_src,
			"kind_coverage_histogram(templates per kind)": kind_hist,
			"kind_programs_that_left_cyclic_garbage(per kind)": kind_garbage,
			"kind_class_histogram": kind_classes,
			"kinds_not_cycled": c18_kinds::NOT_CYCLED.iter().map(|(k, why)| json!([k, why])).collect::<Vec<_>>(),
			"kinds_unreached": unreached,
			"rule": format!("collector: {} cyclic-structure templates (self reference, recursive closures, mutual locals, object-local contexts; succeeding / failing / stack-limited) x parameters + {n_combo} random combinations + {long_programs} programs with names/strings of 511..4096 bytes built twice independently (computed field lookup, objectHas, ==, inheritance; result must equal the expected JSON); each evaluated twice on a fresh thread, State and result dropped, collect_thread_cycles(); tracked objects and pool size after run 2 == after run 1", TEMPLATES.len()),
			"programs": cases,
			"long_name_programs_with_expected_result": long_programs,
			"result_class_histogram": classes,
			"template_histogram": tags,
			"programs_that_left_cyclic_garbage_for_the_collector": garbage,
		}),
		&opts.out,
	);
}
