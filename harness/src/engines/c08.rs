//! C08 — arrays behave identically whatever their internal representation.
//! Generates array expressions (terms), realises each (a) through the public `ArrValue`
//! constructors and (b) through the evaluator from source text, probes `len` and `get`/`a[i]` at
//! every index around the bounds, and writes the answers next to the `arr.probe` model operation.
use std::num::NonZeroU32;

use jrsonnet_evaluator::{
	error::ErrorKind,
	function::NativeFn,
	typed::FromUntyped,
	val::ArrValue,
	Thunk, Val,
};
use serde_json::{json, Value};

use crate::common::{guarded, new_state, CaseWriter, Opts, Rng};

#[derive(Clone, Debug)]
pub enum T {
	Lit(Vec<i64>, u8),
	Range(i64, i64),
	Slice(Box<T>, Option<i64>, Option<i64>, Option<u64>),
	Cat(Box<T>, Box<T>),
	Rev(Box<T>),
	Rep(Box<T>, usize),
	Map(Box<T>, bool),
	Filter(Box<T>),
}

impl T {
	fn json(&self) -> Value {
		match self {
			T::Lit(xs, _) => json!({"k":"lit","xs":xs}),
			T::Range(a, b) => json!({"k":"range","a":a,"b":b}),
			T::Slice(t, s, e, st) => json!({"k":"slice","t":t.json(),"s":s,"e":e,"st":st}),
			T::Cat(a, b) => json!({"k":"cat","a":a.json(),"b":b.json()}),
			T::Rev(t) => json!({"k":"rev","t":t.json()}),
			T::Rep(t, n) => json!({"k":"rep","t":t.json(),"n":n}),
			T::Map(t, wi) => json!({"k":"map","t":t.json(),"wi":wi}),
			T::Filter(t) => json!({"k":"filter","t":t.json()}),
		}
	}
	fn src(&self) -> String {
		fn o(v: &Option<i64>) -> String {
			v.map_or(String::new(), |v| v.to_string())
		}
		match self {
			T::Lit(xs, _) => format!(
				"[{}]",
				xs.iter().map(ToString::to_string).collect::<Vec<_>>().join(",")
			),
			T::Range(a, b) => format!("std.range({a},{b})"),
			T::Slice(t, s, e, st) => format!(
				"({})[{}:{}:{}]",
				t.src(),
				o(s),
				o(e),
				st.map_or(String::new(), |v| v.to_string())
			),
			T::Cat(a, b) => format!("({})+({})", a.src(), b.src()),
			T::Rev(t) => format!("std.reverse({})", t.src()),
			T::Rep(t, n) => format!("std.repeat({},{n})", t.src()),
			T::Map(t, false) => format!("std.map(function(x) x*3+1,{})", t.src()),
			T::Map(t, true) => format!("std.mapWithIndex(function(i,x) x*3+i,{})", t.src()),
			T::Filter(t) => format!("std.filter(function(x) x%2==0,{})", t.src()),
		}
	}
	fn size(&self) -> usize {
		match self {
			T::Lit(xs, _) => 1 + xs.len() / 8,
			T::Range(..) => 1,
			T::Slice(t, ..) | T::Rev(t) | T::Rep(t, _) | T::Map(t, _) | T::Filter(t) => 1 + t.size(),
			T::Cat(a, b) => 1 + a.size() + b.size(),
		}
	}
	fn top(&self) -> &'static str {
		match self {
			T::Lit(..) => "lit",
			T::Range(..) => "range",
			T::Slice(..) => "slice",
			T::Cat(..) => "cat",
			T::Rev(..) => "rev",
			T::Rep(..) => "rep",
			T::Map(..) => "map",
			T::Filter(..) => "filter",
		}
	}
}

struct Fns {
	map: NativeFn!((Thunk<Val>) -> Val),
	mapi: NativeFn!((u32, Thunk<Val>) -> Val),
	filt: NativeFn!((Thunk<Val>) -> bool),
}

fn direct(t: &T, f: &Fns) -> ArrValue {
	match t {
		T::Lit(xs, kind) => {
			let vals: Vec<Val> = xs.iter().map(|x| Val::Num((*x as i32).into())).collect();
			if *kind == 0 {
				ArrValue::eager(vals)
			} else {
				ArrValue::lazy(vals.into_iter().map(Thunk::evaluated).collect())
			}
		}
		T::Range(a, b) => {
			if b < a {
				ArrValue::empty()
			} else {
				ArrValue::range_inclusive(*a as i32, *b as i32)
			}
		}
		T::Slice(t, s, e, st) => direct(t, f).slice(
			s.map(|v| v as i32),
			e.map(|v| v as i32),
			st.map(|v| NonZeroU32::new(v as u32).expect("step>0")),
		),
		T::Cat(a, b) => ArrValue::extended(direct(a, f), direct(b, f)),
		T::Rev(t) => direct(t, f).reversed(),
		T::Rep(t, n) => ArrValue::repeated(direct(t, f), *n).expect("no overflow"),
		T::Map(t, false) => direct(t, f).map(f.map.clone()),
		T::Map(t, true) => direct(t, f).map_with_index(f.mapi.clone()),
		T::Filter(t) => direct(t, f).filter(f.filt.clone()).expect("filter"),
	}
}

fn show(v: Result<jrsonnet_evaluator::Result<Option<Val>>, String>) -> String {
	match v {
		Ok(Ok(Some(Val::Num(n)))) => format!("v:{}", n.get() as i64),
		Ok(Ok(Some(_))) => "other".into(),
		Ok(Ok(None)) => "oob".into(),
		Ok(Err(e)) => match e.error() {
			ErrorKind::ArrayBoundsError(..) => "oob".into(),
			_ => format!("err:{}", e.error()),
		},
		Err(_) => "panic".into(),
	}
}

fn probes(len: usize) -> Vec<usize> {
	let mut v: Vec<usize> = Vec::new();
	if len <= 14 {
		v.extend(0..=len + 2);
	} else {
		v.extend([0, 1, 2, len / 2]);
		v.extend(len - 2..=len + 2);
		for k in [998usize, 999, 1000, 1001, 1002] {
			if k < len + 3 {
				v.push(k);
			}
		}
		v.sort_unstable();
		v.dedup();
	}
	v
}

fn gen_base(rng: &mut Rng, big: bool) -> T {
	if big && rng.chance(1, 3) {
		let n = *rng.pick(&[997i64, 998, 999, 1000, 1001]);
		return T::Range(1, n);
	}
	match rng.below(5) {
		0 => {
			let a = rng.range(-3, 4);
			T::Range(a, a + rng.range(-2, 6))
		}
		_ => {
			let n = *rng.pick(&[0usize, 1, 2, 3, 5]);
			let start = rng.range(-4, 40);
			T::Lit((0..n as i64).map(|i| start + i * 3 + (i % 2)).collect(), rng.below(2) as u8)
		}
	}
}

fn gen_idx(rng: &mut Rng) -> Option<i64> {
	match rng.below(8) {
		0 | 1 => None,
		2 => Some(0),
		3 => Some(*rng.pick(&[1000i64, 999, 1001, -1000, 2147483647, -2147483648, -2147483647])),
		_ => Some(rng.range(-7, 8)),
	}
}

fn gen(rng: &mut Rng, depth: usize, big: bool) -> T {
	if depth == 0 {
		return gen_base(rng, big);
	}
	match rng.below(10) {
		0 | 1 | 2 => T::Slice(
			Box::new(gen(rng, depth - 1, big)),
			gen_idx(rng),
			gen_idx(rng),
			match rng.below(5) {
				0 | 1 => None,
				2 => Some(1),
				3 => Some(2),
				_ => Some(rng.range(3, 5) as u64),
			},
		),
		3 | 4 => {
			let d2 = rng.below(depth);
			T::Cat(Box::new(gen(rng, depth - 1, big)), Box::new(gen(rng, d2, big)))
		}
		5 => T::Rev(Box::new(gen(rng, depth - 1, big))),
		6 | 7 => T::Rep(Box::new(gen(rng, depth - 1, false)), rng.below(4)),
		8 => T::Map(Box::new(gen(rng, depth - 1, big)), rng.chance(1, 2)),
		_ => T::Filter(Box::new(gen(rng, depth - 1, big))),
	}
}

/// systematic depth-1 enumeration: every unary constructor over every small base with every
/// small parameter
fn enumerate_depth1(out: &mut Vec<T>) {
	let mut bases: Vec<T> = Vec::new();
	for n in [0usize, 1, 2, 3, 5] {
		bases.push(T::Lit((0..n as i64).map(|i| 10 + i).collect(), 0));
	}
	bases.push(T::Lit(vec![4, 7, 8], 1));
	bases.push(T::Range(2, 6));
	bases.push(T::Range(3, 2));
	let idx: Vec<Option<i64>> = vec![None, Some(-7), Some(-2), Some(-1), Some(0), Some(1), Some(2), Some(4), Some(9)];
	let steps: Vec<Option<u64>> = vec![None, Some(1), Some(2), Some(3)];
	for b in &bases {
		out.push(b.clone());
		for s in &idx {
			for e in &idx {
				for st in &steps {
					out.push(T::Slice(Box::new(b.clone()), *s, *e, *st));
				}
			}
		}
		out.push(T::Rev(Box::new(b.clone())));
		for n in 0..4 {
			out.push(T::Rep(Box::new(b.clone()), n));
		}
		out.push(T::Map(Box::new(b.clone()), false));
		out.push(T::Map(Box::new(b.clone()), true));
		out.push(T::Filter(Box::new(b.clone())));
		for c in &bases {
			out.push(T::Cat(Box::new(b.clone()), Box::new(c.clone())));
		}
	}
	// second level: each unary view over each unary view of a 3/5-element base
	let inner: Vec<T> = vec![
		T::Slice(Box::new(bases[4].clone()), Some(0), Some(2), None),
		T::Slice(Box::new(bases[4].clone()), Some(1), None, Some(2)),
		T::Rev(Box::new(bases[3].clone())),
		T::Rep(Box::new(bases[2].clone()), 2),
		T::Rep(Box::new(bases[0].clone()), 3),
		T::Map(Box::new(bases[3].clone()), true),
		T::Cat(Box::new(bases[1].clone()), Box::new(bases[2].clone())),
		T::Cat(Box::new(T::Range(1, 999)), Box::new(bases[2].clone())),
		T::Cat(Box::new(T::Range(1, 998)), Box::new(bases[2].clone())),
	];
	for b in &inner {
		out.push(b.clone());
		for s in [None, Some(-2), Some(1)] {
			for e in [None, Some(-1), Some(3)] {
				for st in [None, Some(2)] {
					out.push(T::Slice(Box::new(b.clone()), s, e, st));
				}
			}
		}
		out.push(T::Rev(Box::new(b.clone())));
		out.push(T::Rep(Box::new(b.clone()), 2));
		out.push(T::Map(Box::new(b.clone()), false));
		out.push(T::Filter(Box::new(b.clone())));
		for c in &inner {
			out.push(T::Cat(Box::new(b.clone()), Box::new(c.clone())));
		}
	}
}

pub fn run(opts: &Opts) {
	let s = new_state();
	let _g = s.enter();
	let fv = |code: &str| s.evaluate_snippet("<f>".to_owned(), code.to_owned()).expect("fn");
	let fns = Fns {
		map: FromUntyped::from_untyped(fv("function(x) x*3+1")).expect("nf"),
		mapi: FromUntyped::from_untyped(fv("function(i,x) x*3+i")).expect("nf"),
		filt: FromUntyped::from_untyped(fv("function(x) x%2==0")).expect("nf"),
	};
	let mut w = CaseWriter::new(&opts.out);
	let mut rng = Rng::new(opts.seed);
	let mut terms: Vec<T> = Vec::new();
	enumerate_depth1(&mut terms);
	let n_enum = terms.len();
	let n_rand = if opts.thorough() { 60000 } else { 6000 };
	for i in 0..n_rand {
		let depth = 1 + rng.below(if opts.thorough() { 5 } else { 4 });
		terms.push(gen(&mut rng, depth, i % 7 == 0));
	}
	let mut hist = std::collections::BTreeMap::<&'static str, usize>::new();
	let mut n_direct = 0usize;
	let mut n_eval = 0usize;
	for t in &terms {
		*hist.entry(t.top()).or_default() += 1;
		let tj = t.json();
		// (a) direct constructors
		let built = guarded(|| direct(t, &fns));
		match built {
			Ok(arr) => {
				let len = arr.len();
				let idx = probes(len.min(5000));
				let got: Vec<String> =
					idx.iter().map(|i| show(guarded(|| arr.get(*i)))).collect();
				w.case(
					json!({"op":"arr.probe","via":"direct","t":tj,"idx":idx,"size":t.size()}),
					json!({"len":len,"get":got}),
				);
			}
			Err(_) => {
				w.case(
					json!({"op":"arr.probe","via":"direct","t":tj,"idx":[0],"size":t.size()}),
					json!({"len":0,"get":["panic"]}),
				);
			}
		}
		n_direct += 1;
		// (b) through the evaluator: `a[i]` with the Index arm, std.length
		let src = t.src();
		let code = format!("local a = {src}; {{ len: std.length(a), at: function(i) a[i] }}");
		let r = guarded(|| s.evaluate_snippet("<c08>".to_owned(), code.clone()));
		match r {
			Ok(Ok(Val::Obj(o))) => {
				let len = guarded(|| o.get("len".into()));
				let at = guarded(|| o.get("at".into()));
				match (len, at) {
					(Ok(Ok(Some(Val::Num(n)))), Ok(Ok(Some(at)))) => {
						let len = n.get() as usize;
						let idx = probes(len.min(5000));
						let at: Result<NativeFn!((f64) -> Val), _> = FromUntyped::from_untyped(at);
						let at = at.expect("at fn");
						let got: Vec<String> = idx
							.iter()
							.map(|i| show(guarded(|| at.call(*i as f64).map(Some))))
							.collect();
						w.case(
							json!({"op":"arr.probe","via":"eval","src":src,"t":tj,"idx":idx,"size":t.size()}),
							json!({"len":len,"get":got}),
						);
					}
					(l, _) => {
						let why = match l {
							Ok(Ok(_)) => "len-not-num".to_string(),
							Ok(Err(e)) => format!("err:{}", e.error()),
							Err(_) => "panic".to_string(),
						};
						w.case(
							json!({"op":"arr.probe","via":"eval","src":src,"t":tj,"idx":[0],"size":t.size()}),
							json!({"len":0,"get":[why]}),
						);
					}
				}
			}
			Ok(Ok(_)) => unreachable!(),
			Ok(Err(e)) => w.case(
				json!({"op":"arr.probe","via":"eval","src":src,"t":tj,"idx":[0],"size":t.size()}),
				json!({"len":0,"get":[format!("err:{}", e.error())]}),
			),
			Err(_) => w.case(
				json!({"op":"arr.probe","via":"eval","src":src,"t":tj,"idx":[0],"size":t.size()}),
				json!({"len":0,"get":["panic"]}),
			),
		}
		n_eval += 1;
	}
	let meta = json!({
		"engine":"c08","cases":w.n,"enumerated":n_enum,"random":n_rand,
		"direct":n_direct,"eval":n_eval,"top_constructor_hist":hist,
		"rule":"array terms over {lit,range,slice,cat,rev,rep,map,filter}: systematic depth<=2 enumeration + seeded random to depth 4(quick)/5(thorough); each probed through ArrValue constructors and through evaluated source at every index 0..len+2 (sampled around bounds and the 1000-element concat threshold for long arrays)"
	});
	w.finish(meta, &opts.out);
}
