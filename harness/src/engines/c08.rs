//! C08 — arrays behave identically whatever their internal representation.
//! Generates array expressions (terms), realises each (a) through the public `ArrValue`
//! constructors and (b) through the evaluator from source text, probes `len`, `is_cheap` and ALL
//! THREE accessors (`get`, `get_lazy(i).evaluate()`, `get_cheap`) of the resulting `ArrValue` at
//! every index around the bounds, plus `a[i]` through the `Index` arm (whole, negative, fractional,
//! huge indices), and writes the answers next to the `arr.probe` / `arr.index` model operations.
//! `arr.rangelen` probes the public range constructors with arbitrary `i32` pairs (wrapping length),
//! `arr.mkarr_guard` the typed-argument guard of `std.makeArray`.
use std::num::NonZeroU32;

use jrsonnet_evaluator::{
	error::ErrorKind,
	function::NativeFn,
	typed::FromUntyped,
	val::{ArrValue, ArrayLike},
	Thunk, Val,
};
use serde_json::{json, Value};

use crate::common::{guarded, new_state, CaseWriter, Opts, Rng};

#[derive(Clone, Debug)]
pub enum T {
	Lit(Vec<i64>, u8),
	Range(i64, i64),
	Slice(Box<T>, Option<i64>, Option<i64>, Option<u64>),
	Cat(Box<T>, Box<T>),
	Rev(Box<T>),
	Rep(Box<T>, usize),
	Map(Box<T>, bool),
	Filter(Box<T>),
	/// std.stringChars(s) : CharArray
	Chars(String),
	/// std.encodeUTF8(s) : BytesArray
	Bytes(String),
	/// std.objectValues({k000: x0, ...}) : PickObjectValues
	ObjVals(Vec<i64>),
	/// std.makeArray(n, function(i) i*3+1) / std.makeArray(n, function(i) c)
	MkArr(usize, Option<i64>),
}

/// one-character strings (CharArray elements) travel as tagged code points
const CHAR_TAG: i64 = 1 << 40;

#[derive(Clone, Copy, PartialEq, Eq)]
enum Route {
	Direct,
	Eval,
}

impl T {
	/// the term as the model sees it; the representation of a literal depends on the route:
	/// direct = EagerArray / LazyArray, source = ExprArray (`[]` = empty range) / comprehension
	fn json(&self, r: Route) -> Value {
		match self {
			T::Lit(xs, kind) => {
				let c = match (r, kind) {
					(Route::Direct, 0) => "eager",
					(Route::Eval, 0) => "expr",
					_ => "lazy",
				};
				json!({"k":"lit","xs":xs,"c":c})
			}
			T::Range(a, b) => json!({"k":"range","a":a,"b":b}),
			T::Slice(t, s, e, st) => json!({"k":"slice","t":t.json(r),"s":s,"e":e,"st":st}),
			T::Cat(a, b) => json!({"k":"cat","a":a.json(r),"b":b.json(r)}),
			T::Rev(t) => json!({"k":"rev","t":t.json(r)}),
			T::Rep(t, n) => json!({"k":"rep","t":t.json(r),"n":n}),
			T::Map(t, wi) => json!({"k":"map","t":t.json(r),"wi":wi}),
			T::Filter(t) => json!({"k":"filter","t":t.json(r)}),
			T::Chars(s) => {
				json!({"k":"chars","xs":s.chars().map(|c| c as i64 + CHAR_TAG).collect::<Vec<_>>()})
			}
			T::Bytes(s) => json!({"k":"bytes","xs":s.bytes().map(i64::from).collect::<Vec<_>>()}),
			T::ObjVals(xs) => json!({"k":"objvals","xs":xs}),
			T::MkArr(n, triv) => json!({"k":"mkarr","n":n,"triv":triv}),
		}
	}
	/// all elements are numbers (the fixed mapper / filter functions do arithmetic)
	fn numeric(&self) -> bool {
		match self {
			T::Chars(_) => false,
			T::Lit(..) | T::Range(..) | T::Bytes(_) | T::ObjVals(_) | T::MkArr(..) => true,
			T::Slice(t, ..) | T::Rev(t) | T::Rep(t, _) | T::Map(t, _) | T::Filter(t) => t.numeric(),
			T::Cat(a, b) => a.numeric() && b.numeric(),
		}
	}
	/// can be built through the public `ArrValue` constructors (PickObjectValues is crate-private,
	/// makeArray is a stdlib builtin)
	fn has_direct(&self) -> bool {
		match self {
			T::ObjVals(_) | T::MkArr(..) => false,
			T::Lit(..) | T::Range(..) | T::Chars(_) | T::Bytes(_) => true,
			T::Slice(t, ..) | T::Rev(t) | T::Rep(t, _) | T::Map(t, _) | T::Filter(t) => t.has_direct(),
			T::Cat(a, b) => a.has_direct() && b.has_direct(),
		}
	}
	fn src(&self) -> String {
		fn o(v: &Option<i64>) -> String {
			v.map_or(String::new(), |v| v.to_string())
		}
		match self {
			T::Lit(xs, 0) => format!(
				"[{}]",
				xs.iter().map(ToString::to_string).collect::<Vec<_>>().join(",")
			),
			T::Lit(xs, _) => format!(
				"[x for x in [{}]]",
				xs.iter().map(ToString::to_string).collect::<Vec<_>>().join(",")
			),
			T::Chars(s) => format!("std.stringChars({})", serde_json::to_string(s).expect("str")),
			T::Bytes(s) => format!("std.encodeUTF8({})", serde_json::to_string(s).expect("str")),
			T::ObjVals(xs) => format!(
				"std.objectValues({{{}}})",
				xs.iter().enumerate().map(|(i, x)| format!("k{i:03}:{x}")).collect::<Vec<_>>().join(",")
			),
			T::MkArr(n, None) => format!("std.makeArray({n},function(i) i*3+1)"),
			T::MkArr(n, Some(c)) => format!("std.makeArray({n},function(i) {c})"),
			T::Range(a, b) => format!("std.range({a},{b})"),
			T::Slice(t, s, e, st) => format!(
				"({})[{}:{}:{}]",
				t.src(),
				o(s),
				o(e),
				st.map_or(String::new(), |v| v.to_string())
			),
			T::Cat(a, b) => format!("({})+({})", a.src(), b.src()),
			T::Rev(t) => format!("std.reverse({})", t.src()),
			T::Rep(t, n) => format!("std.repeat({},{n})", t.src()),
			T::Map(t, false) => format!("std.map(function(x) x*3+1,{})", t.src()),
			T::Map(t, true) => format!("std.mapWithIndex(function(i,x) x*3+i,{})", t.src()),
			T::Filter(t) => format!("std.filter(function(x) x%2==0,{})", t.src()),
		}
	}
	fn size(&self) -> usize {
		match self {
			T::Lit(xs, _) | T::ObjVals(xs) => 1 + xs.len() / 8,
			T::Range(..) | T::Chars(_) | T::Bytes(_) | T::MkArr(..) => 1,
			T::Slice(t, ..) | T::Rev(t) | T::Rep(t, _) | T::Map(t, _) | T::Filter(t) => 1 + t.size(),
			T::Cat(a, b) => 1 + a.size() + b.size(),
		}
	}
	fn top(&self) -> &'static str {
		match self {
			T::Lit(..) => "lit",
			T::Range(..) => "range",
			T::Slice(..) => "slice",
			T::Cat(..) => "cat",
			T::Rev(..) => "rev",
			T::Rep(..) => "rep",
			T::Map(..) => "map",
			T::Filter(..) => "filter",
			T::Chars(..) => "chars",
			T::Bytes(..) => "bytes",
			T::ObjVals(..) => "objvals",
			T::MkArr(..) => "mkarr",
		}
	}
}

struct Fns {
	map: NativeFn!((Thunk<Val>) -> Val),
	mapi: NativeFn!((u32, Thunk<Val>) -> Val),
	filt: NativeFn!((Thunk<Val>) -> bool),
}

fn direct(t: &T, f: &Fns) -> ArrValue {
	match t {
		T::Lit(xs, kind) => {
			let vals: Vec<Val> = xs.iter().map(|x| Val::Num((*x as i32).into())).collect();
			if *kind == 0 {
				ArrValue::eager(vals)
			} else {
				ArrValue::lazy(vals.into_iter().map(Thunk::evaluated).collect())
			}
		}
		T::Range(a, b) => {
			if b < a {
				ArrValue::empty()
			} else {
				ArrValue::range_inclusive(*a as i32, *b as i32)
			}
		}
		T::Slice(t, s, e, st) => direct(t, f).slice(
			s.map(|v| v as i32),
			e.map(|v| v as i32),
			st.map(|v| NonZeroU32::new(v as u32).expect("step>0")),
		),
		T::Cat(a, b) => ArrValue::extended(direct(a, f), direct(b, f)),
		T::Rev(t) => direct(t, f).reversed(),
		T::Rep(t, n) => ArrValue::repeated(direct(t, f), *n).expect("no overflow"),
		T::Map(t, false) => direct(t, f).map(f.map.clone()),
		T::Map(t, true) => direct(t, f).map_with_index(f.mapi.clone()),
		T::Filter(t) => direct(t, f).filter(f.filt.clone()).expect("filter"),
		T::Chars(s) => ArrValue::chars(s.chars()),
		T::Bytes(s) => ArrValue::bytes(s.as_bytes().into()),
		T::ObjVals(_) | T::MkArr(..) => unreachable!("has_direct checked"),
	}
}

fn show(v: Result<jrsonnet_evaluator::Result<Option<Val>>, String>) -> String {
	match v {
		Ok(Ok(Some(Val::Num(n)))) => format!("v:{}", n.get() as i64),
		Ok(Ok(Some(Val::Str(s)))) => {
			let s = s.to_string();
			let mut it = s.chars();
			match (it.next(), it.next()) {
				(Some(c), None) => format!("v:{}", c as i64 + CHAR_TAG),
				_ => "other".into(),
			}
		}
		Ok(Ok(Some(_))) => "other".into(),
		Ok(Ok(None)) => "oob".into(),
		Ok(Err(e)) => match e.error() {
			ErrorKind::ArrayBoundsError(..) => "oob".into(),
			ErrorKind::FractionalIndex => "frac".into(),
			_ => format!("err:{}", e.error()),
		},
		Err(_) => "panic".into(),
	}
}

fn probes(len: usize) -> Vec<usize> {
	let mut v: Vec<usize> = Vec::new();
	if len <= 14 {
		v.extend(0..=len + 2);
	} else {
		v.extend([0, 1, 2, len / 2]);
		v.extend(len - 2..=len + 2);
		for k in [998usize, 999, 1000, 1001, 1002] {
			if k < len + 3 {
				v.push(k);
			}
		}
		v.sort_unstable();
		v.dedup();
	}
	v
}

/// every observation of one `ArrValue`: `len`, `is_cheap`, and the three accessors at `idx`
fn probe_arr(arr: &ArrValue, idx: &[usize]) -> serde_json::Map<String, Value> {
	let get: Vec<String> = idx.iter().map(|i| show(guarded(|| arr.get(*i)))).collect();
	let lazy: Vec<String> = idx
		.iter()
		.map(|i| show(guarded(|| arr.get_lazy(*i).map(|t| t.evaluate()).transpose())))
		.collect();
	let cheap: Vec<String> = idx
		.iter()
		.map(|i| show(guarded(|| Ok(<ArrValue as ArrayLike>::get_cheap(arr, *i)))))
		.collect();
	let mut m = serde_json::Map::new();
	m.insert("len".into(), json!(arr.len()));
	m.insert("get".into(), json!(get));
	m.insert("lazy".into(), json!(lazy));
	m.insert("cheap".into(), json!(cheap));
	m.insert("is_cheap".into(), json!(arr.is_cheap()));
	m
}

fn failed(why: &str) -> Value {
	json!({"len":0,"get":[why],"lazy":[why],"cheap":[why],"is_cheap":false})
}

/// the double `x` as `m / 2^e` (`m` a decimal string: it can exceed 64 bits)
fn dyadic(x: f64) -> (String, u32) {
	if x == 0.0 {
		return ("0".into(), 0);
	}
	let bits = x.to_bits();
	let neg = bits >> 63 == 1;
	let exp = ((bits >> 52) & 0x7ff) as i32;
	let frac = bits & ((1u64 << 52) - 1);
	let (mut mant, mut e2) = if exp == 0 { (frac, -1074) } else { (frac | (1u64 << 52), exp - 1075) };
	if e2 >= 0 {
		return (format!("{x:.0}"), 0);
	}
	while mant % 2 == 0 && e2 < 0 {
		mant /= 2;
		e2 += 1;
	}
	(format!("{}{}", if neg { "-" } else { "" }, mant), (-e2) as u32)
}

/// index numbers for the `Index` arm: (value, "the language has a definite answer")
fn index_probes(len: usize) -> Vec<(f64, bool)> {
	let l = len as f64;
	let eps = f64::EPSILON;
	let mut v = vec![
		(-1.0, true),
		(-2.0, true),
		(-1e300, true),
		(-2147483649.0, true),
		(0.0, true),
		(l - 1.0, true),
		(l, true),
		(l + 1.0, true),
		(0.5, true),
		(1.5, true),
		(l + 0.25, true),
		(2.0 * eps, true),
		(1.0 + 2.0 * eps, true),
		(2147483648.0, true),
		(4294967296.0, true),
		(4294967297.0, true),
		(9007199254740992.0, true),
		(2e19, true),
		(1e300, true),
		// tolerated / sign-dependent: the model answers, no reference meaning claimed
		(eps, false),
		(1.0 + eps, false),
		(eps / 256.0, false),
		(5e-324, false),
		(-0.5, false),
		(-eps / 256.0, false),
		(-5e-324, false),
	];
	if len >= 1 {
		v.push((l - 0.5, true));
		v.push((l - 1.0 + eps * l.max(1.0), false));
	}
	v
}

fn gen_str(rng: &mut Rng) -> String {
	let alphabet = ['a', 'b', 'z', '0', ' ', 'é', 'ß', '€', '中', '😀', '\u{7f}', '"', '\\'];
	let n = *rng.pick(&[0usize, 1, 2, 3, 5]);
	(0..n).map(|_| *rng.pick(&alphabet)).collect()
}

fn gen_base(rng: &mut Rng, big: bool) -> T {
	if big && rng.chance(1, 3) {
		let n = *rng.pick(&[997i64, 998, 999, 1000, 1001]);
		return match rng.below(4) {
			0 => T::MkArr(n as usize, None),
			1 => T::MkArr(n as usize, Some(7)),
			_ => T::Range(1, n),
		};
	}
	match rng.below(10) {
		0 | 1 => {
			let a = rng.range(-3, 4);
			T::Range(a, a + rng.range(-2, 6))
		}
		2 => T::Chars(gen_str(rng)),
		3 => T::Bytes(gen_str(rng)),
		4 => {
			let n = *rng.pick(&[0usize, 1, 2, 3, 5]);
			let start = rng.range(-4, 40);
			T::ObjVals((0..n as i64).map(|i| start + i * 2).collect())
		}
		5 => T::MkArr(*rng.pick(&[0usize, 1, 2, 3, 5]), if rng.chance(1, 3) { Some(rng.range(0, 9)) } else { None }),
		_ => {
			let n = *rng.pick(&[0usize, 1, 2, 3, 5]);
			let start = rng.range(-4, 40);
			T::Lit((0..n as i64).map(|i| start + i * 3 + (i % 2)).collect(), rng.below(2) as u8)
		}
	}
}

fn gen_idx(rng: &mut Rng) -> Option<i64> {
	match rng.below(8) {
		0 | 1 => None,
		2 => Some(0),
		3 => Some(*rng.pick(&[1000i64, 999, 1001, -1000, 2147483647, -2147483648, -2147483647])),
		_ => Some(rng.range(-7, 8)),
	}
}

fn gen(rng: &mut Rng, depth: usize, big: bool) -> T {
	if depth == 0 {
		return gen_base(rng, big);
	}
	match rng.below(10) {
		0 | 1 | 2 => T::Slice(
			Box::new(gen(rng, depth - 1, big)),
			gen_idx(rng),
			gen_idx(rng),
			match rng.below(5) {
				0 | 1 => None,
				2 => Some(1),
				3 => Some(2),
				_ => Some(rng.range(3, 5) as u64),
			},
		),
		3 | 4 => {
			let d2 = rng.below(depth);
			T::Cat(Box::new(gen(rng, depth - 1, big)), Box::new(gen(rng, d2, big)))
		}
		5 => T::Rev(Box::new(gen(rng, depth - 1, big))),
		6 | 7 => T::Rep(Box::new(gen(rng, depth - 1, false)), rng.below(4)),
		8 => {
			let t = gen(rng, depth - 1, big);
			if t.numeric() {
				T::Map(Box::new(t), rng.chance(1, 2))
			} else {
				T::Rev(Box::new(t))
			}
		}
		_ => {
			let t = gen(rng, depth - 1, big);
			if t.numeric() {
				T::Filter(Box::new(t))
			} else {
				T::Rev(Box::new(t))
			}
		}
	}
}

/// systematic depth-1 enumeration: every unary constructor over every small base with every
/// small parameter
fn enumerate_depth1(out: &mut Vec<T>) {
	let mut bases: Vec<T> = Vec::new();
	for n in [0usize, 1, 2, 3, 5] {
		bases.push(T::Lit((0..n as i64).map(|i| 10 + i).collect(), 0));
	}
	bases.push(T::Lit(vec![4, 7, 8], 1));
	bases.push(T::Range(2, 6));
	bases.push(T::Range(3, 2));
	// the remaining representations (index 8..)
	bases.push(T::Lit(vec![], 1));
	bases.push(T::Chars("aé€😀z".into()));
	bases.push(T::Chars(String::new()));
	bases.push(T::Bytes("aé€😀".into()));
	bases.push(T::ObjVals(vec![5, 6, 8]));
	bases.push(T::ObjVals(vec![]));
	bases.push(T::MkArr(0, None));
	bases.push(T::MkArr(4, None));
	bases.push(T::MkArr(3, Some(6)));
	bases.push(T::MkArr(0, Some(6)));
	let idx: Vec<Option<i64>> = vec![None, Some(-7), Some(-2), Some(-1), Some(0), Some(1), Some(2), Some(4), Some(9)];
	let steps: Vec<Option<u64>> = vec![None, Some(1), Some(2), Some(3)];
	for (bi, b) in bases.iter().enumerate() {
		out.push(b.clone());
		for s in &idx {
			for e in &idx {
				for st in &steps {
					// the full slice grid over the original bases, a thinner one over the new ones
					if bi >= 8 && (s.map_or(false, |v| v == 9 || v == -7) || e.map_or(false, |v| v == 9 || v == -7)) {
						continue;
					}
					out.push(T::Slice(Box::new(b.clone()), *s, *e, *st));
				}
			}
		}
		out.push(T::Rev(Box::new(b.clone())));
		for n in 0..4 {
			out.push(T::Rep(Box::new(b.clone()), n));
		}
		if b.numeric() {
			out.push(T::Map(Box::new(b.clone()), false));
			out.push(T::Map(Box::new(b.clone()), true));
			out.push(T::Filter(Box::new(b.clone())));
		}
		for c in &bases {
			out.push(T::Cat(Box::new(b.clone()), Box::new(c.clone())));
		}
	}
	// second level: each unary view over each unary view of a 3/5-element base
	let inner: Vec<T> = vec![
		T::Slice(Box::new(bases[4].clone()), Some(0), Some(2), None),
		T::Slice(Box::new(bases[4].clone()), Some(1), None, Some(2)),
		T::Rev(Box::new(bases[3].clone())),
		T::Rep(Box::new(bases[2].clone()), 2),
		T::Rep(Box::new(bases[0].clone()), 3),
		T::Map(Box::new(bases[3].clone()), true),
		T::Cat(Box::new(bases[1].clone()), Box::new(bases[2].clone())),
		T::Cat(Box::new(T::Range(1, 999)), Box::new(bases[2].clone())),
		T::Cat(Box::new(T::Range(1, 998)), Box::new(bases[2].clone())),
		// cheap views of cheap data (so that `extended` copies them through `get_cheap`)
		T::Slice(Box::new(T::Range(1, 9)), Some(1), None, Some(3)),
		T::Slice(Box::new(T::Bytes("abcdefg".into())), Some(1), Some(-1), Some(2)),
		T::Rev(Box::new(T::Range(1, 4))),
		T::Rep(Box::new(T::Range(1, 3)), 2),
		T::Slice(Box::new(T::Rev(Box::new(T::Range(1, 9)))), Some(2), None, Some(2)),
		T::Cat(Box::new(T::Range(1, 999)), Box::new(T::Range(5, 6))),
		T::Slice(Box::new(T::Cat(Box::new(T::Range(1, 999)), Box::new(T::Range(5, 9)))), Some(995), None, Some(2)),
		T::Filter(Box::new(T::Range(1, 6))),
		T::Chars("xyz".into()),
		T::MkArr(4, None),
		T::ObjVals(vec![1, 2, 3, 4]),
	];
	for b in &inner {
		out.push(b.clone());
		for s in [None, Some(-2), Some(1)] {
			for e in [None, Some(-1), Some(3)] {
				for st in [None, Some(2)] {
					out.push(T::Slice(Box::new(b.clone()), s, e, st));
				}
			}
		}
		out.push(T::Rev(Box::new(b.clone())));
		out.push(T::Rep(Box::new(b.clone()), 2));
		if b.numeric() {
			out.push(T::Map(Box::new(b.clone()), false));
			out.push(T::Filter(Box::new(b.clone())));
		}
		for c in &inner {
			out.push(T::Cat(Box::new(b.clone()), Box::new(c.clone())));
		}
	}
}

/// `arr.rangelen`: the public range constructors with arbitrary `i32` pairs
fn range_cases(w: &mut CaseWriter) -> usize {
	let pts: [i64; 12] = [
		-2147483648, -2147483647, -3, -2, -1, 0, 1, 2, 5, 1000, 2147483646, 2147483647,
	];
	let mut n = 0;
	for &s in &pts {
		for &e in &pts {
			for excl in [false, true] {
				let built = guarded(|| {
					if excl {
						ArrValue::range_exclusive(s as i32, e as i32)
					} else {
						ArrValue::range_inclusive(s as i32, e as i32)
					}
				});
				let op = |idx: &[usize]| json!({"op":"arr.rangelen","s":s,"e":e,"excl":excl,"idx":idx,"size":1});
				match built {
					Ok(arr) => {
						let len = guarded(|| arr.len());
						let l = len.clone().unwrap_or(0);
						let mut idx: Vec<usize> = vec![0, 1, 2];
						if l > 3 {
							idx.extend([l - 1, l, l.saturating_add(1)]);
						}
						idx.sort_unstable();
						idx.dedup();
						let get: Vec<String> = idx.iter().map(|i| show(guarded(|| arr.get(*i)))).collect();
						let cheap: Vec<String> = idx
							.iter()
							.map(|i| show(guarded(|| Ok(<ArrValue as ArrayLike>::get_cheap(&arr, *i)))))
							.collect();
						w.case(
							op(&idx),
							json!({"len": len.map_or("panic".to_string(), |l| l.to_string()), "get": get, "cheap": cheap}),
						);
					}
					Err(_) => w.case(op(&[0]), json!({"len":"panic","get":["panic"],"cheap":["panic"]})),
				}
				n += 1;
			}
		}
	}
	n
}

pub fn run(opts: &Opts) {
	let s = new_state();
	let _g = s.enter();
	let fv = |code: &str| s.evaluate_snippet("<f>".to_owned(), code.to_owned()).expect("fn");
	let fns = Fns {
		map: FromUntyped::from_untyped(fv("function(x) x*3+1")).expect("nf"),
		mapi: FromUntyped::from_untyped(fv("function(i,x) x*3+i")).expect("nf"),
		filt: FromUntyped::from_untyped(fv("function(x) x%2==0")).expect("nf"),
	};
	let mut w = CaseWriter::new(&opts.out);
	let mut rng = Rng::new(opts.seed);
	let mut terms: Vec<T> = Vec::new();
	enumerate_depth1(&mut terms);
	let n_enum = terms.len();
	let n_rand = if opts.thorough() { 60000 } else { 6000 };
	for i in 0..n_rand {
		let depth = 1 + rng.below(if opts.thorough() { 5 } else { 4 });
		terms.push(gen(&mut rng, depth, i % 7 == 0));
	}
	let mut hist = std::collections::BTreeMap::<&'static str, usize>::new();
	let mut cheap_hist = std::collections::BTreeMap::<String, usize>::new();
	let mut n_direct = 0usize;
	let mut n_eval = 0usize;
	let mut n_index = 0usize;
	for (ti, t) in terms.iter().enumerate() {
		*hist.entry(t.top()).or_default() += 1;
		// (a) direct constructors
		if t.has_direct() {
			let tj = t.json(Route::Direct);
			let built = guarded(|| direct(t, &fns));
			match built {
				Ok(arr) => {
					let idx = probes(arr.len().min(5000));
					*cheap_hist.entry(format!("direct:{}", arr.is_cheap())).or_default() += 1;
					w.case(
						json!({"op":"arr.probe","via":"direct","t":tj,"idx":idx,"size":t.size()}),
						Value::Object(probe_arr(&arr, &idx)),
					);
				}
				Err(_) => {
					w.case(
						json!({"op":"arr.probe","via":"direct","t":tj,"idx":[0],"size":t.size()}),
						failed("panic"),
					);
				}
			}
			n_direct += 1;
		}
		// (b) through the evaluator: the resulting ArrValue itself, `a[i]` with the Index arm,
		// std.length
		let tj = t.json(Route::Eval);
		let src = t.src();
		let code = format!("local a = {src}; {{ arr: a, len: std.length(a), at: function(i) a[i] }}");
		let r = guarded(|| s.evaluate_snippet("<c08>".to_owned(), code.clone()));
		let fail = |w: &mut CaseWriter, why: String| {
			let mut f = failed(&why);
			f["at"] = json!([why]);
			w.case(
				json!({"op":"arr.probe","via":"eval","at":true,"src":src,"t":tj,"idx":[0],"size":t.size()}),
				f,
			);
		};
		match r {
			Ok(Ok(Val::Obj(o))) => {
				let len = guarded(|| o.get("len".into()));
				let at = guarded(|| o.get("at".into()));
				let arr = guarded(|| o.get("arr".into()));
				match (len, at, arr) {
					(Ok(Ok(Some(Val::Num(n)))), Ok(Ok(Some(at))), Ok(Ok(Some(Val::Arr(arr))))) => {
						let len = n.get() as usize;
						let idx = probes(len.min(5000));
						let at: Result<NativeFn!((f64) -> Val), _> = FromUntyped::from_untyped(at);
						let at = at.expect("at fn");
						let got: Vec<String> = idx
							.iter()
							.map(|i| show(guarded(|| at.call(*i as f64).map(Some))))
							.collect();
						let mut m = probe_arr(&arr, &idx);
						// std.length must agree with ArrValue::len
						if arr.len() != len {
							m.insert("len".into(), json!(format!("std.length={len} but len()={}", arr.len())));
						}
						m.insert("at".into(), json!(got));
						*cheap_hist.entry(format!("eval:{}", arr.is_cheap())).or_default() += 1;
						w.case(
							json!({"op":"arr.probe","via":"eval","at":true,"src":src,"t":tj,"idx":idx,"size":t.size()}),
							Value::Object(m),
						);
						// the Index arm with negative / fractional / huge numbers
						if ti < n_enum && ti % 3 == 0 || ti >= n_enum && ti % 4 == 0 {
							for strict in [true, false] {
								let ps: Vec<f64> = index_probes(len)
									.into_iter()
									.filter(|(_, st)| *st == strict)
									.map(|(x, _)| x)
									.collect();
								let ix: Vec<Value> = ps
									.iter()
									.map(|x| {
										let (m, e) = dyadic(*x);
										json!({"m":m,"e":e,"_x":x})
									})
									.collect();
								let got: Vec<String> = ps
									.iter()
									.map(|x| show(guarded(|| at.call(*x).map(Some))))
									.collect();
								w.case(
									json!({"op":"arr.index","via":"eval","strict":strict,"src":src,"t":tj,"ix":ix,"size":t.size()}),
									json!({"at":got}),
								);
								n_index += 1;
							}
						}
					}
					(l, _, _) => {
						let why = match l {
							Ok(Ok(_)) => "len-not-num".to_string(),
							Ok(Err(e)) => format!("err:{}", e.error()),
							Err(_) => "panic".to_string(),
						};
						fail(&mut w, why);
					}
				}
			}
			Ok(Ok(_)) => unreachable!(),
			Ok(Err(e)) => fail(&mut w, format!("err:{}", e.error())),
			Err(_) => fail(&mut w, "panic".to_string()),
		}
		n_eval += 1;
	}
	let n_range = range_cases(&mut w);
	// the typed-argument guard of std.makeArray (valid huge sizes are not probed: the mapped
	// array allocates its cache eagerly)
	let mut n_guard = 0usize;
	for sz in [-2147483649i64, -2147483648, -5, -1, 0, 1, 3, 1000, 2147483648, 2147483653, 4294967296] {
		let code = format!("std.length(std.makeArray({sz}, function(i) i*3+1))");
		let r = guarded(|| s.evaluate_snippet("<c08g>".to_owned(), code.clone()));
		let ok = matches!(r, Ok(Ok(_)));
		let panicked = r.is_err();
		w.case(
			json!({"op":"arr.mkarr_guard","sz":sz,"size":1}),
			if panicked { json!({"ok":"panic"}) } else { json!({"ok":ok}) },
		);
		n_guard += 1;
	}
	let meta = json!({
		"engine":"c08","cases":w.n,"enumerated":n_enum,"random":n_rand,
		"direct":n_direct,"eval":n_eval,"index_cases":n_index,"range_pairs":n_range,"makearray_guard":n_guard,
		"top_constructor_hist":hist,"is_cheap_hist":cheap_hist,
		"rule":"array terms over {lit(eager|lazy|expr|comprehension),range,slice,cat,rev,rep,map,filter,stringChars,encodeUTF8,objectValues,makeArray}: systematic depth<=2 enumeration + seeded random to depth 4(quick)/5(thorough); each realised through ArrValue constructors and through evaluated source, the resulting ArrValue probed with len/is_cheap/get/get_lazy().evaluate()/get_cheap at every index 0..len+2 (sampled around bounds and the 1000-element concat threshold for long arrays) and a[i] through the Index arm; a[n] with negative/fractional/huge n; range_inclusive/range_exclusive over a 12x12 grid of i32 pairs; std.makeArray size guard"
	});
	w.finish(meta, &opts.out);
}
