//! C12 — std.format / `str % vals`.
//! Runs the real `std_format` (and, for a sample, the evaluator's `%` operator and `std.format`
//! builtin from source text) on
//!   (a) the full cross product flags(2^5) x width{none,0,1,5,*} x precision{none,.0,.1,.3,.*}
//!       x 15 conversions x values,
//!   (b) every string of length <= 4 over the alphabet `%(.*0-+ #dsxg)k5` (parse outcome; the
//!       ones of length <= 3 are also formatted in three argument modes),
//!   (c) argument-count / `*` / object-mode / multi-code cases, seeded random format strings.
//!   (d) integer conversions beyond i64, the float precision limit, %c of odd numbers,
//!   (e) float digits: boundary-heavy doubles (powers of two and ten with neighbours, subnormals,
//!       max finite, exact ties at every precision 0..20 with neighbours, random bit patterns)
//!       x e/E/f/F/g/G x precisions x flag/width forms through std_format, and — op `fmt.digits`
//!       — Rust's float formatting itself against the Lean exact reference (the assumption under
//!       which the float theorems hold).
//! Numbers travel as IEEE bit patterns (the Lean side decodes them to the exact value).  The
//! repaired format.rs delegates digit generation to Rust's float formatting
//! (`format!("{:.*}", p, x.abs())`, `format!("{:.*e}", p, x.abs())`); the Lean model takes the
//! returned texts as parameters, so they are produced here with the very same calls and sent
//! along (`fix` / `sci`).
use jrsonnet_evaluator::{
	error::ErrorKind,
	stdlib::{
		format::{parse_codes, FormatError},
		std_format,
	},
	val::ArrValue,
	State, Val,
};
use serde_json::{json, Value};

use crate::common::{guarded, new_state, CaseWriter, Opts, Rng};

fn cps(s: &str) -> Vec<u32> {
	s.chars().map(|c| c as u32).collect()
}

/// what `float_digits(n, p)` of format.rs evaluates: Rust's float formatting, fixed notation
fn rust_fixed(x: f64, p: u16) -> String {
	format!("{:.*}", usize::from(p), x.abs())
}

/// what `float_sci_digits(n, p)` of format.rs evaluates before splitting: scientific notation
fn rust_sci(x: f64, p: u16) -> String {
	format!("{:.*e}", usize::from(p), x.abs())
}

/// decimal exponent of |x| rounded to p+1 significant digits (as the `%g` arm obtains it)
fn sci_exp(x: f64, p: u16) -> i32 {
	let t = rust_sci(x, p);
	t.split_once('e').and_then(|(_, e)| e.parse().ok()).unwrap_or(0)
}

/// largest float precision format_code lets through
const MAX_FPPREC: u16 = 308;

/// the precisions at which format_code can ask for a text of `x` when the code's precision is one
/// of `precs`: p itself (e, f), max(p,1)-1 (g, exponent form and form selection), and
/// max(p,1) - digits_before_pt (g, fixed form)
fn expand_precs(x: f64, precs: &[u16]) -> Vec<u16> {
	let mut v = vec![];
	for &p in precs {
		if p > MAX_FPPREC {
			continue;
		}
		let pg = p.max(1);
		v.push(p);
		v.push(pg - 1);
		let e = sci_exp(x, pg - 1);
		if e >= 0 && e < i32::from(pg) {
			v.push(pg - (e as u16 + 1));
		}
	}
	v.sort_unstable();
	v.dedup();
	v
}

#[derive(Clone)]
struct V {
	src: String, // jsonnet source of the value
	val: Val,
	num: Option<f64>,
	kind: &'static str,
}

fn mkval(s: &State, src: &str, kind: &'static str) -> V {
	let val = s.evaluate_snippet("<v>".to_owned(), src.to_owned()).expect("value literal");
	let num = match &val {
		Val::Num(n) => Some(n.get()),
		_ => None,
	};
	V { src: src.to_owned(), val, num, kind }
}

/// JSON description of a value for the Lean driver; `precs` = float precisions the oracle must cover
fn describe(v: &Val, precs: &[u16]) -> Value {
	let disp = |v: &Val| -> Vec<u32> {
		match guarded(|| v.clone().to_string()) {
			Ok(Ok(s)) => cps(&s),
			_ => cps("<to_string failed>"),
		}
	};
	match v {
		Val::Num(n) => {
			let x = n.get();
			let ps = expand_precs(x, precs);
			let fix: Vec<Value> = ps.iter().map(|p| json!([p, rust_fixed(x, *p)])).collect();
			let sci: Vec<Value> = ps.iter().map(|p| json!([p, rust_sci(x, *p)])).collect();
			json!({"k":"num","bits":format!("{:016x}", x.to_bits()),"fix":fix,"sci":sci,"disp":disp(v),
				"_bits":format!("{:016x}", x.to_bits())})
		}
		Val::Str(s) => json!({"k":"str","s":cps(&s.clone().into_flat())}),
		Val::Obj(o) => {
			let mut fs = vec![];
			for name in o.fields_ex(true) {
				if let Ok(Some(fv)) = o.get(name.clone()) {
					fs.push(json!([cps(&name), describe(&fv, precs)]));
				}
			}
			json!({"k":"obj","f":fs,"disp":disp(v)})
		}
		_ => json!({"k":"other","disp":disp(v)}),
	}
}

fn err_name(e: &jrsonnet_evaluator::Error) -> &'static str {
	match e.error() {
		ErrorKind::Format(f) => match f {
			FormatError::TruncatedFormatCode => "truncated",
			FormatError::UnrecognizedConversionType(_) => "unknownConv",
			FormatError::FieldWidthTooLarge => "tooLarge",
			FormatError::NotEnoughValues => "notEnough",
			FormatError::CannotUseStarWidthWithObject => "starObj",
			FormatError::MappingKeysRequired => "keysRequired",
			FormatError::NoSuchFormatField(_) | FormatError::SubfieldNotFound { .. } => "noField",
			FormatError::SubfieldDidntYieldAnObject(..) => "notObj",
		},
		ErrorKind::RuntimeError(m) => {
			if m.starts_with("too many values") {
				"tooMany"
			} else if m.starts_with("%c expected a code point") {
				"codepoint"
			} else if m.starts_with("cannot convert number with fractional") || m.starts_with("%c expected") {
				"type"
			} else {
				"runtime"
			}
		}
		ErrorKind::TypeMismatch(..) | ErrorKind::TypeError(..) => "type",
		ErrorKind::InvalidUnicodeCodepointGot(_) => "codepoint",
		_ => "other",
	}
}

fn answer(r: Result<jrsonnet_evaluator::Result<String>, String>) -> Value {
	match r {
		Ok(Ok(s)) => json!({"ok": cps(&s)}),
		Ok(Err(e)) => json!({"err": err_name(&e), "_msg": format!("{}", e.error())}),
		Err(p) => json!({"err": "panic", "_msg": p}),
	}
}

/// the code's float precision for a case (describe() derives the precisions actually needed)
fn needed_precs(prec: Option<u16>, x: Option<f64>) -> Vec<u16> {
	if x.is_none() {
		return vec![];
	}
	vec![prec.unwrap_or(6)]
}

struct Ctx<'a> {
	s: &'a State,
	w: CaseWriter,
	n_eval: usize,
	hist: std::collections::BTreeMap<String, usize>,
}

impl Ctx<'_> {
	fn bump(&mut self, k: &str) {
		*self.hist.entry(k.to_owned()).or_default() += 1;
	}

	fn bump_n(&mut self, k: &str, n: usize) {
		*self.hist.entry(k.to_owned()).or_default() += n;
	}

	/// one case in array/single mode. `precs`: oracle precisions for numeric values
	fn case(&mut self, tag: &str, fmt: &str, mode: &str, vals: &[V], precs: &[u16], eval_too: bool, trivial: bool) {
		let arg = if mode == "arr" {
			Val::Arr(ArrValue::eager(vals.iter().map(|v| v.val.clone()).collect()))
		} else {
			vals[0].val.clone()
		};
		let r = guarded(|| std_format(fmt, arg));
		let descr: Vec<Value> = vals.iter().map(|v| describe(&v.val, precs)).collect();
		let size = fmt.chars().count() + vals.len();
		let mut op = json!({"op":"fmt","fmt":cps(fmt),"mode":mode,"vals":descr,"size":size,"_fmt":fmt,"_tag":tag,"via":"direct"});
		if trivial {
			op["trivial"] = json!(true);
		}
		let direct = answer(r);
		self.w.case(op.clone(), direct.clone());
		self.bump(tag);
		if eval_too {
			// the same through source text: `fmt % vals` (evaluate/operator.rs) and std.format
			let vsrc = if mode == "arr" {
				format!("[{}]", vals.iter().map(|v| v.src.clone()).collect::<Vec<_>>().join(","))
			} else {
				vals[0].src.clone()
			};
			let f = serde_json::to_string(fmt).expect("json str");
			for (via, code) in [("percent", format!("{f} % {vsrc}")), ("std.format", format!("std.format({f}, {vsrc})")), ("std.mod", format!("std.mod({f}, {vsrc})"))] {
				let r = guarded(|| -> jrsonnet_evaluator::Result<String> {
					let v = self.s.evaluate_snippet("<c12>".to_owned(), code.clone())?;
					match v {
						Val::Str(s) => Ok(s.into_flat().to_string()),
						_ => Ok("<not a string>".to_owned()),
					}
				});
				op["via"] = json!(via);
				op["_src"] = json!(code);
				self.w.case(op.clone(), answer(r));
				self.n_eval += 1;
			}
		}
	}
}

impl Ctx<'_> {
	/// family (e): ONE argument value `v`, EVERY way of reaching the formatter, all answers compared
	/// with the same reference answer:
	///   direct `std_format(fmt, v)`; from source `F % X`, `std.format(F, X)`, `std.mod(F, X)`,
	///   `local f = F, v = X; f % v` (operands behind thunks), `(F) % (X)`, `(F1 + F2) % X` (the format
	///   string cut in the middle: a rope when it is long);
	///   and the same value wrapped `[X]`: `std_format(fmt, [v])`, `F % [X]`, `std.format(F, [X])`,
	///   `std.mod(F, [X])`.
	/// Mode of the op sent to the Lean side: an array value IS the argument list (`arr`, its
	/// elements); an object selects object mode (`single`); any other value `x` means the same bare
	/// and wrapped (`single` = `format_arr(fmt, [x])`), so all nine share one op shape.
	fn reach(&mut self, tag: &str, fmt: &str, v: &V, precs: &[u16]) {
		let f = serde_json::to_string(fmt).expect("json str");
		let x = &v.src;
		// the format string as a concatenation cut in the middle (a rope when it has >= 100 bytes)
		let fc: Vec<char> = fmt.chars().collect();
		let f1 = serde_json::to_string(&fc[..fc.len() / 2].iter().collect::<String>()).expect("json str");
		let f2 = serde_json::to_string(&fc[fc.len() / 2..].iter().collect::<String>()).expect("json str");
		let elems: Option<Vec<Val>> = match &v.val {
			Val::Arr(a) => Some((0..a.len()).filter_map(|i| a.get(i).ok().flatten()).collect()),
			_ => None,
		};
		let is_obj = matches!(v.val, Val::Obj(_));
		let (bare_mode, bare_vals): (&str, Vec<Value>) = match &elems {
			Some(es) => ("arr", es.iter().map(|e| describe(e, precs)).collect()),
			None => ("single", vec![describe(&v.val, precs)]),
		};
		let (wrap_mode, wrap_vals): (&str, Vec<Value>) =
			if is_obj || elems.is_some() { ("arr", vec![describe(&v.val, precs)]) } else { ("single", vec![describe(&v.val, precs)]) };
		let size = fmt.chars().count() + 1;
		let s = self.s;
		let eval = |code: &str| -> Value {
			answer(guarded(|| -> jrsonnet_evaluator::Result<String> {
				let v = s.evaluate_snippet("<c12>".to_owned(), code.to_owned())?;
				match v {
					Val::Str(s) => Ok(s.into_flat().to_string()),
					_ => Ok("<not a string>".to_owned()),
				}
			}))
		};
		let wrapped = Val::Arr(ArrValue::eager(vec![v.val.clone()]));
		let runs: Vec<(&str, bool, Option<String>)> = vec![
			("bare:direct", false, None),
			("bare:percent", false, Some(format!("{f} % {x}"))),
			("bare:std.format", false, Some(format!("std.format({f}, {x})"))),
			("bare:std.mod", false, Some(format!("std.mod({f}, {x})"))),
			("bare:percent-locals", false, Some(format!("local f = {f}, v = {x}; f % v"))),
			("bare:percent-paren", false, Some(format!("({f}) % ({x})"))),
			("bare:percent-concat", false, Some(format!("({f1} + {f2}) % {x}"))),
			("wrapped:direct", true, None),
			("wrapped:percent", true, Some(format!("{f} % [{x}]"))),
			("wrapped:std.format", true, Some(format!("std.format({f}, [{x}])"))),
			("wrapped:std.mod", true, Some(format!("std.mod({f}, [{x}])"))),
		];
		for (via, wrap, code) in runs {
			let (mode, vals) = if wrap { (wrap_mode, &wrap_vals) } else { (bare_mode, &bare_vals) };
			let mut op = json!({"op":"fmt","fmt":cps(fmt),"mode":mode,"vals":vals,"size":size,"_fmt":fmt,"_tag":tag,"via":via,"_arg":x});
			let ans = match &code {
				None => {
					let arg = if wrap { wrapped.clone() } else { v.val.clone() };
					answer(guarded(|| std_format(fmt, arg)))
				}
				Some(c) => {
					op["_src"] = json!(c);
					self.n_eval += 1;
					eval(c)
				}
			};
			self.w.case(op, ans);
		}
		self.bump(tag);
		self.bump(&format!("reach:{}", v.kind));
	}
}

const CONVS: &[char] = &['d', 'i', 'u', 'o', 'x', 'X', 'e', 'E', 'f', 'F', 'g', 'G', 'c', 's', '%'];
const FLAGS: &[char] = &['#', '0', '-', ' ', '+'];

pub fn run(opts: &Opts) {
	let s = new_state();
	let _g = s.enter();
	let mut cx = Ctx { s: &s, w: CaseWriter::new(&opts.out), n_eval: 0, hist: Default::default() };
	let mut rng = Rng::new(opts.seed);

	// ---- values ------------------------------------------------------------------------------
	let value_srcs: &[(&str, &'static str)] = &[
		("0", "zero"),
		("1", "int"),
		("42", "int"),
		("-3", "negint"),
		("255", "int"),
		("0.5", "frac"),
		("-0.5", "negfrac"),
		("-1.5", "negfrac"),
		("123456.789", "frac"),
		("1e21", "huge"),
		("1e-7", "tiny"),
		("9007199254740993", "big"),
		("65", "int"),
		("\"\"", "str"),
		("\"a\"", "str"),
		("\"héllo\"", "str-nonascii"),
		("\"日本\"", "str-nonascii"),
		("[1,\"x\"]", "array"),
		("{a:1}", "object"),
		("null", "null"),
	];
	let more_srcs: &[(&str, &'static str)] = &[
		("-1", "negint"),
		("8", "int"),
		("9", "int"),
		("10", "int"),
		("99.5", "frac"),
		("0.0001234", "tiny"),
		("999999.5", "frac"),
		("-1e21", "huge"),
		("9223372036854775807", "big"),
		("9223372036854775808", "huge"),
		("-9223372036854775808", "huge"),
		("4294967296", "big"),
		("55296", "int"),
		("1114111", "int"),
		("1114112", "int"),
		("2.5", "frac"),
		("1e15", "big"),
		("true", "bool"),
		("\"ab\"", "str"),
		("\"%\"", "str"),
	];
	let values: Vec<V> = value_srcs.iter().map(|(src, k)| mkval(&s, src, k)).collect();
	let more: Vec<V> = more_srcs.iter().map(|(src, k)| mkval(&s, src, k)).collect();
	let numv = |x: &str| mkval(&s, x, "int");

	// ---- (a) full cross product -------------------------------------------------------------------
	let widths = ["", "0", "1", "5", "*"];
	let precs = ["", ".0", ".1", ".3", ".*"];
	let star_w: Vec<V> = ["0", "1", "3", "7", "12"].iter().map(|x| numv(x)).collect();
	let star_p: Vec<(u16, V)> = [0u16, 1, 2, 4, 9].iter().map(|x| (*x, numv(&x.to_string()))).collect();
	let mut n_cross = 0usize;
	let thorough = opts.thorough();
	for fl in 0u32..32 {
		let flags: String = FLAGS.iter().enumerate().filter(|(i, _)| fl >> i & 1 == 1).map(|(_, c)| *c).collect();
		for wd in widths {
			for pr in precs {
				for cv in CONVS {
					let vs: Vec<&V> = if thorough { values.iter().chain(more.iter()).collect() } else { values.iter().collect() };
					for (vi, v) in vs.iter().enumerate() {
						let fmt = format!("%{flags}{wd}{pr}{cv}|");
						let mut args: Vec<V> = vec![];
						let mut p: Option<u16> = match pr {
							"" => None,
							".0" => Some(0),
							".1" => Some(1),
							".3" => Some(3),
							_ => None,
						};
						if wd == "*" {
							args.push(rng.pick(&star_w).clone());
						}
						if pr == ".*" {
							let sp = rng.pick(&star_p);
							p = Some(sp.0);
							args.push(sp.1.clone());
						}
						if *cv != '%' {
							args.push((*v).clone());
						} else if vi > 0 {
							continue; // %% takes no value: one case per code
						}
						let np = needed_precs(p, v.num);
						// the evaluator path for a deterministic 1-in-16 sample
						let eval_too = n_cross % 16 == 0;
						cx.case(&format!("cross:{cv}:{}", v.kind), &fmt, "arr", &args, &np, eval_too, false);
						n_cross += 1;
					}
				}
			}
		}
	}

	// ---- (b) malformed / truncated: every string of length <= 4 over a small alphabet ----------------
	let alphabet: Vec<char> = "%(.*0-+ #dsxg)k5".chars().collect();
	let mut n_mal = 0usize;
	let a3 = numv("3");
	let a7 = numv("7");
	let ao = mkval(&s, "{k:5,\"5\":\"v\",\"\":1,d:{k:\"in\"}}", "object");
	let mut buf: Vec<usize> = vec![];
	loop {
		let st: String = buf.iter().map(|i| alphabet[*i]).collect();
		// parse outcome of every string
		let r = guarded(|| parse_codes(&st).map(|es| (es.len(), format!("{es:?}"))));
		let ans = match r {
			// `dbg`: the derived Debug text of the parsed elements (mapping key, every flag, width,
			// precision, conversion, caps); the alphabet has no character that Debug escapes
			Ok(Ok((n, dbg))) => json!({"ok": n, "codes": count_codes(&st), "dbg": dbg}),
			Ok(Err(e)) => json!({"err": err_name(&e)}),
			Err(p) => json!({"err":"panic","_msg":p}),
		};
		cx.w.case(json!({"op":"fmt.parse","fmt":cps(&st),"size":st.len(),"_fmt":st,"trivial": !st.contains('%')}), ans);
		n_mal += 1;
		if buf.len() <= 3 && st.contains('%') {
			cx.case("malformed:arr1", &st, "arr", &[a3.clone()], &[0, 1, 2, 3, 4, 5, 6, 7], false, false);
			cx.case("malformed:arr2", &st, "arr", &[a3.clone(), a7.clone()], &[0, 1, 2, 3, 4, 5, 6, 7], false, false);
			cx.case("malformed:obj", &st, "single", &[ao.clone()], &[0, 1, 2, 3, 4, 5, 6, 7], false, false);
		}
		// next string
		let mut i = buf.len();
		loop {
			if i == 0 {
				buf = vec![0; buf.len() + 1];
				break;
			}
			i -= 1;
			if buf[i] + 1 < alphabet.len() {
				buf[i] += 1;
				for b in buf.iter_mut().skip(i + 1) {
					*b = 0;
				}
				break;
			}
		}
		if buf.len() > 4 {
			break;
		}
	}

	// ---- (c) argument counts, `*`, object mode, literal text, multi-code strings ---------------------
	let lits = ["", "plain", "é日本", "a\nb", "100 percent", "x%%y", "%%", "%%%%"];
	for l in lits {
		for n in 0..3 {
			let args: Vec<V> = (0..n).map(|_| a3.clone()).collect();
			cx.case("literal", l, "arr", &args, &[6, 5], true, false);
		}
		cx.case("literal", l, "single", &[a3.clone()], &[6, 5], true, false);
		cx.case("literal", l, "single", &[ao.clone()], &[6, 5], true, false);
	}
	let multi = [
		"%d %s %x", "%s%s", "%*d|%-*d|", "%.*f %d", "%*.*f", "%d%%%d", "%5s|%-5s|%05d", "%(k)d", "%(k)s and %(d.k)s",
		"%(d.k)5s|", "%(k.x)s", "%(nope)s", "%(d.nope)s", "%()s", "%s", "%(k)*d", "%(k).*f", "%(k)%", "%%", "%5%|%-5%|",
		"%(5)s", "%(k)05d|%(k)-5d|%(k)+d", "%ld %hd %Lf %lld", "%c%c", "%(d)s", "%i-%u", "% d|%+d|% +d",
	];
	let arg_sets: Vec<Vec<V>> = vec![
		vec![],
		vec![a3.clone()],
		vec![a3.clone(), a7.clone()],
		vec![a3.clone(), a7.clone(), numv("2")],
		vec![a3.clone(), a7.clone(), numv("2"), numv("1.25")],
		vec![a3.clone(), a7.clone(), numv("2"), numv("1.25"), values[14].clone()],
		vec![values[15].clone(), values[14].clone(), a3.clone()],
		vec![numv("-2"), a3.clone()],
		vec![numv("1.5"), a3.clone()],
		vec![numv("65536"), a3.clone()],
		vec![numv("65535"), a3.clone()],
		vec![values[14].clone(), a3.clone()],
	];
	for f in multi {
		for a in &arg_sets {
			cx.case("args:arr", f, "arr", a, &[6, 5, 3, 2, 7, 1, 0, 65535, 65534], true, false);
		}
		cx.case("args:obj", f, "single", &[ao.clone()], &[6, 5, 3, 2, 7, 1, 0, 65535, 65534], true, false);
		cx.case("args:single", f, "single", &[a7.clone()], &[6, 5, 3, 2, 7, 1, 0, 65535, 65534], true, false);
		cx.case("args:single", f, "single", &[values[19].clone()], &[6, 5], true, false);
	}
	// wide fields, long strings, widths near the u16 boundary
	let long = mkval(&s, "std.repeat(\"é\", 70000)", "str-nonascii");
	for f in ["%70000d", "%65535d|", "%65536d", "%99999d", "%.65535d", "%.65536d", "%5s|", "%-5s|", "%065535d", "%#65535x", "%-65535o|"] {
		cx.case("wide", f, "arr", &[a3.clone()], &[6], false, false);
		cx.case("wide", f, "arr", &[long.clone()], &[6], false, false);
	}
	// ---- (d) integer conversions of numbers beyond the i64 range (exact digits), float precision limit,
	//          %c of negative numbers ---------------------------------------------------------------------
	let big_srcs = [
		"9223372036854775807", "9223372036854775808", "18446744073709551615", "18446744073709551616", "1e21", "1e22",
		"123456789012345678901234567890", "1e100", "8.98846567431158e307", "1.7976931348623157e308", "-1e300",
		"-9223372036854775809", "4.9406564584124654e-324", "340282366920938463463374607431768211456", "1e19", "-1e19",
	];
	let bigs: Vec<V> = big_srcs.iter().map(|x| mkval(&s, x, "huge")).collect();
	let mut n_big = 0usize;
	for v in &bigs {
		for cv in ['d', 'i', 'u', 'o', 'x', 'X'] {
			for fl in ["", "#", "0", "-", "+", " ", "#0", "+0", "#-", " #0"] {
				for wp in ["", "5", "400", ".3", ".350", "330.340", "*", ".*"] {
					let fmt = format!("%{fl}{wp}{cv}|");
					let mut args: Vec<V> = vec![];
					if wp.contains('*') {
						args.push(numv("345"));
					}
					args.push(v.clone());
					cx.case("big-int", &fmt, "arr", &args, &[], n_big % 64 == 0, false);
					n_big += 1;
				}
			}
		}
	}
	for v in [&a3, &values[5], &values[9], &values[15], &values[19]] {
		for cv in ['e', 'E', 'f', 'F', 'g', 'G', 'd', 's'] {
			for pr in [".308", ".309", ".310", ".65535", ".*"] {
				for star in ["309", "308", "65535", "400"] {
					if pr != ".*" && star != "309" {
						continue;
					}
					// precision 308 is the largest one accepted: rendered for the value itself
					let (val, p): (&V, u16) = if pr == ".308" || (pr == ".*" && star == "308") { (v, 308) } else { (v, 6) };
					let fmt = format!("%{pr}{cv}|");
					let mut args: Vec<V> = vec![];
					if pr == ".*" {
						args.push(numv(star));
					}
					args.push(val.clone());
					cx.case("float-prec-limit", &fmt, "arr", &args, &[p, p.saturating_sub(1), 6, 5], true, false);
				}
			}
		}
	}
	for src in ["-1", "-3", "-0.5", "-0.999", "-1e300", "-4294967296", "0", "65.9", "1114111.5", "4294967296", "1e300"] {
		let v = numv(src);
		for f in ["%c", "%5c|", "%-3c|", "%c%c"] {
			cx.case("char-num", f, "arr", &[v.clone()], &[], true, false);
			cx.case("char-num", f, "arr", &[v.clone(), a3.clone()], &[], false, false);
		}
	}

	// ---- (e) every way of reaching the formatter, with ONE bare right operand of every type --------------
	let bare_srcs: &[(&str, &'static str)] = &[
		("0", "zero"), ("-0", "negzero"), ("0.0", "zero"), ("-0.0", "negzero"), ("(1 - 1)", "zero"), ("(0 * -1)", "negzero"),
		("1", "int"), ("-1", "negint"), ("-3", "negint"), ("42", "int"), ("255", "int"), ("65", "int"),
		("0.5", "frac"), ("-0.5", "negfrac"), ("1.5", "frac"), ("-1.5", "negfrac"), ("1e-7", "tiny"), ("-1e-7", "tiny"),
		("123456.789", "frac"), ("1e21", "huge"), ("-1e21", "huge"), ("9007199254740993", "big"), ("1e300", "huge"),
		("-1e300", "huge"),
		("\"\"", "str"), ("\"a\"", "str"), ("\"0\"", "str"), ("\"héllo\"", "str-nonascii"), ("\"%d\"", "str"),
		("true", "bool"), ("false", "bool"), ("null", "null"),
		("[]", "array"), ("[0]", "array"), ("[0, 0]", "array"), ("[[0]]", "array"), ("[null]", "array"), ("[1, \"x\"]", "array"),
		("{}", "object"), ("{a: 0}", "object"), ("{a: -0, b: \"s\"}", "object"),
	];
	let bare: Vec<V> = bare_srcs.iter().map(|(src, k)| mkval(&s, src, k)).collect();
	let reach_fmts = [
		"%d items", "%s", "%d", "%i|", "%u", "%5d|", "%-5d|", "%05d|", "%+d", "% d", "%x", "%#x", "%o", "%X", "%.3d", "%f", "%5.1f|",
		"%.0f", "%+.2f", "%e", "%.2E", "%g", "%G", "%#g", "%c|", "%s and %s", "%d %d", "plain", "", "%%", "%d%%", "%(a)d",
		"%(a)s|%(b)s", "%*d", "%.*f", "%5s|", "%-5s|", "%z", "%", "%d%",
		// longer than the rope threshold of string concatenation (100 bytes)
		"................................................................................................................%d|%%|",
		"éééééééééééééééééééééééééééééééééééééééééééééééééééééééééééé %s é",
	];
	let p07: Vec<u16> = (0..8).collect();
	let mut n_reach = 0usize;
	for f in reach_fmts {
		for v in &bare {
			cx.reach("reach:table", f, v, &p07);
			n_reach += 1;
		}
	}
	// seeded: one random code (flags, width, precision, conversion) + optional literal text, applied to
	// a bare value from the table or to a fresh random number (zero of either sign 1 in 4)
	let n_reach_rand = if thorough { 6000 } else { 700 };
	for _ in 0..n_reach_rand {
		let flags: String = FLAGS.iter().filter(|_| rng.chance(1, 4)).collect();
		let wd = *rng.pick(&["", "", "0", "1", "5", "12"]);
		let pr = *rng.pick(&["", "", ".0", ".1", ".3", ".7"]);
		let cv = *rng.pick(CONVS);
		let (pre, post) = (*rng.pick(&["", "n=", "é "]), *rng.pick(&["", "|", " items", "%%"]));
		let fmt = format!("{pre}%{flags}{wd}{pr}{cv}{post}");
		let v = match rng.below(8) {
			0 => bare[rng.below(6)].clone(),
			1 | 2 => {
				let src = match rng.below(5) {
					0 => format!("{}", rng.range(-1000, 1000)),
					1 => format!("{}.{}", rng.range(-50, 50), rng.below(1000)),
					2 => format!("{}e{}", rng.range(1, 10), rng.range(-6, 18)),
					3 => format!("-{}e{}", rng.range(1, 10), rng.range(-6, 18)),
					_ => format!("({} - {})", rng.below(3), rng.below(3)),
				};
				mkval(&s, &src, "random-num")
			}
			_ => rng.pick(&bare).clone(),
		};
		cx.reach("reach:random", &fmt, &v, &p07);
		n_reach += 1;
	}

	// ---- (f) float digits: boundary-heavy doubles ---------------------------------------------------
	let mut doubles: Vec<(f64, &'static str)> = vec![];
	{
		let mut push = |x: f64, k: &'static str| {
			if x.is_finite() {
				doubles.push((x, k));
			}
		};
		let nb = |x: f64, d: i64| f64::from_bits((x.to_bits() as i64 + d) as u64);
		// powers of two with neighbours (every exponent in the thorough tier)
		let step2 = if thorough { 1 } else { 13 };
		let mut k = -1074i32;
		while k <= 1023 {
			let x = if k >= -1022 { f64::from_bits(((k + 1023) as u64) << 52) } else { f64::from_bits(1u64 << (k + 1074)) };
			push(x, "pow2");
			if x.to_bits() > 1 {
				push(nb(x, -1), "pow2-");
			}
			push(nb(x, 1), "pow2+");
			k += step2;
		}
		for k in [-1074, -1073, -1023, -1022, -1021, -54, -53, -52, -1, 0, 1, 2, 3, 10, 52, 53, 54, 63, 64, 69, 70, 1022, 1023] {
			let x = if k >= -1022 { f64::from_bits(((k + 1023) as u64) << 52) } else { f64::from_bits(1u64 << (k + 1074)) };
			push(x, "pow2");
			if x.to_bits() > 1 {
				push(nb(x, -1), "pow2-");
			}
			push(nb(x, 1), "pow2+");
		}
		// powers of ten with neighbours: the decimal exponent changes here
		let step10 = if thorough { 1 } else { 7 };
		let mut k = -323i32;
		while k <= 308 {
			if let Ok(x) = format!("1e{k}").parse::<f64>() {
				push(x, "pow10");
				push(nb(x, -1), "pow10-");
				push(nb(x, 1), "pow10+");
				push(nb(x, -2), "pow10-");
			}
			k += step10;
		}
		for k in [-324, -323, -308, -307, -5, -4, -3, -1, 0, 1, 5, 6, 7, 15, 16, 17, 21, 22, 23, 100, 307, 308] {
			if let Ok(x) = format!("1e{k}").parse::<f64>() {
				push(x, "pow10");
				push(nb(x, -1), "pow10-");
				push(nb(x, 1), "pow10+");
			}
			// 9.99..e(k-1): rounding carries into the next decimal exponent
			if let Ok(x) = format!("9.9999995e{k}").parse::<f64>() {
				push(x, "carry");
			}
			if let Ok(x) = format!("9.5e{k}").parse::<f64>() {
				push(x, "carry");
			}
		}
		// subnormals, extremes, zeros
		for b in [0u64, 1, 2, 3, 0x000f_ffff_ffff_ffff, 0x0010_0000_0000_0000, 0x0010_0000_0000_0001, 0x7fef_ffff_ffff_ffff, 0x7fef_ffff_ffff_fffe, 0x7fe0_0000_0000_0000, 0x8000_0000_0000_0000, 0x8000_0000_0000_0001, 0xffef_ffff_ffff_ffff] {
			push(f64::from_bits(b), "extreme");
		}
		// exact ties of the fixed notation at precision p: t / 2^(p+1), t odd — with neighbours
		for p in 0..=20u32 {
			for t in [1u64, 3, 5, 7, 9, 11, 25, 1001, 1003] {
				let x = t as f64 / (1u64 << (p + 1)) as f64;
				push(x, "tie-fixed");
				push(nb(x, -1), "tie-fixed-");
				push(nb(x, 1), "tie-fixed+");
			}
			let t = (rng.next() % (1 << 30)) | 1;
			push(t as f64 / (1u64 << (p + 1)) as f64, "tie-fixed");
			push(-(t as f64) / (1u64 << (p + 1)) as f64, "tie-fixed");
		}
		// exact ties of the scientific notation: (2j+1) * 5 * 10^k as an exact integer double
		for k in 0..=20u32 {
			for j in [0u64, 1, 2, 3, 12, 62, 499, 4999] {
				let m = (2 * j + 1) * 5;
				let x = m as f64 * 10f64.powi(k as i32); // exact: m * 10^k < 2^53 * 5^22 is not needed, k <= 20 and m small
				push(x, "tie-sci");
				push(nb(x, -1), "tie-sci-");
				push(nb(x, 1), "tie-sci+");
			}
		}
		// ordinary numbers
		for x in [0.1, 0.2, 0.3, 1.0 / 3.0, 2.0 / 3.0, 2.675, 1.005, 0.125, 0.375, 123456.789, 1e21, 1e22, 1e23, 0.49999999999999994, 0.5000000000000001,
			999999.5, 99999.95, 9.9999995, 0.000123456789, 0.00009999995, 12345678.9, 1234567.0, 123456.0, 0.1 + 0.2, 5e-324, 4.35, 4.45, 8.5, 9.5, 10.5, 95.0, 99.5, -2.5, -0.0001, 3.0e-5] {
			push(x, "ordinary");
		}
		// random bit patterns
		let n_rand = if thorough { 4000 } else { 400 };
		for _ in 0..n_rand {
			let b = rng.next();
			push(f64::from_bits(b), "random");
			// random mantissa at a moderate exponent (the usual range of values)
			let e = 1023 - 40 + (rng.next() % 120);
			push(f64::from_bits((b & 0x800f_ffff_ffff_ffff) | (e << 52)), "random-mid");
		}
	}
	// (e1) Rust's float formatting itself against the exact reference (the assumption of the theorems)
	let digit_precs: Vec<u16> = (0..=20u16).chain([21, 30, 50, 100, 308]).collect();
	let big_precs: [u16; 5] = [400, 767, 1074, 1075, 1100];
	let mut n_digits = 0usize;
	let mut dhist: std::collections::BTreeMap<&'static str, usize> = Default::default();
	for (i, (x, kind)) in doubles.iter().enumerate() {
		*dhist.entry(kind).or_default() += 1;
		let few = !thorough && i % 3 != 0;
		for &p in digit_precs.iter().chain(big_precs.iter()) {
			if p > 20 && few {
				continue;
			}
			if p > 308 && !thorough && i % 12 != 0 {
				continue;
			}
			let bits = format!("{:016x}", x.to_bits());
			cx.w.case(
				json!({"op":"fmt.digits","bits":bits,"p":p,"size": 2 + usize::from(p),"_x":format!("{x:e}"),"_kind":kind}),
				json!({"fix": rust_fixed(*x, p), "sci": rust_sci(*x, p), "neg": *x < 0.0}),
			);
			n_digits += 1;
		}
	}
	cx.bump_n("fmt.digits", n_digits);
	// (e2) the same doubles through std_format
	let fl_forms = ["", "#", "0", "-", "+", " ", "#0", "+0", "-#", " 0#"];
	let wp_forms: [(&str, Option<u16>); 12] = [("", None), (".0", Some(0)), (".1", Some(1)), (".2", Some(2)), ("12.3", Some(3)), (".5", Some(5)),
		("30.10", Some(10)), (".15", Some(15)), (".17", Some(17)), ("40.20", Some(20)), (".40", Some(40)), ("330.308", Some(308))];
	let mut n_fd = 0usize;
	for (i, (x, kind)) in doubles.iter().enumerate() {
		let src = if *x == 0.0 && x.is_sign_negative() { "-0".to_owned() } else { format!("{x:e}") };
		let v = V { src, val: Val::Num(jrsonnet_evaluator::val::NumValue::new(*x).expect("finite")), num: Some(*x), kind: "float" };
		for (ci, cv) in ['e', 'E', 'f', 'F', 'g', 'G'].iter().enumerate() {
			for (wi, (wp, p)) in wp_forms.iter().enumerate() {
				// every conversion x precision form; the flag form rotates, two per case in the thorough tier
				let n_fl = if thorough { 2 } else { 1 };
				for r in 0..n_fl {
					if !thorough && (i + ci + wi) % 2 == 1 && p.map_or(false, |p| p > 20) {
						continue;
					}
					let fl = fl_forms[(i + ci * 3 + wi * 7 + r * 5) % fl_forms.len()];
					let fmt = format!("%{fl}{wp}{cv}|");
					let np = needed_precs(*p, Some(*x));
					cx.case(&format!("float-digits:{cv}:{kind}"), &fmt, "arr", &[v.clone()], &np, n_fd % 97 == 0, false);
					n_fd += 1;
				}
			}
		}
	}

	// seeded random format strings over a richer alphabet with 0..4 random values
	let n_rand = if thorough { 60000 } else { 8000 };
	let pool: Vec<V> = values.iter().chain(more.iter()).cloned().collect();
	let ralpha: Vec<char> = "%%%%(.*0-+ #diuoxXcs)k5hlL1ab é".chars().collect();
	for _ in 0..n_rand {
		let len = 1 + rng.below(9);
		let st: String = (0..len).map(|_| *rng.pick(&ralpha)).collect();
		let nv = rng.below(4);
		let args: Vec<V> = (0..nv).map(|_| if rng.chance(1, 2) { a3.clone() } else { rng.pick(&pool).clone() }).collect();
		cx.case("random", &st, "arr", &args, &[0, 1, 2, 3, 4, 5, 6, 7], false, false);
	}

	let meta = json!({
		"engine":"c12","cases":cx.w.n,"cross_product":n_cross,"malformed_strings":n_mal,"via_evaluator":cx.n_eval,
		"random":n_rand,"big_int":n_big,"reach_value_x_format":n_reach,"reach_vias":11,"float_doubles":doubles.len(),"float_double_kinds":dhist,"rust_digit_checks":n_digits,
		"float_digit_cases":n_fd,"hist":cx.hist,
		"rule":"flags(2^5) x width{none,0,1,5,*} x precision{none,.0,.1,.3,.*} x 15 conversions x values (ints, fractions, negative, zero, 1e21, 1e-7, 2^53+1, strings ASCII/non-ASCII, array, object, null) through std_format (1 in 16 also through `%`, std.format and std.mod from source); every string of length <= 4 over `%(.*0-+ #dsxg)k5` parsed (length <= 3 also formatted in 3 argument modes); argument-count/star/object-mode/wide-field tables; integer conversions of 16 numbers beyond the i64 range x 6 conversions x 10 flag sets x 8 width/precision forms; float precisions 308/309/310/65535 (fixed and `*`); %c of negative / fractional / huge numbers; FLOAT DIGITS: boundary-heavy doubles (powers of two with both neighbours, powers of ten with neighbours and carry cases 9.9999995e k / 9.5e k, subnormals, max finite, -0, exact ties t/2^(p+1) of every precision p in 0..20 and ties (2j+1)*5*10^k of the exponent form with both neighbours, ordinary numbers, random bit patterns and random mantissas at moderate exponents) x e/E/f/F/g/G x 12 width/precision forms (precisions none,0,1,2,3,5,10,15,17,20,40,308) x rotating flag forms through std_format, and Rust's own float formatting `{:.*}` / `{:.*e}` on the same doubles at precisions 0..21,30,50,100,308 (some at 400,767,1074,1075,1100) against the Lean exact reference (op fmt.digits: validates the assumption RustFmtExact); seeded random format strings; the parse of every enumerated string is compared field by field (Debug text of the elements); REACH: 41 bare right operands of every type (0, -0, 0.0, -0.0, (1-1), (0*-1), ints, negative, fractional, huge, strings, booleans, null, arrays, objects) x 42 format strings (two longer than 100 bytes) + seeded random code x value, each through eleven entry points that must agree: std_format(f, x), `f % x`, std.format(f, x), std.mod(f, x), `local f.., v..; f % v`, `(f) % (x)`, `(f1 + f2) % x` and the first four with x wrapped as [x]"
	});
	cx.w.finish(meta, &opts.out);
}

/// number of `%` that start a code in a *well-formed* format string is what parse_codes reports as
/// Code elements; the harness recounts it from the parse result instead
fn count_codes(st: &str) -> usize {
	match parse_codes(st) {
		Ok(es) => es.iter().filter(|e| matches!(e, jrsonnet_evaluator::stdlib::format::Element::Code(_))).count(),
		Err(_) => 0,
	}
}
